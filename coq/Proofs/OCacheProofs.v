(* Proofs about the object-cache transition system of Model/OCache.v (property C16). Plain stdlib. *)
From Coq Require Import List NArith Bool Lia.
Import ListNotations.
From AnySync Require Import Model.OCache.
Open Scope N_scope.

(* ------------------------------------------------------------------------------------------------
   Roles of a program counter *)

(* the entry this thread created and is responsible for loading *)
Definition loader (p : pc) : option (N * N) :=     (* (entry, id) *)
  match p with
  | GWaitClose id r true _ | GLoadStart id r _ | GInLoad id r _ => Some (r, id)
  | _ => None
  end.

(* the entry this thread holds in state closing (between setClosing and setClosed/setActive) *)
Definition owner (p : pc) : option (N * N) :=      (* (entry, instance) *)
  match p with
  | RmInClose r n _ | TrInTry r n _ => Some (r, n)
  | _ => None
  end.

Definition tk_refs (k : tk) : list N := match k with KTry => [] | KGC p => p end.

(* entries the thread knows to be loaded successfully *)
Definition loaded_refs (p : pc) : list N :=
  match p with
  | RmSetClosing r _ | RmBlock r _ _ | RmInClose r _ _ => [r]
  | TrSetClosing r k | TrInTry r _ k => r :: tk_refs k
  | GcNext l => l
  | _ => []
  end.

Definition loaded_ok (e : entry) : Prop := e_loaddone e = true /\ e_failed e = false.

Definition shape (e : entry) : Prop :=
  (e_state e = SLoading -> e_value e = None /\ (e_loaddone e = true -> e_failed e = true)) /\
  (e_state e <> SLoading -> loaded_ok e /\ e_value e <> None) /\
  (e_failed e = true -> e_loaddone e = true).

(* the entry is reachable through the map: it is being loaded, active or being closed *)
Definition present (e : entry) : Prop :=
  e_loaddone e = false \/ e_state e = SActive \/ e_state e = SClosing.

Record Inv (s : state) : Prop := mkInv {
  i_heap   : forall r e, heap s r = Some e -> r < hsize s;
  i_data   : forall id r, data s id = Some r ->
               exists e, heap s r = Some e /\ e_id e = id /\ e_state e <> SClosed /\ e_failed e = false;
  i_shape  : forall r e, heap s r = Some e -> shape e;
  i_present: forall r e, heap s r = Some e -> present e -> data s (e_id e) = Some r;
  i_loader : forall t r id, loader (threads s t) = Some (r, id) ->
               exists e, heap s r = Some e /\ e_loaddone e = false /\ e_id e = id;
  i_loader1: forall t t' r id id', loader (threads s t) = Some (r, id) -> loader (threads s t') = Some (r, id') -> t = t';
  i_owner  : forall t r n, owner (threads s t) = Some (r, n) ->
               exists e, heap s r = Some e /\ e_state e = SClosing /\ e_value e = Some n;
  i_owner1 : forall t t' r n n', owner (threads s t) = Some (r, n) -> owner (threads s t') = Some (r, n') -> t = t';
  i_loaded : forall t r, In r (loaded_refs (threads s t)) -> exists e, heap s r = Some e /\ loaded_ok e;
  i_nopanic: panicked s = false
}.

(* ------------------------------------------------------------------------------------------------
   Small facts *)

Lemma shape_loaded_not_loading : forall e, shape e -> loaded_ok e -> e_state e <> SLoading.
Proof.
  intros e [H1 _] [Hd Hf] Hs. destruct (H1 Hs) as [_ H]. rewrite (H Hd) in Hf. discriminate.
Qed.

Lemma shape_notloaded_loading : forall e, shape e -> e_loaddone e = false -> e_state e = SLoading.
Proof.
  intros e [_ [H2 _]] Hd. destruct (e_state e) eqn:E; auto;
    (destruct H2 as [[H _] _]; [congruence | congruence]).
Qed.

Lemma mem_In : forall r l, mem r l = true -> In r l.
Proof.
  induction l as [|x l IH]; simpl; intros H; [discriminate|].
  apply orb_true_iff in H. destruct H as [H|H]; [left; apply N.eqb_eq; auto | right; auto].
Qed.

Lemma remove1_In : forall x r l, In x (remove1 r l) -> In x l.
Proof.
  induction l as [|y l IH]; simpl; intros H; auto.
  destruct (y =? r); [right; auto|]. destruct H as [H|H]; [left; auto | right; auto].
Qed.

Lemma snapshot_In : forall s p r, In r (snapshot s p) -> exists e, heap s r = Some e /\ p e = true.
Proof.
  intros s p r H. unfold snapshot in H. apply filter_In in H. destruct H as [_ H].
  apply andb_true_iff in H. destruct H as [_ H]. destruct (heap s r) as [e|]; [eauto | discriminate].
Qed.

Lemma estate_eqb_eq : forall a b, estate_eqb a b = true -> a = b.
Proof. destruct a, b; simpl; intros H; auto; discriminate. Qed.

Lemma init_inv : Inv init.
Proof.
  constructor; simpl; intros; try discriminate; try contradiction; auto.
Qed.

(* ------------------------------------------------------------------------------------------------
   Preservation *)

Ltac break_step H :=
  repeat match type of H with
         | context [match ?x with _ => _ end] => destruct x eqn:?; try discriminate H
         | context [if ?x then _ else _] => destruct x eqn:?; try discriminate H
         end.

Ltac updc :=
  repeat match goal with
         | H : context [upd _ _ _ _] |- _ => unfold upd in H
         | |- context [upd _ _ _ _] => unfold upd
         | H : context [if ?a =? ?b then _ else _] |- _ => destruct (N.eqb_spec a b); subst
         | |- context [if ?a =? ?b then _ else _] => destruct (N.eqb_spec a b); subst
         end.

(* --- changing only the program counter of thread t *)
Lemma inv_set_pc : forall s t p',
  Inv s ->
  (forall r id, loader p' = Some (r, id) ->
     (exists e, heap s r = Some e /\ e_loaddone e = false /\ e_id e = id) /\
     (forall t' id', loader (threads s t') = Some (r, id') -> t' = t)) ->
  (forall r n, owner p' = Some (r, n) ->
     (exists e, heap s r = Some e /\ e_state e = SClosing /\ e_value e = Some n) /\
     (forall t' n', owner (threads s t') = Some (r, n') -> t' = t)) ->
  (forall r, In r (loaded_refs p') -> exists e, heap s r = Some e /\ loaded_ok e) ->
  Inv (set_pc s t p').
Proof.
  intros s t p' I HL HO HK. destruct I. constructor; simpl; auto.
  - intros t0 r id. unfold upd. destruct (N.eqb_spec t0 t); intros H; [apply HL; auto | eauto].
  - intros t0 t1 r id id'. unfold upd. destruct (N.eqb_spec t0 t), (N.eqb_spec t1 t); subst; intros H0 H1; auto.
    + symmetry. eapply (proj2 (HL _ _ H0)); eauto.
    + eapply (proj2 (HL _ _ H1)); eauto.
    + eauto.
  - intros t0 r n. unfold upd. destruct (N.eqb_spec t0 t); intros H; [apply HO; auto | eauto].
  - intros t0 t1 r n n'. unfold upd. destruct (N.eqb_spec t0 t), (N.eqb_spec t1 t); subst; intros H0 H1; auto.
    + symmetry. eapply (proj2 (HO _ _ H0)); eauto.
    + eapply (proj2 (HO _ _ H1)); eauto.
    + eauto.
  - intros t0 r. unfold upd. destruct (N.eqb_spec t0 t); intros H; [apply HK; auto | eauto].
Qed.

(* a program counter with no role *)
Lemma inv_set_pc_plain : forall s t p',
  Inv s -> loader p' = None -> owner p' = None -> loaded_refs p' = [] -> Inv (set_pc s t p').
Proof.
  intros s t p' I H1 H2 H3. apply inv_set_pc; auto; intros; try congruence. rewrite H3 in H. contradiction.
Qed.

(* --- replacing entry r (still reachable through the map, or not reachable before and after) *)
Lemma inv_set_entry : forall s r e e',
  Inv s -> heap s r = Some e ->
  e_id e' = e_id e -> shape e' -> (present e' -> present e) ->
  (e_state e' = SClosed -> e_state e = SClosed) -> (e_failed e' = e_failed e) ->
  (forall t id, loader (threads s t) = Some (r, id) -> e_loaddone e' = false) ->
  (forall t n, owner (threads s t) = Some (r, n) -> e_state e' = SClosing /\ e_value e' = Some n) ->
  (loaded_ok e -> loaded_ok e') ->
  Inv (set_entry s r e').
Proof.
  intros s r e e' I Hr Hid Hsh Hpr Hcl Hfa HL HO HK. destruct I. constructor; simpl; auto.
  - intros r0 e0. unfold upd. destruct (N.eqb_spec r0 r); subst; intros H; eauto.
  - intros id r0 H. unfold upd. destruct (N.eqb_spec r0 r); subst; eauto.
    destruct (i_data0 _ _ H) as [e0 [A [B [C D]]]]. rewrite Hr in A. inversion A; subst e0.
    exists e'. repeat split; auto; try congruence; try (intros X; apply C; auto).
  - intros r0 e0. unfold upd. destruct (N.eqb_spec r0 r); subst; intros H; [inversion H; subst; auto | eauto].
  - intros r0 e0. unfold upd. destruct (N.eqb_spec r0 r); subst; intros H P; [| eauto].
    inversion H; subst e0. rewrite Hid. eauto.
  - intros t r0 id H. unfold upd. destruct (N.eqb_spec r0 r); subst; [| eauto].
    destruct (i_loader0 _ _ _ H) as [e0 [A [B C]]]. rewrite Hr in A. inversion A; subst e0.
    exists e'. repeat split; eauto. congruence.
  - intros t r0 n H. unfold upd. destruct (N.eqb_spec r0 r); subst; [| eauto].
    exists e'. destruct (HO _ _ H). auto.
  - intros t r0 H. unfold upd. destruct (N.eqb_spec r0 r); subst; [| eauto].
    destruct (i_loaded0 _ _ H) as [e0 [A B]]. rewrite Hr in A. inversion A; subst e0. eauto.
Qed.

(* --- entry r leaves the map: replaced by a version that is not present, and its id is deleted *)
Lemma inv_del_entry : forall s r e e',
  Inv s -> heap s r = Some e -> present e ->
  e_id e' = e_id e -> shape e' -> ~ present e' ->
  (forall t id, loader (threads s t) <> Some (r, id)) ->
  (forall t n, owner (threads s t) <> Some (r, n)) ->
  (loaded_ok e -> loaded_ok e') ->
  Inv (set_data (set_entry s r e') (e_id e) None).
Proof.
  intros s r e e' I Hr Hp Hid Hsh Hnp HL HO HK. destruct I.
  assert (Hm : data s (e_id e) = Some r) by eauto.
  constructor; simpl; auto.
  - intros r0 e0. unfold upd. destruct (N.eqb_spec r0 r); subst; intros H; eauto.
  - intros id r0. unfold upd. destruct (N.eqb_spec id (e_id e)); subst; [discriminate|]. intros H.
    destruct (N.eqb_spec r0 r); subst; eauto.
    destruct (i_data0 _ _ H) as [e0 [A [B C]]]. rewrite Hr in A. inversion A; subst e0. congruence.
  - intros r0 e0. unfold upd. destruct (N.eqb_spec r0 r); subst; intros H; [inversion H; subst; auto | eauto].
  - intros r0 e0. unfold upd at 1. destruct (N.eqb_spec r0 r); subst; intros H P.
    + inversion H; subst e0. contradiction.
    + unfold upd. destruct (N.eqb_spec (e_id e0) (e_id e)); [| eauto].
      pose proof (i_present0 _ _ H P) as X. rewrite e1 in X. congruence.
  - intros t r0 id H. unfold upd. destruct (N.eqb_spec r0 r); subst; [| eauto]. exfalso. eapply HL; eauto.
  - intros t r0 n H. unfold upd. destruct (N.eqb_spec r0 r); subst; [| eauto]. exfalso. eapply HO; eauto.
  - intros t r0 H. unfold upd. destruct (N.eqb_spec r0 r); subst; [| eauto].
    destruct (i_loaded0 _ _ H) as [e0 [A B]]. rewrite Hr in A. inversion A; subst e0. eauto.
Qed.

(* --- a new entry is put into the map under an unused id *)
Lemma inv_alloc : forall s e0,
  Inv s -> data s (e_id e0) = None -> shape e0 -> e_state e0 <> SClosed -> e_failed e0 = false ->
  Inv (alloc s e0).
Proof.
  intros s e0 I Hd Hsh Hcl Hfa. destruct I.
  assert (Hfresh : heap s (hsize s) = None).
  { destruct (heap s (hsize s)) eqn:E; auto. apply i_heap0 in E. lia. }
  constructor; simpl; auto.
  - intros r e. unfold upd. destruct (N.eqb_spec r (hsize s)); subst; intros H; [lia|]. apply i_heap0 in H. lia.
  - intros id r. unfold upd. destruct (N.eqb_spec id (e_id e0)); subst; intros H.
    + inversion H; subst. rewrite N.eqb_refl. eauto.
    + destruct (N.eqb_spec r (hsize s)); subst; eauto.
      destruct (i_data0 _ _ H) as [e [A _]]. congruence.
  - intros r e. unfold upd. destruct (N.eqb_spec r (hsize s)); subst; intros H; [inversion H; subst; auto | eauto].
  - intros r e. unfold upd at 1. destruct (N.eqb_spec r (hsize s)); subst; intros H P.
    + inversion H; subst. unfold upd. rewrite N.eqb_refl. auto.
    + unfold upd. destruct (N.eqb_spec (e_id e) (e_id e0)); [| eauto].
      pose proof (i_present0 _ _ H P) as X. congruence.
  - intros t r id H. destruct (i_loader0 _ _ _ H) as [e [A B]]. unfold upd.
    destruct (N.eqb_spec r (hsize s)); subst; [congruence | eauto].
  - intros t r n H. destruct (i_owner0 _ _ _ H) as [e [A B]]. unfold upd.
    destruct (N.eqb_spec r (hsize s)); subst; [congruence | eauto].
  - intros t r H. destruct (i_loaded0 _ _ H) as [e [A B]]. unfold upd.
    destruct (N.eqb_spec r (hsize s)); subst; [congruence | eauto].
Qed.

Lemma inv_bump : forall s, Inv s -> Inv (bump_inst s).
Proof. intros s I. destruct I. constructor; simpl; auto. Qed.

Lemma inv_emit : forall s e, Inv s -> Inv (emit s e).
Proof. intros s e I. destruct I. constructor; simpl; auto. Qed.

Lemma shape_cancelled : forall e, shape e -> shape (set_cancelled e).
Proof. intros e H. exact H. Qed.

Lemma inv_closed_cancel : forall s, Inv s -> Inv (set_closed_cancel s).
Proof.
  intros s I. destruct I. constructor; simpl; auto.
  - intros r e H. destruct (heap s r) eqn:E; simpl in H; [eauto | discriminate].
  - intros id r H. destruct (i_data0 _ _ H) as [e [A B]]. rewrite A. simpl. exists (set_cancelled e). auto.
  - intros r e H. destruct (heap s r) eqn:E; simpl in H; inversion H; subst. apply shape_cancelled. eauto.
  - intros r e H P. destruct (heap s r) eqn:E; simpl in H; inversion H; subst. simpl. eapply i_present0; eauto.
  - intros t r id H. destruct (i_loader0 _ _ _ H) as [e [A B]]. rewrite A. simpl. exists (set_cancelled e). auto.
  - intros t r n H. destruct (i_owner0 _ _ _ H) as [e [A B]]. rewrite A. simpl. exists (set_cancelled e). auto.
  - intros t r H. destruct (i_loaded0 _ _ H) as [e [A B]]. rewrite A. simpl. exists (set_cancelled e). auto.
Qed.

(* the new program counter keeps (some of) the roles of the old one, plus newly established knowledge *)
Lemma inv_set_pc_keep : forall s t p',
  Inv s ->
  (loader p' = None \/ loader p' = loader (threads s t)) ->
  (owner p' = None \/ owner p' = owner (threads s t)) ->
  (forall r, In r (loaded_refs p') ->
     In r (loaded_refs (threads s t)) \/ exists e, heap s r = Some e /\ loaded_ok e) ->
  Inv (set_pc s t p').
Proof.
  intros s t p' I HL HO HK. apply inv_set_pc; auto.
  - intros r id H. destruct HL as [HL|HL]; [congruence|]. rewrite HL in H. split.
    + eapply i_loader; eauto.
    + intros t' id' H'. eapply i_loader1; eauto.
  - intros r n H. destruct HO as [HO|HO]; [congruence|]. rewrite HO in H. split.
    + eapply i_owner; eauto.
    + intros t' n' H'. eapply i_owner1; eauto.
  - intros r H. destruct (HK r H) as [X|X]; auto. eapply i_loaded; eauto.
Qed.

Lemma loaded_not_unloaded : forall e, loaded_ok e -> e_loaddone e = false -> False.
Proof. intros e [A _] B. congruence. Qed.

Lemma shape_nonloading_loaded : forall e, shape e -> e_state e <> SLoading -> loaded_ok e /\ e_value e <> None.
Proof. intros e [_ [H _]] X. auto. Qed.

Lemma remove1_cons_In : forall x r n l, In x (if n =? r then l else n :: remove1 r l) -> In x (n :: l).
Proof. intros x r n l H. apply (remove1_In x r (n :: l)). simpl. exact H. Qed.

Lemma owner_loaded : forall p r n, owner p = Some (r, n) -> In r (loaded_refs p).
Proof. destruct p; simpl; intros r0 n0 H; try discriminate; inversion H; subst; left; reflexivity. Qed.

Lemma heap_inj : forall s r (e e0 : entry), heap s r = Some e -> heap s r = Some e0 -> e0 = e.
Proof. intros. congruence. Qed.

(* facts about an entry the thread knows to be loaded *)
Lemma loaded_facts : forall s t r e,
  Inv s -> heap s r = Some e -> In r (loaded_refs (threads s t)) ->
  loaded_ok e /\ e_state e <> SLoading /\ e_value e <> None /\
  (forall t' id', loader (threads s t') <> Some (r, id')).
Proof.
  intros s t r e I Hr Hin.
  destruct (i_loaded _ I _ _ Hin) as [e0 [A B]]. rewrite Hr in A. inversion A; subst e0.
  assert (Hns : e_state e <> SLoading) by (apply shape_loaded_not_loading; [eapply i_shape; eauto | exact B]).
  repeat split; try apply B; auto.
  - apply shape_nonloading_loaded; [eapply i_shape; eauto | exact Hns].
  - intros t' id' Hy. destruct (i_loader _ I _ _ _ Hy) as [e0 [A0 [B0 _]]]. rewrite Hr in A0. inversion A0; subst e0.
    destruct B. congruence.
Qed.

(* setClosing succeeds: the thread becomes the owner *)
Lemma inv_acquire : forall s t r e n p',
  Inv s -> heap s r = Some e -> In r (loaded_refs (threads s t)) ->
  e_state e <> SClosing -> e_state e <> SClosed -> e_value e = Some n ->
  loader p' = None -> owner p' = Some (r, n) ->
  (forall x, In x (loaded_refs p') -> In x (loaded_refs (threads s t))) ->
  Inv (set_pc (set_entry s r (set_closing e)) t p').
Proof.
  intros s t r e n p' I Hr Hin Hnc Hnd Hv HL HO HK.
  destruct (loaded_facts _ _ _ _ I Hr Hin) as [Lk [Hns [Hvn Hnl]]].
  assert (Hact : e_state e = SActive) by (destruct (e_state e); congruence).
  assert (I1 : Inv (set_entry s r (set_closing e))).
  { eapply inv_set_entry; eauto; simpl; auto.
    - pose proof (i_shape _ I _ _ Hr) as [S1 [S2 S3]]. unfold shape, loaded_ok in *. simpl.
      repeat split; intros; try congruence; try (apply Lk); auto.
    - intros _. right. left. exact Hact.
    - intros; discriminate.
    - intros t0 id0 Hy. exfalso. eapply Hnl; eauto.
    - intros t0 n0 Hy. destruct (i_owner _ I _ _ _ Hy) as [e0 [A [B _]]]. rewrite Hr in A. inversion A; subst e0. congruence. }
  apply inv_set_pc; auto.
  - intros r0 id0 H. congruence.
  - intros r0 n0 H. rewrite HO in H. inversion H; subst r0 n0. split.
    + exists (set_closing e). simpl. unfold upd. rewrite N.eqb_refl. auto.
    + intros t' n' Hy. simpl in Hy. destruct (i_owner _ I _ _ _ Hy) as [e0 [A [B _]]].
      rewrite Hr in A. inversion A; subst e0. congruence.
  - intros x Hx. apply (i_loaded _ I1 t). simpl. auto.
Qed.

(* the owner finishes: entry closed and deleted *)
Lemma inv_release_closed : forall s t r e n p',
  Inv s -> heap s r = Some e -> owner (threads s t) = Some (r, n) ->
  loader p' = None -> owner p' = None ->
  (forall x, In x (loaded_refs p') -> In x (loaded_refs (threads s t))) ->
  Inv (set_pc (set_data (set_entry s r (set_state e SClosed)) (e_id e) None) t p').
Proof.
  intros s t r e n p' I Hr Hown HL HO HK.
  destruct (loaded_facts _ _ _ _ I Hr (owner_loaded _ _ _ Hown)) as [Lk [Hns [Hvn Hnl]]].
  destruct (i_owner _ I _ _ _ Hown) as [e0 [A [Hcl Hv]]]. rewrite Hr in A. inversion A; subst e0.
  assert (I0 : Inv (set_pc s t p')).
  { apply inv_set_pc_keep; auto. }
  change (Inv (set_data (set_entry (set_pc s t p') r (set_state e SClosed)) (e_id e) None)).
  apply inv_del_entry; auto.
  - right. right. exact Hcl.
  - pose proof (i_shape _ I _ _ Hr) as [S1 [S2 S3]]. unfold shape, loaded_ok in *. simpl.
    repeat split; intros; try congruence; try (apply Lk); auto.
  - intros [X|[X|X]]; simpl in X; destruct Lk; congruence.
  - intros t' id' Hy. simpl in Hy. unfold upd in Hy. destruct (N.eqb_spec t' t); [congruence|]. eapply Hnl; eauto.
  - intros t' n' Hy. simpl in Hy. unfold upd in Hy. destruct (N.eqb_spec t' t); [congruence|].
    apply n0. eapply (i_owner1 _ I); eauto.
Qed.

(* the owner gives the entry back (TryClose said busy) *)
Lemma inv_release_active : forall s t r e n p',
  Inv s -> heap s r = Some e -> owner (threads s t) = Some (r, n) ->
  loader p' = None -> owner p' = None ->
  (forall x, In x (loaded_refs p') -> In x (loaded_refs (threads s t))) ->
  Inv (set_pc (set_entry s r (set_state e SActive)) t p').
Proof.
  intros s t r e n p' I Hr Hown HL HO HK.
  destruct (loaded_facts _ _ _ _ I Hr (owner_loaded _ _ _ Hown)) as [Lk [Hns [Hvn Hnl]]].
  destruct (i_owner _ I _ _ _ Hown) as [e0 [A [Hcl Hv]]]. rewrite Hr in A. inversion A; subst e0.
  assert (I0 : Inv (set_pc s t p')).
  { apply inv_set_pc_keep; auto. }
  change (Inv (set_entry (set_pc s t p') r (set_state e SActive))).
  eapply inv_set_entry; eauto; simpl; auto.
  - pose proof (i_shape _ I _ _ Hr) as [S1 [S2 S3]]. unfold shape, loaded_ok in *. simpl.
    repeat split; intros; try congruence; try (apply Lk); auto.
  - intros _. right. right. exact Hcl.
  - intros; discriminate.
  - intros t' id' Hy. exfalso. unfold upd in Hy. destruct (N.eqb_spec t' t); [congruence|]. eapply Hnl; eauto.
  - intros t' n' Hy. exfalso. unfold upd in Hy. destruct (N.eqb_spec t' t); [congruence|].
    apply n0. eapply (i_owner1 _ I); eauto.
Qed.

Lemma loader_facts : forall s t r id e,
  Inv s -> heap s r = Some e -> loader (threads s t) = Some (r, id) ->
  e_loaddone e = false /\ e_id e = id /\ e_state e = SLoading /\ e_failed e = false /\
  (forall t' n', owner (threads s t') <> Some (r, n')).
Proof.
  intros s t r id e I Hr HL.
  destruct (i_loader _ I _ _ _ HL) as [e0 [A [B C]]]. rewrite Hr in A. inversion A; subst e0.
  pose proof (i_shape _ I _ _ Hr) as Sh.
  assert (Hst : e_state e = SLoading) by (apply shape_notloaded_loading; auto).
  repeat split; auto.
  - destruct Sh as [_ [_ S3]]. destruct (e_failed e); auto. specialize (S3 eq_refl). congruence.
  - intros t' n' Hy. destruct (i_owner _ I _ _ _ Hy) as [e0 [A0 [B0 _]]]. rewrite Hr in A0. inversion A0; subst e0. congruence.
Qed.

(* load end, success *)
Lemma inv_publish_ok : forall s t r id e n p',
  Inv s -> heap s r = Some e -> loader (threads s t) = Some (r, id) ->
  loader p' = None -> owner p' = None -> loaded_refs p' = [] ->
  Inv (set_pc (bump_inst (set_entry s r (publish_ok e n))) t p').
Proof.
  intros s t r id e n p' I Hr Hld HL HO HK.
  destruct (loader_facts _ _ _ _ _ I Hr Hld) as [Hnd [Hid [Hst [Hnf Hno]]]].
  assert (I0 : Inv (set_pc s t p')) by (apply inv_set_pc_plain; auto).
  change (Inv (bump_inst (set_entry (set_pc s t p') r (publish_ok e n)))).
  apply inv_bump. eapply inv_set_entry; eauto; simpl; auto.
  - unfold shape, loaded_ok. simpl. repeat split; intros; congruence.
  - intros _. left. exact Hnd.
  - intros; discriminate.
  - intros t' id' Hy. exfalso. unfold upd in Hy. destruct (N.eqb_spec t' t); [congruence|].
    apply n0. eapply (i_loader1 _ I); eauto.
  - intros t' n' Hy. exfalso. unfold upd in Hy. destruct (N.eqb_spec t' t); [congruence|]. eapply Hno; eauto.
  - intros _. split; reflexivity.
Qed.

(* load end, failure: the placeholder leaves the map *)
Lemma inv_publish_err : forall s t r id e p',
  Inv s -> heap s r = Some e -> loader (threads s t) = Some (r, id) ->
  loader p' = None -> owner p' = None -> loaded_refs p' = [] ->
  Inv (set_pc (set_data (set_entry s r (publish_err e)) id None) t p').
Proof.
  intros s t r id e p' I Hr Hld HL HO HK.
  destruct (loader_facts _ _ _ _ _ I Hr Hld) as [Hnd [Hid [Hst [Hnf Hno]]]].
  assert (I0 : Inv (set_pc s t p')) by (apply inv_set_pc_plain; auto).
  subst id.
  change (Inv (set_data (set_entry (set_pc s t p') r (publish_err e)) (e_id e) None)).
  apply inv_del_entry; auto.
  - left. exact Hnd.
  - unfold shape, loaded_ok. simpl. rewrite Hst. repeat split; intros; congruence.
  - intros [X|[X|X]]; simpl in X; congruence.
  - intros t' id' Hy. simpl in Hy. unfold upd in Hy. destruct (N.eqb_spec t' t); [congruence|].
    apply n. eapply (i_loader1 _ I); eauto.
  - intros t' n' Hy. simpl in Hy. unfold upd in Hy. destruct (N.eqb_spec t' t); [congruence|]. eapply Hno; eauto.
  - intros [X _]. congruence.
Qed.

(* setCancel *)
Lemma inv_cancelset : forall s t r e p',
  Inv s -> heap s r = Some e ->
  (loader p' = None \/ loader p' = loader (threads s t)) ->
  (owner p' = None \/ owner p' = owner (threads s t)) ->
  (forall x, In x (loaded_refs p') -> In x (loaded_refs (threads s t))) ->
  Inv (set_pc (set_entry s r (set_cancelset e)) t p').
Proof.
  intros s t r e p' I Hr HL HO HK.
  assert (I1 : Inv (set_entry s r (set_cancelset e))).
  { eapply inv_set_entry; eauto; simpl; auto.
    - exact (i_shape _ I _ _ Hr).
    - intros t0 id0 Hy. destruct (i_loader _ I _ _ _ Hy) as [e0 [A [B _]]]. rewrite Hr in A. inversion A; subst e0. exact B.
    - intros t0 n0 Hy. destruct (i_owner _ I _ _ _ Hy) as [e0 [A [B C]]]. rewrite Hr in A. inversion A; subst e0. auto. }
  apply inv_set_pc_keep; auto.
Qed.

Ltac plain :=
  solve [ apply inv_set_pc_plain; [assumption | reflexivity | reflexivity | reflexivity]
        | apply inv_set_pc_plain; [apply inv_bump; assumption | reflexivity | reflexivity | reflexivity] ].

(* role facts of the stepping thread *)
Ltac facts I Epc t :=
  let HLt := fresh "HLt" in let HOt := fresh "HOt" in let HKt := fresh "HKt" in
  pose proof (i_loader _ I t) as HLt; rewrite Epc in HLt; simpl in HLt;
  pose proof (i_owner _ I t) as HOt; rewrite Epc in HOt; simpl in HOt;
  pose proof (i_loaded _ I t) as HKt; rewrite Epc in HKt; simpl in HKt.

Ltac keep Epc :=
  apply inv_set_pc_keep; [assumption | rewrite Epc; simpl; auto | rewrite Epc; simpl; auto
                         | rewrite Epc; simpl; intros ? ?; auto ].

Ltac same_entry Hr :=
  repeat match goal with
         | H : exists _, _ |- _ => destruct H
         | H : _ /\ _ |- _ => destruct H
         end;
  repeat match goal with
         | H : heap _ _ = Some _ |- _ => rewrite Hr in H; inversion H; subst; clear H
         end.

Lemma step_core_inv : forall s t a s' ev, Inv s -> step_core fixed s t a = Some (s', ev) -> Inv s'.
Proof.
  intros s t a s' ev I H. unfold step_core in H.
  destruct (threads s t) eqn:Epc; destruct a; try discriminate H;
  break_step H; inversion H; subst; clear H; try plain;
  try (match goal with k : rk |- _ => destruct k end; plain);
  try (match goal with k : tk |- _ => destruct k end; plain);
  try solve [keep Epc];
  facts I Epc t;


  (* entries whose successful load the stepping thread knows about *)
  try (match goal with
       | Hr : heap s ?r = Some ?e |- _ =>
           assert (Lk : loaded_ok e) by
             (let e0 := fresh in let A := fresh in let B := fresh in
              destruct (HKt r (or_introl eq_refl)) as [e0 [A B]]; rewrite Hr in A; inversion A; subst; exact B)
       end);
  try (match goal with
       | Hr : heap s ?r = Some ?e, Lk : loaded_ok ?e |- _ =>
           assert (Hns : e_state e <> SLoading) by (apply shape_loaded_not_loading; [eapply i_shape; eauto | exact Lk]);
           assert (Hvn : e_value e <> None) by (apply shape_nonloading_loaded; [eapply i_shape; eauto | exact Hns])
       end);
  (* panic branches are unreachable *)
  try (match goal with |- Inv (set_pc (set_panic _) _ _) => exfalso; congruence end);
  try congruence;
  (* Get: insert a loading placeholder *)
  try (match goal with
       | |- Inv (set_pc (alloc s (new_loading ?id)) t _) =>
           assert (I1 : Inv (alloc s (new_loading id))) by
             (apply inv_alloc; simpl; auto; [unfold shape, loaded_ok; simpl; intuition congruence | congruence]);
           apply inv_set_pc; [exact I1 | | simpl; intros; discriminate | simpl; intros; contradiction];
           simpl; intros r0 id0 Hx; inversion Hx; subst; split;
           [ exists (new_loading id0); simpl; unfold upd; rewrite N.eqb_refl; auto
           | intros t' id' Hy; exfalso; destruct (i_loader _ I t' _ _ Hy) as [e0 [A _]]; apply (i_heap _ I) in A; lia ]
       end);
  (* Add *)
  try (match goal with
       | |- Inv (set_pc (alloc s (new_active ?id ?n)) t _) =>
           apply inv_set_pc_plain; [ | reflexivity | reflexivity | reflexivity];
           apply inv_alloc; simpl; auto; [unfold shape, loaded_ok; simpl; intuition congruence | congruence]
       end);
  (* Close: mark closed, cancel loads *)
  try (match goal with
       | |- Inv (set_pc (set_closed_cancel s) t _) =>
           apply inv_set_pc_plain; [apply inv_closed_cancel; assumption | reflexivity | reflexivity | reflexivity]
       end);
  try (match goal with
       | |- Inv (set_pc s t (after_failed _ _ _)) => unfold after_failed; destruct (_ && _); plain
       end);
  try (match goal with
       | k : tk |- Inv (set_pc s t (tk_done ?k _)) => destruct k; [plain | keep Epc]
       end);
  (* setCancel + enter loadFunc *)
  try (match goal with
       | |- Inv (set_pc (set_entry s ?r (set_cancelset ?e)) t _) =>
           eapply inv_cancelset; eauto; rewrite Epc; simpl; auto
       end);
  try (match goal with
       | |- Inv (set_pc (bump_inst (set_entry s ?r (publish_ok ?e ?n))) t _) =>
           eapply inv_publish_ok; eauto; rewrite Epc; reflexivity
       end);
  try (match goal with
       | |- Inv (set_pc (set_data (set_entry s ?r (publish_err ?e)) ?id None) t _) =>
           unfold after_failed; destruct (_ && _);
           (eapply inv_publish_err; eauto; rewrite Epc; reflexivity)
       end);
  try (match goal with
       | |- Inv (set_pc (set_entry s ?r (set_closing ?e)) t _) =>
           eapply inv_acquire; eauto; try (rewrite Epc; simpl; auto); try congruence; simpl; auto
       end);
  try (match goal with
       | |- Inv (set_pc (set_data (set_entry s ?r (set_state ?e SClosed)) _ None) t ?p) =>
           eapply inv_release_closed; eauto; try (rewrite Epc; reflexivity);
           try (match goal with k : rk |- _ => destruct k end; reflexivity);
           try (match goal with k : tk |- _ => destruct k end; reflexivity);
           rewrite Epc; match goal with k : rk |- _ => destruct k | k : tk |- _ => destruct k end; simpl; auto; try contradiction
       end);
  try (match goal with
       | |- Inv (set_pc (set_entry s ?r (set_state ?e SActive)) t ?p) =>
           eapply inv_release_active; eauto; try (rewrite Epc; reflexivity);
           try (match goal with k : tk |- _ => destruct k end; reflexivity);
           rewrite Epc; match goal with k : tk |- _ => destruct k end; simpl; auto; try contradiction
       end);
  (* steps that establish new knowledge about an entry *)
  try (match goal with
       | Hr : heap s ?r = Some ?e |- Inv (set_pc s t (RmSetClosing ?r _)) =>
           apply inv_set_pc_keep; [assumption | left; reflexivity | left; reflexivity |];
           simpl; intros x [X|[]]; subst; right; exists e; split; [assumption | split; assumption]
       end);
  try (match goal with
       | Hr : heap s ?r = Some ?e |- Inv (set_pc s t (TrSetClosing ?r KTry)) =>
           apply inv_set_pc_keep; [assumption | left; reflexivity | left; reflexivity |];
           simpl; intros x [X|[]]; subst; right; exists e; split; [assumption |];
           apply shape_nonloading_loaded; [eapply i_shape; eauto |];
           destruct (e_state e) eqn:Es; simpl in *; try discriminate; congruence
       end);
  try (match goal with
       | |- Inv (set_pc s t (GcNext (snapshot s _))) =>
           apply inv_set_pc_keep; [assumption | left; reflexivity | left; reflexivity |];
           simpl; intros x Hin; right; destruct (snapshot_In _ _ _ Hin) as [e0 [A B]]; exists e0; split; auto;
           apply estate_eqb_eq in B; apply shape_nonloading_loaded; [eapply i_shape; eauto | congruence]
       end);
  try (match goal with
       | Hm : mem ?r (?n :: ?l) = true |- Inv (set_pc s t (TrSetClosing ?r (KGC _))) =>
           apply inv_set_pc_keep; [assumption | left; reflexivity | left; reflexivity |];
           rewrite Epc; simpl; intros x [X|X]; left;
           [subst; apply (mem_In _ (n :: l)); exact Hm | apply (remove1_cons_In x r n l); exact X]
       end).
Qed.

Lemma step_inv : forall s l s', Inv s -> step fixed s l = Some s' -> Inv s'.
Proof.
  intros s l s' I H. unfold step in H.
  destruct (step_core fixed s (fst l) (snd l)) as [[s1 [e|]]|] eqn:E; inversion H; subst.
  - apply inv_emit. eapply step_core_inv; eauto.
  - eapply step_core_inv; eauto.
Qed.

Lemma run_inv : forall ls s s', Inv s -> run fixed s ls = Some s' -> Inv s'.
Proof.
  induction ls as [|l ls IH]; simpl; intros s s' I H.
  - inversion H; subst; auto.
  - destruct (step fixed s l) eqn:E; [|discriminate]. eapply IH; [eapply step_inv; eauto | eauto].
Qed.

Theorem reachable_inv : forall ls s, run fixed init ls = Some s -> Inv s.
Proof. intros ls s H. eapply run_inv; [apply init_inv | eauto]. Qed.

(* ------------------------------------------------------------------------------------------------
   Consequences stated on reachable states *)

Theorem no_panic : forall ls s, run fixed init ls = Some s -> panicked s = false.
Proof. intros ls s H. apply i_nopanic. eapply reachable_inv; eauto. Qed.

(* an instance is live in entry r: created (load finished / Add) and its close has not finished *)
Definition live_in (s : state) (r id n : N) : Prop :=
  exists e, heap s r = Some e /\ e_id e = id /\ e_value e = Some n /\ e_state e <> SClosed.

Lemma live_in_map : forall s r id n, Inv s -> live_in s r id n -> data s id = Some r.
Proof.
  intros s r id n I [e [Hr [Hid [Hv Hst]]]]. subst id. eapply i_present; eauto.
  pose proof (i_shape _ I _ _ Hr) as [S1 _].
  destruct (e_state e) eqn:Es; try congruence.
  - destruct (S1 eq_refl) as [X _]. congruence.
  - right. left. exact Es.
  - right. right. exact Es.
Qed.

Theorem single_live : forall ls s id r1 n1 r2 n2,
  run fixed init ls = Some s -> live_in s r1 id n1 -> live_in s r2 id n2 -> r1 = r2 /\ n1 = n2.
Proof.
  intros ls s id r1 n1 r2 n2 H L1 L2. pose proof (reachable_inv _ _ H) as I.
  pose proof (live_in_map _ _ _ _ I L1) as M1. pose proof (live_in_map _ _ _ _ I L2) as M2.
  assert (r1 = r2) by congruence. subst r2. split; auto.
  destruct L1 as [e1 [A1 [_ [V1 _]]]]. destruct L2 as [e2 [A2 [_ [V2 _]]]]. congruence.
Qed.

(* while a load of id is in flight (between load start and load end) no instance of id is live,
   and no second load of id is in flight *)
Theorem load_excludes_live : forall ls s t id r rt r' n,
  run fixed init ls = Some s -> threads s t = GInLoad id r rt -> ~ live_in s r' id n.
Proof.
  intros ls s t id r rt r' n H Hpc L. pose proof (reachable_inv _ _ H) as I.
  pose proof (live_in_map _ _ _ _ I L) as M.
  destruct (i_loader _ I t r id) as [e [Hr [Hnd Hid]]]; [rewrite Hpc; reflexivity|].
  assert (M' : data s id = Some r). { subst id. eapply i_present; eauto. left. exact Hnd. }
  assert (r' = r) by congruence. subst r'.
  destruct L as [e' [Hr' [_ [Hv _]]]]. rewrite Hr in Hr'. inversion Hr'; subst e'.
  pose proof (i_shape _ I _ _ Hr) as Sh. pose proof (shape_notloaded_loading _ Sh Hnd) as Hst.
  destruct Sh as [S1 _]. destruct (S1 Hst) as [X _]. congruence.
Qed.

Theorem single_flight : forall ls s t t' id r rt r' rt',
  run fixed init ls = Some s -> threads s t = GInLoad id r rt -> threads s t' = GInLoad id r' rt' -> t = t'.
Proof.
  intros ls s t t' id r rt r' rt' H P1 P2. pose proof (reachable_inv _ _ H) as I.
  destruct (i_loader _ I t r id) as [e [Hr [Hnd Hid]]]; [rewrite P1; reflexivity|].
  destruct (i_loader _ I t' r' id) as [e' [Hr' [Hnd' Hid']]]; [rewrite P2; reflexivity|].
  assert (M : data s id = Some r). { subst id. eapply i_present; eauto. left. exact Hnd. }
  assert (M' : data s id = Some r'). { rewrite <- Hid'. eapply i_present; eauto. left. exact Hnd'. }
  assert (r' = r) by congruence. subst r'.
  eapply (i_loader1 _ I t t' r id id); [rewrite P1 | rewrite P2]; reflexivity.
Qed.

(* Close()/TryClose() of an instance is only ever in progress in one thread at a time *)
Theorem single_closer : forall ls s t t' r n r',
  run fixed init ls = Some s ->
  owner (threads s t) = Some (r, n) -> owner (threads s t') = Some (r', n) -> t = t' \/ r <> r'.
Proof.
  intros ls s t t' r n r' H O1 O2. pose proof (reachable_inv _ _ H) as I.
  destruct (N.eq_dec r r'); [left; subst; eapply (i_owner1 _ I); eauto | right; auto].
Qed.
