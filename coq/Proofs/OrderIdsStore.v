(* Proofs/OrderIdsStore.v — bridge C06 -> C09: a responder whose store was produced by Tree.Add / Tree.AddFast / local
   adds from the empty tree streams its changes in order-id order (GetAfterOrder); that stored sequence has pairwise
   different ids and is a linear extension of causality, i.e. it satisfies the hypotheses of respond_causal (c09_causal)
   and respond_heads_childless (c09_heads_childless), which therefore hold for such stores without assuming anything
   about the stored order. *)
From Coq Require Import List NArith Bool Arith Lia Permutation.
Import ListNotations.
From AnySync Require Import Lib.Dag Model.Dfs Model.Tree Model.LoadIter Model.OrderIds Proofs.DfsBase Proofs.TreeInc
  Proofs.DfsTopo Proofs.DfsStable Proofs.TreeAppend Proofs.LoadIter Proofs.LoadIterHeads
  Proofs.OrderIdsFill Proofs.OrderIdsTree Proofs.OrderIds.

Section Store.
  Variable oid : Type.
  Variable oltb : oid -> oid -> bool.
  Variable first_id : oid.
  Variable next_id : oid -> oid.
  Variable between : oid -> oid -> oid.

  Notation olt := (olt oid oltb).
  Notation irun := (irun oid first_id next_id between).
  Notation it_stored := (it_stored oid oltb).
  Notation it_tree := (it_tree oid).
  Notation hist_acyclic := (hist_acyclic oid first_id next_id between).

  Hypothesis olt_trans : forall a b c, olt a b -> olt b c -> olt a c.
  Hypothesis olt_irrefl : forall a, ~ olt a a.
  Hypothesis next_gt : forall a, olt a (next_id a).
  Hypothesis between_gt : forall a b, olt a b -> olt a (between a b) /\ olt (between a b) b.

  (* sigma is what the storage of the replica streams: its attached changes (with raw sizes) in order-id order *)
  Definition store_of (ops : list iop) (sigma : list sentry) : Prop :=
    let t := it_tree (irun ops) in
    map se_id sigma = it_stored (irun ops) /\
    (forall e, In e sigma -> se_id e <> t_root t -> In (se_ch e) (view (t_att t) (t_root t))) /\
    (forall e, In e sigma -> se_id e = t_root t -> cprev (se_ch e) = []).

  Theorem oid_store_lin_ext : forall ops rk sigma,
    hist_acyclic rk ops -> t_att (it_tree (irun ops)) <> [] -> wf_prev (it_tree (irun ops)) ->
    store_of ops sigma ->
    NoDup (map se_id sigma) /\ lin_ext sigma /\ (forall e, In e sigma -> ~ In (se_id e) (cprev (se_ch e))).
  Proof.
    intros ops rk sigma H Hne Hwf [Hids [Hview Hroot]].
    pose proof (storage_order_eq oid oltb first_id next_id between olt_trans olt_irrefl next_gt between_gt ops rk H Hne Hwf) as Heq.
    pose proof (final_acyc oid first_id next_id between ops rk H) as Hac. unfold acyc in Hac.
    rewrite Heq in Hids.
    destruct (canonical_store_lin_ext _ _ rk sigma Hac Hids Hview) as [Hnd Hlin].
    - intros e p He Her Hp. rewrite (Hroot e He Her) in Hp. destruct Hp.
    - split; [exact Hnd|]. split; [exact Hlin|].
      intros e He Hself. destruct (N.eq_dec (se_id e) (t_root (it_tree (irun ops)))) as [Er|Er].
      + rewrite (Hroot e He Er) in Hself. destruct Hself.
      + pose proof (Hac (se_ch e) (se_id e) (Hview e He Er) Hself) as Hrk. unfold se_id in Hrk. lia.
  Qed.

  Lemma lin_ext_suffix : forall pre l, lin_ext (pre ++ l) -> lin_ext l.
  Proof.
    intros pre l H l1 e l2 Heq p Hp. apply (H (pre ++ l1) e l2); [rewrite Heq, <- app_assoc; reflexivity | exact Hp].
  Qed.

  (* c09_causal without the linear-extension hypothesis, for stores produced this way *)
  Theorem oid_store_response_causal : forall ops rk sigma ourPath theirPath theirHeads maxSize bs,
    hist_acyclic rk ops -> t_att (it_tree (irun ops)) <> [] -> wf_prev (it_tree (irun ops)) ->
    store_of ops sigma ->
    respond sigma ourPath theirPath theirHeads maxSize = Some bs ->
    lin_ext (concat (map b_changes bs)).
  Proof.
    intros ops rk sigma ourPath theirPath theirHeads maxSize bs H Hne Hwf Hst Hr.
    destruct (oid_store_lin_ext ops rk sigma H Hne Hwf Hst) as [_ [Hlin _]].
    exact (respond_causal _ _ _ _ _ _ Hr Hlin).
  Qed.

  (* c09_heads_childless without its three hypotheses about the stored range *)
  Theorem oid_store_response_heads : forall ops rk sigma ourPath theirPath theirHeads maxSize bs cs,
    hist_acyclic rk ops -> t_att (it_tree (irun ops)) <> [] -> wf_prev (it_tree (irun ops)) ->
    store_of ops sigma ->
    respond sigma ourPath theirPath theirHeads maxSize = Some bs ->
    choose_snapshot ourPath theirPath = Some cs ->
    heads_trace (removed_of sigma cs theirHeads) (from_id cs sigma) [] bs.
  Proof.
    intros ops rk sigma ourPath theirPath theirHeads maxSize bs cs H Hne Hwf Hst Hr Hcs.
    destruct (oid_store_lin_ext ops rk sigma H Hne Hwf Hst) as [Hnd [Hlin Hself]].
    destruct (from_id_suffix cs sigma) as [pre Hpre].
    apply (respond_heads_childless _ _ _ _ _ _ _ Hr Hcs).
    - rewrite Hpre, map_app in Hnd. clear -Hnd. induction (map se_id pre) as [|a r IH]; [exact Hnd|].
      inversion Hnd; subst. apply IH. assumption.
    - apply (lin_ext_suffix pre). rewrite <- Hpre. exact Hlin.
    - intros e He. apply Hself. rewrite Hpre. apply in_or_app. right. exact He.
  Qed.
End Store.
