(* Proofs/LoadIter.v — facts about the response iterator model (Model/LoadIter.v), property C09. *)
From Coq Require Import List NArith Bool Arith Lia.
Import ListNotations.
From AnySync Require Import Lib.Dag Model.Dfs Model.Tree Model.LoadIter Proofs.DfsBase.

Definition nonrem (removed : list N) (l : list sentry) : list sentry :=
  filter (fun e => negb (mem (se_id e) removed)) l.

Lemma total_size_app : forall a b, total_size (a ++ b) = (total_size a + total_size b)%N.
Proof.
  intros a b. unfold total_size. induction a as [|e r IH]; cbn [app fold_right]; [lia | rewrite IH; lia].
Qed.

Definition bounded (maxSize : N) (b : list sentry) : Prop :=
  (total_size b < maxSize)%N \/ length b <= 1.

(* ---------------------------------------------------------------- one NextBatch scan *)

Lemma scan_spec : forall ms rem rest batch heads cur b hs rest' ex,
  scan ms rem rest batch heads cur = (b, hs, rest', ex) ->
  cur = total_size batch -> bounded ms batch ->
  (* nothing lost, nothing invented, order kept *)
  b ++ nonrem rem rest' = batch ++ nonrem rem rest
  (* the unread part is a suffix; the read part determines the heads *)
  /\ (exists used, rest = used ++ rest' /\ hs = fold_left upd_heads (map se_ch used) heads)
  /\ bounded ms b
  /\ (ex = true -> rest' = [])
  /\ (ex = false -> b <> [] /\ exists e r, rest' = e :: r /\ mem (se_id e) rem = false)
  /\ (batch <> [] \/ nonrem rem rest <> [] -> b <> []).
Proof.
  intros ms rem rest. induction rest as [|e r IH]; intros batch heads cur b hs rest' ex Hs Hcur Hb; cbn [scan] in Hs.
  - inversion Hs; subst. cbn [nonrem filter].
    split; [reflexivity|]. split; [exists []; split; reflexivity|]. split; [exact Hb|].
    split; [reflexivity|]. split; [intros Hf; discriminate|].
    intros [Hne|Hne]; [exact Hne | contradiction].
  - destruct (mem (se_id e) rem) eqn:Erem.
    + destruct (IH _ _ _ _ _ _ _ Hs Hcur Hb) as [H1 [[used [Hu1 Hu2]] [H3 [H4 [H5 H6]]]]].
      split; [rewrite H1; cbn [nonrem filter]; rewrite Erem; reflexivity|].
      split; [exists (e :: used); split; [rewrite Hu1; reflexivity | exact Hu2]|].
      split; [exact H3|]. split; [exact H4|]. split; [exact H5|].
      intros Hne. apply H6. cbn [nonrem filter] in Hne. rewrite Erem in Hne. exact Hne.
    + destruct (N.leb ms (cur + se_size e) && negb match batch with [] => true | _ :: _ => false end) eqn:Estop.
      * inversion Hs; subst.
        assert (Hbne : b <> []).
        { apply andb_true_iff in Estop. destruct Estop as [_ E2]. destruct b; [discriminate | discriminate]. }
        split; [reflexivity|]. split; [exists []; split; reflexivity|]. split; [exact Hb|].
        split; [intros Hf; discriminate|].
        split; [intros _; split; [exact Hbne | exists e, r; split; [reflexivity | exact Erem]]|].
        intros _. exact Hbne.
      * assert (Hb' : bounded ms (batch ++ [e])).
        { unfold bounded. rewrite total_size_app. cbn [total_size fold_right]. rewrite app_length. cbn [length].
          apply andb_false_iff in Estop. destruct Estop as [E|E].
          - left. apply N.leb_gt in E. unfold total_size in *. lia.
          - right. destruct batch; [cbn; lia | discriminate]. }
        assert (Hcur' : (cur + se_size e)%N = total_size (batch ++ [e])).
        { rewrite total_size_app. cbn [total_size fold_right]. unfold total_size in *. lia. }
        destruct (IH _ _ _ _ _ _ _ Hs Hcur' Hb') as [H1 [[used [Hu1 Hu2]] [H3 [H4 [H5 H6]]]]].
        split; [rewrite H1; cbn [nonrem filter]; rewrite Erem; cbn [negb]; rewrite <- app_assoc; reflexivity|].
        split; [exists (e :: used); split; [rewrite Hu1; reflexivity | exact Hu2]|].
        split; [exact H3|]. split; [exact H4|]. split; [exact H5|].
        intros _. apply H6. left. destruct batch; discriminate.
Qed.

(* ---------------------------------------------------------------- the whole stream *)

Definition li_ok (l : liter) : Prop := li_exhausted l = true -> li_rest l = [].

Lemma nonrem_length_cons : forall rem e r, mem (se_id e) rem = false -> length (nonrem rem (e :: r)) = S (length (nonrem rem r)).
Proof. intros rem e r H. cbn [nonrem filter]. rewrite H. reflexivity. Qed.

Theorem stream_exact : forall fuel ms l,
  li_ok l -> length (nonrem (li_removed l) (li_rest l)) < fuel ->
  concat (map b_changes (stream next_batch fuel ms l)) = nonrem (li_removed l) (li_rest l)
  /\ Forall (fun b => bounded ms (b_changes b) /\ b_changes b <> []) (stream next_batch fuel ms l).
Proof.
  induction fuel as [|f IH]; intros ms l Hok Hlen; [lia|].
  cbn [stream]. destruct (next_batch ms l) as [bb l'] eqn:Enb. unfold next_batch in Enb.
  destruct (li_exhausted l) eqn:Eex.
  - inversion Enb; subst. cbn [b_changes]. rewrite (Hok Eex). split; [reflexivity | constructor].
  - destruct (scan ms (li_removed l) (li_rest l) [] (li_lastHeads l) 0) as [[[b hs] rest'] ex] eqn:Es.
    inversion Enb; subst bb l'. clear Enb.
    assert (Hb0 : bounded ms []) by (right; cbn; lia).
    destruct (scan_spec _ _ _ _ _ _ _ _ _ _ Es eq_refl Hb0) as [H1 [_ [H3 [H4 [H5 H6]]]]].
    cbn [app] in H1. cbn [b_changes].
    destruct b as [|e0 b0] eqn:Eb.
    + (* empty batch: nothing non-removed was left *)
      split; [|constructor]. cbn [concat map].
      destruct (nonrem (li_removed l) (li_rest l)) eqn:En; [reflexivity|].
      exfalso. apply H6; [right; discriminate | reflexivity].
    + set (l' := mkLI rest' (li_removed l) hs ex).
      assert (Hok' : li_ok l') by (unfold li_ok, l'; cbn; exact H4).
      assert (Hlen' : length (nonrem (li_removed l') (li_rest l')) < f).
      { unfold l'. cbn [li_removed li_rest]. rewrite <- H1 in Hlen. rewrite app_length in Hlen. cbn [length] in Hlen. lia. }
      destruct (IH ms l' Hok' Hlen') as [IH1 IH2].
      split.
      * cbn [map concat b_changes]. rewrite IH1. unfold l'. cbn [li_removed li_rest]. exact H1.
      * constructor; [cbn [b_changes]; split; [exact H3 | discriminate] | exact IH2].
Qed.

(* ---------------------------------------------------------------- load *)

Lemma from_id_suffix : forall cs sigma, exists pre, sigma = pre ++ from_id cs sigma.
Proof.
  intros cs sigma. induction sigma as [|e r [pre IH]]; cbn [from_id].
  - exists []. reflexivity.
  - destruct (N.eqb (se_id e) cs).
    + exists []. reflexivity.
    + exists (e :: pre). cbn [app]. rewrite <- IH. reflexivity.
Qed.

Lemma from_id_length : forall cs sigma, length (from_id cs sigma) <= length sigma.
Proof.
  intros cs sigma. destruct (from_id_suffix cs sigma) as [pre H]. rewrite H at 2. rewrite app_length. lia.
Qed.

Lemma nonrem_length : forall rem l, length (nonrem rem l) <= length l.
Proof. intros. unfold nonrem. apply filter_len_le. Qed.

(* ancestors stay inside every causally closed set that contains the start *)
Lemma anc_loop_closed : forall (H : N -> Prop) S,
  (forall c p, In c S -> H (cid c) -> In p (cprev c) -> H p) ->
  forall fuel stack visited,
    (forall i, In i stack -> H i) -> (forall i, In i visited -> H i) ->
    forall i, In i (anc_loop fuel S stack visited) -> H i.
Proof.
  intros H S Hcl. induction fuel as [|f IH]; intros stack visited Hst Hvis i Hin; cbn [anc_loop] in Hin.
  - apply Hvis. exact Hin.
  - destruct stack as [|a st]; [apply Hvis; exact Hin|].
    destruct (mem a visited).
    + apply (IH st visited); auto. intros j Hj. apply Hst. right. exact Hj.
    + destruct (find_change S a) as [c|] eqn:Ef.
      * apply (IH _ _) in Hin; auto.
        -- intros j Hj. apply in_app_or in Hj. destruct Hj as [Hj|Hj].
           ++ apply in_rev in Hj. apply filter_In in Hj. destruct Hj as [Hj _].
              apply find_change_sound in Ef. destruct Ef as [Hc Hid].
              apply (Hcl c j Hc); [rewrite Hid; apply Hst; left; reflexivity | exact Hj].
           ++ apply Hst. right. exact Hj.
        -- intros j [Hj|Hj]; [subst j; apply Hst; left; reflexivity | apply Hvis; exact Hj].
      * apply (IH st visited); auto. intros j Hj. apply Hst. right. exact Hj.
Qed.

(* ---------------------------------------------------------------- respond *)

Definition removed_of (sigma : list sentry) (cs : N) (theirHeads : list N) : list N :=
  li_removed (load sigma cs theirHeads).

Theorem respond_exact : forall sigma ourPath theirPath theirHeads ms bs,
  respond sigma ourPath theirPath theirHeads ms = Some bs ->
  exists cs, choose_snapshot ourPath theirPath = Some cs
    /\ concat (map b_changes bs) = nonrem (removed_of sigma cs theirHeads) (from_id cs sigma)
    /\ Forall (fun b => bounded ms (b_changes b) /\ b_changes b <> []) bs.
Proof.
  intros sigma ourPath theirPath theirHeads ms bs H. unfold respond in H.
  destruct (choose_snapshot ourPath theirPath) as [cs|]; [|discriminate].
  inversion H; subst bs. clear H. exists cs. split; [reflexivity|].
  assert (Hok : li_ok (load sigma cs theirHeads)) by (unfold li_ok, load; cbn; intros; discriminate).
  assert (Hlen : length (nonrem (li_removed (load sigma cs theirHeads)) (li_rest (load sigma cs theirHeads))) < S (length sigma)).
  { pose proof (nonrem_length (li_removed (load sigma cs theirHeads)) (li_rest (load sigma cs theirHeads))).
    unfold load in *. cbn [li_rest] in *. pose proof (from_id_length cs sigma). lia. }
  destruct (stream_exact (S (length sigma)) ms _ Hok Hlen) as [H1 H2].
  split; [exact H1 | exact H2].
Qed.

Lemma removed_in_closed : forall sigma cs theirHeads (H : N -> Prop),
  (forall c p, In c (map se_ch (from_id cs sigma)) -> H (cid c) -> In p (cprev c) -> H p) ->
  (forall h, In h theirHeads -> H h) ->
  forall i, In i (removed_of sigma cs theirHeads) -> H i.
Proof.
  intros sigma cs theirHeads H Hcl Hh i Hi. unfold removed_of, load in Hi. cbn [li_removed] in Hi.
  unfold ancestors in Hi. eapply anc_loop_closed in Hi; eauto.
  - intros j Hj. apply filter_In in Hj. destruct Hj as [Hj _]. apply Hh. exact Hj.
  - intros j [].
Qed.

(* complete: every stored change from the common snapshot on that the requester does not have is sent *)
Theorem respond_complete : forall sigma ourPath theirPath theirHeads ms bs (haveB : N -> Prop),
  respond sigma ourPath theirPath theirHeads ms = Some bs ->
  (forall cs c p, choose_snapshot ourPath theirPath = Some cs ->
     In c (map se_ch (from_id cs sigma)) -> haveB (cid c) -> In p (cprev c) -> haveB p) ->
  (forall h, In h theirHeads -> haveB h) ->
  exists cs, choose_snapshot ourPath theirPath = Some cs /\
    forall e, In e (from_id cs sigma) -> ~ haveB (se_id e) -> In e (concat (map b_changes bs)).
Proof.
  intros sigma ourPath theirPath theirHeads ms bs haveB Hr Hcl Hh.
  destruct (respond_exact _ _ _ _ _ _ Hr) as [cs [Hcs [Hc _]]]. exists cs. split; [exact Hcs|].
  intros e He Hn. rewrite Hc. unfold nonrem. apply filter_In. split; [exact He|].
  destruct (mem (se_id e) (removed_of sigma cs theirHeads)) eqn:E; [|reflexivity].
  exfalso. apply Hn. apply mem_In in E.
  apply (removed_in_closed sigma cs theirHeads haveB (fun c p => Hcl cs c p Hcs) Hh). exact E.
Qed.

(* nothing the responder does not store, in stored order: the sent sequence is a sub-sequence of sigma *)
Theorem respond_only_stored : forall sigma ourPath theirPath theirHeads ms bs e,
  respond sigma ourPath theirPath theirHeads ms = Some bs ->
  In e (concat (map b_changes bs)) -> In e sigma.
Proof.
  intros sigma ourPath theirPath theirHeads ms bs e Hr He.
  destruct (respond_exact _ _ _ _ _ _ Hr) as [cs [_ [Hc _]]]. rewrite Hc in He.
  apply filter_In in He. destruct He as [He _]. destruct (from_id_suffix cs sigma) as [pre Hp].
  rewrite Hp. apply in_or_app. right. exact He.
Qed.

Lemma NoDup_map_filter : forall (l : list sentry) f, NoDup (map se_id l) -> NoDup (map se_id (filter f l)).
Proof.
  intros l f. induction l as [|a r IH]; intros H; cbn [filter map]; [constructor|].
  inversion H as [|x xs Hx Hr]; subst. destruct (f a); cbn [map].
  - constructor; [|apply IH; exact Hr]. intros Hin. apply Hx. apply in_map_iff in Hin.
    destruct Hin as [y [Hy1 Hy2]]. apply filter_In in Hy2. apply in_map_iff. exists y. tauto.
  - apply IH. exact Hr.
Qed.

Lemma NoDup_app_r : forall (A : Type) (l1 l2 : list A), NoDup (l1 ++ l2) -> NoDup l2.
Proof.
  intros A l1 l2. induction l1 as [|a r IH]; cbn [app]; intros H; [exact H|].
  inversion H; subst. apply IH. assumption.
Qed.

Theorem respond_no_repeats : forall sigma ourPath theirPath theirHeads ms bs,
  respond sigma ourPath theirPath theirHeads ms = Some bs ->
  NoDup (map se_id sigma) -> NoDup (map se_id (concat (map b_changes bs))).
Proof.
  intros sigma ourPath theirPath theirHeads ms bs Hr Hnd.
  destruct (respond_exact _ _ _ _ _ _ Hr) as [cs [_ [Hc _]]]. rewrite Hc. apply NoDup_map_filter.
  destruct (from_id_suffix cs sigma) as [pre Hp]. rewrite Hp, map_app in Hnd.
  apply NoDup_app_r in Hnd. exact Hnd.
Qed.

Lemma anc_loop_nil : forall fuel S vis, anc_loop fuel S [] vis = vis.
Proof. intros fuel S vis. destruct fuel; reflexivity. Qed.

(* an empty request (no path, no heads) is answered with everything stored from the tree root on *)
Theorem respond_empty_request : forall sigma ourPath ms bs,
  respond sigma ourPath [] [] ms = Some bs ->
  concat (map b_changes bs) = from_id (last ourPath 0%N) sigma.
Proof.
  intros sigma ourPath ms bs Hr. destruct (respond_exact _ _ _ _ _ _ Hr) as [cs [Hcs [Hc _]]].
  cbn [choose_snapshot] in Hcs. inversion Hcs; subst cs. rewrite Hc.
  unfold removed_of, load. cbn [li_removed filter]. unfold ancestors. rewrite anc_loop_nil.
  unfold nonrem. generalize (from_id (last ourPath 0%N) sigma). intros L.
  induction L as [|a r IH]; [reflexivity|]. cbn [filter]. unfold mem at 1. cbn [existsb negb]. rewrite IH. reflexivity.
Qed.

(* causal order: if the stored sequence is a linear extension (no change before one of its previous changes),
   so is the sent sequence *)
Definition lin_ext (l : list sentry) : Prop :=
  forall l1 e l2, l = l1 ++ e :: l2 -> forall p, In p (cprev (se_ch e)) -> ~ In p (map se_id l2).

Lemma filter_split : forall (f : sentry -> bool) l l1 e l2,
  filter f l = l1 ++ e :: l2 -> exists s1 s2, l = s1 ++ e :: s2 /\ l2 = filter f s2.
Proof.
  intros f l. induction l as [|a r IH]; intros l1 e l2 H; cbn [filter] in H.
  - destruct l1; discriminate.
  - destruct (f a) eqn:Ef.
    + destruct l1 as [|b l1'].
      * cbn [app] in H. inversion H; subst. exists [], r. split; reflexivity.
      * cbn [app] in H. inversion H; subst. destruct (IH _ _ _ H2) as [s1 [s2 [H3 H4]]].
        exists (b :: s1), s2. split; [rewrite H3; reflexivity | exact H4].
    + destruct (IH _ _ _ H) as [s1 [s2 [H3 H4]]]. exists (a :: s1), s2. split; [rewrite H3; reflexivity | exact H4].
Qed.

Theorem respond_causal : forall sigma ourPath theirPath theirHeads ms bs,
  respond sigma ourPath theirPath theirHeads ms = Some bs ->
  lin_ext sigma -> lin_ext (concat (map b_changes bs)).
Proof.
  intros sigma ourPath theirPath theirHeads ms bs Hr Hl.
  destruct (respond_exact _ _ _ _ _ _ Hr) as [cs [_ [Hc _]]]. rewrite Hc.
  intros l1 e l2 Heq p Hp Hin. unfold nonrem in Heq. apply filter_split in Heq.
  destruct Heq as [s1 [s2 [Hs Hl2]]]. destruct (from_id_suffix cs sigma) as [pre Hpre].
  rewrite Hs in Hpre.
  assert (Hsig : sigma = (pre ++ s1) ++ e :: s2) by (rewrite Hpre, <- app_assoc; reflexivity).
  apply (Hl (pre ++ s1) e s2 Hsig p Hp).
  subst l2. apply in_map_iff in Hin. destruct Hin as [y [Hy1 Hy2]]. apply filter_In in Hy2.
  apply in_map_iff. exists y. tauto.
Qed.

(* announced heads: one NextBatch folds upd_heads over exactly the stored changes it walked over (sent or
   removed), starting from the heads announced with the previous batch (initially the common snapshot) *)
Theorem next_batch_heads : forall ms l b l',
  li_exhausted l = false -> next_batch ms l = (b, l') ->
  exists used, li_rest l = used ++ li_rest l'
    /\ b_heads b = fold_left upd_heads (map se_ch used) (li_lastHeads l)
    /\ li_lastHeads l' = b_heads b.
Proof.
  intros ms l b l' Hex H. unfold next_batch in H. rewrite Hex in H.
  destruct (scan ms (li_removed l) (li_rest l) [] (li_lastHeads l) 0) as [[[bb hs] rest'] ex] eqn:Es.
  inversion H; subst b l'. clear H.
  assert (Hb0 : bounded ms []) by (right; cbn; lia).
  destruct (scan_spec _ _ _ _ _ _ _ _ _ _ Es eq_refl Hb0) as [_ [[used [Hu1 Hu2]] _]].
  exists used. cbn [li_rest b_heads li_lastHeads]. split; [exact Hu1 | split; [exact Hu2 | reflexivity]].
Qed.
