(* C04: privilege rules of the validating ACL state machine (legacy := false, v := true).
   Per content step: the invariant (exactly one owner, anyone-can-join invites never grant None/Owner/Guest) is
   preserved and every rule of [step_rules] holds; lifted to records and to record sequences. *)
From Coq Require Import List NArith Bool Lia.
Import ListNotations.
From AnySync Require Import Model.Acl Proofs.AclBase.
Open Scope N_scope.

Ltac unfold_perms := unfold pNone, pOwner, pAdmin, pWriter, pReader, pGuest, tAnyoneCanJoin, tRequestToJoin in *.
Ltac split_andb :=
  repeat match goal with
  | H : _ && _ = true |- _ => apply andb_true_iff in H; destruct H
  | H : negb _ = true |- _ => apply negb_true_iff in H
  | H : _ || _ = false |- _ => apply orb_false_iff in H; destruct H
  end.
Ltac beq :=
  repeat match goal with
  | H : (_ =? _) = true |- _ => apply N.eqb_eq in H
  | H : (_ =? _) = false |- _ => apply N.eqb_neq in H
  end.
Ltac bcase :=
  repeat match goal with
  | |- context [N.eqb ?x ?y] => destruct (N.eqb_spec x y)
  end.
Ltac bfin := cbn; try reflexivity; try congruence; try lia.
(* rewrite every boolean atom known from the hypotheses into the goal *)
Ltac brw :=
  repeat match goal with
  | H : ?b = true |- context [?b] => rewrite H
  | H : ?b = false |- context [?b] => rewrite H
  end; cbn; try reflexivity.

Definition StepOK (s : state) (au : acct) (s' : state) : Prop :=
  (forall a, rule_account s au s' a = true) /\
  (forall r, rule_invite s au s' r = true) /\
  (forall r, rule_request s au s' r = true) /\
  rule_outsider s au s' = true /\ rule_self s au s' = true /\
  rule_options s au s' = true /\ rule_keys s au s' = true.

Lemma StepOK_step_rules : forall s au s', StepOK s au s' -> step_rules s au s' = true.
Proof.
  intros s au s' (Ha & Hi & Hr & Ho & Hs & Hp & Hk). unfold step_rules.
  rewrite Ho, Hs, Hp, Hk.
  assert (E1 : forallb (rule_account s au s') (dom s ++ dom s' ++ [au]) = true)
    by (apply forallb_forall; intros; apply Ha).
  assert (E2 : forallb (rule_invite s au s') (mkeys (invites s) ++ mkeys (invites s')) = true)
    by (apply forallb_forall; intros; apply Hi).
  assert (E3 : forallb (rule_request s au s') (mkeys (requests s) ++ mkeys (requests s')) = true)
    by (apply forallb_forall; intros; apply Hr).
  now rewrite E1, E2, E3.
Qed.

(* ------------------------------------------------------------------ generic rule lemmas *)
Lemma manager_perm_nonzero : forall s au, manager s au = true -> perm_of s au <> 0.
Proof.
  intros s au H. unfold manager, can_manage in H. unfold_perms.
  apply orb_true_iff in H. destruct H as [H|H]; beq; lia.
Qed.

Lemma owner_manager : forall s au, is_owner s au = true -> manager s au = true.
Proof. intros s au H. unfold is_owner in H. unfold manager, can_manage. rewrite H. apply orb_true_r. Qed.

Lemma rule_account_perm_same : forall s au s' a,
  perm_of s' a = perm_of s a ->
  (manager s au = true \/ a = au \/
   (status_of s' a = status_of s a /\ mget a (pending s') = mget a (pending s))) ->
  rule_account s au s' a = true.
Proof.
  intros s au s' a Hp Hm.
  unfold rule_account, rule_admin, rule_owner, rule_manager, rule_guest, is_admin, is_owner, acc_same.
  rewrite Hp. rewrite !Bool.eqb_reflx. cbn [orb andb].
  assert (E : (a =? au) || manager s au ||
              ((perm_of s a =? perm_of s a) && status_eqb (status_of s a) (status_of s' a) &&
               opt_eqb N.eqb (mget a (pending s)) (mget a (pending s'))) = true).
  { destruct Hm as [Hm|[Hm|[Hs Hq]]].
    - rewrite Hm. now rewrite orb_true_r.
    - subst. now rewrite N.eqb_refl.
    - rewrite Hs, Hq, N.eqb_refl, status_eqb_refl.
      rewrite (opt_eqb_refl N.eqb _ N.eqb_refl). now rewrite !orb_true_r. }
  rewrite E.
  destruct (perm_of s a =? pOwner); destruct (perm_of s a =? pGuest); cbn; reflexivity.
Qed.

(* an account whose permission changes, when the author is a manager *)
Lemma rule_account_mgr : forall s au s' a,
  manager s au = true ->
  (is_admin s a <> is_admin s' a -> is_owner s au = true) ->
  (is_owner s a <> is_owner s' a -> is_owner s au = true) ->
  (is_owner s a = true -> is_owner s' a = false -> a = au) ->
  (perm_of s a = pGuest -> perm_of s' a = pGuest \/ perm_of s' a = pNone) ->
  rule_account s au s' a = true.
Proof.
  intros s au s' a Hm Had How Hst Hg.
  unfold rule_account, rule_admin, rule_owner, rule_manager, rule_guest.
  rewrite Hm. rewrite orb_true_r. cbn [orb andb].
  assert (E1 : Bool.eqb (is_admin s a) (is_admin s' a) || is_owner s au = true).
  { destruct (is_admin s a) eqn:A1, (is_admin s' a) eqn:A2; cbn; try reflexivity; apply Had; congruence. }
  assert (E2 : Bool.eqb (is_owner s a) (is_owner s' a) || is_owner s au = true).
  { destruct (is_owner s a) eqn:A1, (is_owner s' a) eqn:A2; cbn; try reflexivity; apply How; congruence. }
  assert (E3 : negb (is_owner s a) || is_owner s' a || (a =? au) = true).
  { destruct (is_owner s a) eqn:A1, (is_owner s' a) eqn:A2; cbn; try reflexivity.
    apply N.eqb_eq. now apply Hst. }
  assert (E4 : negb (perm_of s a =? pGuest) || (perm_of s' a =? pGuest) || (perm_of s' a =? pNone) = true).
  { destruct (N.eqb_spec (perm_of s a) pGuest) as [E|E]; cbn; [|reflexivity].
    destruct (Hg E) as [H|H]; rewrite H; reflexivity. }
  rewrite E1. cbn [orb andb]. rewrite E2, E3, E4. reflexivity.
Qed.

Lemma rule_invite_same : forall s au s' r, invites s' = invites s -> rule_invite s au s' r = true.
Proof.
  intros s au s' r E. unfold rule_invite. rewrite E.
  rewrite (opt_eqb_refl invite_eqb _ invite_eqb_refl). cbn [orb andb].
  destruct (mget r (invites s)) as [i|]; [|reflexivity].
  destruct (admin_invite i); cbn; [apply orb_true_r|reflexivity].
Qed.

Lemma rule_request_same : forall s au s' r, requests s' = requests s -> rule_request s au s' r = true.
Proof.
  intros s au s' r E. unfold rule_request. rewrite E.
  now rewrite (opt_eqb_refl request_eqb _ request_eqb_refl).
Qed.

Lemma rule_request_mgr : forall s au s' r, manager s au = true -> rule_request s au s' r = true.
Proof. intros s au s' r H. unfold rule_request. rewrite H. now rewrite orb_true_r. Qed.

Lemma rule_outsider_same : forall s au s', perm_of s' au = perm_of s au -> rule_outsider s au s' = true.
Proof.
  intros s au s' E. unfold rule_outsider. rewrite E.
  destruct (perm_of s au =? pNone); reflexivity.
Qed.

Lemma rule_outsider_mgr : forall s au s', manager s au = true -> rule_outsider s au s' = true.
Proof.
  intros s au s' H. apply manager_perm_nonzero in H. unfold rule_outsider. unfold_perms.
  destruct (N.eqb_spec (perm_of s au) 0); [contradiction|reflexivity].
Qed.

Lemma rule_self_same : forall s au s', perm_of s' au = perm_of s au -> rule_self s au s' = true.
Proof. intros s au s' E. unfold rule_self. rewrite E, N.eqb_refl. now rewrite !orb_true_r. Qed.

Lemma rule_self_mgr : forall s au s', manager s au = true -> rule_self s au s' = true.
Proof. intros s au s' H. unfold rule_self. now rewrite H. Qed.

Lemma rule_options_same : forall s au s', options s' = options s -> rule_options s au s' = true.
Proof.
  intros s au s' E. unfold rule_options. rewrite E.
  rewrite list_eqb_refl; [reflexivity|].
  intros [r o]. unfold opt_entry_eqb, pair_eqb. cbn. rewrite N.eqb_refl.
  destruct o as [[]|]; reflexivity.
Qed.

Lemma rule_keys_same : forall s au s', keychanges s' = keychanges s -> rule_keys s au s' = true.
Proof. intros s au s' E. unfold rule_keys. now rewrite E, list_N_eqb_refl. Qed.

Lemma rule_keys_mgr : forall s au s', manager s au = true -> rule_keys s au s' = true.
Proof. intros s au s' H. unfold rule_keys. rewrite H. apply orb_true_r. Qed.

Lemma one_owner_perm_same : forall s s', (forall a, perm_of s' a = perm_of s a) -> one_owner s -> one_owner s'.
Proof.
  intros s s' E [o [Ho Hu]]. exists o. split.
  - now rewrite E.
  - intros a Ha. rewrite E in Ha. now apply Hu.
Qed.

Lemma invites_ok_same : forall s s', invites s' = invites s -> invites_ok s -> invites_ok s'.
Proof. intros s s' E H. unfold invites_ok. now rewrite E. Qed.

(* a step that leaves every permission and the invite table alone, with a manager as author, or touching only the
   author's own account/pending entry *)
Lemma StepOK_local : forall s au s',
  (forall a, perm_of s' a = perm_of s a) ->
  (manager s au = true \/
   forall a, a <> au -> status_of s' a = status_of s a /\ mget a (pending s') = mget a (pending s)) ->
  invites s' = invites s ->
  (forall r, rule_request s au s' r = true) ->
  rule_options s au s' = true -> rule_keys s au s' = true ->
  StepOK s au s'.
Proof.
  intros s au s' Hp Hm Hi Hr Ho Hk. unfold StepOK. repeat split; try assumption.
  - intros a. apply rule_account_perm_same; [apply Hp|].
    destruct Hm as [Hm|Hm]; [now left|].
    destruct (N.eq_dec a au) as [->|Hne]; [right; now left|].
    right. right. now apply Hm.
  - intros r. now apply rule_invite_same.
  - apply rule_outsider_same. apply Hp.
  - apply rule_self_same. apply Hp.
Qed.

(* ------------------------------------------------------------------ structural facts *)
Lemma perm_of_accounts_eq : forall s s' a, accounts s' = accounts s -> perm_of s' a = perm_of s a.
Proof. intros s s' a E. unfold perm_of, acc_of. now rewrite E. Qed.
Lemma status_of_accounts_eq : forall s s' a, accounts s' = accounts s -> status_of s' a = status_of s a.
Proof. intros s s' a E. unfold status_of, acc_of. now rewrite E. Qed.

Lemma drop_request_accounts : forall s req, accounts (drop_request s req) = accounts s.
Proof. intros. unfold drop_request. destruct (mget req (requests s)); reflexivity. Qed.
Lemma drop_request_invites : forall s req, invites (drop_request s req) = invites s.
Proof. intros. unfold drop_request. destruct (mget req (requests s)); reflexivity. Qed.
Lemma drop_request_options : forall s req, options (drop_request s req) = options s.
Proof. intros. unfold drop_request. destruct (mget req (requests s)); reflexivity. Qed.
Lemma drop_request_keychanges : forall s req, keychanges (drop_request s req) = keychanges s.
Proof. intros. unfold drop_request. destruct (mget req (requests s)); reflexivity. Qed.
Lemma drop_request_requests : forall s req, requests (drop_request s req) = mdel req (requests s).
Proof. intros. unfold drop_request. destruct (mget req (requests s)); reflexivity. Qed.
Lemma drop_request_pending_other : forall s req a,
  (forall q, mget req (requests s) = Some q -> r_ident q <> a) ->
  mget a (pending (drop_request s req)) = mget a (pending s).
Proof.
  intros s req a H. unfold drop_request. destruct (mget req (requests s)) as [q|] eqn:E; cbn [pending set_reqs]; [|reflexivity].
  apply mget_mdel_neq. intros ->. now apply (H q).
Qed.

Section Unpack.
  Variable me : acct.
  Lemma unpack_accounts : forall s a, accounts (unpack_if_me me s a) = accounts s.
  Proof. intros. unfold unpack_if_me. destruct (a =? me); reflexivity. Qed.
  Lemma unpack_invites : forall s a, invites (unpack_if_me me s a) = invites s.
  Proof. intros. unfold unpack_if_me. destruct (a =? me); reflexivity. Qed.
  Lemma unpack_requests : forall s a, requests (unpack_if_me me s a) = requests s.
  Proof. intros. unfold unpack_if_me. destruct (a =? me); reflexivity. Qed.
  Lemma unpack_pending : forall s a, pending (unpack_if_me me s a) = pending s.
  Proof. intros. unfold unpack_if_me. destruct (a =? me); reflexivity. Qed.
  Lemma unpack_options : forall s a, options (unpack_if_me me s a) = options s.
  Proof. intros. unfold unpack_if_me. destruct (a =? me); reflexivity. Qed.
  Lemma unpack_keychanges : forall s a, keychanges (unpack_if_me me s a) = keychanges s.
  Proof. intros. unfold unpack_if_me. destruct (a =? me); reflexivity. Qed.
End Unpack.

Lemma mget_mdel_Some : forall {V} (m : list (N * V)) k k' x, mget k' (mdel k m) = Some x -> mget k' m = Some x.
Proof.
  intros V m k k' x H. rewrite mget_mdel in H. destruct (k' =? k); [discriminate|assumption].
Qed.

(* the id of the record being applied names no request of another account *)
Definition req_fresh (s : state) (au : acct) (r : rid) : Prop :=
  forall q, mget r (requests s) = Some q -> r_ident q = au.

Lemma req_fresh_same : forall s s' au r, requests s' = requests s -> req_fresh s au r -> req_fresh s' au r.
Proof. intros s s' au r E H. unfold req_fresh. now rewrite E. Qed.

Lemma req_fresh_mdel : forall s s' au r k, requests s' = mdel k (requests s) -> req_fresh s au r -> req_fresh s' au r.
Proof. intros s s' au r k E H q Hq. rewrite E in Hq. apply mget_mdel_Some in Hq. now apply H. Qed.

Lemma one_owner_owner_same : forall s s', (forall a, is_owner s' a = is_owner s a) -> one_owner s -> one_owner s'.
Proof.
  intros s s' E [o [Ho Hu]]. unfold is_owner in E. exists o. split.
  - specialize (E o). rewrite Ho in E. cbn in E. now apply N.eqb_eq in E.
  - intros a Ha. apply Hu. specialize (E a). rewrite Ha in E. cbn in E. symmetry in E. now apply N.eqb_eq in E.
Qed.

(* ------------------------------------------------------------------ StepOK builders *)
Lemma StepOK_perm_same : forall s au s',
  (forall a, perm_of s' a = perm_of s a) ->
  (manager s au = true \/
   forall a, a <> au -> status_of s' a = status_of s a /\ mget a (pending s') = mget a (pending s)) ->
  (forall r, rule_invite s au s' r = true) ->
  (forall r, rule_request s au s' r = true) ->
  rule_options s au s' = true -> rule_keys s au s' = true ->
  StepOK s au s'.
Proof.
  intros s au s' Hp Hm Hi Hr Ho Hk. unfold StepOK. repeat split; try assumption.
  - intros a. apply rule_account_perm_same; [apply Hp|].
    destruct Hm as [Hm|Hm]; [now left|].
    destruct (N.eq_dec a au) as [->|Hne]; [right; now left|].
    right. right. now apply Hm.
  - apply rule_outsider_same. apply Hp.
  - apply rule_self_same. apply Hp.
Qed.

Lemma StepOK_accounts_mgr : forall s au s',
  manager s au = true ->
  (forall a, rule_account s au s' a = true) ->
  invites s' = invites s -> options s' = options s ->
  StepOK s au s'.
Proof.
  intros s au s' Hm Ha Hi Ho. unfold StepOK. repeat split.
  - exact Ha.
  - intros r. now apply rule_invite_same.
  - intros r. now apply rule_request_mgr.
  - now apply rule_outsider_mgr.
  - now apply rule_self_mgr.
  - now apply rule_options_same.
  - now apply rule_keys_mgr.
Qed.

Lemma rule_invite_mgr : forall s au s' r,
  manager s au = true ->
  (forall i', mget r (invites s') = Some i' -> admin_invite i' = true ->
              is_owner s au = true \/ mget r (invites s) = Some i') ->
  rule_invite s au s' r = true.
Proof.
  intros s au s' r Hm H. unfold rule_invite. rewrite Hm, orb_true_r. cbn [andb].
  destruct (mget r (invites s')) as [i'|] eqn:E; [|reflexivity].
  destruct (admin_invite i') eqn:A; cbn [negb orb]; [|reflexivity].
  destruct (H i' eq_refl A) as [Ho|Hs].
  - now rewrite Ho.
  - rewrite Hs, A. apply orb_true_r.
Qed.

Lemma StepOK_invites_mgr : forall s au s',
  manager s au = true ->
  accounts s' = accounts s -> requests s' = requests s ->
  options s' = options s -> keychanges s' = keychanges s ->
  (forall r i', mget r (invites s') = Some i' -> admin_invite i' = true ->
                is_owner s au = true \/ mget r (invites s) = Some i') ->
  StepOK s au s'.
Proof.
  intros s au s' Hm Ha Hr Ho Hk Hi. apply StepOK_perm_same.
  - intros a. now apply perm_of_accounts_eq.
  - now left.
  - intros r. apply rule_invite_mgr; [assumption|apply Hi].
  - intros r. now apply rule_request_same.
  - now apply rule_options_same.
  - now apply rule_keys_same.
Qed.

Lemma invites_ok_mset : forall s r x, invites_ok s -> invite_ok x = true ->
  forall s', invites s' = mset r x (invites s) -> invites_ok s'.
Proof.
  intros s r x H Hx s' E r0 i Hin. rewrite E in Hin. apply In_mset in Hin.
  destruct Hin as [Heq|Hin]; [injection Heq as -> ->; assumption|now apply (H r0)].
Qed.

Lemma invites_ok_mdel : forall s r, invites_ok s -> forall s', invites s' = mdel r (invites s) -> invites_ok s'.
Proof. intros s r H s' E r0 i Hin. rewrite E in Hin. apply In_mdel in Hin. now apply (H r0). Qed.

(* ------------------------------------------------------------------ per content kind *)
Section Kinds.
  Variable me : acct.

  Lemma options_ok : forall s au r o s',
    Inv s -> req_fresh s au r -> apply_options true s au r o = Some s' ->
    StepOK s au s' /\ Inv s' /\ req_fresh s' au r.
  Proof.
    intros s au r o s' [Hoo Hio] Hf H. unfold apply_options in H. cbn [andb] in H.
    destruct (perm_of s au =? pOwner) eqn:E; cbn in H; [|discriminate].
    injection H as <-. split; [|split].
    - apply StepOK_perm_same; cbn; try reflexivity.
      + left. now apply owner_manager.
      + intros r0. now apply rule_invite_same.
      + intros r0. now apply rule_request_same.
      + unfold rule_options, is_owner. rewrite E. apply orb_true_r.
      + now apply rule_keys_same.
    - split; [|exact Hio]. now apply (one_owner_perm_same s).
    - exact Hf.
  Qed.

  Lemma empty_ok : forall s au, StepOK s au s.
  Proof.
    intros s au. apply StepOK_perm_same; try reflexivity.
    - right. intros. split; reflexivity.
    - intros r. now apply rule_invite_same.
    - intros r. now apply rule_request_same.
    - now apply rule_options_same.
    - now apply rule_keys_same.
  Qed.

  Lemma invite_kind_ok : forall s au r key ty p he s',
    Inv s -> req_fresh s au r -> apply_invite true s au r key ty p he = Some s' ->
    StepOK s au s' /\ Inv s' /\ req_fresh s' au r.
  Proof.
    intros s au r key ty p he s' [Hoo Hio] Hf H. unfold apply_invite in H.
    destruct (parse_ok key); cbn in H; [|discriminate].
    destruct (validate_invite s au ty p he) eqn:V; cbn in H; [|discriminate].
    injection H as <-. unfold validate_invite in V. apply andb_true_iff in V. destruct V as [Vm Vt].
    split; [|split].
    - apply StepOK_invites_mgr; try reflexivity; [exact Vm|].
      intros r0 i' Hg Ha. cbn [invites set_invites] in Hg. rewrite mget_mset in Hg.
      destruct (r0 =? r); [|now right].
      injection Hg as <-. left. unfold admin_invite in Ha. cbn in Ha.
      apply andb_true_iff in Ha. destruct Ha as [Ht Hp]. rewrite Ht in Vt.
      split_andb. apply N.eqb_eq in Hp. subst p. unfold is_owner.
      destruct (perm_of s au =? pOwner); [reflexivity|]. cbn in *. discriminate.
    - split; [now apply (one_owner_perm_same s)|].
      eapply invites_ok_mset; [exact Hio| |reflexivity].
      unfold invite_ok. cbn. destruct (ty =? tAnyoneCanJoin); [|reflexivity]. cbn.
      split_andb. brw.
    - exact Hf.
  Qed.

  Lemma invite_change_ok : forall s au r inv p s',
    Inv s -> req_fresh s au r -> apply_invite_change true s au inv p = Some s' ->
    StepOK s au s' /\ Inv s' /\ req_fresh s' au r.
  Proof.
    intros s au r inv p s' [Hoo Hio] Hf H. unfold apply_invite_change in H.
    destruct (validate_invite_change s au inv p) eqn:V; cbn in H; [|discriminate].
    injection H as <-. unfold validate_invite_change in V. apply andb_true_iff in V. destruct V as [Vm Vt].
    destruct (mget inv (invites s)) as [i|] eqn:Ei; [|discriminate].
    split; [|split].
    - apply StepOK_invites_mgr; try reflexivity; [exact Vm|].
      intros r0 i' Hg Ha. cbn [invites set_invites] in Hg. rewrite mget_mset in Hg.
      destruct (r0 =? inv); [|now right].
      injection Hg as <-. left. unfold admin_invite in Ha. cbn in Ha.
      apply andb_true_iff in Ha. destruct Ha as [Ht Hp]. apply N.eqb_eq in Hp. subst p.
      split_andb. unfold is_owner.
      destruct (perm_of s au =? pOwner); [reflexivity|]. cbn in *. discriminate.
    - split; [now apply (one_owner_perm_same s)|].
      eapply invites_ok_mset; [exact Hio| |reflexivity].
      unfold invite_ok. cbn. split_andb. brw.
    - exact Hf.
  Qed.

  Lemma invite_revoke_ok : forall s au r inv s',
    Inv s -> req_fresh s au r -> apply_invite_revoke true s au inv = Some s' ->
    StepOK s au s' /\ Inv s' /\ req_fresh s' au r.
  Proof.
    intros s au r inv s' [Hoo Hio] Hf H. unfold apply_invite_revoke in H.
    destruct (can_manage (perm_of s au) && mhas inv (invites s)) eqn:V; cbn in H; [|discriminate].
    injection H as <-. apply andb_true_iff in V. destruct V as [Vm _].
    split; [|split].
    - apply StepOK_invites_mgr; try reflexivity; [exact Vm|].
      intros r0 i' Hg Ha. cbn [invites set_invites] in Hg. right. now apply mget_mdel_Some in Hg.
    - split; [now apply (one_owner_perm_same s)|].
      eapply invites_ok_mdel; [exact Hio|reflexivity].
    - exact Hf.
  Qed.

  Lemma read_key_change_ok : forall s au r rk s',
    Inv s -> req_fresh s au r -> apply_read_key_change true me s au r rk = Some s' ->
    StepOK s au s' /\ Inv s' /\ req_fresh s' au r.
  Proof.
    intros s au r rk s' [Hoo Hio] Hf H. unfold apply_read_key_change in H.
    destruct (can_manage (perm_of s au) && validate_rk s rk []) eqn:V; cbn in H; [|discriminate].
    apply andb_true_iff in V. destruct V as [Vm _].
    unfold do_rk in H. destruct (negb (rk_meta_ok rk)); [discriminate|].
    destruct (negb (forallb parse_ok (rk_invites rk))); [discriminate|].
    injection H as <-. split; [|split].
    - apply StepOK_perm_same; cbn; try reflexivity.
      + now left.
      + intros r0. now apply rule_invite_same.
      + intros r0. now apply rule_request_same.
      + now apply rule_options_same.
      + now apply rule_keys_mgr.
    - split; [now apply (one_owner_perm_same s)|exact Hio].
    - exact Hf.
  Qed.

  Lemma decline_ok : forall s au r req s',
    Inv s -> req_fresh s au r -> apply_request_decline true s au req = Some s' ->
    StepOK s au s' /\ Inv s' /\ req_fresh s' au r.
  Proof.
    intros s au r req s' [Hoo Hio] Hf H. unfold apply_request_decline in H.
    destruct (mget req (requests s)) as [q|] eqn:Eq; cbn [andb] in H.
    2:{ rewrite andb_false_r in H. cbn in H. discriminate. }
    destruct (can_manage (perm_of s au) && rtype_eqb (r_type q) RJoin) eqn:V; cbn in H; [|discriminate].
    apply andb_true_iff in V. destruct V as [Vm _].
    destruct (mget (r_ident q) (accounts s)) as [x|] eqn:Ex; [|discriminate].
    injection H as <-.
    assert (Hp : forall a, perm_of (drop_request (set_acc s (r_ident q) (mkAccount (a_perm x) SDeclined (a_keyrec x) (a_hist x))) req) a = perm_of s a).
    { intros a. rewrite (perm_of_accounts_eq _ _ a (drop_request_accounts _ _)).
      rewrite perm_of_set_acc. destruct (N.eqb_spec a (r_ident q)) as [->|]; [|reflexivity].
      cbn. unfold perm_of, acc_of. now rewrite Ex. }
    split; [|split].
    - apply StepOK_perm_same.
      + exact Hp.
      + now left.
      + intros r0. apply rule_invite_same. now rewrite drop_request_invites.
      + intros r0. now apply rule_request_mgr.
      + apply rule_options_same. now rewrite drop_request_options.
      + now apply rule_keys_mgr.
    - split; [now apply (one_owner_perm_same s)|].
      eapply invites_ok_same; [|exact Hio]. now rewrite drop_request_invites.
    - eapply req_fresh_mdel; [|exact Hf]. rewrite drop_request_requests. reflexivity.
  Qed.

  Lemma cancel_ok : forall s au r req s',
    Inv s -> req_fresh s au r -> apply_request_cancel true s au req = Some s' ->
    StepOK s au s' /\ Inv s' /\ req_fresh s' au r.
  Proof.
    intros s au r req s' [Hoo Hio] Hf H. unfold apply_request_cancel in H.
    destruct (mget req (requests s)) as [q|] eqn:Eq; cbn [andb negb] in H; [|discriminate].
    destruct (N.eqb_spec (r_ident q) au) as [Eau|]; cbn in H; [|discriminate].
    destruct (mget (r_ident q) (accounts s)) as [x|] eqn:Ex; [|discriminate].
    injection H as <-. rewrite Eau in *.
    set (st := match r_type q with RJoin => SCanceled | RRemove => SActive end).
    set (s1 := set_acc s au (mkAccount (a_perm x) st (a_keyrec x) (a_hist x))).
    assert (Hp : forall a, perm_of (drop_request s1 req) a = perm_of s a).
    { intros a. rewrite (perm_of_accounts_eq _ _ a (drop_request_accounts _ _)).
      unfold s1. rewrite perm_of_set_acc. destruct (N.eqb_spec a au) as [->|]; [|reflexivity].
      cbn. unfold perm_of, acc_of. now rewrite Ex. }
    split; [|split].
    - apply StepOK_perm_same.
      + exact Hp.
      + right. intros a Hne. split.
        * rewrite (status_of_accounts_eq _ _ a (drop_request_accounts _ _)).
          unfold s1. rewrite status_of_set_acc. destruct (N.eqb_spec a au); [contradiction|reflexivity].
        * rewrite drop_request_pending_other; [reflexivity|].
          intros q0 Hq0. unfold s1 in Hq0. cbn [requests set_acc] in Hq0. rewrite Eq in Hq0.
          injection Hq0 as <-. congruence.
      + intros r0. apply rule_invite_same. now rewrite drop_request_invites.
      + intros r0. unfold rule_request. rewrite drop_request_requests. unfold s1. cbn [requests set_acc].
        rewrite mget_mdel. destruct (N.eqb_spec r0 req) as [->|].
        * rewrite Eq. cbn. rewrite Eau, N.eqb_refl. apply orb_true_r.
        * now rewrite (opt_eqb_refl request_eqb _ request_eqb_refl).
      + apply rule_options_same. now rewrite drop_request_options.
      + apply rule_keys_same. now rewrite drop_request_keychanges.
    - split; [now apply (one_owner_perm_same s)|].
      eapply invites_ok_same; [|exact Hio]. now rewrite drop_request_invites.
    - eapply req_fresh_mdel; [|exact Hf]. rewrite drop_request_requests. reflexivity.
  Qed.

  Lemma rule_request_add_own : forall s au s' r q,
    req_fresh s au r -> r_ident q = au ->
    requests s' = mset r q (requests s) ->
    forall r0, rule_request s au s' r0 = true.
  Proof.
    intros s au s' r q Hf Hq E r0. unfold rule_request. rewrite E, mget_mset.
    destruct (N.eqb_spec r0 r) as [->|].
    - destruct (mget r (requests s)) as [q0|] eqn:E0.
      + rewrite (Hf q0 E0), Hq, N.eqb_refl. cbn. apply orb_true_r.
      + rewrite Hq, N.eqb_refl. cbn. apply orb_true_r.
    - now rewrite (opt_eqb_refl request_eqb _ request_eqb_refl).
  Qed.

  Lemma req_fresh_add_own : forall s au s' r q,
    r_ident q = au -> requests s' = mset r q (requests s) -> req_fresh s' au r.
  Proof. intros s au s' r q Hq E q0 H0. rewrite E, mget_mset_eq in H0. injection H0 as <-. exact Hq. Qed.

  Lemma request_remove_ok : forall s au r s',
    Inv s -> req_fresh s au r -> apply_request_remove true s au r = Some s' ->
    StepOK s au s' /\ Inv s' /\ req_fresh s' au r.
  Proof.
    intros s au r s' [Hoo Hio] Hf H. unfold apply_request_remove in H. cbn [andb] in H.
    destruct (negb (perm_of s au =? pNone) && negb (perm_of s au =? pOwner) && negb (mhas au (pending s))); cbn in H; [|discriminate].
    destruct (can_request_remove (perm_of s au)); cbn in H; [|discriminate].
    destruct (mget au (accounts s)) as [x|] eqn:Ex; [|discriminate].
    injection H as <-.
    assert (Hp : forall a, perm_of (set_acc (set_reqs s (mset r (mkRequest au RRemove 0) (requests s)) (mset au r (pending s))) au
                                      (mkAccount (a_perm x) SRemoving (a_keyrec x) (a_hist x))) a = perm_of s a).
    { intros a. rewrite perm_of_set_acc. destruct (N.eqb_spec a au) as [->|]; [|reflexivity].
      cbn. unfold perm_of, acc_of. now rewrite Ex. }
    split; [|split].
    - apply StepOK_perm_same.
      + exact Hp.
      + right. intros a Hne. split.
        * rewrite status_of_set_acc. destruct (N.eqb_spec a au); [contradiction|reflexivity].
        * cbn [pending set_acc set_reqs]. now apply mget_mset_neq.
      + intros r0. now apply rule_invite_same.
      + eapply rule_request_add_own; [exact Hf| |reflexivity]. reflexivity.
      + now apply rule_options_same.
      + now apply rule_keys_same.
    - split; [now apply (one_owner_perm_same s)|exact Hio].
    - eapply req_fresh_add_own; [|reflexivity]. reflexivity.
  Qed.

  Lemma request_join_ok : forall s au r ident inv sk sm mo s',
    Inv s -> req_fresh s au r -> apply_request_join true s au r ident inv sk sm mo = Some s' ->
    StepOK s au s' /\ Inv s' /\ req_fresh s' au r.
  Proof.
    intros s au r ident inv sk sm mo s' [Hoo Hio] Hf H. unfold apply_request_join in H.
    destruct (validate_request_join s au ident inv sk sm mo) eqn:V; cbn in H; [|discriminate].
    injection H as <-. unfold validate_request_join in V.
    destruct (mget inv (invites s)) as [i|]; [|discriminate].
    split_andb.
    match goal with Hz : (perm_of s au =? pNone) = true |- _ => apply N.eqb_eq in Hz; rename Hz into Hzero end.
    set (hist := match mget au (accounts s) with Some x => a_hist x | None => [] end).
    assert (Hp : forall a, perm_of (set_acc (set_reqs s (mset r (mkRequest au RJoin (cur_key s)) (requests s)) (mset au r (pending s))) au
                                      (mkAccount pNone SJoining (cur_key s) hist)) a = perm_of s a).
    { intros a. rewrite perm_of_set_acc. destruct (N.eqb_spec a au) as [->|]; [|reflexivity].
      cbn. now rewrite Hzero. }
    split; [|split].
    - apply StepOK_perm_same.
      + exact Hp.
      + right. intros a Hne. split.
        * rewrite status_of_set_acc. destruct (N.eqb_spec a au); [contradiction|reflexivity].
        * cbn [pending set_acc set_reqs]. now apply mget_mset_neq.
      + intros r0. now apply rule_invite_same.
      + eapply rule_request_add_own; [exact Hf| |reflexivity]. reflexivity.
      + now apply rule_options_same.
      + now apply rule_keys_same.
    - split; [now apply (one_owner_perm_same s)|exact Hio].
    - eapply req_fresh_add_own; [|reflexivity]. reflexivity.
  Qed.

  (* --- permission changes: a relation that composes along the loop of applyPermissionChanges --- *)
  Definition PC (s : state) (au : acct) (s' : state) : Prop :=
    perm_of s' au = perm_of s au /\
    invites s' = invites s /\ requests s' = requests s /\ pending s' = pending s /\
    options s' = options s /\ keychanges s' = keychanges s /\
    forall a, (is_admin s a <> is_admin s' a -> is_owner s au = true) /\
              is_owner s' a = is_owner s a /\
              (perm_of s a = pGuest -> perm_of s' a = pGuest).

  Lemma PC_refl : forall s au, PC s au s.
  Proof. intros s au. unfold PC. repeat split; try reflexivity; try tauto. Qed.

  Lemma PC_trans : forall s au s1 s2, PC s au s1 -> PC s1 au s2 -> PC s au s2.
  Proof.
    intros s au s1 s2 (Hp1 & Hi1 & Hr1 & Hq1 & Ho1 & Hk1 & Ha1) (Hp2 & Hi2 & Hr2 & Hq2 & Ho2 & Hk2 & Ha2).
    unfold PC. repeat split; try congruence.
    - intros Hne. destruct (Ha1 a) as (A1 & _ & _). destruct (Ha2 a) as (A2 & _ & _).
      destruct (Bool.bool_dec (is_admin s a) (is_admin s1 a)) as [E|E]; [|now apply A1].
      assert (X : is_owner s1 au = true) by (apply A2; congruence).
      unfold is_owner in *. now rewrite Hp1 in X.
    - destruct (Ha1 a) as (_ & B1 & _). destruct (Ha2 a) as (_ & B2 & _). congruence.
    - intros Hg. destruct (Ha1 a) as (_ & _ & C1). destruct (Ha2 a) as (_ & _ & C2). auto.
  Qed.

  Lemma PC_StepOK : forall s au s', manager s au = true -> PC s au s' -> StepOK s au s'.
  Proof.
    intros s au s' Hm (Hp & Hi & Hr & Hq & Ho & Hk & Ha).
    apply StepOK_accounts_mgr; try assumption.
    intros a. destruct (Ha a) as (A & B & C). apply rule_account_mgr; try assumption.
    - intros Hne. congruence.
    - intros H1 H2. congruence.
    - intros Hg. left. now apply C.
  Qed.

  Lemma PC_Inv : forall s au s', PC s au s' -> Inv s -> Inv s'.
  Proof.
    intros s au s' (Hp & Hi & Hr & Hq & Ho & Hk & Ha) [Hoo Hio]. split.
    - apply (one_owner_owner_same s); [|assumption]. intros a. now destruct (Ha a) as (_ & B & _).
    - now apply (invites_ok_same s).
  Qed.

  Lemma perm_change_PC : forall s au r t p s',
    apply_perm_change true s au r t p = Some s' -> manager s au = true /\ PC s au s'.
  Proof.
    intros s au r t p s' H. unfold apply_perm_change in H.
    destruct (parse_ok t); cbn in H; [|discriminate].
    destruct (validate_perm_change s au t p) eqn:V; cbn in H; [|discriminate].
    injection H as <-. unfold validate_perm_change in V. split_andb.
    match goal with Hm : can_manage (perm_of s au) = true |- _ => rename Hm into Hmgr end.
    split; [exact Hmgr|].
    assert (Hne : t <> au).
    { intros ->. unfold can_manage in Hmgr. apply orb_true_iff in Hmgr. destruct Hmgr as [Hm|Hm].
      - rewrite Hm in *. cbn in *. apply N.eqb_eq in Hm. unfold_perms.
        match goal with Hx : negb (perm_of s au =? 1) = false |- _ => rewrite Hm in Hx; cbn in Hx; discriminate end.
      - match goal with Hx : (perm_of s au =? pOwner) = false |- _ => congruence end. }
    unfold PC. repeat split; try reflexivity.
    - rewrite perm_of_update_perm. destruct (N.eqb_spec au t); [congruence|reflexivity].
    - unfold is_admin, is_owner. rewrite perm_of_update_perm.
      destruct (N.eqb_spec a t) as [->|]; [|congruence]. intros Hd.
      destruct (perm_of s au =? pOwner) eqn:Eo; [reflexivity|]. exfalso. cbn in *.
      rewrite andb_true_r in *. congruence.
    - unfold is_owner. rewrite perm_of_update_perm.
      destruct (N.eqb_spec a t) as [->|]; [|reflexivity]. congruence.
    - rewrite perm_of_update_perm. destruct (N.eqb_spec a t) as [->|]; [|tauto].
      intros Hg. beq. congruence.
  Qed.

  Lemma perm_changes_PC : forall l s au r s',
    apply_perm_changes true s au r l = Some s' -> PC s au s'.
  Proof.
    induction l as [|[t p] rest IH]; intros s au r s' H; cbn [apply_perm_changes] in H.
    - injection H as <-. apply PC_refl.
    - destruct (apply_perm_change true s au r t p) as [s1|] eqn:E1; [|discriminate].
      apply perm_change_PC in E1. destruct E1 as [_ P1].
      eapply PC_trans; [exact P1|]. now apply (IH s1 au r).
  Qed.

  Lemma perm_change_ok : forall s au r t p s',
    Inv s -> req_fresh s au r -> apply_perm_change true s au r t p = Some s' ->
    StepOK s au s' /\ Inv s' /\ req_fresh s' au r.
  Proof.
    intros s au r t p s' HI Hf H. apply perm_change_PC in H. destruct H as [Hm P].
    split; [now apply PC_StepOK|split; [now apply (PC_Inv s au)|]].
    destruct P as (_ & _ & Hr & _). now apply (req_fresh_same s).
  Qed.

  Lemma perm_changes_ok : forall s au r l s',
    Inv s -> req_fresh s au r -> apply_perm_changes true s au r l = Some s' ->
    StepOK s au s' /\ Inv s' /\ req_fresh s' au r.
  Proof.
    intros s au r l s' HI Hf H.
    assert (P : PC s au s') by now apply (perm_changes_PC l s au r).
    destruct l as [|[t p] rest].
    - cbn in H. injection H as <-. split; [apply empty_ok|split; assumption].
    - cbn [apply_perm_changes] in H.
      destruct (apply_perm_change true s au r t p) as [s1|] eqn:E1; [|discriminate].
      apply perm_change_PC in E1. destruct E1 as [Hm _].
      split; [now apply PC_StepOK|split; [now apply (PC_Inv s au)|]].
      destruct P as (_ & _ & Hr & _). now apply (req_fresh_same s).
  Qed.

  (* --- ownership transfer --- *)
  Lemma ownership_ok : forall s au r n o s',
    Inv s -> req_fresh s au r -> apply_ownership false true s au r n o = Some s' ->
    StepOK s au s' /\ Inv s' /\ req_fresh s' au r.
  Proof.
    intros s au r n o s' [Hoo Hio] Hf H. unfold apply_ownership in H.
    destruct (validate_ownership false s au n o) eqn:V; cbn in H; [|discriminate].
    destruct (parse_ok n); cbn in H; [|discriminate].
    injection H as <-. unfold validate_ownership in V. cbn [orb] in V. split_andb. beq.
    match goal with Ho : perm_of s au = pOwner |- _ => rename Ho into Hown end.
    assert (Hne : n <> au) by (intros ->; congruence).
    assert (Hp : forall a, perm_of (update_perm (update_perm s au o r) n pOwner r) a =
                           if a =? n then pOwner else if a =? au then o else perm_of s a).
    { intros a. now rewrite !perm_of_update_perm. }
    assert (Hm : manager s au = true) by (apply owner_manager; unfold is_owner; now rewrite Hown).
    assert (Hio' : is_owner s au = true) by (unfold is_owner; now rewrite Hown).
    split; [|split].
    - apply StepOK_accounts_mgr; try reflexivity; [exact Hm|].
      intros a. apply rule_account_mgr; try assumption; try (intros; assumption).
      + intros Hs Hs'. destruct Hoo as [ow [Hw Hu]]. unfold is_owner in Hs. apply N.eqb_eq in Hs.
        rewrite (Hu a Hs). symmetry. now apply Hu.
      + intros Hg. left. rewrite Hp.
        destruct (N.eqb_spec a n) as [->|]; [congruence|].
        destruct (N.eqb_spec a au) as [->|]; [exfalso; rewrite Hown in Hg; discriminate|assumption].
    - split; [|exact Hio].
      exists n. split.
      + rewrite Hp. now rewrite N.eqb_refl.
      + intros a Ha. rewrite Hp in Ha.
        destruct (N.eqb_spec a n) as [Ean|Hn]; [exact Ean|].
        destruct (N.eqb_spec a au) as [Eau|Ha']; [congruence|].
        destruct Hoo as [ow [Hw Hu]]. exfalso. apply Ha'. rewrite (Hu a Ha). symmetry. now apply Hu.
    - exact Hf.
  Qed.

  (* --- request accept (repaired: only a join request of an account without permissions) --- *)
  Lemma request_accept_ok : forall s au r ident req p s',
    Inv s -> req_fresh s au r -> apply_request_accept false true me s au r ident req p = Some s' ->
    StepOK s au s' /\ Inv s' /\ req_fresh s' au r.
  Proof.
    intros s au r ident req p s' [Hoo Hio] Hf H. unfold apply_request_accept in H.
    destruct (validate_request_accept false s au ident req p) eqn:V; cbn in H; [|discriminate].
    destruct (parse_ok ident); cbn in H; [|discriminate].
    unfold validate_request_accept in V. apply andb_true_iff in V. destruct V as [Hm V].
    destruct (mget req (requests s)) as [q|] eqn:Eq; [|discriminate].
    injection H as <-. cbn [orb] in V. split_andb. beq.
    set (hist := match mget ident (accounts s) with Some x => a_hist x ++ [(r, p)] | None => [(r, p)] end).
    set (s1 := set_acc s ident (mkAccount p SActive (r_keyrec q) hist)).
    assert (Hp : forall a, perm_of (unpack_if_me me (drop_request s1 req) ident) a = if a =? ident then p else perm_of s a).
    { intros a. rewrite (perm_of_accounts_eq _ _ a (unpack_accounts _ _ _)).
      rewrite (perm_of_accounts_eq _ _ a (drop_request_accounts _ _)). unfold s1. now rewrite perm_of_set_acc. }
    match goal with Hz : perm_of s ident = pNone |- _ => rename Hz into Hzero end.
    assert (Hown : forall a, is_owner (unpack_if_me me (drop_request s1 req) ident) a = is_owner s a).
    { intros a. unfold is_owner. rewrite Hp. destruct (N.eqb_spec a ident) as [->|]; [|reflexivity].
      rewrite Hzero. unfold_perms. bcase; bfin. }
    split; [|split].
    - apply StepOK_accounts_mgr.
      + exact Hm.
      + intros a. apply rule_account_mgr; try exact Hm.
        * unfold is_admin. rewrite Hp. destruct (N.eqb_spec a ident) as [->|]; [|congruence].
          rewrite Hzero. intros Hd. unfold is_owner.
          destruct (perm_of s au =? pOwner); [reflexivity|]. exfalso. cbn in *. rewrite andb_true_r in *.
          unfold_perms. destruct (N.eqb_spec p 2); cbn in *; congruence.
        * rewrite Hown. congruence.
        * rewrite Hown. congruence.
        * intros Hg. rewrite Hp. destruct (N.eqb_spec a ident) as [->|]; [|now left]. unfold_perms. congruence.
      + rewrite unpack_invites, drop_request_invites. reflexivity.
      + rewrite unpack_options, drop_request_options. reflexivity.
    - split.
      + now apply (one_owner_owner_same s).
      + eapply invites_ok_same; [|exact Hio]. rewrite unpack_invites, drop_request_invites. reflexivity.
    - eapply req_fresh_mdel; [|exact Hf]. rewrite unpack_requests, drop_request_requests. reflexivity.
  Qed.

  (* --- accounts add --- *)
  Lemma validate_additions_In : forall s ap l, validate_additions s ap l = true ->
    forall a p, In (a, p) l ->
      perm_of s a = pNone /\ p <> pOwner /\ p <> pNone /\ (p = pAdmin -> ap = pOwner).
  Proof.
    induction l as [|[a0 p0] rest IH]; intros V a p Hin; [contradiction|].
    cbn [validate_additions] in V. split_andb. destruct Hin as [Heq|Hin].
    - injection Heq as <- <-. beq. repeat split; try assumption.
      intros ->. destruct (N.eqb_spec ap pOwner); [assumption|]. cbn in *. discriminate.
    - now apply IH.
  Qed.

  Lemma do_additions_spec : forall l s r s', do_additions me s r l = Some s' ->
    invites s' = invites s /\ requests s' = requests s /\ pending s' = pending s /\
    options s' = options s /\ keychanges s' = keychanges s /\
    forall a, (perm_of s' a = perm_of s a) \/ (exists p, In (a, p) l /\ perm_of s' a = p).
  Proof.
    induction l as [|[a0 p0] rest IH]; intros s r s' H; cbn [do_additions] in H.
    - injection H as <-. repeat split; try reflexivity. intros a. now left.
    - destruct (parse_ok a0); cbn in H; [|discriminate].
      apply IH in H. destruct H as (Hi & Hr & Hq & Ho & Hk & Ha).
      rewrite unpack_invites in Hi. rewrite unpack_requests in Hr. rewrite unpack_pending in Hq.
      rewrite unpack_options in Ho. rewrite unpack_keychanges in Hk. cbn in Hi, Hr, Hq, Ho, Hk.
      repeat split; try assumption.
      intros a. destruct (Ha a) as [E|[p [Hin E]]].
      + rewrite (perm_of_accounts_eq _ _ a (unpack_accounts _ _ _)) in E. rewrite perm_of_set_acc in E.
        destruct (N.eqb_spec a a0) as [Eaa|]; [|now left].
        right. exists p0. split; [left; now rewrite Eaa|exact E].
      + right. exists p. split; [now right|exact E].
  Qed.

  Lemma accounts_add_ok : forall s au r l s',
    Inv s -> req_fresh s au r -> apply_accounts_add true me s au r l = Some s' ->
    StepOK s au s' /\ Inv s' /\ req_fresh s' au r.
  Proof.
    intros s au r l s' [Hoo Hio] Hf H. unfold apply_accounts_add in H.
    destruct (can_manage (perm_of s au) && validate_additions s (perm_of s au) l) eqn:V; cbn in H; [|discriminate].
    apply andb_true_iff in V. destruct V as [Hm V].
    apply do_additions_spec in H. destruct H as (Hi & Hr & Hq & Ho & Hk & Ha).
    pose proof (validate_additions_In _ _ _ V) as Hv.
    assert (Hown : forall a, is_owner s' a = is_owner s a).
    { intros a. unfold is_owner. destruct (Ha a) as [E|[p [Hin E]]]; [now rewrite E|].
      destruct (Hv a p Hin) as (Hz & Hp1 & _). rewrite E, Hz. unfold_perms. bcase; bfin. }
    split; [|split].
    - apply StepOK_accounts_mgr; try assumption.
      intros a. apply rule_account_mgr; try exact Hm.
      + unfold is_admin. destruct (Ha a) as [E|[p [Hin E]]]; [rewrite E; congruence|].
        destruct (Hv a p Hin) as (Hz & Hp1 & Hp0 & Hadm). rewrite E, Hz. intros Hd.
        unfold is_owner. apply N.eqb_eq. apply Hadm. unfold_perms.
        destruct (N.eqb_spec p 2); [assumption|]. cbn in Hd. congruence.
      + rewrite Hown. congruence.
      + rewrite Hown. congruence.
      + intros Hg. destruct (Ha a) as [E|[p [Hin E]]]; [left; congruence|].
        destruct (Hv a p Hin) as (Hz & _). unfold_perms. congruence.
    - split; [now apply (one_owner_owner_same s)|now apply (invites_ok_same s)].
    - now apply (req_fresh_same s).
  Qed.

  (* --- account remove --- *)
  Lemma validate_removals_In : forall s au ap l seen, validate_removals s au ap seen l = true ->
    forall a, In a l ->
      a <> au /\ perm_of s a <> pNone /\ perm_of s a <> pOwner /\ (perm_of s a = pAdmin -> ap = pOwner).
  Proof.
    induction l as [|a0 rest IH]; intros seen V a Hin; [contradiction|].
    cbn [validate_removals] in V. split_andb. destruct Hin as [<-|Hin].
    - beq. repeat split; try assumption.
      intros Ha. match goal with Hx : (perm_of s a0 =? pAdmin) && _ = false |- _ => rewrite Ha in Hx; cbn in Hx end.
      destruct (N.eqb_spec ap pOwner); [assumption|discriminate].
    - eapply IH; eassumption.
  Qed.

  Definition drop_pending_of (s1 : state) (a0 : acct) : state :=
    match mget a0 (pending s1) with
    | Some rq => set_reqs s1 (mdel rq (requests s1)) (mdel a0 (pending s1))
    | None => s1
    end.
  Definition removed_acc (x : account) (r : rid) : account :=
    mkAccount pNone SRemoved (a_keyrec x) (a_hist x ++ [(r, pNone)]).

  Lemma do_removals_cons : forall s r a0 rest,
    do_removals s r (a0 :: rest) =
    if negb (parse_ok a0) then None
    else match mget a0 (accounts s) with
         | None => None
         | Some x => do_removals (drop_pending_of (set_acc s a0 (removed_acc x r)) a0) r rest
         end.
  Proof. reflexivity. Qed.

  Lemma drop_pending_of_accounts : forall s a, accounts (drop_pending_of s a) = accounts s.
  Proof. intros. unfold drop_pending_of. destruct (mget a (pending s)); reflexivity. Qed.
  Lemma drop_pending_of_invites : forall s a, invites (drop_pending_of s a) = invites s.
  Proof. intros. unfold drop_pending_of. destruct (mget a (pending s)); reflexivity. Qed.
  Lemma drop_pending_of_options : forall s a, options (drop_pending_of s a) = options s.
  Proof. intros. unfold drop_pending_of. destruct (mget a (pending s)); reflexivity. Qed.
  Lemma drop_pending_of_keychanges : forall s a, keychanges (drop_pending_of s a) = keychanges s.
  Proof. intros. unfold drop_pending_of. destruct (mget a (pending s)); reflexivity. Qed.
  Lemma drop_pending_of_requests : forall s a r0 q,
    mget r0 (requests (drop_pending_of s a)) = Some q -> mget r0 (requests s) = Some q.
  Proof.
    intros s a r0 q. unfold drop_pending_of. destruct (mget a (pending s)); cbn [requests set_reqs]; [|tauto].
    apply mget_mdel_Some.
  Qed.

  Lemma do_removals_spec : forall l s r s', do_removals s r l = Some s' ->
    invites s' = invites s /\ options s' = options s /\ keychanges s' = keychanges s /\
    (forall r0 q, mget r0 (requests s') = Some q -> mget r0 (requests s) = Some q) /\
    forall a, (In a l -> perm_of s' a = pNone) /\ (~ In a l -> perm_of s' a = perm_of s a).
  Proof.
    induction l as [|a0 rest IH]; intros s r s' H.
    - cbn in H. injection H as <-. repeat split; try reflexivity; try tauto. intros [].
    - rewrite do_removals_cons in H.
      destruct (negb (parse_ok a0)); [discriminate|].
      destruct (mget a0 (accounts s)) as [x|] eqn:Ex; [|discriminate].
      apply IH in H. destruct H as (Hi & Ho & Hk & Hrq & Ha).
      rewrite drop_pending_of_invites in Hi. rewrite drop_pending_of_options in Ho.
      rewrite drop_pending_of_keychanges in Hk. cbn [invites options keychanges set_acc] in Hi, Ho, Hk.
      assert (P2 : forall a, perm_of (drop_pending_of (set_acc s a0 (removed_acc x r)) a0) a =
                             if a =? a0 then pNone else perm_of s a).
      { intros a. rewrite (perm_of_accounts_eq _ _ a (drop_pending_of_accounts _ _)). now rewrite perm_of_set_acc. }
      split; [exact Hi|]. split; [exact Ho|]. split; [exact Hk|]. split.
      + intros r0 q Hq. apply Hrq in Hq. apply drop_pending_of_requests in Hq. exact Hq.
      + intros a. split.
        * intros [Heq|Hin].
          -- subst a. destruct (in_dec N.eq_dec a0 rest) as [Hr|Hr]; [now apply (Ha a0)|].
             destruct (Ha a0) as [_ Hb]. rewrite (Hb Hr). rewrite P2. now rewrite N.eqb_refl.
          -- now apply (Ha a).
        * intros Hn. destruct (Ha a) as [_ Hb]. rewrite Hb by (intros Hx; apply Hn; now right).
          rewrite P2. destruct (N.eqb_spec a a0) as [Eaa|]; [exfalso; apply Hn; now left|reflexivity].
  Qed.

  Lemma account_remove_ok : forall s au r ids rk s',
    Inv s -> req_fresh s au r -> apply_account_remove true me s au r ids rk = Some s' ->
    StepOK s au s' /\ Inv s' /\ req_fresh s' au r.
  Proof.
    intros s au r ids rk s' [Hoo Hio] Hf H. unfold apply_account_remove in H.
    destruct rk as [k|]; [|discriminate].
    destruct (can_manage (perm_of s au) && validate_removals s au (perm_of s au) [] ids && validate_rk s k ids) eqn:V;
      cbn in H; [|discriminate].
    split_andb. match goal with Hx : can_manage (perm_of s au) = true |- _ => rename Hx into Hm end.
    match goal with Hx : validate_removals _ _ _ _ _ = true |- _ => pose proof (validate_removals_In _ _ _ _ _ Hx) as Hv end.
    destruct (do_removals s r ids) as [s1|] eqn:E1; [|discriminate].
    apply do_removals_spec in E1. destruct E1 as (Hi & Ho & Hk & Hrq & Ha).
    unfold do_rk in H. destruct (negb (rk_meta_ok k)); [discriminate|].
    destruct (negb (forallb parse_ok (rk_invites k))); [discriminate|].
    injection H as <-.
    assert (Hp : forall a, (In a ids -> perm_of
       (mkState (accounts s1) (invites s1) (requests s1) (pending s1) (keychanges s1 ++ [r]) (options s1) (last s1)
          (if memN me (rk_accounts k) then mykeys s1 ++ [r] else mykeys s1)) a = pNone) /\
       (~ In a ids -> perm_of
       (mkState (accounts s1) (invites s1) (requests s1) (pending s1) (keychanges s1 ++ [r]) (options s1) (last s1)
          (if memN me (rk_accounts k) then mykeys s1 ++ [r] else mykeys s1)) a = perm_of s a)).
    { intros a. exact (Ha a). }
    match goal with |- StepOK s au ?S /\ _ => set (s' := S) in * end.
    assert (Hown : forall a, is_owner s' a = is_owner s a).
    { intros a. unfold is_owner. destruct (in_dec N.eq_dec a ids) as [Hin|Hn].
      - destruct (Hp a) as [Hz _]. rewrite (Hz Hin). destruct (Hv a Hin) as (_ & _ & Hno & _).
        unfold_perms. bcase; bfin.
      - destruct (Hp a) as [_ Hs]. now rewrite (Hs Hn). }
    split; [|split].
    - apply StepOK_accounts_mgr; try assumption.
      intros a. apply rule_account_mgr; try exact Hm.
      + unfold is_admin. destruct (in_dec N.eq_dec a ids) as [Hin|Hn].
        * destruct (Hp a) as [Hz _]. rewrite (Hz Hin). destruct (Hv a Hin) as (_ & _ & _ & Hadm).
          intros Hd. unfold is_owner. apply N.eqb_eq. apply Hadm. unfold_perms.
          destruct (N.eqb_spec (perm_of s a) 2); [assumption|]. cbn in Hd. congruence.
        * destruct (Hp a) as [_ Hs]. rewrite (Hs Hn). congruence.
      + rewrite Hown. congruence.
      + rewrite Hown. congruence.
      + intros Hg. destruct (in_dec N.eq_dec a ids) as [Hin|Hn].
        * right. now apply (Hp a).
        * left. destruct (Hp a) as [_ Hs]. now rewrite (Hs Hn).
    - split; [now apply (one_owner_owner_same s)|now apply (invites_ok_same s)].
    - (* requests only shrink *)
      intros q Hq. apply Hf. now apply Hrq.
  Qed.

  (* --- invite join --- *)
  Lemma find_req_Some : forall a ks m rq, find_req a ks m = Some rq ->
    exists q, mget rq m = Some q /\ r_ident q = a.
  Proof.
    induction ks as [|k rest IH]; intros m rq H; cbn [find_req] in H; [discriminate|].
    destruct (mget k m) as [q|] eqn:E.
    - destruct (N.eqb_spec (r_ident q) a) as [Ei|].
      + injection H as <-. now exists q.
      + now apply IH.
    - now apply IH.
  Qed.

  Lemma perm_le_not_owner : forall p q, perm_le p q = true -> p <> pNone -> p <> pOwner /\ (p = pAdmin -> q = pAdmin).
  Proof.
    intros p q H Hn. unfold perm_le in H. unfold_perms.
    destruct (N.eqb_spec p 0); [contradiction|].
    destruct (N.eqb_spec p 4); [split; [lia|intros; lia]|].
    destruct (N.eqb_spec p 3); [split; [lia|intros; lia]|].
    destruct (N.eqb_spec p 2); [|discriminate].
    split; [lia|]. intros _. now apply N.eqb_eq.
  Qed.

  Lemma invite_join_ok : forall s au r ident inv p sk sm mo he s',
    Inv s -> req_fresh s au r -> apply_invite_join true me s au r ident inv p sk sm mo he = Some s' ->
    StepOK s au s' /\ Inv s' /\ req_fresh s' au r.
  Proof.
    intros s au r ident inv p sk sm mo he s' [Hoo Hio] Hf H. unfold apply_invite_join in H.
    destruct (validate_invite_join s au ident inv p sk sm mo he) eqn:V; cbn in H; [|discriminate].
    destruct (parse_ok ident); cbn in H; [|discriminate].
    unfold validate_invite_join in V. apply andb_true_iff in V. destruct V as [Hz V].
    destruct (mget inv (invites s)) as [i|] eqn:Ei; [|discriminate].
    split_andb. apply N.eqb_eq in Hz.
    match goal with Hx : (au =? ident) = true |- _ => apply N.eqb_eq in Hx; subst ident end.
    match goal with Hx : (i_type i =? tAnyoneCanJoin) = true |- _ => rename Hx into Hty end.
    match goal with Hx : perm_le p (i_perm i) = true |- _ => rename Hx into Hle end.
    set (p' := if p =? pNone then i_perm i else p) in *.
    set (hist := match mget au (accounts s) with Some x => a_hist x ++ [(r, p')] | None => [(r, p')] end) in *.
    set (s1 := set_acc s au (mkAccount p' SActive (cur_key s) hist)) in *.
    set (s2 := match find_request_of au (requests s1) with
               | Some rq => set_reqs s1 (mdel rq (requests s1)) (mdel au (pending s1))
               | None => s1 end) in *.
    injection H as <-.
    assert (Iok : invite_ok i = true) by (apply (Hio inv); now apply mget_Some_In).
    unfold invite_ok in Iok. rewrite Hty in Iok. cbn in Iok. apply negb_true_iff in Iok.
    apply orb_false_iff in Iok. destruct Iok as [Iok Ig]. apply orb_false_iff in Iok. destruct Iok as [Io In0].
    apply N.eqb_neq in Io, In0, Ig.
    assert (Hp'1 : p' <> pOwner /\ (p' = pAdmin -> i_perm i = pAdmin)).
    { unfold p'. destruct (N.eqb_spec p pNone) as [E0|N0]; [split; [assumption|tauto]|].
      now apply perm_le_not_owner. }
    destruct Hp'1 as [Hp'1 Hp'2].
    assert (A2 : accounts s2 = accounts s1) by (unfold s2; destruct (find_request_of au (requests s1)); reflexivity).
    assert (I2 : invites s2 = invites s) by (unfold s2; destruct (find_request_of au (requests s1)); reflexivity).
    assert (O2 : options s2 = options s) by (unfold s2; destruct (find_request_of au (requests s1)); reflexivity).
    assert (K2 : keychanges s2 = keychanges s) by (unfold s2; destruct (find_request_of au (requests s1)); reflexivity).
    assert (R2 : forall r0 q, mget r0 (requests s2) = Some q -> mget r0 (requests s) = Some q).
    { intros r0 q. unfold s2. destruct (find_request_of au (requests s1)); cbn [requests set_reqs s1 set_acc]; [|tauto].
      apply mget_mdel_Some. }
    assert (Hp : forall a, perm_of (unpack_if_me me s2 au) a = if a =? au then p' else perm_of s a).
    { intros a. rewrite (perm_of_accounts_eq _ _ a (unpack_accounts _ _ _)).
      rewrite (perm_of_accounts_eq _ _ a A2). unfold s1. now rewrite perm_of_set_acc. }
    assert (Hst : forall a, a <> au -> status_of (unpack_if_me me s2 au) a = status_of s a).
    { intros a Hne. rewrite (status_of_accounts_eq _ _ a (unpack_accounts _ _ _)).
      rewrite (status_of_accounts_eq _ _ a A2). unfold s1. rewrite status_of_set_acc.
      destruct (N.eqb_spec a au); [contradiction|reflexivity]. }
    assert (Hpd : forall a, a <> au -> mget a (pending (unpack_if_me me s2 au)) = mget a (pending s)).
    { intros a Hne. rewrite unpack_pending. unfold s2. destruct (find_request_of au (requests s1)); cbn [pending set_reqs s1 set_acc].
      - now apply mget_mdel_neq.
      - reflexivity. }
    assert (Hown : forall a, is_owner (unpack_if_me me s2 au) a = is_owner s a).
    { intros a. unfold is_owner. rewrite Hp. destruct (N.eqb_spec a au) as [Eau|]; [|reflexivity].
      subst a. rewrite Hz. unfold_perms. destruct (N.eqb_spec p' 1); [contradiction|reflexivity]. }
    assert (Hrq : forall r0, rule_request s au (unpack_if_me me s2 au) r0 = true).
    { intros r0. unfold rule_request. rewrite unpack_requests. unfold s2.
      destruct (find_request_of au (requests s1)) as [rq|] eqn:Ef; cbn [requests set_reqs s1 set_acc].
      - unfold find_request_of in Ef. apply find_req_Some in Ef. cbn [requests s1 set_acc] in Ef.
        destruct Ef as [q [Eq Hq]]. rewrite mget_mdel. destruct (N.eqb_spec r0 rq) as [E0|].
        + subst r0. rewrite Eq. cbn. rewrite Hq, N.eqb_refl. apply orb_true_r.
        + now rewrite (opt_eqb_refl request_eqb _ request_eqb_refl).
      - now rewrite (opt_eqb_refl request_eqb _ request_eqb_refl). }
    split; [|split].
    - unfold StepOK. repeat split.
      + intros a. destruct (N.eq_dec a au) as [Eau|Hne].
        * subst a. unfold rule_account, rule_admin, rule_owner, rule_manager, rule_guest.
          rewrite Hown. unfold is_admin, is_owner. rewrite Hp, N.eqb_refl, Hz.
          assert (Hai : (p' =? pAdmin) = true -> has_admin_invite s = true).
          { intros Ha. apply N.eqb_eq in Ha. unfold has_admin_invite. apply existsb_exists.
            exists (inv, i). split; [now apply mget_Some_In|]. unfold admin_invite. cbn.
            rewrite Hty. rewrite (Hp'2 Ha). reflexivity. }
          unfold_perms. cbn.
          destruct (p' =? 2) eqn:Ea; cbn; [rewrite (Hai eq_refl); reflexivity|reflexivity].
        * apply rule_account_perm_same.
          -- rewrite Hp. destruct (N.eqb_spec a au); [contradiction|reflexivity].
          -- right. right. split; [now apply Hst|now apply Hpd].
      + intros r0. apply rule_invite_same. now rewrite unpack_invites.
      + exact Hrq.
      + unfold rule_outsider. rewrite Hp, N.eqb_refl, Hz. cbn.
        apply orb_true_iff. right. apply existsb_exists. exists (inv, i). split; [now apply mget_Some_In|].
        cbn. rewrite Hty. cbn. unfold p'. destruct (N.eqb_spec p pNone).
        * now rewrite N.eqb_refl.
        * rewrite Hle. apply orb_true_r.
      + unfold rule_self. rewrite Hz. unfold_perms. rewrite N.eqb_refl, orb_true_r. reflexivity.
      + apply rule_options_same. now rewrite unpack_options.
      + apply rule_keys_same. now rewrite unpack_keychanges.
    - split.
      + now apply (one_owner_owner_same s).
      + eapply invites_ok_same; [|exact Hio]. now rewrite unpack_invites.
    - intros q Hq. rewrite unpack_requests in Hq. apply R2 in Hq. now apply Hf.
  Qed.
End Kinds.

(* ------------------------------------------------------------------ every content kind, records, sequences *)
Section Machine.
  Variable me : acct.

  Theorem content_ok : forall s au r c s',
    Inv s -> req_fresh s au r -> apply_content false true me s au r c = Some s' ->
    StepOK s au s' /\ Inv s' /\ req_fresh s' au r.
  Proof.
    intros s au r c s' HI Hf H. destruct c; cbn [apply_content] in H.
    - eapply invite_kind_ok; eassumption.
    - eapply invite_revoke_ok; eassumption.
    - eapply request_join_ok; eassumption.
    - eapply request_accept_ok; eassumption.
    - eapply perm_change_ok; eassumption.
    - eapply account_remove_ok; eassumption.
    - eapply read_key_change_ok; eassumption.
    - eapply decline_ok; eassumption.
    - eapply request_remove_ok; eassumption.
    - eapply perm_changes_ok; eassumption.
    - eapply accounts_add_ok; eassumption.
    - eapply cancel_ok; eassumption.
    - eapply invite_join_ok; eassumption.
    - eapply invite_change_ok; eassumption.
    - eapply ownership_ok; eassumption.
    - eapply options_ok; eassumption.
    - injection H as <-. split; [apply empty_ok|split; assumption].
  Qed.

  (* the model satisfies spec_C04 *)
  Lemma chain_ok : forall cs s au r,
    Inv s -> req_fresh s au r -> chain_rules s au (content_chain false true me s au r cs) = true.
  Proof.
    induction cs as [|c rest IH]; intros s au r HI Hf; cbn [content_chain]; [reflexivity|].
    destruct (apply_content false true me s au r c) as [s1|] eqn:E; [|reflexivity].
    destruct (content_ok _ _ _ _ _ HI Hf E) as (Hs & HI1 & Hf1).
    cbn [chain_rules]. rewrite (StepOK_step_rules _ _ _ Hs).
    apply inv_b_iff in HI1 as Hb. rewrite Hb. cbn [andb]. now apply IH.
  Qed.

  Theorem model_spec_C04 : forall s au r cs,
    req_fresh s au r -> spec_C04 s au (content_chain false true me s au r cs) = true.
  Proof.
    intros s au r cs Hf. unfold spec_C04. destruct (inv_b s) eqn:E; [|reflexivity].
    cbn [negb orb]. apply chain_ok; [now apply inv_b_iff|assumption].
  Qed.

  (* a record = a chain of content steps by the same author *)
  Inductive Chain (au : acct) : state -> state -> Prop :=
  | Chain_nil : forall s, Chain au s s
  | Chain_cons : forall s s1 s2, StepOK s au s1 -> Inv s1 -> Chain au s1 s2 -> Chain au s s2.

  Lemma contents_chain : forall cs s au r s',
    Inv s -> req_fresh s au r -> apply_contents false true me s au r cs = Some s' ->
    Chain au s s' /\ Inv s'.
  Proof.
    induction cs as [|c rest IH]; intros s au r s' HI Hf H; cbn [apply_contents] in H.
    - injection H as <-. split; [constructor|assumption].
    - destruct (apply_content false true me s au r c) as [s1|] eqn:E; [|discriminate].
      destruct (content_ok _ _ _ _ _ HI Hf E) as (Hs & HI1 & Hf1).
      destruct (IH _ _ _ _ HI1 Hf1 H) as [Hc HI'].
      split; [econstructor; eassumption|assumption].
  Qed.

  Lemma Inv_set_last : forall s r, Inv s -> Inv (set_last s r).
  Proof.
    intros s r [Hoo Hio]. split.
    - now apply (one_owner_perm_same s).
    - now apply (invites_ok_same s).
  Qed.

  Theorem record_ok : forall s au r cs s',
    Inv s -> req_fresh s au r -> apply_record false true me s au r cs = Some s' ->
    Inv s' /\ exists s1, Chain au s s1 /\ s' = set_last s1 r.
  Proof.
    intros s au r cs s' HI Hf H. unfold apply_record in H.
    destruct (apply_contents false true me s au r cs) as [s1|] eqn:E; [|discriminate].
    injection H as <-. destruct (contents_chain _ _ _ _ _ HI Hf E) as [Hc HI1].
    split; [now apply Inv_set_last|]. exists s1. split; [assumption|reflexivity].
  Qed.

  (* sequences of records: rejected records leave the state alone *)
  Definition rec_t : Type := acct * rid * list content.
  Definition step_rec (s : state) (x : rec_t) : state :=
    let '(au, r, cs) := x in
    match apply_record false true me s au r cs with Some s' => s' | None => s end.
  Definition run (s : state) (recs : list rec_t) : state := fold_left step_rec recs s.
  (* every record id is new: it names no request record yet (ids are CIDs; AddRawRecord refuses known ids) *)
  Definition fresh_b (s : state) (r : rid) : bool := negb (mhas r (requests s)).
  Fixpoint fresh_run_b (s : state) (recs : list rec_t) : bool :=
    match recs with
    | [] => true
    | x :: rest => fresh_b s (snd (fst x)) && fresh_run_b (step_rec s x) rest
    end.

  Lemma fresh_b_req_fresh : forall s au r, fresh_b s r = true -> req_fresh s au r.
  Proof.
    intros s au r H q Hq. unfold fresh_b, mhas in H. rewrite Hq in H. discriminate.
  Qed.

  Lemma Inv_init : forall owner root opts, Inv (init_state me owner root opts).
  Proof.
    intros owner root opts. split.
    - exists owner. unfold perm_of, acc_of, init_state. cbn [accounts mget]. split.
      + now rewrite N.eqb_refl.
      + intros a. destruct (N.eqb_spec a owner); [auto|]. cbn. unfold_perms. discriminate.
    - intros r i []. 
  Qed.

  Theorem run_inv : forall recs s, Inv s -> fresh_run_b s recs = true -> Inv (run s recs).
  Proof.
    induction recs as [|[[au r] cs] rest IH]; intros s HI Hf; [assumption|].
    cbn [fresh_run_b fst snd] in Hf. apply andb_true_iff in Hf. destruct Hf as [Hf1 Hf2].
    unfold run. cbn [fold_left]. apply IH; [|assumption].
    unfold step_rec. destruct (apply_record false true me s au r cs) as [s'|] eqn:E; [|assumption].
    now destruct (record_ok _ _ _ _ _ HI (fresh_b_req_fresh _ au _ Hf1) E).
  Qed.

  (* every accepted record along a run is a chain of rule-abiding content steps *)
  Theorem run_steps : forall recs s pre au r cs post s',
    Inv s -> fresh_run_b s recs = true -> recs = pre ++ (au, r, cs) :: post ->
    apply_record false true me (run s pre) au r cs = Some s' ->
    Inv (run s pre) /\ Inv s' /\ exists s1, Chain au (run s pre) s1 /\ s' = set_last s1 r.
  Proof.
    intros recs s pre. revert recs s.
    induction pre as [|[[au0 r0] cs0] pre IH]; intros recs s au r cs post s' HI Hf -> H.
    - cbn [run fold_left app] in *. cbn [fresh_run_b fst snd] in Hf. apply andb_true_iff in Hf.
      destruct Hf as [Hf1 _].
      destruct (record_ok _ _ _ _ _ HI (fresh_b_req_fresh _ au _ Hf1) H) as [HI' Hx]. auto.
    - cbn [app fresh_run_b fst snd] in Hf. apply andb_true_iff in Hf. destruct Hf as [Hf1 Hf2].
      unfold run in *. cbn [fold_left] in *.
      eapply IH; [|exact Hf2|reflexivity|exact H].
      unfold step_rec. destruct (apply_record false true me s au0 r0 cs0) as [s0|] eqn:E; [|assumption].
      now destruct (record_ok _ _ _ _ _ HI (fresh_b_req_fresh _ au0 _ Hf1) E).
  Qed.
End Machine.

(* ------------------------------------------------------------------ the rules in property language *)
Section Readable.
  Variables (s : state) (au : acct) (s' : state).
  Hypothesis Hstep : StepOK s au s'.

  Lemma rule_account_of : forall a, rule_account s au s' a = true. Proof. intros a. now destruct Hstep. Qed.

  Lemma admin_granted : forall a, perm_of s' a = pAdmin -> perm_of s a <> pAdmin ->
    perm_of s au = pOwner \/ (a = au /\ perm_of s a = pNone /\ has_admin_invite s = true).
  Proof.
    intros a H1 H0. pose proof (rule_account_of a) as R. unfold rule_account, rule_admin in R.
    apply andb_true_iff in R. destruct R as [R _]. apply andb_true_iff in R. destruct R as [R _].
    apply andb_true_iff in R. destruct R as [R _].
    unfold is_admin, is_owner in R. rewrite H1 in R. apply N.eqb_neq in H0. rewrite H0 in R.
    cbn in R. apply orb_true_iff in R. destruct R as [R|R].
    - left. now apply N.eqb_eq.
    - right. split_andb. beq. auto.
  Qed.

  Lemma admin_revoked : forall a, perm_of s a = pAdmin -> perm_of s' a <> pAdmin -> perm_of s au = pOwner.
  Proof.
    intros a H0 H1. pose proof (rule_account_of a) as R. unfold rule_account, rule_admin in R.
    apply andb_true_iff in R. destruct R as [R _]. apply andb_true_iff in R. destruct R as [R _].
    apply andb_true_iff in R. destruct R as [R _].
    unfold is_admin, is_owner in R. rewrite H0 in R. apply N.eqb_neq in H1. rewrite H1 in R.
    cbn in R. rewrite andb_false_r in R. cbn in R. rewrite orb_false_r in R. now apply N.eqb_eq.
  Qed.

  Lemma ownership_changed : forall a, (perm_of s a =? pOwner) <> (perm_of s' a =? pOwner) -> perm_of s au = pOwner.
  Proof.
    intros a Hd. pose proof (rule_account_of a) as R. unfold rule_account, rule_owner in R.
    apply andb_true_iff in R. destruct R as [R _]. apply andb_true_iff in R. destruct R as [R _].
    apply andb_true_iff in R. destruct R as [_ R]. apply andb_true_iff in R. destruct R as [R _].
    unfold is_owner in R. apply N.eqb_eq.
    destruct (perm_of s a =? pOwner), (perm_of s' a =? pOwner); cbn in R; try assumption; congruence.
  Qed.

  Lemma owner_untouchable : forall a, perm_of s a = pOwner -> perm_of s' a <> pOwner -> a = au.
  Proof.
    intros a H0 H1. pose proof (rule_account_of a) as R. unfold rule_account, rule_owner in R.
    apply andb_true_iff in R. destruct R as [R _]. apply andb_true_iff in R. destruct R as [R _].
    apply andb_true_iff in R. destruct R as [_ R]. apply andb_true_iff in R. destruct R as [_ R].
    unfold is_owner in R. rewrite H0 in R. apply N.eqb_neq in H1. rewrite H1 in R. cbn in R. now apply N.eqb_eq.
  Qed.

  Lemma others_by_managers : forall a, a <> au ->
    perm_of s' a <> perm_of s a \/ status_of s' a <> status_of s a \/ mget a (pending s') <> mget a (pending s) ->
    manager s au = true.
  Proof.
    intros a Hne Hd. pose proof (rule_account_of a) as R. unfold rule_account, rule_manager in R.
    apply andb_true_iff in R. destruct R as [R _]. apply andb_true_iff in R. destruct R as [_ R].
    destruct (manager s au); [reflexivity|]. exfalso.
    destruct (N.eqb_spec a au); [contradiction|]. cbn in R. unfold acc_same in R. split_andb. beq.
    match goal with Hx : status_eqb _ _ = true |- _ => apply status_eqb_eq in Hx; rename Hx into Hst end.
    match goal with Hx : opt_eqb N.eqb _ _ = true |- _ => rename Hx into Hpd end.
    destruct Hd as [Hd|[Hd|Hd]]; [congruence|congruence|].
    apply Hd. destruct (mget a (pending s)) as [x|], (mget a (pending s')) as [y|]; cbn in Hpd; try discriminate; try reflexivity.
    apply N.eqb_eq in Hpd. now subst.
  Qed.

  Lemma guest_frozen : forall a, perm_of s a = pGuest -> perm_of s' a = pGuest \/ perm_of s' a = pNone.
  Proof.
    intros a Hg. pose proof (rule_account_of a) as R. unfold rule_account, rule_guest in R.
    apply andb_true_iff in R. destruct R as [_ R]. rewrite Hg in R. cbn in R.
    apply orb_true_iff in R. destruct R as [R|R]; beq; auto.
  Qed.

  Lemma invites_by_managers : forall r,
    opt_eqb invite_eqb (mget r (invites s)) (mget r (invites s')) = false -> manager s au = true.
  Proof.
    intros r Hd. destruct Hstep as (_ & Hi & _). specialize (Hi r). unfold rule_invite in Hi.
    apply andb_true_iff in Hi. destruct Hi as [Hi _]. rewrite Hd in Hi. exact Hi.
  Qed.

  Lemma admin_invite_owner_only : forall r i',
    mget r (invites s') = Some i' -> admin_invite i' = true ->
    perm_of s au = pOwner \/ exists i, mget r (invites s) = Some i /\ admin_invite i = true.
  Proof.
    intros r i' Hg Ha. destruct Hstep as (_ & Hi & _). specialize (Hi r). unfold rule_invite in Hi.
    apply andb_true_iff in Hi. destruct Hi as [_ Hi]. rewrite Hg, Ha in Hi. cbn in Hi.
    apply orb_true_iff in Hi. destruct Hi as [Hi|Hi].
    - left. now apply N.eqb_eq.
    - right. destruct (mget r (invites s)) as [i|]; [|discriminate]. now exists i.
  Qed.

  Lemma options_owner_only : list_eqb opt_entry_eqb (options s) (options s') = false -> perm_of s au = pOwner.
  Proof.
    intros Hd. destruct Hstep as (_ & _ & _ & _ & _ & Ho & _). unfold rule_options in Ho. rewrite Hd in Ho.
    now apply N.eqb_eq.
  Qed.

  Lemma rotation_by_managers : keychanges s' <> keychanges s -> manager s au = true.
  Proof.
    intros Hd. destruct Hstep as (_ & _ & _ & _ & _ & _ & Hk). unfold rule_keys in Hk.
    apply orb_true_iff in Hk. destruct Hk as [Hk|Hk]; [|assumption].
    apply list_N_eqb_eq in Hk. congruence.
  Qed.

  Lemma outsider_needs_invite : perm_of s au = pNone -> perm_of s' au <> pNone ->
    exists r i, In (r, i) (invites s) /\ i_type i = tAnyoneCanJoin /\
                (perm_of s' au = i_perm i \/ perm_le (perm_of s' au) (i_perm i) = true).
  Proof.
    intros H0 H1. destruct Hstep as (_ & _ & _ & Ho & _). unfold rule_outsider in Ho.
    rewrite H0 in Ho. apply N.eqb_neq in H1. rewrite H1 in Ho. cbn in Ho.
    apply existsb_exists in Ho. destruct Ho as [[r i] [Hin Hc]]. cbn in Hc.
    apply andb_true_iff in Hc. destruct Hc as [Ht Hc]. exists r, i. split; [assumption|].
    split; [now apply N.eqb_eq|]. apply orb_true_iff in Hc. destruct Hc as [Hc|Hc]; [left; now apply N.eqb_eq|now right].
  Qed.

  Lemma member_self_frozen : manager s au = false -> perm_of s au <> pNone -> perm_of s' au = perm_of s au.
  Proof.
    intros Hm H0. destruct Hstep as (_ & _ & _ & _ & Hs & _). unfold rule_self in Hs.
    rewrite Hm in Hs. apply N.eqb_neq in H0. rewrite H0 in Hs. cbn in Hs. now apply N.eqb_eq.
  Qed.

  Lemma requests_own_or_manager : forall r,
    opt_eqb request_eqb (mget r (requests s)) (mget r (requests s')) = false -> manager s au = false ->
    (forall q, mget r (requests s) = Some q -> r_ident q = au) /\
    (forall q, mget r (requests s') = Some q -> r_ident q = au).
  Proof.
    intros r Hd Hm. destruct Hstep as (_ & _ & Hr & _). specialize (Hr r). unfold rule_request in Hr.
    rewrite Hd, Hm in Hr. cbn in Hr.
    destruct (mget r (requests s)) as [q|], (mget r (requests s')) as [q'|]; split; intros x Hx; try discriminate;
      injection Hx as <-; split_andb; beq; assumption.
  Qed.
End Readable.
