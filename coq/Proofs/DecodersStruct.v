(* C11 — structure-level glue (Model/Decoders.v parts 4-7): pubsub topics, space payloads, ACL optional
   sub-messages, head-sync range requests. *)
From Coq Require Import List NArith Bool Arith Lia ZifyBool ZifyNat ZifyN.
Import ListNotations.
From AnySync Require Import Model.Decoders Proofs.DecodersBase.
Open Scope N_scope.

(* ---- (4) pubsub ---- *)
Lemma index_byte_from_bound : forall c b pos p,
  index_byte_from c b pos = Some p -> pos <= p /\ p < pos + blen b.
Proof.
  intros c b. induction b as [|x r IH]; intros pos p; cbn [index_byte_from]; [discriminate|].
  unfold blen. cbn [length]. destruct (x =? c).
  - intros H. injection H as H. lia.
  - intros H. apply IH in H. unfold blen in H. lia.
Qed.
Lemma index_byte_bound : forall c b p, index_byte c b = Some p -> p < blen b.
Proof. intros c b p H. apply index_byte_from_bound in H. lia. Qed.

Lemma split_loop_spec : forall fuel rest n acc,
  max_segments < n + N.of_nat fuel -> (0 < fuel)%nat ->
  no_panic (split_loop fuel rest n acc) /\
  forall segs, split_loop fuel rest n acc = Ok segs ->
    N.of_nat (length segs) <= N.of_nat (length acc) + (max_segments - n) + 1 /\
    N.of_nat (length acc) < N.of_nat (length segs).
Proof.
  unfold max_segments.
  induction fuel as [|f IH]; intros rest n acc Hf Hpos; cbn [split_loop].
  - lia.
  - unfold max_segments. destruct (N.ltb_spec n 16) as [Hn|Hn].
    + destruct (index_byte ch_slash rest) as [idx|] eqn:E.
      * apply index_byte_bound in E.
        unfold array_store, max_segments. destruct (N.ltb_spec n 16) as [_|Hc]; [|lia]. cbn [bind].
        rewrite slice_to_ok by lia. cbn [bind]. rewrite slice_from_ok by lia. cbn [bind].
        destruct (IH (skipn (N.to_nat (idx + 1)) rest) (n + 1) (acc ++ [firstn (N.to_nat idx) rest])) as [I1 I2]; [lia|lia|].
        split; [exact I1|]. intros segs H. apply I2 in H. rewrite app_length in H. cbn [length] in H. lia.
      * unfold array_store, max_segments. destruct (N.ltb_spec n 16) as [_|Hc]; [|lia]. cbn [bind].
        split; [apply no_panic_ok|]. intros segs H. injection H as H. subst segs. rewrite app_length. cbn [length]. lia.
    + split; [apply no_panic_ok|]. intros segs H. injection H as H. subst segs. rewrite app_length. cbn [length]. lia.
Qed.

Theorem split_topic_no_panic : forall topic, no_panic (split_topic topic).
Proof. intros topic. unfold split_topic. apply split_loop_spec; [unfold max_segments; lia|lia]. Qed.

(* at most maxSegments+1 segments, at least one *)
Theorem split_topic_len : forall topic segs, split_topic topic = Ok segs ->
  1 <= N.of_nat (length segs) /\ N.of_nat (length segs) <= max_segments + 1.
Proof.
  intros topic segs H. unfold split_topic in H.
  apply (proj2 (split_loop_spec 17 topic 0 [] ltac:(unfold max_segments; lia) ltac:(lia))) in H. cbn [length] in H.
  unfold max_segments in *. lia.
Qed.

Theorem validate_topic_no_panic : forall topic, no_panic (validate_topic topic).
Proof.
  intros topic. unfold validate_topic. apply no_panic_bind; [apply split_topic_no_panic|]. intros segs _.
  destruct (_ || _); [apply no_panic_err|]. destruct (_ <? _); [apply no_panic_err|].
  destruct (existsb is_empty segs); [apply no_panic_err|]. destruct (existsb has_wildcard segs); auto with c11.
Qed.

Theorem topic_owner_no_panic : forall topic, no_panic (topic_owner topic).
Proof.
  intros topic. unfold topic_owner. apply no_panic_bind; [apply split_topic_no_panic|]. intros segs _.
  destruct (N.ltb_spec (N.of_nat (length segs)) 2) as [Hl|Hl]; [apply no_panic_ok|].
  unfold nth_seg. destruct (nth_error segs (N.to_nat 0)) as [s0|] eqn:E0.
  - cbn [bind]. destruct (negb _); [apply no_panic_ok|].
    destruct (nth_error segs (N.to_nat (N.of_nat (length segs) - 1))) as [sl|] eqn:El; [apply no_panic_ok|].
    apply nth_error_None in El. lia.
  - apply nth_error_None in E0. lia.
Qed.

Theorem handle_publish_guard_no_panic : forall id pl mx topic, no_panic (handle_publish_guard id pl mx topic).
Proof.
  intros id pl mx topic. unfold handle_publish_guard. destruct (_ || _); [apply no_panic_err|apply validate_topic_no_panic].
Qed.

Theorem dedup_key_no_panic : forall id, no_panic (dedup_key id).
Proof.
  intros id. unfold dedup_key. destruct (N.eqb_spec (blen id) msg_id_len) as [He|He]; cbn [negb]; [|apply no_panic_ok].
  rewrite slice_to_ok by lia. cbn [bind]. apply no_panic_ok.
Qed.

(* ---- (5) space payloads ---- *)
Theorem validate_space_header_no_panic : forall h, no_panic (validate_space_header h).
Proof.
  intros [hd|]; cbn [validate_space_header]; [|apply no_panic_err].
  destruct (index_byte ch_dot (h_id hd)) as [sep|] eqn:E; [|apply no_panic_err].
  apply index_byte_bound in E. rewrite slice_to_ok by lia. cbn [bind]. rewrite slice_from_ok by lia. cbn [bind].
  destruct (h_rest_ok hd); auto with c11.
Qed.

Theorem validate_create_no_panic : forall p, no_panic (validate_create p).
Proof.
  intros p. unfold validate_create. destruct (p_acl p) as [a|] eqn:Ea; [|apply no_panic_err].
  destruct (p_settings p) as [s|] eqn:Es; [|apply no_panic_err].
  unfold validate_create_legacy. rewrite Ea, Es. cbn [deref bind].
  apply no_panic_bind; [apply validate_space_header_no_panic|]. intros _ _. destruct (_ && _); auto with c11.
Qed.

Theorem validate_create_legacy_panics_iff : forall p,
  (exists w, validate_create_legacy p = Panic w) <-> (p_acl p = None \/ p_settings p = None).
Proof.
  intros p. unfold validate_create_legacy. split.
  - intros [w H]. destruct (p_acl p) as [a|]; [|left; reflexivity].
    destruct (p_settings p) as [s|]; [|right; reflexivity]. exfalso. revert H. cbn [deref bind].
    pose proof (validate_space_header_no_panic (p_header p)) as Hh.
    destruct (validate_space_header (p_header p)) as [u|e|w']; cbn [bind].
    + destruct (_ && _); discriminate.
    + discriminate.
    + exfalso. apply (Hh w'). reflexivity.
  - intros [H|H].
    + rewrite H. exists PNil. reflexivity.
    + rewrite H. destruct (p_acl p); exists PNil; reflexivity.
Qed.

Theorem validate_create_legacy_refuted : exists p w, validate_create_legacy p = Panic w.
Proof. exists (mkPayload (Some (mkHdr [1; 46; 2] true)) None (Some true) true), PNil. reflexivity. Qed.

Theorem validate_create_conservative : forall p a s,
  p_acl p = Some a -> p_settings p = Some s -> validate_create p = validate_create_legacy p.
Proof. intros p a s Ha Hs. unfold validate_create. rewrite Ha, Hs. reflexivity. Qed.

(* ---- (6) ACL optional sub-messages ---- *)
Lemma decrypt_own_no_panic : forall l, no_panic (decrypt_own false l).
Proof.
  induction l as [|[ct ok] r IH]; cbn [decrypt_own]; [apply no_panic_ok|].
  apply no_panic_bind; [apply ed25519_decrypt_no_panic|]. intros _ _.
  apply no_panic_bind; [exact IH|]. intros; apply no_panic_ok.
Qed.

Theorem apply_read_key_change_no_panic : forall sv v ch, no_panic (apply_read_key_change true sv v ch).
Proof.
  intros sv v ch. unfold apply_read_key_change. destruct ch as [c|]; cbn [is_some negb andb]; [|apply no_panic_err].
  apply no_panic_bind.
  { destruct (v && sv); [cbn [deref bind]; destruct (ri_validate_ok c)|]; auto with c11. }
  intros _ _. cbn [deref bind]. destruct (negb (ri_meta_ok c)); [apply no_panic_err|].
  apply no_panic_bind; [apply decrypt_own_no_panic|]. intros got _.
  destruct (negb (ri_invites_ok c)); [apply no_panic_err|]. destruct (_ && _); auto with c11.
Qed.

Theorem apply_content_no_panic : forall sv c, no_panic (apply_content true sv c).
Proof.
  intros sv [|ch|rok ch|valid o|ok]; cbn [apply_content]; auto with c11.
  - apply apply_read_key_change_no_panic.
  - destruct (negb rok); [apply no_panic_err|apply apply_read_key_change_no_panic].
  - destruct valid; auto with c11.
  - destruct ok; auto with c11.
Qed.

Theorem apply_contents_no_panic : forall sv cs, no_panic (apply_contents true sv cs).
Proof.
  intros sv cs. induction cs as [|c r IH]; cbn [apply_contents]; [apply no_panic_ok|].
  apply no_panic_bind; [apply apply_content_no_panic|]. intros _ _. exact IH.
Qed.

(* F10: AclAccountRemove without ReadKeyChange, whether or not the verifier validates;
   F9 through the ACL: an account key addressed to us with a ciphertext shorter than 32 bytes *)
Theorem apply_contents_legacy_refuted_nil : forall sv, exists cs w, apply_contents false sv cs = Panic w.
Proof. intros sv. exists [AC_account_remove true None], PNil. destruct sv; reflexivity. Qed.

Theorem apply_contents_legacy_refuted_short_key : exists cs w, apply_contents false false cs = Panic w.
Proof.
  exists [AC_read_key_change (mkRkcIn true true [([1; 2; 3], false)] true true)], PSlice. vm_compute. reflexivity.
Qed.

(* ---- (7) head-sync range requests ---- *)
Theorem handle_range_request_no_panic : forall known elems ranges, no_panic (handle_range_request known elems ranges).
Proof. intros. apply no_panic_ok. Qed.

Lemma filter_len_le : forall (f : N -> bool) l, (length (filter f l) <= length l)%nat.
Proof. intros f l. induction l as [|x t IH]; cbn [filter length]; [lia|]. destruct (f x); cbn [length]; lia. Qed.

Lemma scan_count_le : forall elems r, scan_count elems r <= N.of_nat (length elems).
Proof.
  intros elems r. unfold scan_count. pose proof (filter_len_le (in_window r) elems). lia.
Qed.

Lemma scan_count_inverted : forall elems r, r_to r < r_from r -> scan_count elems r = 0.
Proof.
  intros elems r H. unfold scan_count. replace (filter (in_window r) elems) with (@nil N); [reflexivity|].
  induction elems as [|h t IH]; [reflexivity|]. cbn [filter]. unfold in_window at 1.
  destruct (N.leb_spec (r_from r) h); destruct (N.leb_spec h (r_to r)); cbn [andb]; try exact IH. lia.
Qed.

Lemma get_range_snd_le : forall known elems r, snd (get_range known elems r) <= N.of_nat (length elems).
Proof.
  intros known elems r. unfold get_range. pose proof (scan_count_le elems r).
  destruct (lookup_range known (r_from r) (r_to r)); [destruct (r_elements r)|]; cbn [snd]; lia.
Qed.

(* response size bound: at most |ranges| * |elements| elements — and nothing smaller in general (next theorem) *)
Theorem range_response_bound : forall known elems ranges res,
  handle_range_request known elems ranges = Ok res ->
  length res = length ranges /\
  response_elements res <= N.of_nat (length ranges) * N.of_nat (length elems).
Proof.
  intros known elems ranges res H. injection H as H. subst res. split; [apply map_length|].
  induction ranges as [|r t IH]; [cbn; lia|].
  cbn [map response_elements fold_right length]. fold (response_elements (map (get_range known elems) t)).
  pose proof (get_range_snd_le known elems r). lia.
Qed.

(* a range with from > to (or any window without elements) costs nothing *)
Theorem range_inverted_empty : forall known elems r,
  r_to r < r_from r -> lookup_range known (r_from r) (r_to r) = None -> get_range known elems r = (0, 0).
Proof. intros known elems r H Hl. unfold get_range. rewrite Hl, scan_count_inverted by exact H. reflexivity. Qed.

(* the bound is attained: k copies of the full window return k * |elements| elements; Limit is not consulted *)
Theorem range_amplification : forall elems k lim,
  (forall h, In h elems -> h < two64) ->
  exists res, handle_range_request [] elems (repeat (mkRange 0 (two64 - 1) true lim) k) = Ok res /\
              response_elements res = N.of_nat k * N.of_nat (length elems).
Proof.
  intros elems k lim Hb. eexists. split; [reflexivity|].
  assert (Hs : scan_count elems (mkRange 0 (two64 - 1) true lim) = N.of_nat (length elems)).
  { unfold scan_count. f_equal. f_equal.
    induction elems as [|h t IH]; [reflexivity|]. cbn [filter]. unfold in_window at 1. cbn [r_from r_to].
    assert (Hh : h < two64) by (apply Hb; left; reflexivity).
    destruct (N.leb_spec 0 h); [|lia]. destruct (N.leb_spec h (two64 - 1)); [|unfold two64 in *; lia].
    cbn [andb]. f_equal. apply IH. intros h' Hin. apply Hb. right. exact Hin. }
  induction k as [|k IH]; [reflexivity|].
  cbn [repeat map response_elements fold_right].
  fold (response_elements (map (get_range [] elems) (repeat (mkRange 0 (two64 - 1) true lim) k))).
  rewrite IH. unfold get_range. cbn [lookup_range r_from r_to r_elements snd]. rewrite Hs. lia.
Qed.
