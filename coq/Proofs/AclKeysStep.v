(* C05 — what one accepted content does to permissions, key generations and invites (case analysis over the
   17 content kinds of Model/Acl.v through the repaired machine [apply_content5 false]). *)
From Coq Require Import List NArith Bool Lia.
Import ListNotations.
From AnySync Require Import Model.Acl Model.AclKeys Proofs.AclBase Proofs.AclKeysBase.
Open Scope N_scope.

Definition WF (s : state) : Prop := skeys (accounts s) /\ skeys (invites s).

(* ------------------------------------------------------------------------------------------ projections *)
Lemma perm_acc_eq : forall s s' a, accounts s' = accounts s -> perm_of s' a = perm_of s a.
Proof. intros s s' a H. unfold perm_of, acc_of. now rewrite H. Qed.

Lemma unpack_accounts : forall me s a, accounts (unpack_if_me me s a) = accounts s.
Proof. intros me s a. unfold unpack_if_me. now destruct (a =? me). Qed.
Lemma unpack_keychanges : forall me s a, keychanges (unpack_if_me me s a) = keychanges s.
Proof. intros me s a. unfold unpack_if_me. now destruct (a =? me). Qed.
Lemma unpack_invites : forall me s a, invites (unpack_if_me me s a) = invites s.
Proof. intros me s a. unfold unpack_if_me. now destruct (a =? me). Qed.
Lemma drop_accounts : forall s q, accounts (drop_request s q) = accounts s.
Proof. intros s q. unfold drop_request. now destruct (mget q (requests s)). Qed.
Lemma drop_keychanges : forall s q, keychanges (drop_request s q) = keychanges s.
Proof. intros s q. unfold drop_request. now destruct (mget q (requests s)). Qed.
Lemma drop_invites : forall s q, invites (drop_request s q) = invites s.
Proof. intros s q. unfold drop_request. now destruct (mget q (requests s)). Qed.

Lemma perm_set_reqs : forall s rq pd a, perm_of (set_reqs s rq pd) a = perm_of s a.
Proof. reflexivity. Qed.

(* the three observers we care about, bundled: [Same s s'] = permissions, generations, invites unchanged *)
Definition SameK (s s' : state) : Prop := keychanges s' = keychanges s /\ invites s' = invites s.

(* ------------------------------------------------------------------------------------------ recursive helpers *)
Lemma do_additions_facts : forall me r l s s', do_additions me s r l = Some s' ->
  SameK s s' /\
  (forall a, ~ In a (map fst l) -> perm_of s' a = perm_of s a) /\
  (skeys (accounts s) -> skeys (accounts s')).
Proof.
  intros me r l. induction l as [|[a p] rest IH]; intros s s' H; cbn [do_additions] in H.
  - injection H as <-. repeat split; auto.
  - destruct (negb (parse_ok a)); [discriminate|].
    apply IH in H. destruct H as [[Hk Hi] [Hp Hs]].
    rewrite unpack_keychanges in Hk. rewrite unpack_invites in Hi. cbn [set_acc keychanges invites] in Hk, Hi.
    repeat split; auto.
    + intros b Hb. cbn [map fst In] in Hb. rewrite Hp by tauto.
      rewrite (perm_acc_eq _ _ b (unpack_accounts me _ a)). rewrite perm_of_set_acc.
      destruct (N.eqb_spec b a) as [->|]; [tauto|reflexivity].
    + intros Hsk. apply Hs. rewrite unpack_accounts. cbn [set_acc accounts]. now apply skeys_mset.
Qed.

Lemma do_removals_facts : forall r l s s', do_removals s r l = Some s' ->
  SameK s s' /\
  (forall a, ~ In a l -> perm_of s' a = perm_of s a) /\
  (forall a, In a l -> perm_of s' a = 0) /\
  (skeys (accounts s) -> skeys (accounts s')).
Proof.
  intros r l. induction l as [|a rest IH]; intros s s' H; cbn [do_removals] in H.
  - injection H as <-. repeat split; auto. intros a [].
  - destruct (negb (parse_ok a)); [discriminate|].
    destruct (mget a (accounts s)) as [x|] eqn:Hx; [|discriminate].
    set (s1 := set_acc s a (mkAccount pNone SRemoved (a_keyrec x) (a_hist x ++ [(r, pNone)]))) in H.
    set (s2 := match mget a (pending s1) with
               | Some rq => set_reqs s1 (mdel rq (requests s1)) (mdel a (pending s1))
               | None => s1 end) in H.
    assert (Hacc : accounts s2 = accounts s1) by (unfold s2; now destruct (mget a (pending s1))).
    assert (Hkc : keychanges s2 = keychanges s) by (unfold s2; now destruct (mget a (pending s1))).
    assert (Hiv : invites s2 = invites s) by (unfold s2; now destruct (mget a (pending s1))).
    apply IH in H. destruct H as [[Hk Hi] [Hp [Hz Hs]]].
    assert (Hperm : forall b, perm_of s2 b = if b =? a then 0 else perm_of s b).
    { intros b. rewrite (perm_acc_eq _ _ b Hacc). unfold s1. now rewrite perm_of_set_acc. }
    repeat split.
    + now rewrite Hk.
    + now rewrite Hi.
    + intros b Hb. cbn [In] in Hb. rewrite Hp by tauto. rewrite Hperm.
      destruct (N.eqb_spec b a) as [->|]; [tauto|reflexivity].
    + intros b [<-|Hb].
      * destruct (in_dec N.eq_dec a rest) as [Hin|Hnin]; [now apply Hz|].
        rewrite Hp by exact Hnin. rewrite Hperm. now rewrite N.eqb_refl.
      * now apply Hz.
    + intros Hsk. apply Hs. rewrite Hacc. unfold s1. cbn [set_acc accounts]. now apply skeys_mset.
Qed.

Lemma perm_change5_facts : forall s au r t p s', apply_perm_change5 false s au r t p = Some s' ->
  SameK s s' /\
  (forall a, perm_of s a = 0 -> perm_of s' a = 0) /\
  (skeys (accounts s) -> skeys (accounts s')).
Proof.
  intros s au r t p s' H. unfold apply_perm_change5 in H. cbn [negb andb] in H.
  destruct (N.eqb_spec (perm_of s t) pNone) as [|Hne]; [discriminate|].
  unfold apply_perm_change in H.
  destruct (negb (parse_ok t)); [discriminate|].
  destruct (true && negb (validate_perm_change s au t p)); [discriminate|].
  injection H as <-. repeat split.
  - intros a Ha. rewrite perm_of_update_perm. destruct (N.eqb_spec a t) as [->|]; [contradiction|exact Ha].
  - intros Hs. unfold update_perm. cbn [set_acc accounts]. now apply skeys_mset.
Qed.

Lemma perm_changes5_facts : forall au r l s s', apply_perm_changes5 false s au r l = Some s' ->
  SameK s s' /\
  (forall a, perm_of s a = 0 -> perm_of s' a = 0) /\
  (skeys (accounts s) -> skeys (accounts s')).
Proof.
  intros au r l. induction l as [|[t p] rest IH]; intros s s' H; cbn [apply_perm_changes5] in H.
  - injection H as <-. repeat split; auto.
  - destruct (apply_perm_change5 false s au r t p) as [s1|] eqn:H1; [|discriminate].
    apply perm_change5_facts in H1. apply IH in H. destruct H1 as [[Hk1 Hi1] [Hp1 Hs1]], H as [[Hk Hi] [Hp Hs]].
    repeat split; auto; try congruence.
Qed.

(* ------------------------------------------------------------------------------------------ validate_rk *)
Lemma validate_rk_accounts : forall s rk removed, validate_rk s rk removed = true ->
  forall a, In a (rk_accounts rk) <-> In a (active_users s removed).
Proof.
  intros s rk removed H a. unfold validate_rk in H.
  repeat (apply andb_true_iff in H; destruct H as [H ?]).
  symmetry. now apply sorted_eq_In.
Qed.
Lemma validate_rk_invites : forall s rk removed, validate_rk s rk removed = true ->
  forall k, In k (rk_invites rk) <-> In k (active_invite_keys s).
Proof.
  intros s rk removed H k. unfold validate_rk in H.
  repeat (apply andb_true_iff in H; destruct H as [H ?]).
  symmetry. now apply sorted_eq_In.
Qed.

Lemma active_users_of_perm : forall s removed a, perm_of s a <> 0 -> ~ In a removed -> In a (active_users s removed).
Proof.
  intros s removed a Hp Hr. unfold active_users. apply in_map_iff.
  unfold perm_of, acc_of in Hp. destruct (mget a (accounts s)) as [x|] eqn:Hx; [|now cbn in Hp].
  exists (a, x). split; [reflexivity|]. apply filter_In. split; [now apply mget_In|].
  cbn [fst snd]. apply andb_true_iff. split.
  - apply negb_true_iff. now apply N.eqb_neq.
  - apply negb_true_iff. now apply memN_false.
Qed.
Lemma active_users_perm : forall s removed a, skeys (accounts s) -> In a (active_users s removed) ->
  perm_of s a <> 0 /\ ~ In a removed.
Proof.
  intros s removed a Hs Hin. unfold active_users in Hin. apply in_map_iff in Hin.
  destruct Hin as [[a' x] [Ha Hin]]. cbn [fst] in Ha. subst a'.
  apply filter_In in Hin. destruct Hin as [Hin Hb]. cbn [fst snd] in Hb.
  apply andb_true_iff in Hb. destruct Hb as [Hp Hr].
  apply negb_true_iff in Hp. apply N.eqb_neq in Hp. apply negb_true_iff in Hr. apply memN_false in Hr.
  split; [|exact Hr]. unfold perm_of, acc_of. now rewrite (In_mget _ _ _ Hs Hin).
Qed.

Lemma do_rk_facts : forall me s r rk s', do_rk me s r rk = Some s' ->
  keychanges s' = keychanges s ++ [r] /\ accounts s' = accounts s /\ invites s' = invites s.
Proof.
  intros me s r rk s' H. unfold do_rk in H.
  destruct (negb (rk_meta_ok rk)); [discriminate|].
  destruct (negb (forallb parse_ok (rk_invites rk))); [discriminate|].
  injection H as <-. now cbn.
Qed.

(* ------------------------------------------------------------------------------------------ the step facts *)
Ltac inv_some H :=
  repeat match type of H with
         | (if ?b then _ else _) = Some _ => let E := fresh "E" in destruct b eqn:E; try discriminate H
         | match ?x with _ => _ end = Some _ => let E := fresh "E" in destruct x eqn:E; try discriminate H
         end.

(* a non-rotation content: generations and (for all but invite contents) nothing else of the key world changes;
   permissions go from none to some only for the identities the content names *)
Lemma step_nonrot : forall s au r c s',
  apply_content5 false s au r c = Some s' -> is_rot c = None ->
  keychanges s' = keychanges s /\
  (forall a, perm_of s a = 0 -> perm_of s' a <> 0 -> In a (admits c)) /\
  (skeys (accounts s) -> skeys (accounts s')).
Proof.
  intros s au r c s' H Hrot.
  destruct c; cbn [apply_content5 apply_content is_rot admits] in *; try discriminate Hrot.
  - (* invite *) unfold apply_invite in H. inv_some H. injection H as <-. cbn. repeat split; auto; intros z H0 H1; contradiction.
  - (* invite revoke *) unfold apply_invite_revoke in H. inv_some H. injection H as <-. cbn. repeat split; auto; intros z H0 H1; contradiction.
  - (* request join *) unfold apply_request_join in H. inv_some H. injection H as <-. repeat split.
    + intros z H0 H1. exfalso. apply H1. rewrite perm_of_set_acc. destruct (z =? au); [reflexivity|].
      erewrite perm_acc_eq; [exact H0|reflexivity].
    + intros Hs. cbn [set_acc set_reqs accounts]. now apply skeys_mset.
  - (* request accept *) unfold apply_request_accept in H. inv_some H. injection H as <-.
    rewrite unpack_keychanges, drop_keychanges. repeat split.
    + intros z H0 H1. left. destruct (N.eqb_spec z ident) as [->|Hne]; [reflexivity|]. exfalso. apply H1.
      rewrite (perm_acc_eq _ _ z (unpack_accounts 0 _ ident)), (perm_acc_eq _ _ z (drop_accounts _ req)), perm_of_set_acc.
      destruct (N.eqb_spec z ident); [contradiction|exact H0].
    + intros Hs. rewrite unpack_accounts, drop_accounts. cbn [set_acc accounts]. now apply skeys_mset.
  - (* perm change *) apply perm_change5_facts in H. destruct H as [[Hk _] [Hp Hs]]. repeat split; auto.
    intros z H0 H1. now apply Hp in H0.
  - (* account remove, no rk *) destruct rk; discriminate.
  - (* request decline *) unfold apply_request_decline in H. inv_some H. injection H as <-. rewrite drop_keychanges. repeat split.
    + intros z H0 H1. exfalso. apply H1. rewrite (perm_acc_eq _ _ z (drop_accounts _ req)), perm_of_set_acc.
      destruct (N.eqb_spec z (r_ident r0)) as [->|]; [|exact H0].
      cbn [a_perm]. unfold perm_of, acc_of in H0. now rewrite E1 in H0.
    + intros Hs. rewrite drop_accounts. cbn [set_acc accounts]. now apply skeys_mset.
  - (* request remove *) unfold apply_request_remove in H. inv_some H. injection H as <-. repeat split.
    + intros z H0 H1. exfalso. apply H1. rewrite perm_of_set_acc.
      destruct (N.eqb_spec z au) as [->|].
      * cbn [a_perm]. unfold perm_of, acc_of in H0. cbn [set_reqs accounts] in H0. now rewrite E1 in H0.
      * erewrite perm_acc_eq; [exact H0|reflexivity].
    + intros Hs. cbn [set_acc set_reqs accounts]. now apply skeys_mset.
  - (* perm changes *) apply perm_changes5_facts in H. destruct H as [[Hk _] [Hp Hs]]. repeat split; auto.
    intros z H0 H1. now apply Hp in H0.
  - (* accounts add *) unfold apply_accounts_add in H. inv_some H. apply do_additions_facts in H.
    destruct H as [[Hk _] [Hp Hs]]. repeat split; auto.
    intros z H0 H1. destruct (in_dec N.eq_dec z (map fst l)) as [Hin|Hnin]; [exact Hin|].
    exfalso. apply H1. now rewrite Hp.
  - (* request cancel *) unfold apply_request_cancel in H. inv_some H. injection H as <-. rewrite drop_keychanges. repeat split.
    + intros z H0 H1. exfalso. apply H1. rewrite (perm_acc_eq _ _ z (drop_accounts _ req)), perm_of_set_acc.
      destruct (N.eqb_spec z (r_ident r0)) as [->|]; [|exact H0].
      cbn [a_perm]. unfold perm_of, acc_of in H0. now rewrite E1 in H0.
    + intros Hs. rewrite drop_accounts. cbn [set_acc accounts]. now apply skeys_mset.
  - (* invite join *) unfold apply_invite_join in H. inv_some H. injection H as <-. rewrite unpack_keychanges.
    match goal with |- context [find_request_of ?i ?m] => destruct (find_request_of i m) end.
    + cbn [set_reqs set_acc keychanges]. repeat split.
      * intros z H0 H1. left. destruct (N.eqb_spec z ident) as [->|Hne]; [reflexivity|]. exfalso. apply H1.
        rewrite (perm_acc_eq _ _ z (unpack_accounts 0 _ ident)), perm_set_reqs, perm_of_set_acc.
        destruct (N.eqb_spec z ident); [contradiction|exact H0].
      * intros Hs. rewrite unpack_accounts. cbn [set_reqs set_acc accounts]. now apply skeys_mset.
    + cbn [set_acc keychanges]. repeat split.
      * intros z H0 H1. left. destruct (N.eqb_spec z ident) as [->|Hne]; [reflexivity|]. exfalso. apply H1.
        rewrite (perm_acc_eq _ _ z (unpack_accounts 0 _ ident)), perm_of_set_acc.
        destruct (N.eqb_spec z ident); [contradiction|exact H0].
      * intros Hs. rewrite unpack_accounts. cbn [set_acc accounts]. now apply skeys_mset.
  - (* invite change *) unfold apply_invite_change in H. inv_some H. injection H as <-. cbn. repeat split; auto; intros z H0 H1; contradiction.
  - (* ownership *) unfold apply_ownership in H. inv_some H. injection H as <-. repeat split.
    + intros z H0 H1. exfalso.
      unfold validate_ownership in E. cbn [andb] in E. apply negb_false_iff in E.
      repeat (apply andb_true_iff in E; destruct E as [E ?]).
      rewrite !perm_of_update_perm in H1.
      destruct (N.eqb_spec z new_owner) as [->|].
      * match goal with Hx : negb (perm_of s new_owner =? pNone) = true |- _ =>
          apply negb_true_iff in Hx; apply N.eqb_neq in Hx; now apply Hx end.
      * destruct (N.eqb_spec z au) as [->|]; [|now apply H1].
        apply N.eqb_eq in E. rewrite E in H0. discriminate.
    + intros Hs. unfold update_perm. cbn [set_acc accounts]. apply skeys_mset. now apply skeys_mset.
  - (* options *) unfold apply_options in H. inv_some H. injection H as <-. cbn. repeat split; auto; intros z H0 H1; contradiction.
  - (* empty *) injection H as <-. repeat split; auto; intros z H0 H1; contradiction.
Qed.

(* an accepted rotation: appends the generation; its AccountKeys are exactly the members left, its InviteKeys exactly
   the live anyone-can-join invites; nobody is admitted *)
Lemma step_rot : forall s au r c s' rk removed,
  apply_content5 false s au r c = Some s' -> is_rot c = Some (rk, removed) ->
  keychanges s' = keychanges s ++ [r] /\
  invites s' = invites s /\
  (forall a, perm_of s' a <> 0 -> perm_of s a <> 0) /\
  (forall a, perm_of s' a <> 0 -> In a (rk_accounts rk)) /\
  (skeys (accounts s) -> forall a, In a (rk_accounts rk) -> perm_of s' a <> 0) /\
  (forall k, In k (rk_invites rk) <-> In k (active_invite_keys s')) /\
  (skeys (accounts s) -> skeys (accounts s')).
Proof.
  intros s au r c s' rk removed H Hrot.
  destruct c; cbn [apply_content5 apply_content is_rot] in *; try discriminate Hrot.
  - (* account remove *)
    destruct rk0 as [k|]; [|discriminate]. injection Hrot as <- <-.
    unfold apply_account_remove in H.
    destruct (true && negb (can_manage (perm_of s au) && validate_removals s au (perm_of s au) [] ids && validate_rk s k ids)) eqn:E; [discriminate|].
    cbn [andb] in E. apply negb_false_iff in E.
    apply andb_true_iff in E. destruct E as [E Hrk].
    destruct (do_removals s r ids) as [s1|] eqn:Hrm; [|discriminate].
    apply do_removals_facts in Hrm. destruct Hrm as [[Hk1 Hi1] [Hp1 [Hz1 Hs1]]].
    apply do_rk_facts in H. destruct H as [Hk [Ha Hi]].
    assert (Hperm : forall a, perm_of s' a = perm_of s1 a) by (intros a; now apply perm_acc_eq).
    repeat split.
    + now rewrite Hk, Hk1.
    + now rewrite Hi, Hi1.
    + intros a Hp. rewrite Hperm in Hp. destruct (in_dec N.eq_dec a ids) as [Hin|Hnin].
      * now rewrite (Hz1 a Hin) in Hp.
      * now rewrite (Hp1 a Hnin) in Hp.
    + intros a Hp. rewrite Hperm in Hp. apply (validate_rk_accounts s k ids Hrk).
      destruct (in_dec N.eq_dec a ids) as [Hin|Hnin].
      * now rewrite (Hz1 a Hin) in Hp.
      * apply active_users_of_perm; [|exact Hnin]. now rewrite (Hp1 a Hnin) in Hp.
    + intros Hs a Hin. apply (validate_rk_accounts s k ids Hrk) in Hin.
      apply active_users_perm in Hin; [|exact Hs]. destruct Hin as [Hp Hnin].
      rewrite Hperm, (Hp1 a Hnin). exact Hp.
    + intros Hin. apply (validate_rk_invites s k ids Hrk) in Hin. unfold active_invite_keys in *. now rewrite Hi, Hi1.
    + intros Hin. apply (validate_rk_invites s k ids Hrk). unfold active_invite_keys in *. now rewrite Hi, Hi1 in Hin.
    + intros Hs. rewrite Ha. now apply Hs1.
  - (* read key change *)
    injection Hrot as <- <-. unfold apply_read_key_change in H.
    destruct (true && negb (can_manage (perm_of s au) && validate_rk s rk0 [])) eqn:E; [discriminate|].
    cbn [andb] in E. apply negb_false_iff in E. apply andb_true_iff in E. destruct E as [E Hrk].
    apply do_rk_facts in H. destruct H as [Hk [Ha Hi]].
    assert (Hperm : forall a, perm_of s' a = perm_of s a) by (intros a; now apply perm_acc_eq).
    repeat split.
    + exact Hk.
    + exact Hi.
    + intros a Hp. now rewrite Hperm in Hp.
    + intros a Hp. rewrite Hperm in Hp. apply (validate_rk_accounts s rk0 [] Hrk).
      apply active_users_of_perm; [exact Hp|intros []].
    + intros Hs a Hin. apply (validate_rk_accounts s rk0 [] Hrk) in Hin.
      apply active_users_perm in Hin; [|exact Hs]. rewrite Hperm. tauto.
    + intros Hin. apply (validate_rk_invites s rk0 [] Hrk) in Hin. unfold active_invite_keys in *. now rewrite Hi.
    + intros Hin. apply (validate_rk_invites s rk0 [] Hrk). unfold active_invite_keys in *. now rewrite Hi in Hin.
    + intros Hs. now rewrite Ha.
Qed.
