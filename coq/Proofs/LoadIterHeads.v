(* Proofs/LoadIterHeads.v — the heads announced with the batches of a full-sync response (property C09).

   1. [heads_fold_childless]: folding NextBatch's head update [upd_heads] over a sequence of changes that is a linear
      extension without repeats (no change cites itself or a later one, ids pairwise different) yields exactly the
      CHILDLESS members of the sequence — [heads_of] of Lib/Dag.v, the declarative heads used by spec_C09.
   2. [respond_heads_childless]: hence, in every response of the model (Model/LoadIter.v, repaired NextBatch), the
      heads announced with a batch are the childless members of the stored prefix processed so far (from the common
      snapshot up to just before the first change of the next batch; the whole range for the last batch). *)
From Coq Require Import List NArith Bool Arith Lia Permutation.
Import ListNotations.
From AnySync Require Import Lib.Dag Model.Dfs Model.Tree Model.LoadIter Proofs.DfsBase Proofs.LoadIter.

(* ---------------------------------------------------------------- 1. the fold over a linear extension *)

(* no change cites itself or a change that comes later; ids pairwise different *)
Definition lin_changes (q : list change) : Prop :=
  NoDup (ids q) /\
  forall l1 c l2, q = l1 ++ c :: l2 -> forall p, In p (cprev c) -> p <> cid c /\ ~ In p (ids l2).

Lemma NoDup_app_l : forall (A : Type) (l1 l2 : list A), NoDup (l1 ++ l2) -> NoDup l1.
Proof.
  intros A l1 l2. induction l1 as [|a r IH]; cbn [app]; intros H; [constructor|].
  inversion H as [|x xs Hx Hr]; subst. constructor; [|apply IH; exact Hr].
  intro Hin. apply Hx. apply in_or_app. left. exact Hin.
Qed.

Lemma NoDup_app_intro : forall (A : Type) (l1 l2 : list A),
  NoDup l1 -> NoDup l2 -> (forall x, In x l1 -> In x l2 -> False) -> NoDup (l1 ++ l2).
Proof.
  intros A l1 l2 H1 H2 Hd. induction l1 as [|a r IH]; cbn [app]; [exact H2|].
  inversion H1 as [|x xs Hx Hr]; subst. constructor.
  - intro Hin. apply in_app_or in Hin. destruct Hin as [Hin|Hin]; [exact (Hx Hin) | apply (Hd a); [left; reflexivity | exact Hin]].
  - apply IH; [exact Hr|]. intros x Hx1 Hx2. apply (Hd x); [right; exact Hx1 | exact Hx2].
Qed.

Lemma lin_changes_prefix : forall a b, lin_changes (a ++ b) -> lin_changes a.
Proof.
  intros a b [Hnd Hlin]. split.
  - unfold ids in *. rewrite map_app in Hnd. apply NoDup_app_l in Hnd. exact Hnd.
  - intros l1 c l2 Heq p Hp.
    assert (Hq : a ++ b = l1 ++ c :: (l2 ++ b)) by (rewrite Heq, <- app_assoc; reflexivity).
    destruct (Hlin l1 c (l2 ++ b) Hq p Hp) as [H1 H2]. split; [exact H1|].
    intro Hin. apply H2. unfold ids in *. rewrite map_app. apply in_or_app. left. exact Hin.
Qed.

Lemma cites_nil : forall p c, cites p c = [] <-> ~ In p (cprev c).
Proof.
  intros p c. unfold cites. split.
  - intros H Hin. assert (Hf : In p (filter (N.eqb p) (cprev c))) by (apply filter_In; split; [exact Hin | apply N.eqb_refl]).
    destruct (filter (N.eqb p) (cprev c)); [destruct Hf | discriminate].
  - intros Hn. destruct (filter (N.eqb p) (cprev c)) as [|a r] eqn:E; [reflexivity|].
    exfalso. apply Hn. assert (Ha : In a (filter (N.eqb p) (cprev c))) by (rewrite E; left; reflexivity).
    apply filter_In in Ha. destruct Ha as [Ha Heq]. apply N.eqb_eq in Heq. subst a. exact Ha.
Qed.

Lemma children_occ_app : forall a b p, children_occ (a ++ b) p = children_occ a p ++ children_occ b p.
Proof. intros a b p. unfold children_occ. apply flat_map_app. Qed.

Definition hfold (q : list change) : list N := fold_left upd_heads q [].

Definition childless (q : list change) (x : N) : Prop := In x (ids q) /\ children_occ q x = [].

Lemma hfold_childless : forall q, lin_changes q -> NoDup (hfold q) /\ forall x, In x (hfold q) <-> childless q x.
Proof.
  intros q. induction q as [|c q' IH] using rev_ind; intros Hlin.
  - split; [constructor|]. intros x. unfold hfold, childless. cbn. tauto.
  - pose proof (lin_changes_prefix _ _ Hlin) as Hlin'. destruct (IH Hlin') as [IHnd IHin]. clear IH.
    destruct Hlin as [Hnd Hlin].
    assert (Hcnew : ~ In (cid c) (ids q')).
    { unfold ids in *. rewrite map_app in Hnd. cbn [map] in Hnd. apply NoDup_remove_2 in Hnd. rewrite app_nil_r in Hnd. exact Hnd. }
    assert (Hself : ~ In (cid c) (cprev c)).
    { intro Hin. destruct (Hlin q' c [] eq_refl (cid c) Hin) as [H1 _]. apply H1. reflexivity. }
    assert (Hnochild : children_occ q' (cid c) = []).
    { destruct (children_occ q' (cid c)) as [|y r] eqn:E; [reflexivity|]. exfalso.
      assert (Hy : In y (children_occ q' (cid c))) by (rewrite E; left; reflexivity).
      apply children_occ_In in Hy. destruct Hy as [c' [Hc' [_ Hp]]].
      apply in_split in Hc'. destruct Hc' as [l1 [l2 Hq']].
      assert (Hq : q' ++ [c] = l1 ++ c' :: (l2 ++ [c])) by (rewrite Hq', <- app_assoc; reflexivity).
      destruct (Hlin l1 c' (l2 ++ [c]) Hq (cid c) Hp) as [_ H2]. apply H2.
      unfold ids. rewrite map_app. apply in_or_app. right. left. reflexivity. }
    unfold hfold. rewrite fold_left_app. cbn [fold_left]. fold (hfold q'). unfold upd_heads.
    set (h' := filter (fun s => negb (mem s (cprev c))) (hfold q')).
    assert (Hh' : forall x, In x h' <-> In x (hfold q') /\ ~ In x (cprev c)).
    { intros x. unfold h'. rewrite filter_In. rewrite negb_true_iff. rewrite mem_false_In. tauto. }
    assert (Hcn : ~ In (cid c) h').
    { intro Hin. apply Hh' in Hin. destruct Hin as [Hin _]. apply IHin in Hin. destruct Hin as [Hin _]. exact (Hcnew Hin). }
    assert (Em : mem (cid c) h' = false) by (apply mem_false_In; exact Hcn).
    rewrite Em. split.
    + apply NoDup_app_intro.
      * apply NoDup_filter. exact IHnd.
      * constructor; [intros [] | constructor].
      * intros x Hx [Hx2|[]]. subst x. exact (Hcn Hx).
    + intros x. unfold childless. rewrite children_occ_app. unfold ids. rewrite map_app. cbn [map].
      cbn [children_occ flat_map]. rewrite app_nil_r. rewrite in_app_iff. rewrite in_app_iff. cbn [In]. rewrite Hh'. rewrite IHin.
      unfold childless, ids. split.
      * intros [[[Hin Hch] Hnp]|[Hx|[]]].
        -- split; [left; exact Hin|]. rewrite Hch. cbn [app]. apply cites_nil. exact Hnp.
        -- subst x. split; [right; left; reflexivity|]. rewrite Hnochild. cbn [app]. apply cites_nil. exact Hself.
      * intros [Hin Happ]. apply app_eq_nil in Happ. destruct Happ as [Hch Hci]. apply cites_nil in Hci.
        destruct Hin as [Hin|[Hx|[]]]; [left; tauto | right; left; exact Hx].
Qed.

Theorem heads_fold_childless : forall q, lin_changes q -> isort (hfold q) = heads_of q.
Proof.
  intros q Hlin. destruct (hfold_childless q Hlin) as [Hnd Hin]. unfold heads_of. apply isort_perm.
  apply NoDup_Permutation.
  - exact Hnd.
  - apply NoDup_filter. destruct Hlin as [H _]. exact H.
  - intros x. rewrite Hin. unfold childless. rewrite filter_In.
    destruct (children_occ q x); split; intros [H1 H2]; split; try exact H1; try reflexivity; discriminate.
Qed.

(* ---------------------------------------------------------------- 2. the heads announced by a response *)

(* [heads_trace rem view pre bs]: the batches bs continue a response of which the stored prefix [pre] of [view] has been
   processed: each batch processes a further stretch [used] of the view, consists of the not-removed entries of that
   stretch, and announces the childless members of everything processed so far; what is left after a batch starts
   with the first change of the next batch, and nothing is left after the last batch *)
Inductive heads_trace (rem : list N) (view : list sentry) : list sentry -> list batch -> Prop :=
| ht_nil : forall pre, heads_trace rem view pre []
| ht_cons : forall pre used rest b bs,
    view = (pre ++ used) ++ rest ->
    b_changes b = nonrem rem used ->
    isort (b_heads b) = heads_of (map se_ch (pre ++ used)) ->
    match bs with
    | [] => rest = []
    | _ :: _ => exists e r, rest = e :: r /\ mem (se_id e) rem = false
    end ->
    heads_trace rem view (pre ++ used) bs ->
    heads_trace rem view pre (b :: bs).

Lemma nonrem_app : forall rem a b, nonrem rem (a ++ b) = nonrem rem a ++ nonrem rem b.
Proof. intros rem a b. unfold nonrem. apply filter_app. Qed.

Lemma stream_nonempty : forall fuel ms l,
  li_exhausted l = false -> nonrem (li_removed l) (li_rest l) <> [] -> stream next_batch (S fuel) ms l <> [].
Proof.
  intros fuel ms l Hex Hne. cbn [stream]. unfold next_batch. rewrite Hex.
  destruct (scan ms (li_removed l) (li_rest l) [] (li_lastHeads l) 0) as [[[b hs] rest'] ex] eqn:Es.
  assert (Hb0 : bounded ms []) by (right; cbn; lia).
  destruct (scan_spec _ _ _ _ _ _ _ _ _ _ Es eq_refl Hb0) as [_ [_ [_ [_ [_ H6]]]]].
  cbn [b_changes]. destruct b as [|e0 b0]; [exfalso; apply H6; [right; exact Hne | reflexivity] | discriminate].
Qed.

Lemma stream_heads : forall fuel ms l pre cs view,
  li_ok l -> length (nonrem (li_removed l) (li_rest l)) < fuel ->
  view = pre ++ li_rest l ->
  li_lastHeads l = fold_left upd_heads (map se_ch pre) [cs] ->
  (forall P R, P <> [] -> view = P ++ R ->
     isort (fold_left upd_heads (map se_ch P) [cs]) = heads_of (map se_ch P)) ->
  heads_trace (li_removed l) view pre (stream next_batch fuel ms l).
Proof.
  induction fuel as [|f IH]; intros ms l pre cs view Hok Hlen Hview Hlast Hcore; [lia|].
  cbn [stream]. destruct (next_batch ms l) as [bb l'] eqn:Enb. unfold next_batch in Enb.
  destruct (li_exhausted l) eqn:Eex.
  - inversion Enb; subst. cbn [b_changes]. apply ht_nil.
  - destruct (scan ms (li_removed l) (li_rest l) [] (li_lastHeads l) 0) as [[[b hs] rest'] ex] eqn:Es.
    inversion Enb; subst bb l'. clear Enb.
    assert (Hb0 : bounded ms []) by (right; cbn; lia).
    destruct (scan_spec _ _ _ _ _ _ _ _ _ _ Es eq_refl Hb0) as [H1 [[used [Hu1 Hu2]] [H3 [H4 [H5 H6]]]]].
    cbn [app] in H1. cbn [b_changes].
    destruct b as [|e0 b0] eqn:Eb; [apply ht_nil|]. rewrite <- Eb in *.
    assert (Hbu : b = nonrem (li_removed l) used).
    { rewrite Hu1, nonrem_app in H1. apply app_inv_tail in H1. exact H1. }
    assert (Hune : used <> []).
    { intro Hnil. rewrite Hnil in Hbu. cbn in Hbu. rewrite Hbu in Eb. discriminate. }
    set (l' := mkLI rest' (li_removed l) hs ex).
    assert (Hok' : li_ok l') by (unfold li_ok, l'; cbn; exact H4).
    assert (Hlen' : length (nonrem (li_removed l') (li_rest l')) < f).
    { unfold l'. cbn [li_removed li_rest]. rewrite <- H1 in Hlen. rewrite Eb in Hlen. cbn [app length] in Hlen.
      rewrite app_length in Hlen. lia. }
    assert (Hview' : view = (pre ++ used) ++ rest') by (rewrite Hview, Hu1, app_assoc; reflexivity).
    assert (Hlast' : hs = fold_left upd_heads (map se_ch (pre ++ used)) [cs]).
    { rewrite Hu2, Hlast, map_app, fold_left_app. reflexivity. }
    apply (ht_cons _ _ pre used rest').
    + exact Hview'.
    + cbn [b_changes]. exact Hbu.
    + cbn [b_heads]. rewrite Hlast'. apply (Hcore (pre ++ used) rest'); [|exact Hview'].
      intro Hnil. apply app_eq_nil in Hnil. destruct Hnil as [_ Hnil]. exact (Hune Hnil).
    + destruct (stream next_batch f ms l') as [|b' bs'] eqn:Estr.
      * destruct ex.
        -- apply H4. reflexivity.
        -- exfalso. destruct (H5 eq_refl) as [_ [e [r [Hr Hem]]]].
           destruct f as [|f']; [lia|].
           apply (stream_nonempty f' ms l'); [reflexivity | | exact Estr].
           unfold l'. cbn [li_removed li_rest]. rewrite Hr. cbn [nonrem filter]. rewrite Hem. discriminate.
      * destruct ex.
        -- exfalso. destruct f as [|f']; [discriminate|]. cbn [stream] in Estr. unfold next_batch, l' in Estr.
           cbn [li_exhausted] in Estr. cbn [b_changes] in Estr. discriminate.
        -- destruct (H5 eq_refl) as [_ [e [r [Hr Hem]]]]. exists e, r. split; [exact Hr | exact Hem].
    + apply (IH ms l' (pre ++ used) cs view Hok' Hlen'); [exact Hview' | exact Hlast' | exact Hcore].
Qed.

(* the stretch of stored changes a response ranges over, as a sequence of changes *)
Lemma map_se_id : forall v, ids (map se_ch v) = map se_id v.
Proof. intros v. unfold ids. rewrite map_map. reflexivity. Qed.

Lemma from_id_head : forall cs sigma e r, from_id cs sigma = e :: r -> se_id e = cs.
Proof.
  intros cs sigma. induction sigma as [|a s IH]; intros e r H; cbn [from_id] in H; [discriminate|].
  destruct (N.eqb (se_id a) cs) eqn:E.
  - inversion H; subst. apply N.eqb_eq. exact E.
  - apply (IH e r H).
Qed.

Lemma lin_ext_lin_changes : forall v,
  NoDup (map se_id v) -> lin_ext v -> (forall e, In e v -> ~ In (se_id e) (cprev (se_ch e))) ->
  lin_changes (map se_ch v).
Proof.
  intros v Hnd Hlin Hself. split; [rewrite map_se_id; exact Hnd|].
  intros l1 c l2 Heq p Hp.
  apply map_eq_app in Heq. destruct Heq as [v1 [v2' [Hv [Hl1 Hl2]]]].
  apply map_eq_cons in Hl2. destruct Hl2 as [e [v2 [Hv2 [Hc Hl2]]]]. subst v2' v.
  split.
  - intro Heq. apply (Hself e); [apply in_or_app; right; left; reflexivity|].
    unfold se_id. rewrite Hc, <- Heq. exact Hp.
  - rewrite <- Hl2, map_se_id. rewrite <- Hc in Hp. apply (Hlin v1 e v2 eq_refl p Hp).
Qed.

Lemma lin_ext_prefix : forall a b, lin_ext (a ++ b) -> lin_ext a.
Proof.
  intros a b H l1 e l2 Heq p Hp Hin.
  assert (Hq : a ++ b = l1 ++ e :: (l2 ++ b)) by (rewrite Heq, <- app_assoc; reflexivity).
  apply (H l1 e (l2 ++ b) Hq p Hp). rewrite map_app. apply in_or_app. left. exact Hin.
Qed.

(* every batch of a response announces the childless members of the stored prefix processed so far *)
Theorem respond_heads_childless : forall sigma ourPath theirPath theirHeads ms bs cs,
  respond sigma ourPath theirPath theirHeads ms = Some bs ->
  choose_snapshot ourPath theirPath = Some cs ->
  NoDup (map se_id (from_id cs sigma)) -> lin_ext (from_id cs sigma) ->
  (forall e, In e (from_id cs sigma) -> ~ In (se_id e) (cprev (se_ch e))) ->
  heads_trace (removed_of sigma cs theirHeads) (from_id cs sigma) [] bs.
Proof.
  intros sigma ourPath theirPath theirHeads ms bs cs Hr Hcs Hnd Hlin Hself.
  unfold respond in Hr. rewrite Hcs in Hr. inversion Hr; subst bs. clear Hr.
  assert (Hok : li_ok (load sigma cs theirHeads)) by (unfold li_ok, load; cbn; intros; discriminate).
  assert (Hlen : length (nonrem (li_removed (load sigma cs theirHeads)) (li_rest (load sigma cs theirHeads))) < S (length sigma)).
  { pose proof (nonrem_length (li_removed (load sigma cs theirHeads)) (li_rest (load sigma cs theirHeads))).
    unfold load in *. cbn [li_rest] in *. pose proof (from_id_length cs sigma). lia. }
  unfold removed_of.
  apply (stream_heads (S (length sigma)) ms (load sigma cs theirHeads) [] cs (from_id cs sigma) Hok Hlen).
  - reflexivity.
  - reflexivity.
  - intros P R HP Hview.
    assert (HlinP : lin_changes (map se_ch P)).
    { apply lin_ext_lin_changes.
      - rewrite Hview, map_app in Hnd. apply NoDup_app_l in Hnd. exact Hnd.
      - rewrite Hview in Hlin. apply lin_ext_prefix in Hlin. exact Hlin.
      - intros e He. apply Hself. rewrite Hview. apply in_or_app. left. exact He. }
    rewrite <- (heads_fold_childless _ HlinP). unfold hfold.
    destruct P as [|e0 P']; [contradiction HP; reflexivity|].
    assert (He0 : se_id e0 = cs) by (apply (from_id_head cs sigma e0 (P' ++ R)); rewrite Hview; reflexivity).
    assert (Hs0 : ~ In cs (cprev (se_ch e0))).
    { rewrite <- He0. apply Hself. rewrite Hview. left. reflexivity. }
    cbn [map fold_left]. f_equal. f_equal. unfold upd_heads. cbn [filter].
    assert (Em : mem cs (cprev (se_ch e0)) = false) by (apply mem_false_In; exact Hs0).
    rewrite Em. cbn [negb]. unfold se_id in He0. rewrite He0. cbn [mem existsb]. rewrite N.eqb_refl. cbn [orb app]. reflexivity.
Qed.

(* the last batch announces the childless members of the whole range: the responder's heads *)
Corollary heads_trace_last : forall rem view pre bs d,
  heads_trace rem view pre bs -> bs <> [] -> isort (b_heads (last bs d)) = heads_of (map se_ch view).
Proof.
  intros rem view pre bs d H. induction H as [pre|pre used rest b bs Hv Hb Hh Hm Ht IH]; intros Hne; [contradiction Hne; reflexivity|].
  destruct bs as [|b' bs'].
  - cbn [last]. rewrite Hh, Hv, Hm, app_nil_r. reflexivity.
  - change (last (b :: b' :: bs') d) with (last (b' :: bs') d). apply IH. discriminate.
Qed.

(* ---------------------------------------------------------------- 3. the canonical stored order is causal *)
From AnySync Require Import Proofs.DfsTopo.

(* C06 models the stored order of a replica as the canonical order of its stored set.  If the responder's stored
   sequence is that order of an acyclic set (and the previous ids of the root change lie outside it, as for the root of
   a tree), it is a linear extension — the hypothesis of respond_causal / respond_heads_childless — and has pairwise
   different ids. *)
Theorem canonical_store_lin_ext : forall S root rk sigma,
  acyclic_by rk (view S root) ->
  map se_id sigma = order S root ->
  (forall e, In e sigma -> se_id e <> root -> In (se_ch e) (view S root)) ->
  (forall e p, In e sigma -> se_id e = root -> In p (cprev (se_ch e)) -> ~ In p (order S root)) ->
  NoDup (map se_id sigma) /\ lin_ext sigma.
Proof.
  intros S root rk sigma Hac Hids Hview Hroot.
  destruct (order_topological S root rk Hac) as [Hnd Hlat]. split; [rewrite Hids; exact Hnd|].
  intros l1 e l2 Heq p Hp Hin.
  assert (He : In e sigma) by (rewrite Heq; apply in_or_app; right; left; reflexivity).
  assert (Hord : order S root = map se_id l1 ++ se_id e :: map se_id l2).
  { rewrite <- Hids, Heq, map_app. reflexivity. }
  destruct (N.eq_dec (se_id e) root) as [Er|Er].
  - apply (Hroot e p He Er Hp). rewrite Hord. apply in_or_app. right. right. exact Hin.
  - pose proof (Hview e He Er) as Hc.
    apply in_split in Hin. destruct Hin as [a [b Hl2]].
    assert (Hord2 : order S root = (map se_id l1 ++ se_id e :: a) ++ p :: b).
    { rewrite Hord, Hl2, <- app_assoc. reflexivity. }
    pose proof (Hlat _ p b Hord2 (se_ch e) Hc Hp) as Hlater. fold (se_id e) in Hlater.
    rewrite Hord2 in Hnd. rewrite <- app_assoc in Hnd. cbn [app] in Hnd.
    apply NoDup_remove_2 in Hnd. apply Hnd. apply in_or_app. right. apply in_or_app. right. right. exact Hlater.
Qed.

(* ---------------------------------------------------------------- 4. the heads conjunct of spec_C09 on the model's output *)

Definition obs_list (bs : list batch) : list (list N * list N) :=
  map (fun b => (map se_id (b_changes b), b_heads b)) bs.

Lemma list_eqb_same : forall l, list_eqb l l = true.
Proof. induction l as [|a r IH]; [reflexivity|]. cbn [list_eqb]. rewrite N.eqb_refl, IH. reflexivity. Qed.

Lemma ids_before_none : forall v, ids_before None v = map se_id v.
Proof. induction v as [|e r IH]; [reflexivity|]. cbn [ids_before map]. rewrite IH. reflexivity. Qed.

Lemma ids_before_some : forall P e r, ~ In (se_id e) (map se_id P) ->
  ids_before (Some (se_id e)) (P ++ e :: r) = map se_id P.
Proof.
  induction P as [|a P' IH]; intros e r Hn.
  - cbn [app ids_before map]. rewrite N.eqb_refl. reflexivity.
  - cbn [app ids_before map]. destruct (N.eqb (se_id a) (se_id e)) eqn:E.
    + exfalso. apply N.eqb_eq in E. apply Hn. left. exact E.
    + rewrite IH; [reflexivity|]. intro H. apply Hn. right. exact H.
Qed.

Lemma find_all_agree : forall G P, (forall e, In e P -> find_change G (se_id e) = Some (se_ch e)) ->
  find_all G (map se_id P) = map se_ch P.
Proof.
  intros G P. induction P as [|a r IH]; intros H; [reflexivity|]. cbn [map find_all].
  rewrite (H a (or_introl eq_refl)). rewrite IH; [reflexivity|]. intros e He. apply H. right. exact He.
Qed.

Lemma heads_trace_cons_inv : forall rem view pre b bs,
  heads_trace rem view pre (b :: bs) ->
  exists used rest, view = (pre ++ used) ++ rest /\ b_changes b = nonrem rem used.
Proof. intros rem view pre b bs H. inversion H; subst. eauto. Qed.

(* on a heads_trace the executable heads conjunct of spec_C09 holds, for every DAG G that agrees with the stored range *)
Theorem heads_trace_heads_ok : forall G rem view,
  NoDup (map se_id view) ->
  (forall e, In e view -> find_change G (se_id e) = Some (se_ch e)) ->
  forall pre bs, heads_trace rem view pre bs -> Forall (fun b => b_changes b <> []) bs ->
  heads_ok G view (obs_list bs) = true.
Proof.
  intros G rem view Hnd HG pre bs Ht. induction Ht as [pre|pre used rest b bs Hv Hb Hh Hm Ht IH]; intros Hne; [reflexivity|].
  inversion Hne as [|x xs Hbne Hne']; subst x xs.
  cbn [obs_list map heads_ok]. fold (obs_list bs). rewrite (IH Hne'), andb_true_r.
  assert (Hsub : forall e, In e (pre ++ used) -> find_change G (se_id e) = Some (se_ch e)).
  { intros e He. apply HG. rewrite Hv. apply in_or_app. left. exact He. }
  destruct bs as [|b' bs'].
  - cbn [obs_list map]. rewrite ids_before_none. rewrite Hm, app_nil_r in Hv.
    rewrite Hv, (find_all_agree G _ Hsub), Hh. apply list_eqb_same.
  - destruct Hm as [e [r [Hrest Hem]]].
    assert (Hfirst : first_id (map se_id (b_changes b')) = Some (se_id e)).
    { destruct (heads_trace_cons_inv _ _ _ _ _ Ht) as [used' [rest' [Hv' Hb']]].
      inversion Hne' as [|x xs Hb'ne Hxs]; subst x xs.
      rewrite Hv, Hrest in Hv'. rewrite <- (app_assoc (pre ++ used) used' rest') in Hv'. apply app_inv_head in Hv'.
      destruct used' as [|u us].
      - exfalso. apply Hb'ne. rewrite Hb'. reflexivity.
      - cbn [app] in Hv'. inversion Hv' as [[Hu Hus]]. subst u. rewrite Hb'. cbn [nonrem filter]. rewrite Hem. reflexivity. }
    cbn [obs_list map fst]. rewrite Hfirst.
    assert (Hnin : ~ In (se_id e) (map se_id (pre ++ used))).
    { rewrite Hv, Hrest, map_app in Hnd. cbn [map] in Hnd. apply NoDup_remove_2 in Hnd.
      intro H. apply Hnd. apply in_or_app. left. exact H. }
    rewrite Hv, Hrest, (ids_before_some _ e r Hnin), (find_all_agree G _ Hsub), Hh. apply list_eqb_same.
Qed.

(* the heads conjunct of spec_C09 holds of every response of the model (hypotheses of respond_heads_childless, and a DAG
   that agrees with the stored range) *)
Corollary respond_heads_ok : forall G sigma ourPath theirPath theirHeads ms bs cs,
  respond sigma ourPath theirPath theirHeads ms = Some bs ->
  choose_snapshot ourPath theirPath = Some cs ->
  NoDup (map se_id (from_id cs sigma)) -> lin_ext (from_id cs sigma) ->
  (forall e, In e (from_id cs sigma) -> ~ In (se_id e) (cprev (se_ch e))) ->
  (forall e, In e (from_id cs sigma) -> find_change G (se_id e) = Some (se_ch e)) ->
  heads_ok G (from_id cs sigma) (obs_list bs) = true.
Proof.
  intros G sigma ourPath theirPath theirHeads ms bs cs Hr Hcs Hnd Hlin Hself HG.
  apply (heads_trace_heads_ok G (removed_of sigma cs theirHeads) (from_id cs sigma) Hnd HG [] bs).
  - apply (respond_heads_childless sigma ourPath theirPath theirHeads ms bs cs); assumption.
  - destruct (respond_exact _ _ _ _ _ _ Hr) as [cs' [_ [_ Hall]]].
    apply Forall_impl with (2 := Hall). intros b [_ Hb]. exact Hb.
Qed.
