(* Lemmas about the sorted association lists of Model/KeyValue.v (C12). Plain stdlib style. *)
From Coq Require Import List NArith ZArith Bool Lia.
Import ListNotations.
From AnySync Require Import Model.KeyValue.

Section SMapLemmas.
  Context {A : Type}.
  Implicit Types m : list (N * A).

  Lemma sm_get_set : forall m k a k',
    sm_get (sm_set m k a) k' = if (k =? k')%N then Some a else sm_get m k'.
  Proof.
    intros m k a k'. induction m as [|[k0 a0] r IH]; cbn [sm_set sm_get].
    - reflexivity.
    - destruct (k <? k0)%N eqn:Hlt.
      + cbn [sm_get]. reflexivity.
      + destruct (k =? k0)%N eqn:Heq.
        * apply N.eqb_eq in Heq. subst k0. cbn [sm_get]. destruct (k =? k')%N; reflexivity.
        * cbn [sm_get]. rewrite IH. destruct (k0 =? k')%N eqn:E; [|reflexivity].
          apply N.eqb_eq in E. subst k0. rewrite Heq. reflexivity.
  Qed.

  Lemma sm_get_remove : forall m k k',
    sm_get (sm_remove m k) k' = if (k =? k')%N then None else sm_get m k'.
  Proof.
    intros m k k'. induction m as [|[k0 a0] r IH]; cbn [sm_remove sm_get].
    - destruct (k =? k')%N; reflexivity.
    - destruct (k0 =? k)%N eqn:E.
      + apply N.eqb_eq in E. subst k0. rewrite IH. destruct (k =? k')%N; reflexivity.
      + cbn [sm_get]. rewrite IH. destruct (k0 =? k')%N eqn:E2; [|reflexivity].
        apply N.eqb_eq in E2. subst k0. rewrite N.eqb_sym, E. reflexivity.
  Qed.

  Lemma sm_get_all_gt : forall m k k',
    Forall (fun p => (k < fst p)%N) m -> (k' <= k)%N -> sm_get m k' = None.
  Proof.
    intros m k k' Hall Hle. induction Hall as [|[k0 a0] r Hk _ IH]; cbn [sm_get]; [reflexivity|].
    cbn in Hk. destruct (k0 =? k')%N eqn:E; [apply N.eqb_eq in E; lia | exact IH].
  Qed.

  Lemma sm_set_forall : forall (P : N * A -> Prop) m k a,
    Forall P m -> P (k, a) -> Forall P (sm_set m k a).
  Proof.
    intros P m k a Hall Hp. induction Hall as [|[k0 a0] r Hk Hr IH]; cbn [sm_set].
    - constructor; [exact Hp | constructor].
    - destruct (k <? k0)%N; [constructor; [exact Hp | constructor; assumption]|].
      destruct (k =? k0)%N; constructor; assumption.
  Qed.

  Lemma sm_remove_forall : forall (P : N * A -> Prop) m k,
    Forall P m -> Forall P (sm_remove m k).
  Proof.
    intros P m k Hall. induction Hall as [|[k0 a0] r Hk Hr IH]; cbn [sm_remove]; [constructor|].
    destruct (k0 =? k)%N; [exact IH | constructor; assumption].
  Qed.

  Lemma sm_set_sorted : forall m k a, sm_sorted m -> sm_sorted (sm_set m k a).
  Proof.
    intros m k a. induction m as [|[k0 a0] r IH]; cbn [sm_set sm_sorted]; intros Hs.
    - split; [constructor | exact I].
    - destruct Hs as [Hall Hs].
      destruct (k <? k0)%N eqn:Hlt.
      + apply N.ltb_lt in Hlt. cbn [sm_sorted]. split; [|split; assumption].
        constructor; [exact Hlt|].
        eapply Forall_impl; [|exact Hall]. intros p Hp. cbn in Hp |- *. lia.
      + apply N.ltb_ge in Hlt. destruct (k =? k0)%N eqn:Heq.
        * apply N.eqb_eq in Heq. subst k0. cbn [sm_sorted]. split; assumption.
        * apply N.eqb_neq in Heq. cbn [sm_sorted]. split; [|apply IH; exact Hs].
          apply sm_set_forall; [exact Hall | cbn; lia].
  Qed.

  Lemma sm_remove_sorted : forall m k, sm_sorted m -> sm_sorted (sm_remove m k).
  Proof.
    intros m k. induction m as [|[k0 a0] r IH]; cbn [sm_remove sm_sorted]; intros Hs; [exact I|].
    destruct Hs as [Hall Hs]. destruct (k0 =? k)%N; [apply IH; exact Hs|].
    cbn [sm_sorted]. split; [apply sm_remove_forall; exact Hall | apply IH; exact Hs].
  Qed.

  (* two sorted maps with the same lookups are the same list *)
  Lemma sm_ext : forall m1 m2,
    sm_sorted m1 -> sm_sorted m2 -> (forall k, sm_get m1 k = sm_get m2 k) -> m1 = m2.
  Proof.
    induction m1 as [|[k1 a1] r1 IH]; intros [|[k2 a2] r2] S1 S2 H.
    - reflexivity.
    - specialize (H k2). cbn [sm_get] in H. rewrite N.eqb_refl in H. discriminate.
    - specialize (H k1). cbn [sm_get] in H. rewrite N.eqb_refl in H. discriminate.
    - cbn [sm_sorted] in S1, S2. destruct S1 as [A1 S1], S2 as [A2 S2].
      assert (Hk : k1 = k2).
      { destruct (N.lt_trichotomy k1 k2) as [Hlt|[Heq|Hgt]]; [|exact Heq|].
        - pose proof (H k1) as Hk. cbn [sm_get] in Hk. rewrite N.eqb_refl in Hk.
          destruct (k2 =? k1)%N eqn:E; [apply N.eqb_eq in E; lia|].
          rewrite (sm_get_all_gt r2 k2 k1 A2) in Hk by lia. discriminate.
        - pose proof (H k2) as Hk. cbn [sm_get] in Hk. rewrite N.eqb_refl in Hk.
          destruct (k1 =? k2)%N eqn:E; [apply N.eqb_eq in E; lia|].
          rewrite (sm_get_all_gt r1 k1 k2 A1) in Hk by lia. discriminate. }
      subst k2.
      pose proof (H k1) as Ha. cbn [sm_get] in Ha. rewrite N.eqb_refl in Ha. injection Ha as Ha. subst a2.
      f_equal. apply IH; [exact S1 | exact S2|].
      intros k. destruct (k1 =? k)%N eqn:E.
      + apply N.eqb_eq in E. subst k.
        rewrite (sm_get_all_gt r1 k1 k1 A1), (sm_get_all_gt r2 k1 k1 A2) by lia. reflexivity.
      + specialize (H k). cbn [sm_get] in H. rewrite E in H. exact H.
  Qed.
End SMapLemmas.

Lemma sm_get_map : forall {A B} (f : A -> B) (m : smap A) k,
  sm_get (sm_map f m) k = option_map f (sm_get m k).
Proof.
  intros A B f m k. induction m as [|[k0 a0] r IH]; cbn [sm_map map sm_get fst snd option_map]; [reflexivity|].
  destruct (k0 =? k)%N; [reflexivity | exact IH].
Qed.

Lemma sm_map_sorted : forall {A B} (f : A -> B) (m : smap A), sm_sorted m -> sm_sorted (sm_map f m).
Proof.
  intros A B f m. induction m as [|[k0 a0] r IH]; cbn [sm_map map sm_sorted fst snd]; intros Hs; [exact I|].
  destruct Hs as [Hall Hs]. split; [|apply IH; exact Hs].
  apply Forall_map. eapply Forall_impl; [|exact Hall]. intros p Hp. exact Hp.
Qed.

(* folds of sets / removes, characterised by lookups *)
Definition find_key {B} (k : N) (l : list (N * B)) : option (N * B) := find (fun e => (fst e =? k)%N) l.

Lemma get_fold_set_rev : forall {B} (pr : list (N * B)) (X : smap B) k,
  sm_get (fold_left (fun i e => sm_set i (fst e) (snd e)) (rev pr) X) k =
  match find_key k pr with Some e => Some (snd e) | None => sm_get X k end.
Proof.
  intros B pr X k.
  induction pr as [|e pr IH]; cbn [rev find_key find fold_left]; [reflexivity|].
  rewrite fold_left_app. cbn [fold_left].
  rewrite sm_get_set. destruct (fst e =? k)%N; [reflexivity | exact IH].
Qed.

Lemma get_fold_set_snoc : forall {B} (l : list (N * B)) (X : smap B) e,
  fold_left (fun i e => sm_set i (fst e) (snd e)) (l ++ [e]) X =
  sm_set (fold_left (fun i e => sm_set i (fst e) (snd e)) l X) (fst e) (snd e).
Proof. intros. rewrite fold_left_app. reflexivity. Qed.

Lemma get_fold_remove : forall {B} (ad : list N) (X : smap B) k,
  sm_get (fold_left (fun i k => sm_remove i k) ad X) k =
  if existsb (fun a => (a =? k)%N) ad then None else sm_get X k.
Proof.
  intros B ad. induction ad as [|a ad IH]; intros X k; cbn [fold_left existsb]; [reflexivity|].
  rewrite IH, sm_get_remove. destruct (a =? k)%N; cbn [orb]; [|reflexivity].
  destruct (existsb _ ad); reflexivity.
Qed.

Lemma fold_set_sorted : forall {B} (l : list (N * B)) (X : smap B),
  sm_sorted X -> sm_sorted (fold_left (fun i e => sm_set i (fst e) (snd e)) l X).
Proof.
  intros B l. induction l as [|e l IH]; intros X Hs; cbn [fold_left]; [exact Hs|].
  apply IH, sm_set_sorted, Hs.
Qed.

Lemma fold_remove_sorted : forall {B} (l : list N) (X : smap B),
  sm_sorted X -> sm_sorted (fold_left (fun i k => sm_remove i k) l X).
Proof.
  intros B l. induction l as [|e l IH]; intros X Hs; cbn [fold_left]; [exact Hs|].
  apply IH, sm_remove_sorted, Hs.
Qed.
