(* Proofs/OrderIdsTree.v — facts about the incremental tree needed for the order ids (C06/C09), for ANY tree that
   satisfies the invariants of Proofs/TreeInc.v / TreeAppend.v (not only [run_ops]): the presented sequence starts
   with the root and consists of attached changes; headIds are the childless presented changes; growth keeps the old
   order (generic form of tree_add_old_order_stable); what Tree.AddMergedHead does. *)
From Coq Require Import List NArith Bool Arith Lia Permutation.
Import ListNotations.
From AnySync Require Import Lib.Dag Model.Dfs Model.Tree Model.OrderIds Proofs.DfsBase Proofs.TreeInc Proofs.DfsTopo
  Proofs.DfsStable Proofs.TreeAppend.

(* ---------------------------------------------------------------- the presented sequence starts with the start change *)

Section RootFirst.
  Variable nx : N -> list N.
  Variable root : N.

  Definition rf_inv (s : dstate) : Prop :=
    (exists st, d_stack s = st ++ [root] /\ ~ In root st /\ mem root (d_bf s) = true /\ mem root (d_vis s) = true)
    \/ (d_stack s = [] /\ exists r, d_res s = root :: r).

  Lemma mem_filter_neq : forall x ch l, x <> ch -> mem x (filter (fun i => negb (N.eqb i ch)) l) = mem x l.
  Proof.
    intros x ch l Hne. induction l as [|a r IH]; [reflexivity|]. cbn [filter].
    destruct (N.eqb a ch) eqn:E; cbn [negb].
    - apply N.eqb_eq in E. subst a. unfold mem in *. cbn [existsb]. rewrite IH.
      destruct (N.eqb x ch) eqn:E2; [apply N.eqb_eq in E2; contradiction | reflexivity].
    - unfold mem in *. cbn [existsb]. rewrite IH. reflexivity.
  Qed.

  Lemma rf_step : forall s, rf_inv s -> rf_inv (dfs_step nx s).
  Proof.
    intros s [[st [Hst [Hni [Hbf Hvis]]]]|[Hst Hres]].
    - unfold dfs_step. rewrite Hst. destruct st as [|ch st']; cbn [app].
      + rewrite Hbf. right. cbn [d_stack d_res]. split; [reflexivity | eexists; reflexivity].
      + assert (Hne : root <> ch) by (intro E; apply Hni; left; symmetry; exact E).
        assert (Hni' : ~ In root st') by (intro H; apply Hni; right; exact H).
        destruct (mem ch (d_bf s)) eqn:Ecb.
        * left. exists st'. cbn [d_stack d_bf d_vis]. repeat split; try assumption. rewrite mem_filter_neq; assumption.
        * destruct (mem ch (d_vis s)) eqn:Ecv.
          -- left. exists st'. cbn [d_stack d_bf d_vis]. repeat split; assumption.
          -- left. exists (rev (filter (fun i => negb (mem i (ch :: d_vis s))) (nx ch)) ++ ch :: st').
             cbn [d_stack d_bf d_vis]. split; [rewrite <- app_assoc; reflexivity|]. split; [|split].
             ++ intro Hin. apply in_app_or in Hin. destruct Hin as [Hin|[Hin|Hin]].
                ** apply in_rev in Hin. apply filter_In in Hin. destruct Hin as [_ Hf].
                   unfold mem in Hf, Hvis. cbn [existsb] in Hf. rewrite Hvis, orb_true_r in Hf. discriminate.
                ** exact (Hne (eq_sym Hin)).
                ** exact (Hni' Hin).
             ++ unfold mem in *. cbn [existsb]. rewrite Hbf. apply orb_true_r.
             ++ unfold mem in *. cbn [existsb]. rewrite Hvis. apply orb_true_r.
    - unfold dfs_step. rewrite Hst. right. split; assumption.
  Qed.

  Lemma rf_loop : forall fuel s l, rf_inv s -> dfs_loop nx fuel s = Some l -> exists r, l = root :: r.
  Proof.
    induction fuel as [|f IH]; intros s l Hi Hl; cbn [dfs_loop] in Hl.
    - destruct (d_stack s) eqn:E; [|discriminate]. inversion Hl; subst.
      destruct Hi as [[st [Hst _]]|[_ Hres]]; [rewrite E in Hst; destruct st; discriminate | exact Hres].
    - destruct (d_stack s) eqn:E.
      + inversion Hl; subst. destruct Hi as [[st [Hst _]]|[_ Hres]]; [rewrite E in Hst; destruct st; discriminate | exact Hres].
      + apply (IH (dfs_step nx s) l); [apply rf_step; exact Hi | exact Hl].
  Qed.

  Lemma dfs_root_first : forall fuel l, dfs_loop nx fuel (dfs_init root) = Some l -> exists r, l = root :: r.
  Proof.
    intros fuel l H. destruct fuel as [|f]; cbn [dfs_loop dfs_init d_stack] in H; [discriminate|].
    apply (rf_loop f (dfs_step nx (dfs_init root)) l); [|exact H]. left.
    exists (rev (filter (fun i => negb (mem i [root])) (nx root))).
    unfold dfs_step, dfs_init. cbn [d_stack d_bf d_vis mem existsb]. split; [reflexivity|]. split; [|split].
    - intro Hin. apply in_rev in Hin. apply filter_In in Hin. destruct Hin as [_ Hf].
      unfold mem in Hf. cbn [existsb] in Hf. rewrite N.eqb_refl in Hf. discriminate.
    - unfold mem. cbn [existsb]. rewrite N.eqb_refl. reflexivity.
    - unfold mem. cbn [existsb]. rewrite N.eqb_refl. reflexivity.
  Qed.

  (* everything presented is the start change or a Next entry of something *)
  Variable Rg : N -> Prop.
  Hypothesis nx_R : forall p y, In y (nx p) -> Rg y.

  Lemma dfs_step_rng : forall s,
    (forall y, In y (d_stack s) \/ In y (d_res s) -> Rg y) ->
    forall y, In y (d_stack (dfs_step nx s)) \/ In y (d_res (dfs_step nx s)) -> Rg y.
  Proof.
    intros s H y Hy. unfold dfs_step in Hy. remember (d_stack s) as stk eqn:Est.
    destruct stk as [|ch st]; [apply H; rewrite <- Est in Hy; exact Hy|].
    assert (Hch : Rg ch) by (apply H; left; left; reflexivity).
    assert (Hst : forall z, In z st -> Rg z) by (intros z Hz; apply H; left; right; exact Hz).
    assert (Hres : forall z, In z (d_res s) -> Rg z) by (intros z Hz; apply H; right; exact Hz).
    destruct (mem ch (d_bf s)); cbn [d_stack d_res] in Hy.
    - destruct Hy as [Hy|[Hy|Hy]]; [apply Hst; exact Hy | subst y; exact Hch | apply Hres; exact Hy].
    - destruct (mem ch (d_vis s)); cbn [d_stack d_res] in Hy.
      + destruct Hy as [Hy|Hy]; [apply Hst; exact Hy | apply Hres; exact Hy].
      + destruct Hy as [Hy|Hy]; [|apply Hres; exact Hy]. apply in_app_or in Hy. destruct Hy as [Hy|[Hy|Hy]].
        * apply in_rev in Hy. apply filter_In in Hy. apply (nx_R ch). exact (proj1 Hy).
        * subst y. exact Hch.
        * apply Hst. exact Hy.
  Qed.

  Lemma dfs_loop_rng : forall fuel s l,
    (forall y, In y (d_stack s) \/ In y (d_res s) -> Rg y) -> dfs_loop nx fuel s = Some l -> forall y, In y l -> Rg y.
  Proof.
    induction fuel as [|f IH]; intros s l H Hl y Hy; cbn [dfs_loop] in Hl.
    - destruct (d_stack s); [|discriminate]. inversion Hl; subst l. apply H. right. exact Hy.
    - destruct (d_stack s) eqn:E.
      + inversion Hl; subst l. apply H. right. exact Hy.
      + rewrite <- E in H. apply (IH (dfs_step nx s) l); [apply dfs_step_rng; exact H | exact Hl | exact Hy].
  Qed.
End RootFirst.

Lemma order_root_first : forall S root, exists r, order S root = root :: r.
Proof.
  intros S root. pose proof (order_opt_order S root) as Ho. unfold order_opt in Ho.
  apply (dfs_root_first _ _ _ _ Ho).
Qed.

Lemma order_in_view : forall S root y, In y (order S root) -> y = root \/ In y (ids (view S root)).
Proof.
  intros S root y Hy. pose proof (order_opt_order S root) as Ho. unfold order_opt in Ho.
  apply (dfs_loop_rng (next_of (view S root)) (fun y => y = root \/ In y (ids (view S root))))
    with (fuel := dfs_fuel (view S root)) (s := dfs_init root) (l := order S root).
  - intros p z Hz. right. apply next_of_In in Hz. destruct Hz as [c [Hc [Hid _]]]. subst z. unfold ids. apply in_map. exact Hc.
  - intros z [[Hz|[]]|[]]. left. symmetry. exact Hz.
  - exact Ho.
  - exact Hy.
Qed.

Lemma iter_ids_order : forall t, inv t -> t_att t <> [] -> iter_ids t = order (t_att t) (t_root t).
Proof. intros t Hinv Hne. unfold iter_ids. rewrite (inv_iter_canonical t Hinv Hne), order_opt_order. reflexivity. Qed.

Lemma iter_ids_empty : forall t, t_att t = [] -> iter_ids t = [].
Proof. intros t He. unfold iter_ids, iter_tree. rewrite He. reflexivity. Qed.

(* everything presented is attached *)
Lemma iter_in_att : forall t, inv t -> t_att t <> [] -> forall y, In y (iter_ids t) -> In y (ids (t_att t)).
Proof.
  intros t Hinv Hne y Hy. rewrite (iter_ids_order t Hinv Hne) in Hy. apply order_in_view in Hy. destruct Hy as [Hy|Hy].
  - subst y. destruct (inv_root t Hinv) as [He|Hr]; [contradiction | apply attached_In; exact Hr].
  - unfold ids in *. apply in_map_iff in Hy. destruct Hy as [c [Hc1 Hc2]]. apply in_map_iff. exists c.
    split; [exact Hc1 | apply (view_In _ _ _ Hc2)].
Qed.

(* ---------------------------------------------------------------- headIds = the childless presented changes *)

Definition heads_now (t : tree) : list N := isort (filter (childless_in t) (order (t_att t) (t_root t))).

Definition invh (t : tree) : Prop := t_att t <> [] -> t_heads t = heads_now t.

Lemma heads_now_transport : forall t t', t_att t' = t_att t -> t_root t' = t_root t -> heads_now t' = heads_now t.
Proof. intros t t' Ha Hr. unfold heads_now, childless_in. rewrite Ha, Hr. reflexivity. Qed.

Lemma update_heads_heads : forall t, inv t -> t_att t <> [] -> t_heads (update_heads t) = heads_now t.
Proof.
  intros t Hinv Hne. unfold update_heads. rewrite (inv_iter_canonical t Hinv Hne), order_opt_order. cbn [t_heads].
  unfold heads_now. f_equal. apply filter_ext. intros i. unfold childless_in. rewrite (inv_next t Hinv). reflexivity.
Qed.

Lemma attach_heads : forall fuel t added c newEl, t_heads (fst (attach fuel t added c newEl)) = t_heads t.
Proof.
  induction fuel as [|f IH]; intros t added c newEl; [reflexivity|]. cbn [attach].
  set (t1 := mkTree _ _ _ _ _ _ _ _ _).
  assert (H1 : t_heads t1 = t_heads t) by reflexivity. clearbody t1.
  assert (Hfold : forall (wl : list N) (acc : tree * list N), t_heads (fst acc) = t_heads t ->
            t_heads (fst (fold_left
                 (fun (acc : tree * list N) (wid : N) =>
                    let '(ta, ad) := acc in
                    match find_change (t_unatt ta) wid with
                    | None => acc
                    | Some nxt =>
                        let '(_, att, rem) := can_attach ta nxt false in
                        if att then attach f ta ad nxt false
                        else if rem then (set_unatt ta (remove_change (t_unatt ta) wid), ad)
                        else acc
                    end) wl acc)) = t_heads t).
  { induction wl as [|wid wl IHwl]; intros [ta ad] Ha; cbn [fold_left fst] in *; [exact Ha|].
    destruct (find_change (t_unatt ta) wid) as [nxt|]; [|apply IHwl; exact Ha].
    destruct (can_attach ta nxt false) as [[tx att] rem]. destruct att.
    - apply IHwl. rewrite IH. exact Ha.
    - destruct rem; apply IHwl; exact Ha. }
  specialize (Hfold (alookup (t_wait t1) (cid c)) (t1, added ++ [cid c]) H1).
  destruct (fold_left _ (alookup (t_wait t1) (cid c)) (t1, added ++ [cid c])) as [t2 added2]. exact Hfold.
Qed.

Lemma can_attach_heads : forall t c b, t_heads (fst (fst (can_attach t c b))) = t_heads t.
Proof.
  intros t c b. unfold can_attach. destruct b; cbn;
    destruct (filter _ (cprev c)); try destruct (attached t (csnap c)); reflexivity.
Qed.

Lemma add_heads : forall t added c, t_heads (fst (add t added c)) = t_heads t.
Proof.
  intros t added c. unfold add. destruct (root_nil t); [reflexivity|].
  pose proof (can_attach_heads t c true) as Hc. destruct (can_attach t c true) as [[t1 att] rem]. cbn [fst] in Hc.
  destruct att; [rewrite attach_heads; exact Hc|]. destruct rem; exact Hc.
Qed.

Lemma add_all_heads : forall cs t added, t_heads (fst (fst (add_all t added cs))) = t_heads t.
Proof.
  induction cs as [|c r IH]; intros t added; cbn [add_all]; [reflexivity|].
  destruct (attached t (cid c) || has_change (t_unatt t) (cid c)).
  - specialize (IH t added). destruct (add_all t added r) as [[t' ad'] fl]. exact IH.
  - pose proof (add_heads t added c) as Ha. destruct (add t added c) as [t1 ad1]. cbn [fst] in Ha.
    specialize (IH t1 ad1). destruct (add_all t1 ad1 r) as [[t' ad'] fl]. cbn [fst] in *. congruence.
Qed.

Theorem tree_add_invh : forall t cs, inv t -> inv3 t -> invh t -> invh (fst (fst (tree_add t cs))).
Proof.
  intros t cs Hinv H3 Hh. unfold tree_add.
  pose proof (add_all_heads cs t []) as Hhd.
  destruct (add_all t [] cs) as [[t1 added] fresh] eqn:E. cbn [fst] in Hhd.
  destruct (add_all_facts t cs t1 added fresh Hinv H3 E) as [Hi1 [Hi21 Hsame]].
  assert (Hfin : invh (update_heads (set_unatt t1 []))).
  { intros Hne. destruct (update_heads_core (set_unatt t1 [])) as [Ha [Hr _]].
    rewrite update_heads_heads; [|apply set_unatt_nil_inv; exact Hi1 | rewrite <- Ha; exact Hne].
    symmetry. apply heads_now_transport; assumption. }
  destruct added as [|a ad]; cbn [fst].
  - destruct (Hsame eq_refl) as [Ha [Hr _]]. intros Hne. cbn [set_unatt t_att t_heads] in *.
    rewrite Hhd, Hh by (rewrite <- Ha; exact Hne). symmetry. apply heads_now_transport; assumption.
  - destruct (root_nil t); cbn [fst]; exact Hfin.
Qed.

Theorem tree_add_fast_invh : forall t cs, inv t -> inv3 t -> invh t -> invh (fst (tree_add_fast t cs)).
Proof.
  intros t cs Hinv H3 Hh. unfold tree_add_fast. destruct cs as [|c r]; [exact Hh|].
  destruct (add_all t [] (c :: r)) as [[t1 added] fresh] eqn:E.
  destruct (add_all_facts t (c :: r) t1 added fresh Hinv H3 E) as [Hi1 [Hi21 _]]. cbn [fst].
  destruct (update_heads_core t1) as [Ha [Hr _]]. intros Hne. cbn [set_unatt t_att t_heads] in *.
  rewrite update_heads_heads; [|exact Hi1 | rewrite <- Ha; exact Hne].
  symmetry. apply heads_now_transport; assumption.
Qed.

Lemma invh_empty : invh empty_tree.
Proof. intros H. contradiction H. reflexivity. Qed.

(* ---------------------------------------------------------------- growth keeps the old order, for any tree with the invariants *)

Record good (t : tree) : Prop := mkGood { gd_inv : inv t; gd_inv3 : inv3 t; gd_invh : invh t }.

Lemma good_empty : good empty_tree.
Proof. split; [apply inv_empty | apply inv3_empty | apply invh_empty]. Qed.

Lemma tree_add_good : forall t cs, good t -> good (fst (fst (tree_add t cs))).
Proof. intros t cs [H1 H2 H3]. split; [apply tree_add_inv | apply tree_add_inv3 | apply tree_add_invh]; assumption. Qed.

Lemma tree_add_fast_good : forall t cs, good t -> good (fst (tree_add_fast t cs)).
Proof. intros t cs [H1 H2 H3]. split; [apply tree_add_fast_inv | apply tree_add_fast_inv3 | apply tree_add_fast_invh]; assumption. Qed.

(* the shape of growth: the attached list grows at the front, same root, ids still pairwise different *)
Definition grown (t t2 : tree) (Nw : list change) : Prop :=
  t_att t2 = Nw ++ t_att t /\ t_root t2 = t_root t /\ NoDup (ids Nw ++ ids (t_att t)).

Lemma tree_add_grown : forall t cs, good t -> t_att t <> [] -> exists Nw, grown t (fst (fst (tree_add t cs))) Nw.
Proof.
  intros t cs [Hinv [Hun Hinv2 Hlast] _] Hne. unfold tree_add.
  pose proof (add_all_grows cs t [] Hinv Hinv2 Hne) as Hg. cbn zeta in Hg.
  destruct (add_all t [] cs) as [[t1 ad] fresh]. cbn [fst snd] in Hg.
  destruct Hg as [_ [Hi21 [_ [[Hr1 _ [Nw [Ha1 _]] _] _]]]].
  exists Nw.
  assert (Hnd : NoDup (ids Nw ++ ids (t_att t))).
  { destruct Hi21 as [Hnd1 _]. rewrite Ha1 in Hnd1. unfold ids in *. rewrite map_app in Hnd1. exact Hnd1. }
  destruct (update_heads_core (set_unatt t1 [])) as [Hau [Hru _]].
  destruct ad as [|a ad']; cbn [fst]; [split; [exact Ha1 | split; [exact Hr1 | exact Hnd]]|].
  destruct (root_nil t); cbn [fst]; (split; [rewrite Hau; exact Ha1 | split; [rewrite Hru; exact Hr1 | exact Hnd]]).
Qed.

Lemma tree_add_fast_grown : forall t cs, good t -> t_att t <> [] -> exists Nw, grown t (fst (tree_add_fast t cs)) Nw.
Proof.
  intros t cs [Hinv [Hun Hinv2 Hlast] _] Hne. unfold tree_add_fast. destruct cs as [|c r].
  - exists []. split; [reflexivity | split; [reflexivity | exact (i2_nodup t Hinv2)]].
  - pose proof (add_all_grows (c :: r) t [] Hinv Hinv2 Hne) as Hg. cbn zeta in Hg.
    destruct (add_all t [] (c :: r)) as [[t1 ad] fresh]. cbn [fst snd] in Hg.
    destruct Hg as [_ [Hi21 [_ [[Hr1 _ [Nw [Ha1 _]] _] _]]]].
    exists Nw. destruct (update_heads_core t1) as [Hau [Hru _]]. unfold grown. cbn [fst set_unatt t_att t_root].
    split; [rewrite Hau; exact Ha1 | split; [rewrite Hru; exact Hr1|]].
    destruct Hi21 as [Hnd1 _]. rewrite Ha1 in Hnd1. unfold ids in *. rewrite map_app in Hnd1. exact Hnd1.
Qed.

Lemma grown_h1 : forall t t2 Nw, grown t t2 Nw -> forall c, In c (t_att t) -> ~ In (cid c) (ids Nw).
Proof.
  intros t t2 Nw [_ [_ Hnd]] c Hc Hin. apply (NoDup_app_disjoint _ _ (cid c) Hnd Hin). unfold ids. apply in_map. exact Hc.
Qed.

Lemma grown_h2 : forall t t2 Nw, good t -> grown t t2 Nw ->
  forall c p, In c (view (t_att t) (t_root t)) -> In p (cprev c) -> ~ In p (ids Nw).
Proof.
  intros t t2 Nw Hgood [_ [_ Hnd]] c p Hc Hp Hin.
  pose proof (i2_closed t (i3_inv2 t (gd_inv3 t Hgood)) c p Hc Hp) as Hat. apply attached_In in Hat.
  apply (NoDup_app_disjoint _ _ p Hnd Hin Hat).
Qed.

Lemma grown_h3 : forall t t2 Nw, good t -> t_att t <> [] -> grown t t2 Nw -> ~ In (t_root t) (ids Nw).
Proof.
  intros t t2 Nw Hgood Hne [_ [_ Hnd]] Hin. destruct (inv_root t (gd_inv t Hgood)) as [He|Hrt]; [contradiction|].
  apply attached_In in Hrt. apply (NoDup_app_disjoint _ _ (t_root t) Hnd Hin Hrt).
Qed.

Lemma grown_ne : forall t t2 Nw, t_att t <> [] -> grown t t2 Nw -> t_att t2 <> [].
Proof.
  intros t t2 Nw Hne [Ha _]. rewrite Ha. intro Hnil. apply app_eq_nil in Hnil. destruct Hnil as [_ Hnil]. exact (Hne Hnil).
Qed.

Lemma grown_iter : forall t t2 Nw, t_att t <> [] -> inv t2 -> grown t t2 Nw ->
  iter_ids t2 = order (t_att t ++ Nw) (t_root t).
Proof.
  intros t t2 Nw Hne Hi2 Hgr. rewrite (iter_ids_order t2 Hi2 (grown_ne t t2 Nw Hne Hgr)).
  destruct Hgr as [Ha [Hr _]]. rewrite Ha, Hr. apply order_perm. apply Permutation_app_comm.
Qed.

(* leaving the new changes out of the new presented sequence gives the old one *)
Lemma grown_stable : forall t t2 Nw, good t -> t_att t <> [] -> inv t2 -> grown t t2 Nw ->
  filter (not_new Nw) (iter_ids t2) = iter_ids t.
Proof.
  intros t t2 Nw Hgood Hne Hi2 Hgr.
  rewrite (grown_iter t t2 Nw Hne Hi2 Hgr), (iter_ids_order t (gd_inv t Hgood) Hne).
  apply order_stable; [exact (grown_h1 t t2 Nw Hgr) | exact (grown_h2 t t2 Nw Hgood Hgr) | exact (grown_h3 t t2 Nw Hgood Hne Hgr)].
Qed.

Lemma grown_acyclic : forall t t2 Nw rk, grown t t2 Nw -> acyclic_by rk (view (t_att t2) (t_root t2)) ->
  acyclic_by rk (view (t_att t ++ Nw) (t_root t)) /\ acyclic_by rk (view (t_att t) (t_root t)).
Proof.
  intros t t2 Nw rk [Ha [Hr _]] Hac.
  assert (Hp : Permutation (view (t_att t2) (t_root t2)) (view (t_att t ++ Nw) (t_root t))).
  { rewrite Ha, Hr. apply view_perm. apply Permutation_app_comm. }
  assert (H1 : acyclic_by rk (view (t_att t ++ Nw) (t_root t))).
  { intros c p Hc Hp'. apply (Hac c p); [|exact Hp']. apply (Permutation_in c (Permutation_sym Hp)). exact Hc. }
  split; [exact H1|]. intros c p Hc Hp'. apply (H1 c p); [|exact Hp']. rewrite view_app. apply in_or_app. left. exact Hc.
Qed.

(* ---------------------------------------------------------------- Tree.AddMergedHead *)

Lemma list_eqb_eq : forall l1 l2, list_eqb l1 l2 = true -> l1 = l2.
Proof.
  induction l1 as [|a r IH]; intros [|b r2] H; cbn [list_eqb] in H; try discriminate; [reflexivity|].
  apply andb_true_iff in H. destruct H as [H1 H2]. apply N.eqb_eq in H1. subst b. f_equal. apply IH. exact H2.
Qed.

Lemma NoDup_app_r : forall (l1 l2 : list N), NoDup (l1 ++ l2) -> NoDup l2.
Proof. induction l1 as [|a r IH]; intros l2 H; [exact H|]. inversion H; subst. apply IH. assumption. Qed.

Lemma nil_or_in : forall (l : list N), l = [] \/ exists z, In z l.
Proof. intros [|z r]; [left; reflexivity | right; exists z; left; reflexivity]. Qed.

Lemma is_nil_false_in : forall (l : list N) z, In z l -> is_nil l = false.
Proof. intros [|a r] z H; [destruct H | reflexivity]. Qed.

(* a local change on top of all heads of a non-empty tree with the invariants, the result being acyclic: the new change is
   attached at the front, cites every old head, is presented LAST, and the invariants hold again *)
Lemma add_merged_facts : forall t c t' rk,
  good t -> t_att t <> [] -> add_merged t c = Some t' ->
  acyclic_by rk (view (t_att t') (t_root t')) ->
  good t' /\
  (exists x, grown t t' [x] /\ cid x = cid c /\ (forall h, In h (t_heads t) -> In h (cprev x))) /\
  iter_ids t' = iter_ids t ++ [cid c] /\
  In (t_last t) (t_heads t) /\ last (iter_ids t) 0%N = t_last t /\ attached t (cid c) = false.
Proof.
  intros t c t' rk Hgood Hne H Hac. pose proof Hgood as [Hinv [Hun Hinv2 Hlast] Hh].
  unfold add_merged in H.
  destruct (attached t (cid c) || has_change (t_unatt t) (cid c)) eqn:E0; [discriminate|].
  apply orb_false_iff in E0. destruct E0 as [E1 E2].
  destruct (add_inv t [] c Hinv E1 E2) as [Hi1 Hn1].
  destruct (add_grows t [] c Hinv Hinv2 Hne E1 E2) as [Hi21 Hg].
  destruct (add t [] c) as [t1 ad1] eqn:Ea. cbn [fst snd] in *.
  destruct (negb (mem (cid c) ad1)) eqn:Em; [discriminate|]. apply negb_false_iff in Em.
  destruct (forallb (fun h => list_eqb (nxf t1 h) [cid c]) (t_heads t)) eqn:Ef; [|discriminate].
  inversion H; subst t'. clear H.
  destruct Hg as [Hr1 Hl1 [Nw [Ha1 [HU Hlen]]] Hun1].
  (* Nw = [x] with the id of c *)
  assert (HUc : forall y, In y (ids Nw) -> y = cid c).
  { intros y Hy. destruct (HU y Hy) as [Hy'|Hy']; [symmetry; exact Hy'|]. rewrite Hun in Hy'. destruct Hy'. }
  assert (Hnd : NoDup (ids Nw ++ ids (t_att t))).
  { destruct Hi21 as [Hnd1 _]. rewrite Ha1 in Hnd1. unfold ids in *. rewrite map_app in Hnd1. exact Hnd1. }
  assert (HNw : exists x, Nw = [x] /\ cid x = cid c).
  { destruct Nw as [|x [|x2 r]].
    - cbn [length] in Hlen. destruct ad1; [discriminate | cbn [length] in Hlen; lia].
    - exists x. split; [reflexivity | apply HUc; left; reflexivity].
    - exfalso. assert (A : cid x = cid c) by (apply HUc; left; reflexivity).
      assert (B : cid x2 = cid c) by (apply HUc; right; left; reflexivity).
      cbn [ids map app] in Hnd. inversion Hnd as [|? ? Hni _]; subst. apply Hni. left. congruence. }
  destruct HNw as [x [ENw Hxc]]. subst Nw. cbn [app] in Ha1.
  assert (Hu1 : t_unatt t1 = []).
  { destruct (t_unatt t1) as [|u r] eqn:Eu; [reflexivity|]. exfalso.
    assert (Hcu : cid u = cid c).
    { destruct (Hun1 u (or_introl eq_refl)) as [Hy|Hy]; [symmetry; exact Hy | rewrite Hun in Hy; destruct Hy]. }
    pose proof (inv_unatt t1 Hi1 u) as Hna. rewrite Eu in Hna. specialize (Hna (or_introl eq_refl)).
    assert (Hat : attached t1 (cid u) = true).
    { apply attached_In. rewrite Ha1. cbn [ids map]. left. congruence. }
    congruence. }
  set (t' := mkTree (t_root t1) (t_att t1) (t_next t1) (t_unatt t1) (t_wait t1) [cid c] (cid c) (t_dirty t1) (t_oof t1)) in *.
  assert (Hi' : inv t') by (apply (inv_transport t1); try reflexivity; [intros u Hu; exact Hu | exact Hi1]).
  assert (Hi2' : inv2 t') by (apply (inv2_transport t1); [reflexivity | reflexivity | exact Hi21]).
  assert (Hgr : grown t t' [x]).
  { split; [exact Ha1 | split; [exact Hr1 | exact Hnd]]. }
  assert (Hcite : forall h, In h (t_heads t) -> In h (cprev x)).
  { intros h Hh'. rewrite forallb_forall in Ef. pose proof (list_eqb_eq _ _ (Ef h Hh')) as En.
    assert (Hin : In (cid c) (nxf t1 h)) by (rewrite En; left; reflexivity).
    rewrite (inv_next t1 Hi1) in Hin. apply next_of_In in Hin. destruct Hin as [c0 [Hc0 [Hid Hp]]].
    apply view_In in Hc0. rewrite Ha1 in Hc0. destruct Hc0 as [Hc0|Hc0]; [subst c0; exact Hp|].
    exfalso. assert (Hat : attached t (cid c) = true) by (apply attached_In; rewrite <- Hid; unfold ids; apply in_map; exact Hc0).
    congruence. }
  set (S := t_att t) in *. set (root := t_root t) in *.
  pose proof (grown_h1 t t' [x] Hgr) as h1. pose proof (grown_h2 t t' [x] Hgood Hgr) as h2.
  pose proof (grown_h3 t t' [x] Hgood Hne Hgr) as h3. fold S root in h1, h2, h3.
  destruct (grown_acyclic t t' [x] rk Hgr Hac) as [Hac' HacS]. fold S root in Hac', HacS.
  destruct (order_last_head S root rk HacS) as [A0 [x0 [Hord Hnx]]].
  assert (Hx0 : t_last t = x0).
  { rewrite (Hlast Hne). unfold last_head, childless_in. fold S root. rewrite Hord, filter_app. cbn [filter].
    rewrite Hnx. cbn [is_nil]. apply last_last. }
  assert (Hx0h : In x0 (t_heads t)).
  { rewrite (Hh Hne). unfold heads_now. apply isort_In. apply filter_In. fold S root. split.
    - rewrite Hord. apply in_or_app. right. left. reflexivity.
    - unfold childless_in. fold S root. rewrite Hnx. reflexivity. }
  assert (Hxr : N.eqb (cid x) root = false).
  { apply N.eqb_neq. intro E. apply h3. cbn [ids map]. left. exact E. }
  assert (Hxv : In x (view (S ++ [x]) root)).
  { rewrite view_app. apply in_or_app. right. unfold view. cbn [filter]. rewrite Hxr. left. reflexivity. }
  assert (Hreach : forall y, In y (order (S ++ [x]) root) -> In y (ids [x]) -> reach (next_of (view (S ++ [x]) root)) x0 y).
  { intros y _ [Hy|[]]. subst y. apply reach_one. apply next_of_In. exists x. split; [exact Hxv|]. split; [reflexivity|].
    apply Hcite. exact Hx0h. }
  destruct (order_append_prefix S [x] root h1 h2 h3 rk Hac' A0 x0 Hord Hreach) as [B [HB HBin]].
  destruct (order_topological (S ++ [x]) root rk Hac') as [HndO Hlat].
  assert (HB1 : B = [cid x]).
  { assert (Hxin : In (cid x) B).
    { apply (Hlat A0 x0 B); [rewrite HB, Hord, <- app_assoc; reflexivity | exact Hxv | apply Hcite; exact Hx0h]. }
    rewrite HB in HndO. apply NoDup_app_r in HndO.
    destruct B as [|b1 [|b2 r]]; [destruct Hxin | |].
    - destruct Hxin as [E|[]]. rewrite E. reflexivity.
    - exfalso. assert (A : b1 = cid x) by (destruct (HBin b1 (or_introl eq_refl)) as [A|[]]; symmetry; exact A).
      assert (A2 : b2 = cid x) by (destruct (HBin b2 (or_intror (or_introl eq_refl))) as [A2|[]]; symmetry; exact A2).
      inversion HndO as [|? ? Hni _]; subst. apply Hni. left. reflexivity. }
  assert (Hit : iter_ids t = order S root) by (apply iter_ids_order; assumption).
  assert (Hit' : iter_ids t' = order S root ++ [cid c]).
  { rewrite (grown_iter t t' [x] Hne Hi' Hgr). fold S root. rewrite HB, HB1, Hxc. reflexivity. }
  (* the childless presented changes of the new tree: only the new change *)
  assert (Hord' : order (t_att t') (t_root t') = order S root ++ [cid x]).
  { rewrite <- (iter_ids_order t' Hi' (grown_ne t t' [x] Hne Hgr)), Hit', Hxc. reflexivity. }
  assert (Hvx : forall c0, In c0 (view S root) -> In c0 (view (t_att t') (t_root t'))).
  { intros c0 Hc0. change (t_att t') with (t_att t1). change (t_root t') with (t_root t1). rewrite Ha1, Hr1. fold S root.
    unfold view. cbn [filter]. rewrite Hxr. cbn [negb]. right. exact Hc0. }
  assert (Hxv' : In x (view (t_att t') (t_root t'))).
  { change (t_att t') with (t_att t1). change (t_root t') with (t_root t1). rewrite Ha1, Hr1. fold S root.
    unfold view. cbn [filter]. rewrite Hxr. left. reflexivity. }
  assert (Hold : forall y, In y (order S root) -> childless_in t' y = false).
  { intros y Hy. unfold childless_in.
    destruct (childless_in t y) eqn:Ecl.
    - assert (Hyh : In y (t_heads t)).
      { rewrite (Hh Hne). unfold heads_now. apply isort_In. apply filter_In. fold S root. split; assumption. }
      apply (is_nil_false_in _ (cid x)). apply next_of_In. exists x. split; [exact Hxv'|]. split; [reflexivity | apply Hcite; exact Hyh].
    - unfold childless_in in Ecl. fold S root in Ecl.
      destruct (nil_or_in (next_of (view S root) y)) as [En|[z Hz]]; [rewrite En in Ecl; discriminate|].
      apply (is_nil_false_in _ z). apply next_of_In in Hz. destruct Hz as [c0 [Hc0 [Hid Hp]]].
      apply next_of_In. exists c0. split; [apply Hvx; exact Hc0 | split; assumption]. }
  assert (Hnewc : childless_in t' (cid x) = true).
  { unfold childless_in. destruct (nil_or_in (next_of (view (t_att t') (t_root t')) (cid x))) as [En|[z Hz]]; [rewrite En; reflexivity|].
    exfalso. apply next_of_In in Hz. destruct Hz as [c0 [Hc0 [_ Hp]]].
    pose proof (Hac c0 (cid x) Hc0 Hp) as Hrk.
    change (t_att t') with (t_att t1) in Hc0. change (t_root t') with (t_root t1) in Hc0. rewrite Ha1, Hr1 in Hc0. fold S root in Hc0.
    unfold view in Hc0. cbn [filter] in Hc0. rewrite Hxr in Hc0. cbn [negb] in Hc0. destruct Hc0 as [Hc0|Hc0].
    - subst c0. lia.
    - apply (h2 c0 (cid x) Hc0 Hp). cbn [ids map]. left. reflexivity. }
  assert (Hfil : filter (childless_in t') (order (t_att t') (t_root t')) = [cid x]).
  { rewrite Hord', filter_app. cbn [filter]. rewrite Hnewc. rewrite (filter_none _ _ _ Hold). reflexivity. }
  split; [|split; [|split; [|split; [|split]]]].
  - split; [exact Hi'| |].
    + split; [exact Hu1 | exact Hi2' |]. intros _. unfold last_head. rewrite Hfil. cbn [t' t_last last]. symmetry. exact Hxc.
    + intros _. unfold heads_now. rewrite Hfil. cbn [t' t_heads isort fold_right insert_sorted]. rewrite Hxc. reflexivity.
  - exists x. split; [exact Hgr | split; [exact Hxc | exact Hcite]].
  - rewrite Hit', Hit. reflexivity.
  - rewrite Hx0. exact Hx0h.
  - rewrite Hit, Hord, Hx0. apply last_last.
  - exact E1.
Qed.
