(* C17 — serving side of Model/PubSub.v: the property-language theorems over ALL event sequences
   (views agree / delivery exact / teardown leaves nothing).  Plain stdlib style. *)
From Coq Require Import List NArith Bool Arith Lia.
Import ListNotations.
From AnySync Require Import Model.Trie Model.PubSub Proofs.TrieProofs Proofs.TrieValidate
  Proofs.PubSubBase Proofs.PubSubInv Proofs.PubSubStep Proofs.PubSubStep2.

(* ------------------------------------------------------------------ reachable states *)

(* stream ids are allocated by the pool from a counter: an id is opened at most once *)
Fixpoint opens (evs : list ev) : list N :=
  match evs with
  | [] => []
  | EOpen sid _ :: r => sid :: opens r
  | _ :: r => opens r
  end.
Definition fresh_opens (evs : list ev) : Prop := NoDup (opens evs).

Lemma inv_init : Inv svc_init.
Proof.
  split.
  - constructor; cbn; try constructor; try discriminate.
  - intros sp. cbn. intros p. reflexivity.
Qed.

Lemma ndel_some : forall {V} k x (l : list (N * V)), nassoc x (ndel k l) <> None -> nassoc x l <> None.
Proof.
  intros V k x l H. destruct (N.eq_dec k x) as [<-|Hne]; [rewrite nassoc_ndel_same in H; congruence|].
  rewrite nassoc_ndel_other in H by exact Hne. exact H.
Qed.

Lemma conns_sub : forall c s sid space pats, sv_conns (fst (handle_sub c s sid space pats)) = sv_conns s.
Proof.
  intros. unfold handle_sub, handle_sub_gen.
  destruct (nassoc sid (sv_conns s)); [|reflexivity].
  destruct (negb (memN space (resp c))); [reflexivity|].
  destruct (negb (forallb validate_pattern pats)); [reflexivity|].
  destruct (negb (is_member s space n)); [reflexivity|].
  destruct (sub_loop _ _ _ _ _ _) as [[[[sp' total'] tr'] accepted] rejected].
  destruct (is_nil accepted); [reflexivity|].
  destruct (nassoc sid (sv_pool s)); [reflexivity|].
  destruct (remove_patterns _ _ _ _ _) as [[st2 tr2] r2]. reflexivity.
Qed.

Lemma conns_unsub : forall s sid space pats, sv_conns (handle_unsub s sid space pats) = sv_conns s.
Proof.
  intros. unfold handle_unsub.
  destruct (nassoc sid (sv_conns s)); [|reflexivity].
  destruct (nassoc sid (sv_streams s)); [|reflexivity].
  destruct (nassoc space (sv_remote s)); [|reflexivity].
  destruct (remove_patterns _ _ _ _ _) as [[st2 tr2] r2]. reflexivity.
Qed.

Lemma conns_pool_remove : forall s sid, sv_conns (pool_remove s sid) = sv_conns s.
Proof.
  intros. unfold pool_remove. destruct (in_pool s sid); [|reflexivity].
  rewrite on_stream_close_unfold. cbn [sv_streams]. destruct (nassoc sid (sv_streams s)); reflexivity.
Qed.

Lemma conns_evict : forall s space evict wt, sv_conns (evict_streams s space evict wt) = sv_conns s.
Proof.
  intros. rewrite evict_streams_unfold. destruct (fold_left _ _ _) as [[a b] d]. reflexivity.
Qed.

Lemma conns_pub : forall c s sid space topic claim relayed wf,
  sv_conns (fst (handle_pub c s sid space topic claim relayed wf)) = sv_conns s.
Proof. intros. destruct (handle_pub_state c s sid space topic claim relayed wf) as [rate E]. rewrite E. reflexivity. Qed.

Lemma has_pub : forall c s sid space topic claim relayed wf sigma sp q,
  has (fst (handle_pub c s sid space topic claim relayed wf)) sigma sp q = has s sigma sp q.
Proof. intros. destruct (handle_pub_state c s sid space topic claim relayed wf) as [rate E]. rewrite E. reflexivity. Qed.

Lemma in_pool_pub : forall c s sid space topic claim relayed wf x,
  in_pool (fst (handle_pub c s sid space topic claim relayed wf)) x = in_pool s x.
Proof. intros. destruct (handle_pub_state c s sid space topic claim relayed wf) as [rate E]. rewrite E. reflexivity. Qed.

Lemma conns_step : forall c s e x,
  nassoc x (sv_conns (fst (svc_step c s e))) <> None ->
  nassoc x (sv_conns s) <> None \/ exists a, e = EOpen x a.
Proof.
  intros c s e x H. destruct e; unfold svc_step, svc_step_gen in H; cbn [fst] in H.
  - cbn [sv_conns] in H. destruct (N.eq_dec sid x) as [<-|Hne]; [right; eauto|].
    rewrite nassoc_nset_other in H by exact Hne. left. exact H.
  - fold (handle_sub c s sid space pats) in H. rewrite conns_sub in H. left. exact H.
  - rewrite conns_unsub in H. left. exact H.
  - destruct (handle_pub_state c s sid space topic claim relayed wellformed) as [rate E]. rewrite E in H. left. exact H.
  - unfold drop_conn in H. cbn [sv_conns] in H. apply ndel_some in H. rewrite conns_pool_remove in H. left. exact H.
  - rewrite conns_pool_remove in H. left. exact H.
  - rewrite conns_evict in H. left. exact H.
  - rewrite conns_evict in H. left. exact H.
  - rewrite conns_evict in H. left. exact H.
  - left. exact H.
  - left. exact H.
  - fold (handle_sub_mid c s sid victim space pats) in H. left.
    unfold handle_sub_mid, handle_sub_mid_gen in H. fold (handle_sub c (drop_pool s victim) sid space pats) in H.
    fold (handle_sub c s sid space pats) in H.
    destruct (sub_reaches_tagging c s sid space pats).
    + pose proof (conns_sub c (drop_pool s victim) sid space pats) as E.
      destruct (handle_sub c (drop_pool s victim) sid space pats) as [s2 o]. cbn [fst] in *.
      replace (sv_conns (on_stream_close s2 victim)) with (sv_conns s2) in H; [rewrite E in H; exact H|].
      unfold on_stream_close. destruct (nassoc victim (sv_streams s2)); reflexivity.
    + pose proof (conns_sub c s sid space pats) as E. destruct (handle_sub c s sid space pats) as [s2 o]. cbn [fst] in *.
      rewrite conns_pool_remove, E in H. exact H.
  - left. rewrite pub_mid_fst in H. destruct (pub_reaches_lookup c s sid space topic claim relayed wellformed).
    + rewrite conns_pub, conns_pool_remove in H. exact H.
    + rewrite conns_pool_remove, conns_pub in H. exact H.
Qed.

Lemma svc_exec_cons : forall c s e r, svc_exec c s (e :: r) = svc_exec c (fst (svc_step c s e)) r.
Proof. reflexivity. Qed.

Lemma opens_cons_in : forall e r x, In x (opens r) -> In x (opens (e :: r)).
Proof. intros e r x H. destruct e; cbn [opens]; auto. right. exact H. Qed.

Lemma inv_exec : forall c evs s, Inv s -> NoDup (opens evs) ->
  (forall x, In x (opens evs) -> nassoc x (sv_conns s) = None) -> Inv (svc_exec c s evs).
Proof.
  intros c. induction evs as [|e r IH]; intros s HI ND Hf; [exact HI|].
  rewrite svc_exec_cons. apply IH.
  - apply inv_step; [exact HI|]. intros sid acct ->. apply Hf. left. reflexivity.
  - destruct e; cbn [opens] in ND; auto. inversion ND; auto.
  - intros x Hx. destruct (nassoc x (sv_conns (fst (svc_step c s e)))) eqn:E; [|reflexivity]. exfalso.
    destruct (conns_step c s e x) as [H|[a ->]]; [congruence| |].
    + apply H. apply Hf. apply opens_cons_in. exact Hx.
    + cbn [opens] in ND. inversion ND; subst. contradiction.
Qed.

Theorem reachable_inv : forall c evs, fresh_opens evs -> Inv (svc_exec c svc_init evs).
Proof. intros c evs H. apply inv_exec; [apply inv_init|exact H|reflexivity]. Qed.

(* the observable outputs of a run are the outputs of the steps taken from the reached states *)
Lemma svc_run_snoc : forall c evs s e,
  svc_run c s (evs ++ [e]) = svc_run c s evs ++ [snd (svc_step c (svc_exec c s evs) e)].
Proof.
  intros c. induction evs as [|e0 r IH]; intros s e.
  - cbn [app svc_run svc_run_gen svc_exec fold_left]. unfold svc_step. destruct (svc_step_gen true c s e). reflexivity.
  - cbn [app]. unfold svc_run in *. cbn [svc_run_gen]. rewrite svc_exec_cons. unfold svc_step at 2.
    destruct (svc_step_gen true c s e0) as [s1 o1] eqn:E. cbn [fst]. rewrite IH. reflexivity.
Qed.

(* ------------------------------------------------------------------ (a) the three views agree *)

Lemma cnt_filter : forall l sp p,
  cnt l sp p = N.of_nat (length (filter (fun e => st_has (snd e) sp p) l)).
Proof.
  intros. unfold cnt. f_equal. induction l as [|e r IH]; cbn [wsum filter]; [reflexivity|].
  destruct (st_has (snd e) sp p); cbn [b2n length]; lia.
Qed.

Lemma has_pos_cnt : forall s sid sp p, has s sid sp p = true -> (0 < cnt (sv_streams s) sp p)%N.
Proof.
  intros s sid sp p H. unfold has in H. destruct (nassoc sid (sv_streams s)) as [st|] eqn:E; [|discriminate].
  eapply cnt_ge_has; eauto.
Qed.

Lemma cnt_pos_has_s : forall s sp p, Inv s -> (0 < cnt (sv_streams s) sp p)%N -> exists sid, has s sid sp p = true.
Proof.
  intros s sp p [HC _] H. destruct (cnt_pos_has _ sp p (c_nd_streams s HC) H) as (sid & st & H1 & H2).
  exists sid. unfold has. rewrite H1. exact H2.
Qed.

Theorem views_agree_inv : forall s, Inv s -> forall sid space p,
  (* tag <-> per-stream record; tags are a set *)
  (forall tags, nassoc sid (sv_pool s) = Some tags ->
     NoDup tags /\ (In (space, p) tags <-> has s sid space p = true))
  (* a record exists only for a pooled stream, under its handshake-proven account, and is never empty *)
  /\ (forall st, nassoc sid (sv_streams s) = Some st ->
        in_pool s sid = true /\ nassoc sid (sv_conns s) = Some (ss_account st)
        /\ ss_by st <> [] /\ ss_total st = N.of_nat (tot (ss_by st))
        /\ (forall sp l, nassoc sp (ss_by st) = Some l -> l <> [] /\ NoDup l))
  (* record <-> one reference in the space trie: the terminal node of p holds exactly the number of
     stream records that contain p; a trie exists iff some stream has interest in the space; its Len is the
     number of distinct patterns *)
  /\ match nassoc space (sv_remote s) with
     | Some tr =>
         refs_at (root tr) (split_topic p)
           = N.of_nat (length (filter (fun e => st_has (snd e) space p) (sv_streams s)))
         /\ trie_is_empty tr = false
         /\ exists L, NoDup L /\ (forall q, In q L <-> exists sid', has s sid' space q = true)
                      /\ trie_len tr = N.of_nat (length L) /\ L <> []
     | None => forall sid' q, has s sid' space q = false
     end
  /\ NoDup (map fst (sv_streams s)) /\ NoDup (map fst (sv_pool s)).
Proof.
  intros s HI sid space p. pose proof HI as [HC HT]. split; [|split; [|split; [|split; apply HC]]].
  - intros tags H. destruct (c_tags s HC sid tags H) as [ND Ht]. split; [exact ND|].
    rewrite <- Ht. symmetry. apply mem_tag_in.
  - intros st H. destruct (c_rec s HC sid st H) as ([(NDb & HL & Htot) Hne] & Hp & Hc).
    repeat (split; auto); apply (HL sp l H0).
  - specialize (HT space). destruct (nassoc space (sv_remote s)) as [tr|].
    + destruct HT as [Hi [q0 Hq0]]. split; [|split].
      * destruct Hi as ([I1 _] & _). rewrite I1. apply cnt_filter.
      * eapply trie_inv_root_nonempty; eauto.
      * destruct Hi as (_ & _ & L & [ND HL] & HS). exists L. split; [exact ND|split; [|split]].
        -- intros q. rewrite HL. split; [apply cnt_pos_has_s; exact HI|intros [sid' H]; eapply has_pos_cnt; eauto].
        -- exact HS.
        -- intros ->. assert (In q0 []) by (apply HL; exact Hq0). contradiction.
    + intros sid' q. destruct (has s sid' space q) eqn:E; [|reflexivity].
      apply has_pos_cnt in E. rewrite HT in E. lia.
Qed.

(* ------------------------------------------------------------------ (b) delivery is exact *)

Definition rate_used (s : svc) (sid : N) : N := match nassoc sid (sv_rate s) with Some u => u | None => 0%N end.

(* the ingress checks of handlePublish / relayPublish, as one declarative condition *)
Definition ingress (c : cfg) (s : svc) (sid acct space : N) (topic : str) (claim : N) (relayed wf : bool) : bool :=
  wf && spec_valid_topic topic && memN space (resp c)
  && (if relayed then memN sid (nodes c)
      else N.eqb claim (acct + 1)                       (* message identity = handshake-proven identity *)
           && is_member s space acct
           && (is_nil (topic_owner topic) || str_eqb (topic_owner topic) (name_of c acct))
           && N.ltb (rate_used s sid) (burst c)).

Lemma pub_out : forall c s sid acct space topic claim relayed wf,
  nassoc sid (sv_conns s) = Some acct ->
  exists status,
    snd (handle_pub c s sid space topic claim relayed wf)
    = OPub (if ingress c s sid acct space topic claim relayed wf then fanout s space topic else [])
           status
           (ingress c s sid acct space topic claim relayed wf && negb relayed).
Proof.
  intros c s sid acct space topic claim relayed wf EC. unfold handle_pub, ingress, rate_used. rewrite EC. cbv zeta.
  rewrite <- validate_topic_iff.
  destruct wf; cbn [negb andb snd]; [|eexists; reflexivity].
  destruct (validate_topic topic); cbn [negb andb snd]; [|eexists; reflexivity].
  destruct (memN space (resp c)); cbn [negb andb snd]; [|eexists; reflexivity].
  destruct relayed; cbn [negb andb snd].
  { destruct (memN sid (nodes c)); cbn [snd andb]; eexists; reflexivity. }
  destruct (N.eqb claim (acct + 1)) eqn:E1; cbn [negb andb orb].
  2:{ rewrite orb_true_r. cbn [snd]. eexists; reflexivity. }
  assert (E0 : N.eqb claim 0 = false) by (apply N.eqb_neq; apply N.eqb_eq in E1; lia). rewrite E0. cbn [orb].
  destruct (is_member s space acct); cbn [negb andb snd]; [|eexists; reflexivity].
  destruct (is_nil (topic_owner topic)); cbn [negb andb orb snd].
  - rewrite N.ltb_antisym. destruct (N.leb (burst c) _); cbn [negb snd andb]; eexists; reflexivity.
  - destruct (str_eqb (topic_owner topic) (name_of c acct)); cbn [negb andb snd]; [|eexists; reflexivity].
    rewrite N.ltb_antisym. destruct (N.leb (burst c) _); cbn [negb snd andb]; eexists; reflexivity.
Qed.

Lemma nodup_map_filter : forall {A} (f : N * A -> bool) l, NoDup (map fst l) -> NoDup (map fst (filter f l)).
Proof.
  intros A f l. induction l as [|e r IH]; cbn [map filter]; intros ND; [constructor|].
  inversion ND; subst. destruct (f e); cbn [map]; auto. constructor; auto.
  intros H. apply H1. apply in_map_iff in H. destruct H as (x & Hx & Hin). apply filter_In in Hin.
  apply in_map_iff. exists x. split; [exact Hx|apply Hin].
Qed.

Lemma fanout_spec : forall s space topic, Inv s ->
  NoDup (fanout s space topic)
  /\ forall sigma, In sigma (fanout s space topic) <->
       (in_pool s sigma = true
        /\ exists p, has s sigma space p = true /\ matches (split_topic p) (split_topic topic) = true).
Proof.
  intros s space topic HI. pose proof HI as [HC HT]. unfold fanout. pose proof (HT space) as HTs.
  destruct (nassoc space (sv_remote s)) as [tr|].
  2:{ split; [constructor|]. intros sigma. split; [contradiction|]. intros (_ & p & Hh & _).
      apply has_pos_cnt in Hh. rewrite HTs in Hh. lia. }
  destruct HTs as [Hi _]. destruct (trie_inv_match tr _ topic Hi) as [_ Hm].
  split; [apply nodup_map_filter; apply HC|].
  intros sigma. rewrite in_map_iff. split.
  - intros ([sg tags] & <- & Hin). apply filter_In in Hin. destruct Hin as [Hin Hex]. cbn [fst snd] in *.
    assert (Hn : nassoc sg (sv_pool s) = Some tags) by (apply in_nassoc; [apply HC|exact Hin]).
    split; [unfold in_pool; rewrite Hn; reflexivity|].
    apply existsb_exists in Hex. destruct Hex as (t & Ht & Hmt). apply in_map_iff in Ht. destruct Ht as (p & <- & Hp).
    exists p. destruct (c_tags s HC sg tags Hn) as [_ Htag]. rewrite Htag in Hmt. split; [exact Hmt|]. apply Hm. exact Hp.
  - intros (Hp & p & Hh & Hmatch). unfold in_pool in Hp. destruct (nassoc sigma (sv_pool s)) as [tags|] eqn:Hn; [|discriminate].
    exists (sigma, tags). split; [reflexivity|]. apply filter_In. split; [apply nassoc_in; exact Hn|]. cbn [snd].
    apply existsb_exists. exists (space, p). split.
    + apply in_map. apply Hm. split; [eapply has_pos_cnt; eauto|exact Hmatch].
    + destruct (c_tags s HC sigma tags Hn) as [_ Htag]. rewrite Htag. exact Hh.
Qed.

Lemma has_valid : forall s sid sp p, Inv s -> has s sid sp p = true -> validate_pattern p = true.
Proof.
  intros s sid sp p [HC _] H. unfold has in H. destruct (nassoc sid (sv_streams s)) as [st|] eqn:E; [|discriminate].
  destruct (c_rec s HC sid st E) as ([(_ & HL & _) _] & _ & _). unfold ohas, st_has in H.
  destruct (nassoc sp (ss_by st)) as [l|] eqn:El; [|discriminate]. apply (HL sp l El). apply mem_str_in. exact H.
Qed.

Theorem delivery_exact_inv : forall c s sid acct space topic claim relayed wf,
  Inv s -> nassoc sid (sv_conns s) = Some acct ->
  exists delivered status forwarded,
    snd (handle_pub c s sid space topic claim relayed wf) = OPub delivered status forwarded
    /\ NoDup delivered                                               (* at most one copy per stream *)
    /\ (forall sigma, In sigma delivered <->
          (ingress c s sid acct space topic claim relayed wf = true
           /\ in_pool s sigma = true
           /\ exists p, has s sigma space p = true /\ spec_matches p topic = true))
    /\ forwarded = (ingress c s sid acct space topic claim relayed wf && negb relayed)
    /\ (relayed = true -> forwarded = false).
Proof.
  intros c s sid acct space topic claim relayed wf HI EC.
  destruct (pub_out c s sid acct space topic claim relayed wf EC) as [status E].
  destruct (fanout_spec s space topic HI) as [ND Hf].
  eexists _, status, _. split; [exact E|]. split; [|split; [|split]].
  - destruct (ingress _ _ _ _ _ _ _ _ _); [exact ND|constructor].
  - intros sigma. destruct (ingress c s sid acct space topic claim relayed wf) eqn:Ei.
    + rewrite Hf. assert (Hvt : validate_topic topic = true).
      { rewrite validate_topic_iff. unfold ingress in Ei. destruct wf, (spec_valid_topic topic); try discriminate; reflexivity. }
      split.
      * intros (Hp & p & Hh & Hm). split; [reflexivity|split; [exact Hp|]]. exists p. split; [exact Hh|].
        unfold spec_matches. rewrite <- (valid_pattern_split p (has_valid _ _ _ _ HI Hh)), <- (valid_topic_split topic Hvt). exact Hm.
      * intros (_ & Hp & p & Hh & Hm). split; [exact Hp|]. exists p. split; [exact Hh|].
        unfold spec_matches in Hm. rewrite <- (valid_pattern_split p (has_valid _ _ _ _ HI Hh)), <- (valid_topic_split topic Hvt) in Hm. exact Hm.
    + split; [contradiction|]. intros (H & _). discriminate.
  - reflexivity.
  - intros ->. apply andb_false_r.
Qed.

(* ------------------------------------------------------------------ (c) teardown leaves nothing *)

Theorem teardown_inv : forall s, Inv s ->
  (forall sid sp p, has s sid sp p = false) ->
  sv_remote s = [] /\ sv_streams s = [] /\ forall sid tags, nassoc sid (sv_pool s) = Some tags -> tags = [].
Proof.
  intros s [HC HT] HZ. split; [|split].
  - destruct (sv_remote s) as [|[sp tr] r] eqn:E; [reflexivity|]. exfalso.
    pose proof (HT sp) as H. rewrite E in H. cbn [nassoc] in H. rewrite N.eqb_refl in H. destruct H as [_ [p Hp]].
    destruct (cnt_pos_has _ sp p (c_nd_streams s HC) Hp) as (sid & st & H1 & H2).
    specialize (HZ sid sp p). unfold has in HZ. rewrite H1 in HZ. cbn [ohas] in HZ. congruence.
  - destruct (sv_streams s) as [|[sid st] r] eqn:E; [reflexivity|]. exfalso.
    assert (H1 : nassoc sid (sv_streams s) = Some st) by (rewrite E; cbn [nassoc]; rewrite N.eqb_refl; reflexivity).
    destruct (c_rec s HC sid st H1) as ([(_ & HL & _) Hne] & _ & _).
    destruct (ss_by st) as [|[sp l] r'] eqn:Eb; [congruence|].
    assert (H2 : nassoc sp (ss_by st) = Some l) by (rewrite Eb; cbn [nassoc]; rewrite N.eqb_refl; reflexivity).
    destruct (HL sp l) as (Hl & _ & _); [rewrite <- Eb; exact H2|]. destruct l as [|x l]; [congruence|].
    specialize (HZ sid sp x). unfold has in HZ. rewrite H1 in HZ. cbn [ohas] in HZ. unfold st_has in HZ. rewrite H2 in HZ.
    cbn [mem_str] in HZ. rewrite str_eqb_refl in HZ. discriminate.
  - intros sid tags H. destruct (c_tags s HC sid tags H) as [_ Ht]. destruct tags as [|[sp p] r]; [reflexivity|].
    specialize (Ht sp p). rewrite HZ in Ht. unfold mem_tag in Ht. cbn [existsb] in Ht.
    assert (tag_eqb (sp, p) (sp, p) = true) by (apply tag_eqb_eq; reflexivity). rewrite H0 in Ht. discriminate.
Qed.

(* ---- what each withdrawing event does to the registered interest [has] *)

Lemma has_record_conn : forall s sid sp q, Inv s -> has s sid sp q = true ->
  exists st, nassoc sid (sv_streams s) = Some st /\ st_has st sp q = true
             /\ nassoc sid (sv_conns s) = Some (ss_account st) /\ in_pool s sid = true.
Proof.
  intros s sid sp q [HC _] H. unfold has in H. destruct (nassoc sid (sv_streams s)) as [st|] eqn:E; [|discriminate].
  destruct (c_rec s HC sid st E) as (_ & Hp & Hc). exists st. auto.
Qed.

Lemma has_unsub : forall s sid space pats sigma sp0 q, Inv s ->
  has (handle_unsub s sid space pats) sigma sp0 q
  = has s sigma sp0 q && negb (N.eqb sigma sid && N.eqb sp0 space && (is_nil pats || mem_str q pats)).
Proof.
  intros s sid space pats sigma sp0 q HI. pose proof HI as [HC HT].
  assert (Triv : has s sid space q = false \/ sigma <> sid \/ sp0 <> space ->
                 has s sigma sp0 q = has s sigma sp0 q && negb (N.eqb sigma sid && N.eqb sp0 space && (is_nil pats || mem_str q pats))).
  { intros H. destruct (N.eqb sigma sid) eqn:E1; cbn [andb negb]; [|rewrite andb_true_r; reflexivity].
    destruct (N.eqb sp0 space) eqn:E2; cbn [andb negb]; [|rewrite andb_true_r; reflexivity].
    apply N.eqb_eq in E1. apply N.eqb_eq in E2. subst. destruct H as [H|[H|H]]; try congruence. rewrite H. reflexivity. }
  unfold handle_unsub.
  destruct (nassoc sid (sv_conns s)) as [acct|] eqn:EC.
  2:{ apply Triv. left. destruct (has s sid space q) eqn:E; [|reflexivity].
      destruct (has_record_conn s sid space q HI E) as (st & _ & _ & Hc & _). congruence. }
  destruct (nassoc sid (sv_streams s)) as [st|] eqn:ES.
  2:{ apply Triv. left. unfold has. rewrite ES. reflexivity. }
  destruct (nassoc space (sv_remote s)) as [tr|] eqn:ER.
  2:{ apply Triv. left. destruct (has s sid space q) eqn:E; [|reflexivity]. apply has_pos_cnt in E.
      pose proof (HT space) as H. rewrite ER in H. rewrite H in E. lia. }
  set (ps := if is_nil pats then match nassoc space (ss_by st) with Some l => l | None => [] end else pats).
  destruct (remove_patterns st tr space ps []) as [[st' tr'] removed] eqn:ERP.
  destruct (c_rec s HC sid st ES) as ([HB _] & _ & _).
  pose proof (HT space) as HTs. rewrite ER in HTs. destruct HTs as [HTtr _].
  destruct (remove_patterns_spec _ _ _ _ _ _ _ _ _ HB HTtr ERP) as (HB' & Hacct & Hh & HT' & HR).
  unfold has at 1. cbn [sv_streams]. destruct (N.eq_dec sid sigma) as [<-|Hne].
  - rewrite (withdraw_has s sid st' HB'), Hh, N.eqb_refl. unfold has. rewrite ES. cbn [ohas andb].
    destruct (N.eqb sp0 space) eqn:E2; cbn [andb negb]; [|reflexivity]. apply N.eqb_eq in E2. subst sp0.
    assert (Eps : st_has st space q && negb (mem_str q ps) = st_has st space q && negb (is_nil pats || mem_str q pats)).
    { unfold ps. destruct (is_nil pats); cbn [orb negb]; [|reflexivity]. unfold st_has.
      destruct (nassoc space (ss_by st)) as [l|]; [destruct (mem_str q l); reflexivity|reflexivity]. }
    exact Eps.
  - rewrite prune_stream_other by exact Hne. fold (has s sigma sp0 q). apply Triv. right. left. congruence.
Qed.

Lemma has_pool_remove : forall s sid sigma sp0 q, Inv s ->
  has (pool_remove s sid) sigma sp0 q = has s sigma sp0 q && negb (N.eqb sigma sid).
Proof.
  intros s sid sigma sp0 q HI. unfold pool_remove. destruct (in_pool s sid) eqn:EP.
  - rewrite on_stream_close_unfold. cbn [sv_streams]. unfold has.
    assert (E : sv_streams (match nassoc sid (sv_streams s) with
                            | Some st => mkSvc (fold_left close_body (ss_by st) (sv_remote s)) (ndel sid (sv_streams s))
                                               (ndel sid (sv_pool s)) (sv_conns s) (sv_members s) (sv_rate s)
                            | None => mkSvc (sv_remote s) (sv_streams s) (ndel sid (sv_pool s)) (sv_conns s) (sv_members s) (sv_rate s)
                            end) = ndel sid (sv_streams s)).
    { destruct (nassoc sid (sv_streams s)) eqn:E; cbn [sv_streams]; [reflexivity|]. symmetry. apply ndel_absent. exact E. }
    cbn [sv_remote sv_pool sv_conns sv_members sv_rate] in *. rewrite E.
    destruct (N.eqb sigma sid) eqn:E1; cbn [negb].
    + apply N.eqb_eq in E1. subst. rewrite nassoc_ndel_same, andb_false_r. reflexivity.
    + apply N.eqb_neq in E1. rewrite nassoc_ndel_other by congruence. rewrite andb_true_r. reflexivity.
  - destruct (N.eqb sigma sid) eqn:E1; cbn [negb]; [|rewrite andb_true_r; reflexivity].
    apply N.eqb_eq in E1. subst. rewrite andb_false_r. destruct (has s sid sp0 q) eqn:E; [|reflexivity].
    destruct (has_record_conn s sid sp0 q HI E) as (_ & _ & _ & _ & Hp). congruence.
Qed.

(* event [e], arriving in state [s], withdraws the interest (sid, sp, p) *)
Definition withdraws (s : svc) (e : ev) (sid sp : N) (p : str) : Prop :=
  match e with
  | EUnsub sid' sp' pats => sid' = sid /\ sp' = sp /\ (pats = [] \/ In p pats)
  | EClose sid' => sid' = sid
  | EBreak sid' => sid' = sid
  | EEvict sp' a => sp' = sp /\ nassoc sid (sv_conns s) = Some a
  | ERevalidate sp' => sp' = sp /\ exists a, nassoc sid (sv_conns s) = Some a /\ is_member s sp a = false
  | ECloseSpace sp' => sp' = sp
  | EPubMid sid' _ _ _ _ _ => sid' = sid       (* the publisher's stream goes away: all its interest is withdrawn *)
  | _ => False
  end.
(* events that can register interest: Subscribe, also the one during which a stream leaves the pool *)
Definition is_sub (e : ev) : bool := match e with ESub _ _ _ | ESubMid _ _ _ _ => true | _ => false end.

Lemma evict_kills : forall s space evict wt sigma q a, Inv s -> (wt = true \/ forall x, evict x = true) ->
  nassoc sigma (sv_conns s) = Some a -> evict a = true ->
  has (evict_streams s space evict wt) sigma space q = false.
Proof.
  intros s space evict wt sigma q a HI Hm Hc He.
  destruct (evict_result s space evict wt HI Hm) as ([HC' _] & Econ & _ & _ & _ & Hdone & _).
  unfold has. destruct (nassoc sigma (sv_streams (evict_streams s space evict wt))) as [st|] eqn:E; [|reflexivity].
  cbn [ohas]. specialize (Hdone sigma st E q). destruct (c_rec _ HC' sigma st E) as (_ & _ & Hc').
  rewrite Econ, Hc in Hc'. inversion Hc'; subst a. rewrite He, andb_true_r in Hdone. exact Hdone.
Qed.

Lemma step_withdraw : forall c s e, Inv s -> is_sub e = false ->
  let s' := fst (svc_step c s e) in
  (forall sigma sp q, has s' sigma sp q = true -> has s sigma sp q = true)
  /\ (forall sigma sp q, withdraws s e sigma sp q -> has s' sigma sp q = false).
Proof.
  intros c s e HI Hns. cbv zeta. destruct e; try discriminate; unfold svc_step, svc_step_gen; cbn [fst withdraws].
  - split; [intros sigma sp q H; exact H|contradiction].
  - split.
    + intros sigma sp q H. rewrite has_unsub in H by exact HI. apply andb_true_iff in H. apply H.
    + intros sigma sp q (-> & -> & Hp). rewrite has_unsub by exact HI. rewrite !N.eqb_refl. cbn [andb].
      assert (E : is_nil pats || mem_str q pats = true).
      { destruct Hp as [->|Hp]; [reflexivity|]. apply mem_str_in in Hp. rewrite Hp. apply orb_true_r. }
      rewrite E. apply andb_false_r.
  - destruct (handle_pub_state c s sid space topic claim relayed wellformed) as [rate E]. rewrite E.
    split; [intros sigma sp q H; exact H|contradiction].
  - split.
    + intros sigma sp q H. change (has (pool_remove s sid) sigma sp q = true) in H.
      rewrite has_pool_remove in H by exact HI. apply andb_true_iff in H. apply H.
    + intros sigma sp q ->. change (has (pool_remove s sigma) sigma sp q = false).
      rewrite has_pool_remove by exact HI. rewrite N.eqb_refl. apply andb_false_r.
  - split.
    + intros sigma sp q H. rewrite has_pool_remove in H by exact HI. apply andb_true_iff in H. apply H.
    + intros sigma sp q ->. rewrite has_pool_remove by exact HI. rewrite N.eqb_refl. apply andb_false_r.
  - assert (Hm : true = true \/ forall x, N.eqb acct x = true) by (left; reflexivity). split.
    + apply (evict_result s space (N.eqb acct) true HI Hm).
    + intros sigma sp q (-> & Hc). apply (evict_kills s sp (N.eqb acct) true sigma q acct HI Hm Hc). apply N.eqb_refl.
  - assert (Hm : true = true \/ forall x, negb (is_member s space x) = true) by (left; reflexivity). split.
    + apply (evict_result s space _ true HI Hm).
    + intros sigma sp q (-> & a & Hc & Hmem). apply (evict_kills s sp _ true sigma q a HI Hm Hc). rewrite Hmem. reflexivity.
  - assert (Hm : false = true \/ forall x : N, (fun _ : N => true) x = true) by (right; reflexivity). split.
    + apply (evict_result s space _ false HI Hm).
    + intros sigma sp q ->. destruct (has (evict_streams s sp (fun _ => true) false) sigma sp q) eqn:E; [|reflexivity].
      destruct (evict_result s sp (fun _ => true) false HI Hm) as (HI' & _ & _ & _ & _ & Hdone & _).
      destruct (has_record_conn _ sigma sp q HI' E) as (st & H1 & H2 & _). specialize (Hdone sigma st H1 q).
      rewrite H2 in Hdone. discriminate.
  - split; [intros sigma sp q H; exact H|contradiction].
  - split; [intros sigma sp q H; exact H|contradiction].
  - rewrite pub_mid_fst. destruct (pub_reaches_lookup c s sid space topic claim relayed wellformed).
    + split.
      * intros sigma sp q H. rewrite has_pub, has_pool_remove in H by exact HI. apply andb_true_iff in H. apply H.
      * intros sigma sp q ->. rewrite has_pub, has_pool_remove by exact HI. rewrite N.eqb_refl. apply andb_false_r.
    + pose proof (inv_pub c s sid space topic claim relayed wellformed HI) as HI2. split.
      * intros sigma sp q H. rewrite has_pool_remove in H by exact HI2. rewrite has_pub in H. apply andb_true_iff in H. apply H.
      * intros sigma sp q ->. rewrite has_pool_remove by exact HI2. rewrite N.eqb_refl. apply andb_false_r.
Qed.

Lemma nodup_app_fst : forall {A} (a b : list A), NoDup (a ++ b) -> NoDup a.
Proof.
  induction a as [|x a IH]; intros b H; [constructor|]. cbn [app] in H. inversion H; subst.
  constructor; [intros Hx; apply H2; apply in_app_iff; left; exact Hx|eapply IH; eauto].
Qed.
Lemma nodup_app_snd : forall {A} (a b : list A), NoDup (a ++ b) -> NoDup b.
Proof. induction a as [|x a IH]; intros b H; [exact H|]. cbn [app] in H. inversion H; subst. auto. Qed.

Lemma opens_app : forall a b, opens (a ++ b) = opens a ++ opens b.
Proof. induction a as [|e a IH]; intros b; [reflexivity|]. destruct e; cbn [app opens]; rewrite IH; reflexivity. Qed.

Lemma svc_exec_app : forall c s a b, svc_exec c s (a ++ b) = svc_exec c (svc_exec c s a) b.
Proof. intros. unfold svc_exec. apply fold_left_app. Qed.

Lemma mono_exec : forall c l s, Inv s -> NoDup (opens l) ->
  (forall x, In x (opens l) -> nassoc x (sv_conns s) = None) ->
  forallb (fun e => negb (is_sub e)) l = true ->
  forall sigma sp q, has (svc_exec c s l) sigma sp q = true -> has s sigma sp q = true.
Proof.
  intros c. induction l as [|e r IH]; intros s HI ND Hf Hns sigma sp q H; [exact H|].
  rewrite svc_exec_cons in H. cbn [forallb] in Hns. apply andb_true_iff in Hns. destruct Hns as [Hn1 Hn2].
  apply negb_true_iff in Hn1. apply (proj1 (step_withdraw c s e HI Hn1)).
  apply (IH (fst (svc_step c s e))); auto.
  - apply inv_step; [exact HI|]. intros sid acct ->. apply Hf. left. reflexivity.
  - destruct e; cbn [opens] in ND; auto. inversion ND; auto.
  - intros x Hx. destruct (nassoc x (sv_conns (fst (svc_step c s e)))) eqn:E; [|reflexivity]. exfalso.
    destruct (conns_step c s e x) as [H0|[a ->]]; [congruence| |].
    + apply H0. apply Hf. apply opens_cons_in. exact Hx.
    + cbn [opens] in ND. inversion ND; subst. contradiction.
Qed.

Lemma fresh_conns : forall c a b x, fresh_opens (a ++ b) -> In x (opens b) ->
  nassoc x (sv_conns (svc_exec c svc_init a)) = None.
Proof.
  intros c a b x HF Hx. unfold fresh_opens in HF. rewrite opens_app in HF.
  assert (G : forall l s, nassoc x (sv_conns (svc_exec c s l)) <> None -> nassoc x (sv_conns s) <> None \/ In x (opens l)).
  { induction l as [|e r IHl]; intros s H; [left; exact H|]. rewrite svc_exec_cons in H.
    destruct (IHl _ H) as [H1|H1]; [|right; apply opens_cons_in; exact H1].
    destruct (conns_step c s e x H1) as [H2|[a0 ->]]; [left; exact H2|right; left; reflexivity]. }
  destruct (nassoc x (sv_conns (svc_exec c svc_init a))) eqn:E; [|reflexivity]. exfalso.
  destruct (G a svc_init) as [H|H]; [congruence|cbn in H; congruence|].
  clear -HF H Hx. induction (opens a) as [|y l IH]; [contradiction|]. cbn [app] in HF. inversion HF; subst.
  destruct H as [->|H]; [apply H2; apply in_app_iff; right; exact Hx|auto].
Qed.

(* (c) in any order: after a history [evs], let a tail without Subscribe contain, for every registered
   interest, SOME event that withdraws it (unsubscribe, stream close or break, eviction of its account,
   revalidation while not a member, CloseSpace) — in any order and interleaved with anything else that is
   not a Subscribe.  Then nothing is left: no trie, no stream record, no interest tag. *)
Theorem teardown_any_order : forall c evs tail,
  fresh_opens (evs ++ tail) ->
  forallb (fun e => negb (is_sub e)) tail = true ->
  (forall sigma sp q, has (svc_exec c svc_init evs) sigma sp q = true ->
     exists pre e post, tail = pre ++ e :: post
                        /\ withdraws (svc_exec c svc_init (evs ++ pre)) e sigma sp q) ->
  let s := svc_exec c svc_init (evs ++ tail) in
  sv_remote s = [] /\ sv_streams s = [] /\ forall sid tags, nassoc sid (sv_pool s) = Some tags -> tags = [].
Proof.
  intros c evs tail HF Hns Hall. cbv zeta. apply teardown_inv; [apply reachable_inv; exact HF|].
  intros sigma sp q. destruct (has _ sigma sp q) eqn:E; [|reflexivity]. exfalso.
  assert (HF1 : fresh_opens evs).
  { unfold fresh_opens in *. rewrite opens_app in HF. apply nodup_app_fst in HF. exact HF. }
  assert (ND2 : NoDup (opens tail)).
  { unfold fresh_opens in HF. rewrite opens_app in HF. apply nodup_app_snd in HF. exact HF. }
  assert (E0 : has (svc_exec c svc_init evs) sigma sp q = true).
  { rewrite svc_exec_app in E.
    eapply mono_exec; [apply reachable_inv; exact HF1|exact ND2| |exact Hns|exact E].
    intros x Hx. eapply fresh_conns; eauto. }
  destruct (Hall sigma sp q E0) as (pre & e & post & -> & Hw).
  rewrite forallb_app in Hns. apply andb_true_iff in Hns. destruct Hns as [Hns1 Hns2]. cbn [forallb] in Hns2.
  apply andb_true_iff in Hns2. destruct Hns2 as [Hne Hns3]. apply negb_true_iff in Hne.
  assert (HFp : fresh_opens (evs ++ pre)).
  { unfold fresh_opens in *. rewrite app_assoc, opens_app in HF. apply nodup_app_fst in HF. exact HF. }
  pose proof (reachable_inv c _ HFp) as HIp.
  replace (evs ++ pre ++ e :: post) with ((evs ++ pre) ++ [e] ++ post) in E by (rewrite <- app_assoc; reflexivity).
  rewrite (svc_exec_app c svc_init (evs ++ pre)) in E. rewrite (svc_exec_app c _ [e] post) in E.
  set (sp_ := svc_exec c svc_init (evs ++ pre)) in *.
  assert (Ek : has (svc_exec c sp_ [e]) sigma sp q = false) by (apply (proj2 (step_withdraw c sp_ e HIp Hne)); exact Hw).
  assert (HFe : fresh_opens ((evs ++ pre) ++ [e] ++ post)).
  { rewrite <- app_assoc. exact HF. }
  assert (Hcontra : has (svc_exec c sp_ [e]) sigma sp q = true).
  { eapply (mono_exec c post); [| | |exact Hns3|exact E].
    - apply inv_step; [exact HIp|]. intros sid acct ->. apply (fresh_conns c (evs ++ pre) ([EOpen sid acct] ++ post)); [exact HFe|left; reflexivity].
    - unfold fresh_opens in HFe. rewrite !opens_app in HFe. apply nodup_app_snd in HFe. apply nodup_app_snd in HFe. exact HFe.
    - intros x Hx. unfold sp_. rewrite <- svc_exec_app. apply (fresh_conns c ((evs ++ pre) ++ [e]) post).
      + rewrite <- app_assoc. exact HFe.
      + exact Hx. }
  congruence.
Qed.

(* ------------------------------------------------------------------ statements over runs from the initial state *)

Lemma run_last : forall c evs e,
  last (svc_run c svc_init (evs ++ [e])) ONone = snd (svc_step c (svc_exec c svc_init evs) e).
Proof. intros. rewrite svc_run_snoc. apply last_last. Qed.

Theorem views_agree : forall c evs, fresh_opens evs ->
  let s := svc_exec c svc_init evs in
  forall sid space p,
  (forall tags, nassoc sid (sv_pool s) = Some tags ->
     NoDup tags /\ (In (space, p) tags <-> has s sid space p = true))
  /\ (forall st, nassoc sid (sv_streams s) = Some st ->
        in_pool s sid = true /\ nassoc sid (sv_conns s) = Some (ss_account st)
        /\ ss_by st <> [] /\ ss_total st = N.of_nat (tot (ss_by st))
        /\ (forall sp l, nassoc sp (ss_by st) = Some l -> l <> [] /\ NoDup l))
  /\ match nassoc space (sv_remote s) with
     | Some tr =>
         refs_at (root tr) (split_topic p)
           = N.of_nat (length (filter (fun e => st_has (snd e) space p) (sv_streams s)))
         /\ trie_is_empty tr = false
         /\ exists L, NoDup L /\ (forall q, In q L <-> exists sid', has s sid' space q = true)
                      /\ trie_len tr = N.of_nat (length L) /\ L <> []
     | None => forall sid' q, has s sid' space q = false
     end
  /\ NoDup (map fst (sv_streams s)) /\ NoDup (map fst (sv_pool s)).
Proof. intros c evs H. cbv zeta. apply views_agree_inv. apply reachable_inv. exact H. Qed.

(* the snapshot event shows exactly these three views *)
Lemma snapshot_last : forall c evs,
  let s := svc_exec c svc_init evs in
  last (svc_run c svc_init (evs ++ [ESnap])) ONone
  = OSnap (map (fun e => (fst e, (trie_len (snd e), trie_is_empty (snd e)))) (sv_remote s))
          (map (fun e => (fst e, (ss_account (snd e), ss_total (snd e), ss_by (snd e)))) (sv_streams s))
          (sv_pool s).
Proof. intros. cbv zeta. rewrite run_last. reflexivity. Qed.

Theorem delivery_exact : forall c evs, fresh_opens evs ->
  let s := svc_exec c svc_init evs in
  forall sid acct space topic claim relayed wf,
  nassoc sid (sv_conns s) = Some acct ->
  exists delivered status forwarded,
    last (svc_run c svc_init (evs ++ [EPub sid space topic claim relayed wf])) ONone
      = OPub delivered status forwarded
    /\ NoDup delivered
    /\ (forall sigma, In sigma delivered <->
          (ingress c s sid acct space topic claim relayed wf = true
           /\ in_pool s sigma = true
           /\ exists p, has s sigma space p = true /\ spec_matches p topic = true))
    /\ forwarded = (ingress c s sid acct space topic claim relayed wf && negb relayed)
    /\ (relayed = true -> forwarded = false).
Proof.
  intros c evs H. cbv zeta. intros sid acct space topic claim relayed wf EC. rewrite run_last.
  apply (delivery_exact_inv c _ sid acct space topic claim relayed wf (reachable_inv c evs H) EC).
Qed.

(* a frame from a stream whose read loop is gone produces nothing *)
Lemma publish_without_conn : forall c s sid space topic claim relayed wf,
  nassoc sid (sv_conns s) = None -> handle_pub c s sid space topic claim relayed wf = (s, ONone).
Proof. intros. unfold handle_pub. rewrite H. reflexivity. Qed.

Theorem teardown_no_interest : forall c evs, fresh_opens evs ->
  let s := svc_exec c svc_init evs in
  (forall sid sp p, has s sid sp p = false) ->
  sv_remote s = [] /\ sv_streams s = [] /\ forall sid tags, nassoc sid (sv_pool s) = Some tags -> tags = [].
Proof. intros c evs H. cbv zeta. apply teardown_inv. apply reachable_inv. exact H. Qed.

(* every event other than Subscribe only removes interest, and removes what it is meant to remove *)
Theorem withdraw_step : forall c evs e, fresh_opens (evs ++ [e]) -> is_sub e = false ->
  let s := svc_exec c svc_init evs in
  let s' := svc_exec c svc_init (evs ++ [e]) in
  (forall sigma sp q, has s' sigma sp q = true -> has s sigma sp q = true)
  /\ (forall sigma sp q, withdraws s e sigma sp q -> has s' sigma sp q = false).
Proof.
  intros c evs e HF Hns. cbv zeta. rewrite svc_exec_app.
  apply (step_withdraw c _ e); [|exact Hns]. apply reachable_inv.
  unfold fresh_opens in *. rewrite opens_app in HF. apply nodup_app_fst in HF. exact HF.
Qed.
