(* Proofs about the key-value store model (C12): LWW join, order/batching/repetition independence,
   atomicity of failed writes (index undo), authenticity.  Plain stdlib style. *)
From Coq Require Import List NArith ZArith Bool Lia.
Import ListNotations.
From AnySync Require Import Model.KeyValue Proofs.KeyValueMap.

(* ------------------------------------------------------------------------------------------------ *)
(* Invariant of a store                                                                              *)

Definition store_ok (m : smap value) : Prop :=
  forall s v, sm_get m s = Some v -> v_env v = s /\ valid v = true /\ ts_ok v.

Record inv (st : state) : Prop := mkInv {
  inv_sorted : sm_sorted (st_store st);
  inv_index : st_index st = image (st_store st);
  inv_ok : store_ok (st_store st)
}.

Definition batch_ok (batch : list value) : Prop := forall v, In v batch -> ts_ok v.

Lemma inv_empty : inv empty_state.
Proof.
  split; cbn; [exact I | reflexivity |]. intros s v H. discriminate.
Qed.

(* ------------------------------------------------------------------------------------------------ *)
(* small arithmetic / list facts                                                                     *)

Lemma u64_small : forall t, (0 <= t < 2 ^ 53)%Z -> u64 t = Z.to_N t.
Proof.
  intros t H. unfold u64. rewrite Z.mod_small; [reflexivity|].
  change (2 ^ 53)%Z with 9007199254740992%Z in H.
  change (2 ^ 64)%Z with 18446744073709551616%Z. lia.
Qed.

Lemma head_ltb : forall a b, ts_ok a -> ts_ok b ->
  (head_of a <? head_of b)%N = negb (v_ts b <=? v_ts a)%Z.
Proof.
  intros a b Ha Hb. unfold head_of, ts_ok in *. rewrite !u64_small by assumption.
  destruct (Z.to_N (v_ts a) <? Z.to_N (v_ts b))%N eqn:E1; destruct (v_ts b <=? v_ts a)%Z eqn:E2;
    cbn [negb]; try reflexivity.
  - apply N.ltb_lt in E1. apply Z.leb_le in E2. lia.
  - apply N.ltb_ge in E1. apply Z.leb_gt in E2. lia.
Qed.

Lemma filter_filter : forall {A} (f g : A -> bool) l,
  filter f (filter g l) = filter (fun x => g x && f x) l.
Proof.
  intros A f g l. induction l as [|x l IH]; cbn [filter]; [reflexivity|].
  destruct (g x); cbn [andb filter]; [|exact IH]. destruct (f x); [f_equal|]; exact IH.
Qed.

Lemma find_key_snoc : forall {B} k (l : list (N * B)) e,
  find_key k (l ++ [e]) =
  match find_key k l with Some x => Some x | None => if (fst e =? k)%N then Some e else None end.
Proof.
  intros B k l e. unfold find_key. induction l as [|x l IH]; cbn [app find]; [reflexivity|].
  destruct (fst x =? k)%N; [reflexivity | exact IH].
Qed.

(* ------------------------------------------------------------------------------------------------ *)
(* updateValues                                                                                      *)

Lemma uv_step_get : forall a v s,
  sm_get (uv_tx (uv_step a v)) s =
  if (v_env v =? s)%N then join1 (sm_get (uv_tx a) s) v else sm_get (uv_tx a) s.
Proof.
  intros a v s. unfold uv_step.
  destruct (sm_get (uv_tx a) (v_env v)) as [old|] eqn:Hg.
  - destruct (v_ts v <=? v_ts old)%Z eqn:Hle.
    + destruct (v_env v =? s)%N eqn:E; [|reflexivity].
      apply N.eqb_eq in E. subst s. rewrite Hg. cbn [join1]. rewrite Hle. reflexivity.
    + cbn [uv_tx]. rewrite sm_get_set. destruct (v_env v =? s)%N eqn:E; [|reflexivity].
      apply N.eqb_eq in E. subst s. rewrite Hg. cbn [join1]. rewrite Hle. reflexivity.
  - cbn [uv_tx]. rewrite sm_get_set. destruct (v_env v =? s)%N eqn:E; [|reflexivity].
    apply N.eqb_eq in E. subst s. rewrite Hg. reflexivity.
Qed.

Lemma uv_fold_get : forall vals a s,
  sm_get (uv_tx (fold_left uv_step vals a)) s =
  fold_left join1 (filter (fun v => (v_env v =? s)%N) vals) (sm_get (uv_tx a) s).
Proof.
  induction vals as [|v vals IH]; intros a s; cbn [fold_left filter]; [reflexivity|].
  rewrite IH, uv_step_get. destruct (v_env v =? s)%N; reflexivity.
Qed.

Definition undo_get (pr : list (N * N)) (ad : list N) (X : smap N) (k : N) : option N :=
  if existsb (fun a => (a =? k)%N) ad then None
  else match find_key k pr with Some e => Some (snd e) | None => sm_get X k end.

Lemma idx_undo_get : forall pr ad X k, sm_get (idx_undo pr ad X) k = undo_get pr ad X k.
Proof. intros. unfold idx_undo, undo_get. rewrite get_fold_remove, get_fold_set_rev. reflexivity. Qed.

Record uv_inv (tx0 : smap value) (a : uv) : Prop := mkUvInv {
  uvi_sorted : sm_sorted (uv_tx a);
  uvi_els : forall k, sm_get (idx_set_all (image tx0) (uv_els a)) k = sm_get (image (uv_tx a)) k;
  uvi_undo : forall k, undo_get (uv_prior a) (uv_added a) (image (uv_tx a)) k = sm_get (image tx0) k;
  uvi_mono : forall k, sm_get (uv_tx a) k = None -> sm_get tx0 k = None
}.

Lemma image_get_set : forall tx s v k,
  sm_get (image (sm_set tx s v)) k = if (s =? k)%N then Some (head_of v) else sm_get (image tx) k.
Proof.
  intros. unfold image. rewrite !sm_get_map, sm_get_set. destruct (s =? k)%N; reflexivity.
Qed.

Lemma uv_inv_init : forall tx0, sm_sorted tx0 -> uv_inv tx0 (mkUv tx0 [] [] []).
Proof.
  intros tx0 Hs. split; cbn [uv_tx uv_els uv_prior uv_added].
  - exact Hs.
  - intros k. reflexivity.
  - intros k. reflexivity.
  - intros k H. exact H.
Qed.

Lemma uv_inv_step : forall tx0 a v, uv_inv tx0 a -> uv_inv tx0 (uv_step a v).
Proof.
  intros tx0 a v [Hs He Hu Hm]. unfold uv_step.
  destruct (sm_get (uv_tx a) (v_env v)) as [old|] eqn:Hg.
  - destruct (v_ts v <=? v_ts old)%Z eqn:Hle; [split; assumption|].
    split; cbn [uv_tx uv_els uv_prior uv_added].
    + apply sm_set_sorted, Hs.
    + intros k. unfold idx_set_all. rewrite get_fold_set_snoc. cbn [fst snd].
      rewrite sm_get_set, image_get_set. destruct (v_env v =? k)%N; [reflexivity|]. apply He.
    + intros k. specialize (Hu k). unfold undo_get in *.
      destruct (existsb (fun a0 => (a0 =? k)%N) (uv_added a)); [exact Hu|].
      rewrite find_key_snoc. cbn [fst snd].
      destruct (find_key k (uv_prior a)) as [e|]; [exact Hu|].
      rewrite image_get_set. destruct (v_env v =? k)%N eqn:E; [|exact Hu].
      apply N.eqb_eq in E. subst k. rewrite <- Hu. unfold image. rewrite sm_get_map, Hg. reflexivity.
    + intros k. rewrite sm_get_set. destruct (v_env v =? k)%N; [discriminate | apply Hm].
  - split; cbn [uv_tx uv_els uv_prior uv_added].
    + apply sm_set_sorted, Hs.
    + intros k. unfold idx_set_all. rewrite get_fold_set_snoc. cbn [fst snd].
      rewrite sm_get_set, image_get_set. destruct (v_env v =? k)%N; [reflexivity|]. apply He.
    + intros k. specialize (Hu k). unfold undo_get in *.
      rewrite existsb_app. cbn [existsb]. rewrite orb_false_r.
      destruct (v_env v =? k)%N eqn:E.
      * apply N.eqb_eq in E. subst k. rewrite orb_true_r.
        unfold image. rewrite sm_get_map, (Hm _ Hg). reflexivity.
      * rewrite orb_false_r. rewrite image_get_set, E. exact Hu.
    + intros k. rewrite sm_get_set. destruct (v_env v =? k)%N; [discriminate | apply Hm].
Qed.

Lemma uv_inv_fold : forall tx0 vals a, uv_inv tx0 a -> uv_inv tx0 (fold_left uv_step vals a).
Proof.
  intros tx0 vals. induction vals as [|v vals IH]; intros a H; cbn [fold_left]; [exact H|].
  apply IH, uv_inv_step, H.
Qed.

Lemma update_values_inv : forall tx0 vals, sm_sorted tx0 -> uv_inv tx0 (update_values tx0 vals).
Proof. intros. unfold update_values. apply uv_inv_fold, uv_inv_init. assumption. Qed.

Lemma idx_set_all_image : forall tx0 vals, sm_sorted tx0 ->
  idx_set_all (image tx0) (uv_els (update_values tx0 vals)) = image (uv_tx (update_values tx0 vals)).
Proof.
  intros tx0 vals Hs. pose proof (update_values_inv tx0 vals Hs) as [Hs' He _ _].
  apply sm_ext.
  - unfold idx_set_all. apply fold_set_sorted. unfold image. apply sm_map_sorted, Hs.
  - unfold image. apply sm_map_sorted, Hs'.
  - exact He.
Qed.

(* ------------------------------------------------------------------------------------------------ *)
(* innerstorage.Set                                                                                  *)

Lemma inner_set_commit : forall st vals,
  sm_sorted (st_store st) -> st_index st = image (st_store st) ->
  inner_set FNone st vals =
  (mkState (uv_tx (update_values (st_store st) vals)) (image (uv_tx (update_values (st_store st) vals))), true).
Proof.
  intros st vals Hs Hi. unfold inner_set. rewrite Hi, idx_set_all_image by exact Hs. reflexivity.
Qed.

(* a failed transaction (UpdateEntry or Commit) leaves the state exactly as it was: the collection is rolled
   back and the deferred undo restores the index *)
Lemma inner_set_undo : forall st vals f,
  sm_sorted (st_store st) -> st_index st = image (st_store st) -> f = FHead \/ f = FCommit ->
  inner_set f st vals = (st, false).
Proof.
  intros [store idx] vals f Hs Hi Hf. cbn [st_store st_index] in *. subst idx.
  assert (H : mkState store (idx_undo (uv_prior (update_values store vals)) (uv_added (update_values store vals))
                (idx_set_all (image store) (uv_els (update_values store vals)))) = mkState store (image store)).
  { f_equal. rewrite idx_set_all_image by exact Hs.
    pose proof (update_values_inv store vals Hs) as [Hs' _ Hu _].
    apply sm_ext.
    - unfold idx_undo. apply fold_remove_sorted, fold_set_sorted. unfold image. apply sm_map_sorted, Hs'.
    - unfold image. apply sm_map_sorted, Hs.
    - intros k. rewrite idx_undo_get. apply Hu. }
  unfold inner_set. cbn [st_store st_index]. destruct Hf; subst f; rewrite H; reflexivity.
Qed.

Lemma inner_set_cases : forall st vals f,
  sm_sorted (st_store st) -> st_index st = image (st_store st) ->
  inner_set f st vals = (st, false) \/ inner_set f st vals = inner_set FNone st vals.
Proof.
  intros st vals f Hs Hi. destruct f as [|k| |].
  - right. reflexivity.
  - unfold inner_set. destruct (k <? length (uv_els (update_values (st_store st) vals)))%nat; [left|right]; reflexivity.
  - left. apply inner_set_undo; auto.
  - left. apply inner_set_undo; auto.
Qed.

(* ------------------------------------------------------------------------------------------------ *)
(* LWW join                                                                                          *)

Lemma join_fold_cases : forall l cur,
  fold_left join1 l cur = cur \/ exists v, In v l /\ fold_left join1 l cur = Some v.
Proof.
  induction l as [|x l IH]; intros cur; cbn [fold_left]; [left; reflexivity|].
  destruct (IH (join1 cur x)) as [H|[v [Hin H]]].
  - rewrite H. unfold join1. destruct cur as [old|].
    + destruct (v_ts x <=? v_ts old)%Z; [left; reflexivity | right; exists x; split; [left; reflexivity | reflexivity]].
    + right. exists x. split; [left; reflexivity | reflexivity].
  - right. exists v. split; [right; exact Hin | exact H].
Qed.

Lemma join_fold_ge_cur : forall l c, exists w, fold_left join1 l (Some c) = Some w /\ (v_ts c <= v_ts w)%Z.
Proof.
  induction l as [|x l IH]; intros c; cbn [fold_left].
  - exists c. split; [reflexivity | lia].
  - cbn [join1]. destruct (v_ts x <=? v_ts c)%Z eqn:E.
    + apply IH.
    + apply Z.leb_gt in E. destruct (IH x) as [w [Hw Hle]]. exists w. split; [exact Hw | lia].
Qed.

Lemma join_fold_ge_in : forall l cur v, In v l ->
  exists w, fold_left join1 l cur = Some w /\ (v_ts v <= v_ts w)%Z.
Proof.
  induction l as [|x l IH]; intros cur v Hin; [destruct Hin|].
  cbn [fold_left]. destruct Hin as [Hx|Hin].
  - subst x. destruct cur as [old|]; cbn [join1].
    + destruct (v_ts v <=? v_ts old)%Z eqn:E.
      * apply Z.leb_le in E. destruct (join_fold_ge_cur l old) as [w [Hw Hle]]. exists w. split; [exact Hw | lia].
      * apply join_fold_ge_cur.
    + apply join_fold_ge_cur.
  - apply IH, Hin.
Qed.

(* values not newer than a bound that the incumbent already dominates can be dropped *)
Lemma join_fold_drop : forall (q : value -> bool) t0 l c, (t0 <= v_ts c)%Z ->
  fold_left join1 (filter (fun v => q v && negb (v_ts v <=? t0)%Z) l) (Some c) =
  fold_left join1 (filter q l) (Some c).
Proof.
  intros q t0. induction l as [|x l IH]; intros c Hc; cbn [filter]; [reflexivity|].
  destruct (q x); cbn [andb]; [|apply IH, Hc].
  destruct (v_ts x <=? t0)%Z eqn:E; cbn [negb fold_left join1].
  - apply Z.leb_le in E. assert (E2 : (v_ts x <=? v_ts c)%Z = true) by (apply Z.leb_le; lia).
    rewrite E2. apply IH, Hc.
  - destruct (v_ts x <=? v_ts c)%Z eqn:E2; [apply IH, Hc|].
    apply IH. apply Z.leb_gt in E2. lia.
Qed.

Lemma best_app : forall s cur l1 l2, best s cur (l1 ++ l2) = best s (best s cur l1) l2.
Proof. intros. unfold best. rewrite filter_app, fold_left_app. reflexivity. Qed.

Lemma best_cases : forall s cur l,
  best s cur l = cur \/
  exists v, In v l /\ valid v = true /\ v_env v = s /\ best s cur l = Some v.
Proof.
  intros s cur l. unfold best.
  destruct (join_fold_cases (filter (fun v => valid v && (v_env v =? s)%N) l) cur) as [H|[v [Hin H]]]; [left; exact H|].
  right. apply filter_In in Hin. destruct Hin as [Hin Hp]. apply andb_true_iff in Hp. destruct Hp as [Hv He].
  apply N.eqb_eq in He. exists v. auto.
Qed.

(* ------------------------------------------------------------------------------------------------ *)
(* SetRaw                                                                                            *)

Lemma valid_split : forall v, decode_verify true v && acl_ok true v = valid v.
Proof.
  intros v. unfold decode_verify, acl_ok, valid.
  destruct (v_decodes v), (v_dev v), (v_acc v), (v_env v =? v_signed v)%N, (v_known v), (v_write v); reflexivity.
Qed.

(* what reaches inner.Set, restricted to slot s, joins to the same result as all valid values of slot s *)
Lemma prefilter_harmless : forall st batch s,
  inv st -> batch_ok batch ->
  fold_left join1
    (filter (fun v => (v_env v =? s)%N)
       (filter (fun v => newer_than_index (st_index st) v && acl_ok true v) (filter (decode_verify true) batch)))
    (sm_get (st_store st) s)
  = best s (sm_get (st_store st) s) batch.
Proof.
  intros st batch s [Hs Hi Hok] Hb. unfold best. rewrite !filter_filter.
  destruct (sm_get (st_store st) s) as [old|] eqn:Hg.
  - destruct (Hok _ _ Hg) as [_ [_ Hto]].
    rewrite <- (join_fold_drop (fun v => valid v && (v_env v =? s)%N) (v_ts old) batch old) by lia.
    f_equal. apply filter_ext_in. intros v Hin.
    destruct (v_env v =? s)%N eqn:E; [|rewrite !andb_false_r; reflexivity].
    apply N.eqb_eq in E. rewrite !andb_true_r.
    unfold newer_than_index. rewrite Hi, E. unfold image. rewrite sm_get_map, Hg. cbn [option_map].
    rewrite (head_ltb old v Hto (Hb v Hin)). rewrite <- valid_split.
    destruct (decode_verify true v), (acl_ok true v), (v_ts v <=? v_ts old)%Z; reflexivity.
  - f_equal. apply filter_ext_in. intros v Hin.
    destruct (v_env v =? s)%N eqn:E; [|rewrite !andb_false_r; reflexivity].
    apply N.eqb_eq in E. rewrite !andb_true_r.
    unfold newer_than_index. rewrite Hi, E. unfold image. rewrite sm_get_map, Hg. cbn [option_map].
    rewrite <- valid_split. destruct (decode_verify true v), (acl_ok true v); reflexivity.
Qed.

(* set_raw computes, per slot, the LWW join of the stored value with the valid values of the batch *)
Lemma set_raw_get : forall st batch s,
  inv st -> batch_ok batch ->
  sm_get (st_store (fst (set_raw FNone st batch))) s = best s (sm_get (st_store st) s) batch.
Proof.
  intros st batch s Hinv Hb. rewrite <- (prefilter_harmless st batch s Hinv Hb).
  unfold set_raw, set_raw_gen.
  destruct (filter (fun v => newer_than_index (st_index st) v && acl_ok true v) (filter (decode_verify true) batch))
    as [|x kvs] eqn:Hk.
  - reflexivity.
  - destruct Hinv as [Hs Hi _]. rewrite inner_set_commit by assumption. cbn [fst st_store].
    unfold update_values. rewrite uv_fold_get. reflexivity.
Qed.

Lemma set_raw_cases : forall f st batch, inv st ->
  set_raw f st batch = (st, false) \/ set_raw f st batch = set_raw FNone st batch.
Proof.
  intros f st batch [Hs Hi _]. unfold set_raw, set_raw_gen.
  destruct (filter _ (filter _ batch)) as [|x kvs]; [right; reflexivity|].
  apply inner_set_cases; assumption.
Qed.

Lemma set_raw_none_ok : forall st batch, inv st -> snd (set_raw FNone st batch) = true.
Proof.
  intros st batch [Hs Hi _]. unfold set_raw, set_raw_gen.
  destruct (filter _ (filter _ batch)) as [|x kvs]; [reflexivity|].
  rewrite inner_set_commit by assumption. reflexivity.
Qed.

Lemma set_raw_none_inv : forall st batch, inv st -> batch_ok batch -> inv (fst (set_raw FNone st batch)).
Proof.
  intros st batch Hinv Hb.
  assert (Hget := fun s => set_raw_get st batch s Hinv Hb).
  destruct Hinv as [Hs Hi Hok].
  unfold set_raw, set_raw_gen in *.
  destruct (filter (fun v => newer_than_index (st_index st) v && acl_ok true v) (filter (decode_verify true) batch))
    as [|x kvs] eqn:Hk.
  - split; assumption.
  - rewrite inner_set_commit in * by assumption. cbn [fst st_store st_index] in *.
    split; cbn [st_store st_index].
    + apply update_values_inv, Hs.
    + reflexivity.
    + intros s v Hv. rewrite Hget in Hv.
      destruct (best_cases s (sm_get (st_store st) s) batch) as [H|[w [Hin [Hval [Henv H]]]]].
      * rewrite H in Hv. apply Hok, Hv.
      * rewrite H in Hv. injection Hv as Hv. subst w. auto.
Qed.

Lemma set_raw_inv : forall f st batch, inv st -> batch_ok batch -> inv (fst (set_raw f st batch)).
Proof.
  intros f st batch Hinv Hb. destruct (set_raw_cases f st batch Hinv) as [H|H]; rewrite H.
  - exact Hinv.
  - apply set_raw_none_inv; assumption.
Qed.

(* a failed write leaves store and index untouched; in particular index = image(store) *)
Lemma set_raw_failed : forall f st batch, inv st ->
  snd (set_raw f st batch) = false -> fst (set_raw f st batch) = st.
Proof.
  intros f st batch Hinv Hf. destruct (set_raw_cases f st batch Hinv) as [H|H].
  - rewrite H. reflexivity.
  - rewrite H, set_raw_none_ok in Hf by exact Hinv. discriminate.
Qed.

Lemma set_raw_succeeded : forall f st batch, inv st ->
  snd (set_raw f st batch) = true -> set_raw f st batch = set_raw FNone st batch.
Proof.
  intros f st batch Hinv Hf. destruct (set_raw_cases f st batch Hinv) as [H|H]; [|exact H].
  rewrite H in Hf. discriminate.
Qed.

(* ------------------------------------------------------------------------------------------------ *)
(* local Set                                                                                         *)

(* the value a store builds itself: correctly signed by its own keys for its own slot, citing the current head *)
Definition local_wf (v : value) : Prop :=
  v_decodes v = true /\ v_dev v = true /\ v_acc v = true /\ v_env v = v_signed v /\ v_known v = true /\ ts_ok v.

Lemma local_valid : forall v, local_wf v -> v_write v = true -> valid v = true.
Proof.
  intros v (H1 & H2 & H3 & H4 & H5 & _) H6. unfold valid. rewrite H1, H2, H3, H5, H6, H4, N.eqb_refl. reflexivity.
Qed.

Lemma local_set_get : forall st v s, inv st -> local_wf v -> v_write v = true ->
  sm_get (st_store (fst (local_set FNone st v))) s = best s (sm_get (st_store st) s) [v].
Proof.
  intros st v s [Hs Hi _] Hwf Hw. unfold local_set. rewrite Hw, inner_set_commit by assumption.
  cbn [fst st_store]. unfold update_values. rewrite uv_fold_get. cbn [uv_tx]. unfold best. cbn [filter].
  rewrite (local_valid v Hwf Hw). cbn [andb]. reflexivity.
Qed.

Lemma local_set_cases : forall f st v, inv st ->
  local_set f st v = (st, false) \/ local_set f st v = local_set FNone st v.
Proof.
  intros f st v [Hs Hi _]. unfold local_set. destruct (v_write v); [|left; reflexivity].
  apply inner_set_cases; assumption.
Qed.

Lemma local_set_inv : forall f st v, inv st -> local_wf v -> inv (fst (local_set f st v)).
Proof.
  intros f st v Hinv Hwf. destruct (local_set_cases f st v Hinv) as [H|H]; rewrite H; [exact Hinv|].
  destruct (v_write v) eqn:Hw.
  - assert (Hget := fun s => local_set_get st v s Hinv Hwf Hw).
    destruct Hinv as [Hs Hi Hok]. unfold local_set in *. rewrite Hw in *.
    rewrite inner_set_commit in * by assumption. cbn [fst st_store st_index] in *.
    split; cbn [st_store st_index].
    + apply update_values_inv, Hs.
    + reflexivity.
    + intros s w Hv. rewrite Hget in Hv.
      destruct (best_cases s (sm_get (st_store st) s) [v]) as [H'|[x [Hin [Hval [Henv H']]]]].
      * rewrite H' in Hv. apply Hok, Hv.
      * rewrite H' in Hv. injection Hv as Hv. subst x. destruct Hin as [Hin|[]]. subst w.
        destruct Hwf as (_ & _ & _ & _ & _ & Hts). auto.
  - unfold local_set. rewrite Hw. exact Hinv.
Qed.

(* ------------------------------------------------------------------------------------------------ *)
(* histories of batches: order, grouping and repetition do not matter                                *)

Definition run_raw (st : state) (bs : list (list value)) : state :=
  fold_left (fun st b => fst (set_raw FNone st b)) bs st.

Lemma run_raw_inv : forall bs st, inv st -> (forall b, In b bs -> batch_ok b) -> inv (run_raw st bs).
Proof.
  induction bs as [|b bs IH]; intros st Hinv Hb; cbn [run_raw fold_left]; [exact Hinv|].
  apply IH.
  - apply set_raw_none_inv; [exact Hinv | apply Hb; left; reflexivity].
  - intros b' Hin. apply Hb. right. exact Hin.
Qed.

Lemma run_raw_get : forall bs st s, inv st -> (forall b, In b bs -> batch_ok b) ->
  sm_get (st_store (run_raw st bs)) s = best s (sm_get (st_store st) s) (concat bs).
Proof.
  induction bs as [|b bs IH]; intros st s Hinv Hb; cbn [run_raw fold_left concat]; [reflexivity|].
  rewrite best_app. fold (run_raw (fst (set_raw FNone st b)) bs).
  rewrite IH.
  - rewrite set_raw_get; [reflexivity | exact Hinv | apply Hb; left; reflexivity].
  - apply set_raw_none_inv; [exact Hinv | apply Hb; left; reflexivity].
  - intros b' Hin. apply Hb. right. exact Hin.
Qed.

(* "distinct timestamps per slot": two valid values of one slot with the same timestamp are the same value *)
Definition distinct_ts (U : list value) : Prop :=
  forall v1 v2, In v1 U -> In v2 U -> valid v1 = true -> valid v2 = true ->
    v_env v1 = v_env v2 -> v_ts v1 = v_ts v2 -> v1 = v2.

Definition stored (st : state) : list value := map snd (st_store st).

Lemma sm_get_in : forall {A} (m : smap A) k a, sm_get m k = Some a -> In a (map snd m).
Proof.
  intros A m k a. induction m as [|[k0 a0] r IH]; cbn [sm_get map snd]; [discriminate|].
  destruct (k0 =? k)%N; [intros H; injection H as H; left; exact H | intros H; right; apply IH, H].
Qed.

Lemma best_same_set : forall s cur l1 l2 U,
  (forall v, In v l1 <-> In v l2) ->
  (forall c, cur = Some c -> In c U /\ valid c = true /\ v_env c = s) ->
  (forall v, In v l1 -> In v U) -> distinct_ts U ->
  best s cur l1 = best s cur l2.
Proof.
  intros s cur l1 l2 U Hset Hcur HU Hd.
  assert (Hle : forall la lb, (forall v, In v la <-> In v lb) ->
            forall w1, best s cur la = Some w1 -> exists w2, best s cur lb = Some w2 /\ (v_ts w1 <= v_ts w2)%Z).
  { intros la lb Hab w1 H1. unfold best in *.
    destruct (join_fold_cases (filter (fun v => valid v && (v_env v =? s)%N) la) cur) as [Hc|[v [Hin Hv]]].
    - rewrite Hc in H1. subst cur. apply join_fold_ge_cur.
    - rewrite Hv in H1. injection H1 as H1. subst v.
      apply join_fold_ge_in. apply filter_In in Hin. apply filter_In. destruct Hin as [Hin Hp].
      split; [apply Hab, Hin | exact Hp]. }
  assert (Hmem : forall la, (forall v, In v la -> In v U) -> forall w, best s cur la = Some w ->
            In w U /\ valid w = true /\ v_env w = s).
  { intros la HUa w Hw. destruct (best_cases s cur la) as [H|[v [Hin [Hval [Henv H]]]]].
    - rewrite H in Hw. apply Hcur, Hw.
    - rewrite H in Hw. injection Hw as Hw. subst v. auto. }
  assert (Hset' : forall v, In v l2 <-> In v l1) by (intros v; symmetry; apply Hset).
  assert (HU2 : forall v, In v l2 -> In v U) by (intros v Hin; apply HU, Hset, Hin).
  destruct (best s cur l1) as [w1|] eqn:E1.
  - destruct (Hle l1 l2 Hset w1 E1) as [w2 [E2 H12]].
    destruct (Hle l2 l1 Hset' w2 E2) as [w1' [E1' H21]].
    rewrite E1 in E1'. injection E1' as E1'. subst w1'. rewrite E2. f_equal.
    destruct (Hmem l1 HU w1 E1) as (I1 & V1 & S1). destruct (Hmem l2 HU2 w2 E2) as (I2 & V2 & S2).
    apply Hd; auto; [congruence | lia].
  - destruct (best s cur l2) as [w2|] eqn:E2; [|reflexivity].
    destruct (Hle l2 l1 Hset' w2 E2) as [w1 [E1' _]]. rewrite E1 in E1'. discriminate.
Qed.

Theorem order_free : forall st0 bs1 bs2,
  inv st0 ->
  (forall b, In b bs1 -> batch_ok b) -> (forall b, In b bs2 -> batch_ok b) ->
  (forall v, In v (concat bs1) <-> In v (concat bs2)) ->
  distinct_ts (stored st0 ++ concat bs1) ->
  run_raw st0 bs1 = run_raw st0 bs2.
Proof.
  intros st0 bs1 bs2 Hinv Hb1 Hb2 Hset Hd.
  pose proof (run_raw_inv bs1 st0 Hinv Hb1) as [S1 I1 _].
  pose proof (run_raw_inv bs2 st0 Hinv Hb2) as [S2 I2 _].
  assert (Hst : st_store (run_raw st0 bs1) = st_store (run_raw st0 bs2)).
  { apply sm_ext; [exact S1 | exact S2|]. intros s.
    rewrite !run_raw_get by assumption.
    apply (best_same_set s _ _ _ (stored st0 ++ concat bs1)); [exact Hset | | | exact Hd].
    - intros c Hc. destruct Hinv as [_ _ Hok]. destruct (Hok _ _ Hc) as (He & Hv & _).
      split; [apply in_or_app; left; eapply sm_get_in; exact Hc | auto].
    - intros v Hin. apply in_or_app. right. exact Hin. }
  destruct (run_raw st0 bs1) as [s1 i1], (run_raw st0 bs2) as [s2 i2]. cbn [st_store st_index] in *.
  subst. reflexivity.
Qed.

(* ------------------------------------------------------------------------------------------------ *)
(* authenticity and index consistency along arbitrary histories (faults included)                   *)

Definition op_wf (o : op) : Prop :=
  match o with
  | OpRaw _ _ b => batch_ok b
  | OpLocal _ _ v => local_wf v
  | OpSync _ => True
  | OpSyncStream _ _ => True
  end.

Lemma values_of_in : forall store ids v, In v (values_of store ids) -> exists k, sm_get store k = Some v.
Proof.
  intros store ids v Hin. unfold values_of in Hin. apply in_flat_map in Hin. destruct Hin as [k [_ Hin]].
  destruct (sm_get store k) as [w|] eqn:E; [|destruct Hin]. destruct Hin as [Hin|[]]. subst w. exists k. exact E.
Qed.

Lemma values_of_ok : forall st ids, inv st -> batch_ok (values_of (st_store st) ids).
Proof.
  intros st ids [_ _ Hok] v Hin. destruct (values_of_in _ _ _ Hin) as [k Hk]. apply (Hok _ _ Hk).
Qed.

(* ------------------------------------------------------------------------------------------------ *)
(* the streamed exchange: newest-first order and chunked application do not matter                   *)

Lemma insert_newest_in : forall idx x l y, In y (insert_newest idx x l) <-> y = x \/ In y l.
Proof.
  intros idx x l y. induction l as [|z r IH]; cbn [insert_newest In].
  - split; [intros [H|[]]; left; symmetry; exact H | intros [H|[]]; left; symmetry; exact H].
  - destruct (newer_first idx x z); cbn [In].
    + split; [intros [H|H]; [left; symmetry; exact H | right; exact H]
             | intros [H|H]; [left; symmetry; exact H | right; exact H]].
    + rewrite IH. tauto.
Qed.

Lemma newest_first_in : forall idx ids y, In y (newest_first idx ids) <-> In y ids.
Proof.
  intros idx ids y. induction ids as [|x r IH]; cbn [newest_first fold_right In]; [tauto|].
  fold (newest_first idx r). rewrite insert_newest_in, IH. split; intros [H|H]; auto.
Qed.

Lemma values_of_in_iff : forall store ids v,
  In v (values_of store ids) <-> exists k, In k ids /\ sm_get store k = Some v.
Proof.
  intros store ids v. unfold values_of. rewrite in_flat_map. split.
  - intros [k [Hk Hin]]. exists k. split; [exact Hk|].
    destruct (sm_get store k) as [w|]; [|destruct Hin]. destruct Hin as [Hin|[]]. subst w. reflexivity.
  - intros [k [Hk Hg]]. exists k. split; [exact Hk|]. rewrite Hg. left. reflexivity.
Qed.

Lemma values_of_newest_first : forall store idx ids v,
  In v (values_of store (newest_first idx ids)) <-> In v (values_of store ids).
Proof.
  intros store idx ids v. rewrite !values_of_in_iff.
  split; intros [k [Hk Hg]]; exists k; (split; [apply newest_first_in in Hk || apply newest_first_in; exact Hk | exact Hg]).
Qed.

(* the chunked application is a run of batches whose concatenation is the stream, in stream order *)
Lemma stream_apply_run : forall n msgs st batch,
  exists bs, stream_apply n st batch msgs = run_raw st bs /\ concat bs = batch ++ msgs.
Proof.
  intros n. induction msgs as [|m r IH]; intros st batch; cbn [stream_apply].
  - exists [batch]. split; [reflexivity | cbn [concat]; reflexivity].
  - destruct (n <=? length (batch ++ [m]))%nat.
    + destruct (IH (fst (set_raw FNone st (batch ++ [m]))) []) as [bs [H1 H2]].
      exists ((batch ++ [m]) :: bs). split; [exact H1|].
      cbn [concat]. rewrite H2. cbn [app]. rewrite <- app_assoc. reflexivity.
    + destruct (IH st (batch ++ [m])) as [bs [H1 H2]]. exists bs. split; [exact H1|].
      rewrite H2, <- app_assoc. reflexivity.
Qed.

Lemma concat_batch_ok : forall bs l, concat bs = l -> batch_ok l -> forall b, In b bs -> batch_ok b.
Proof.
  intros bs l Hc Hok b Hb v Hv. apply Hok. rewrite <- Hc. apply in_concat. exists b. split; assumption.
Qed.

Lemma stream_apply_inv : forall n msgs st batch,
  inv st -> batch_ok (batch ++ msgs) -> inv (stream_apply n st batch msgs).
Proof.
  intros n msgs st batch Hinv Hok. destruct (stream_apply_run n msgs st batch) as [bs [H1 H2]].
  rewrite H1. apply run_raw_inv; [exact Hinv | exact (concat_batch_ok bs _ H2 Hok)].
Qed.

Lemma stream_apply_get : forall n msgs st batch s,
  inv st -> batch_ok (batch ++ msgs) ->
  sm_get (st_store (stream_apply n st batch msgs)) s = best s (sm_get (st_store st) s) (batch ++ msgs).
Proof.
  intros n msgs st batch s Hinv Hok. destruct (stream_apply_run n msgs st batch) as [bs [H1 H2]].
  rewrite H1, run_raw_get; [rewrite H2; reflexivity | exact Hinv | exact (concat_batch_ok bs _ H2 Hok)].
Qed.

Lemma distinct_ts_incl : forall U U', (forall v, In v U' -> In v U) -> distinct_ts U -> distinct_ts U'.
Proof. intros U U' Hi Hd v1 v2 H1 H2. apply Hd; apply Hi; assumption. Qed.

(* any stream carrying the same SET of values as [pull], applied in chunks of any size, = one SetRaw(pull) *)
Theorem stream_apply_set_raw : forall n st msgs pull,
  inv st -> batch_ok pull -> (forall v, In v msgs <-> In v pull) -> distinct_ts (stored st ++ pull) ->
  stream_apply n st [] msgs = fst (set_raw FNone st pull).
Proof.
  intros n st msgs pull Hinv Hok Hset Hd.
  destruct (stream_apply_run n msgs st []) as [bs [H1 H2]]. cbn [app] in H2.
  rewrite H1. change (fst (set_raw FNone st pull)) with (run_raw st [pull]).
  assert (Hokm : batch_ok msgs) by (intros v Hv; apply Hok, Hset, Hv).
  symmetry. apply order_free.
  - exact Hinv.
  - intros b [Hb|[]]. subst b. exact Hok.
  - exact (concat_batch_ok bs _ H2 Hokm).
  - intros v. cbn [concat]. rewrite app_nil_r, H2. symmetry. apply Hset.
  - cbn [concat]. rewrite app_nil_r. exact Hd.
Qed.

Theorem sync_stream_eq : forall n a b,
  inv a -> inv b -> distinct_ts (stored a ++ stored b) ->
  sync_exchange_stream n a b = sync_exchange a b.
Proof.
  intros n a b Ha Hb Hd. unfold sync_exchange_stream, sync_exchange. f_equal.
  apply stream_apply_set_raw.
  - exact Ha.
  - apply values_of_ok, Hb.
  - intros v. apply values_of_newest_first.
  - apply (distinct_ts_incl (stored a ++ stored b)); [|exact Hd].
    intros v Hin. apply in_app_or in Hin. apply in_or_app. destruct Hin as [Hin|Hin]; [left; exact Hin|].
    right. destruct (values_of_in _ _ _ Hin) as [k Hk]. eapply sm_get_in. exact Hk.
Qed.

Definition winv (w : world) : Prop := inv (fst w) /\ inv (snd w).

Lemma wget_inv : forall w who, winv w -> inv (wget w who).
Proof. intros [a b] who [Ha Hb]. destruct who; assumption. Qed.

Lemma wset_inv : forall w who s, winv w -> inv s -> winv (wset w who s).
Proof. intros [a b] who s [Ha Hb] Hs. destruct who; split; cbn; assumption. Qed.

Lemma step_inv : forall w o, winv w -> op_wf o -> winv (fst (step w o)).
Proof.
  intros w o Hw Hwf. destruct o as [who f b|who f v|who|who n]; cbn [step op_wf] in *.
  - pose proof (set_raw_inv f (wget w who) b (wget_inv w who Hw) Hwf) as H.
    destruct (set_raw f (wget w who) b) as [s ok]. cbn [fst] in *. apply wset_inv; assumption.
  - pose proof (local_set_inv f (wget w who) v (wget_inv w who Hw) Hwf) as H.
    destruct (local_set f (wget w who) v) as [s ok]. cbn [fst] in *. apply wset_inv; assumption.
  - unfold sync_exchange. cbn [fst].
    pose proof (wget_inv w who Hw) as Ha. pose proof (wget_inv w (negb who) Hw) as Hb.
    apply wset_inv; [apply wset_inv; [exact Hw|]|].
    + apply set_raw_inv; [exact Ha | apply values_of_ok, Hb].
    + apply set_raw_inv; [exact Hb | apply values_of_ok, Ha].
  - unfold sync_exchange_stream. cbn [fst].
    pose proof (wget_inv w who Hw) as Ha. pose proof (wget_inv w (negb who) Hw) as Hb.
    apply wset_inv; [apply wset_inv; [exact Hw|]|].
    + apply stream_apply_inv; [exact Ha | apply values_of_ok, Hb].
    + apply set_raw_inv; [exact Hb | apply values_of_ok, Ha].
Qed.

Definition run_ops (w : world) (ops : list op) : world := fold_left (fun w o => fst (step w o)) ops w.

Lemma run_ops_inv : forall ops w, winv w -> (forall o, In o ops -> op_wf o) -> winv (run_ops w ops).
Proof.
  induction ops as [|o ops IH]; intros w Hw Hwf; cbn [run_ops fold_left]; [exact Hw|].
  apply IH; [apply step_inv; [exact Hw | apply Hwf; left; reflexivity] | intros o' Hin; apply Hwf; right; exact Hin].
Qed.

Lemma winv_empty : winv (empty_state, empty_state).
Proof. split; apply inv_empty. Qed.

(* a failed operation changes nothing *)
Lemma step_failed : forall w o, winv w -> snd (step w o) = false -> fst (step w o) = w.
Proof.
  intros w o Hw Hf. destruct o as [who f b|who f v|who|who n]; cbn [step] in *.
  - pose proof (set_raw_failed f (wget w who) b (wget_inv w who Hw)) as H.
    destruct (set_raw f (wget w who) b) as [s ok]. cbn [fst snd] in *. rewrite (H Hf).
    destruct w as [a b0], who; reflexivity.
  - destruct (local_set_cases f (wget w who) v (wget_inv w who Hw)) as [H|H].
    + rewrite H. cbn [fst]. destruct w as [a b0], who; reflexivity.
    + pose proof (wget_inv w who Hw) as [Hs Hi _]. rewrite H in Hf. unfold local_set in Hf.
      destruct (v_write v) eqn:Hwv.
      * rewrite inner_set_commit in Hf by assumption. discriminate.
      * rewrite H. unfold local_set. rewrite Hwv. cbn [fst]. destruct w as [a b0], who; reflexivity.
  - destruct (sync_exchange _ _). discriminate.
  - destruct (sync_exchange_stream _ _ _). discriminate.
Qed.

(* ------------------------------------------------------------------------------------------------ *)
(* the model satisfies the executable specification                                                  *)

Lemma slots_increasing_sorted : forall {A} (m : smap A), sm_sorted m -> slots_increasing (map fst m) = true.
Proof.
  intros A m. induction m as [|[k a] r IH]; cbn [map fst slots_increasing sm_sorted]; intros Hs; [reflexivity|].
  destruct Hs as [Hall Hs]. rewrite (IH Hs), andb_true_r.
  destruct r as [|[k' a'] r']; cbn [map fst]; [reflexivity|].
  inversion Hall as [|x y Hk _]. subst. cbn in Hk. apply N.ltb_lt. exact Hk.
Qed.

Lemma index_matches_image : forall store,
  index_matches (map (fun p => (fst p, v_ts (snd p), v_id (snd p))) store) (image store) = true.
Proof.
  intros store. unfold index_matches, image, sm_map. rewrite !map_map. cbn [fst snd].
  rewrite !map_length, Nat.eqb_refl. cbn [andb].
  induction store as [|[k v] r IH]; cbn [map combine forallb fst snd]; [reflexivity|].
  rewrite !N.eqb_refl. cbn [andb]. exact IH.
Qed.
