(* Context cancellation: the cancellation clause of spec_C14.
   A side's context is cancelled while frame k is in flight.  Structure of the proofs:
   - a cancellation outside the window in which it can have an effect (the initiator while frame 1..4 travels, the
     responder while frame 1..3 travels) does not change the run at all, man in the middle or not (by invariants);
   - inside the window, honest peers: one symbolic run of the two automata per (side, k) -- 7 positions -- with the
     credentials and the checkers' verdicts left symbolic;
   - both automata have returned at the end of every run (nobody is left waiting).
   The model then meets spec_C14 for EVERY case. *)
From Coq Require Import List NArith Bool Lia.
Import ListNotations.
From AnySync Require Import Model.Handshake Proofs.HandshakeProofs Proofs.HandshakeRun Proofs.HandshakeTamper.
Open Scope N_scope.

Local Opaque check_cred mk_cred eff_ver eff_cv accepts label read_msg.

(* ---------------------------------------------------------------- honest peers, cancellation inside the window *)
Ltac fin := split; [reflexivity | let Hx := fresh "Hx" in intro Hx; first [discriminate Hx | repeat split; first [reflexivity | lia]]].

(* one symbolic run per protocol position (side, k) and kind of pipe; the verdicts of the two credential checks stay
   symbolic (x1, x2), and are split only into accepted / rejected-with-code *)
Lemma honest_cancel_run : forall co ci wf po pi side k,
  (k = 1 \/ k = 2 \/ k = 3 \/ (k = 4 /\ side = true)) ->
  let c := mkCase co ci APass APass APass APass (Some (side, k)) wf po pi in
  is_ok (fst (hs_run true c)) = false /\
  (is_ok (snd (hs_run true c)) = true -> side = true /\ 3 <= k /\ accepts ci co && accepts co ci = true).
Proof.
  intros co ci wf po pi side k Hk c. subst c.
  assert (C1 : exists x, check_cred ci (eff_ver true pi (mk_cred co)) (eff_cv true pi (mk_cred co)) (mk_cred co) = x /\
               (if accepts ci co then exists r, x = inl r else exists e, x = inr e)).
  { eexists. split; [reflexivity|]. destruct (accepts ci co) eqn:A;
      [eexists; apply honest_check_ok; exact A | apply honest_check_err; exact A]. }
  assert (C2 : exists x, check_cred co (eff_ver true po (mk_cred ci)) (eff_cv true po (mk_cred ci)) (mk_cred ci) = x /\
               (if accepts co ci then exists r, x = inl r else exists e, x = inr e)).
  { eexists. split; [reflexivity|]. destruct (accepts co ci) eqn:A;
      [eexists; apply honest_check_ok; exact A | apply honest_check_err; exact A]. }
  destruct C1 as [x1 [E1 A1]]. destruct C2 as [x2 [E2 A2]].
  assert (Hcases : (side, k) = (true, 1) \/ (side, k) = (false, 1) \/ (side, k) = (true, 2) \/ (side, k) = (false, 2) \/
                   (side, k) = (true, 3) \/ (side, k) = (false, 3) \/ (side, k) = (true, 4)).
  { destruct side; destruct Hk as [H|[H|[H|[H H']]]]; try discriminate H'; subst k; tauto. }
  clear Hk.
  repeat (destruct Hcases as [Hc|Hcases]); try rename Hcases into Hc; injection Hc as Hs Hk; subst side k;
  (unf; destruct wf; stp; rewrite ?E1;
   (destruct (accepts ci co);
    [ destruct A1 as [r1 A1]; rewrite ?A1; stp; rewrite ?E2;
      (destruct (accepts co ci);
       [ destruct A2 as [r2 A2]; rewrite ?A2; stp; fin
       | destruct A2 as [e2 A2]; rewrite ?A2;
         assert (Hnz : N.eqb e2 E_Null = false) by (rewrite A2 in E2; eapply check_cred_err_nz; exact E2);
         stp; rf e2; stp; rewrite ?Hnz; stp; fin ])
    | destruct A1 as [e1 A1]; rewrite ?A1; stp; rf e1; stp; fin ])).
Qed.

Local Transparent check_cred mk_cred eff_ver eff_cv accepts label read_msg.

(* ---------------------------------------------------------------- every read makes progress: nobody is left waiting *)
Definition i_past1 (st : ist) : bool := match st with IW1 => false | _ => true end.
Definition i_done (st : ist) : bool := match st with ID _ => true | _ => false end.
Definition o_past2 (st : ost) : bool := match st with OW2 => false | _ => true end.
Definition o_done (st : ost) : bool := match st with OD _ => true | _ => false end.

Lemma in_step_progress : forall fx s p st d,
  i_past1 (fst (fst (in_step fx s p st d))) = true /\
  (i_past1 st = true -> i_done (fst (fst (in_step fx s p st d))) = true).
Proof.
  intros fx s p st d. destruct st as [|r|o]; cbn [in_step].
  - destruct (read_msg [T_Cred] d) as [[c0|e| |]|x]; try (split; [reflexivity | intro H; discriminate H]).
    destruct (check_cred s (eff_ver fx p c0) (eff_cv fx p c0) c0); split; try reflexivity; intro H; discriminate H.
  - destruct (read_msg [T_Ack] d) as [[c0|e| |]|x]; try (split; reflexivity).
    destruct (N.eqb e E_Null); split; reflexivity.
  - split; reflexivity.
Qed.

Lemma out_step_progress : forall fx s p st d,
  o_past2 (fst (fst (out_step fx s p st d))) = true /\
  (o_past2 st = true -> o_done (fst (fst (out_step fx s p st d))) = true).
Proof.
  intros fx s p st d. destruct st as [|r|o]; cbn [out_step].
  - destruct (read_msg [T_Ack; T_Cred] d) as [[c0|e| |]|x]; try (split; [reflexivity | intro H; discriminate H]).
    destruct (check_cred s (eff_ver fx p c0) (eff_cv fx p c0) c0); split; try reflexivity; intro H; discriminate H.
  - destruct (read_msg [T_Ack] d) as [[c0|e| |]|x]; try (split; reflexivity).
    destruct (N.eqb e E_Null); split; reflexivity.
  - split; reflexivity.
Qed.

Lemma cancel_side_progress : forall side w,
  (i_past1 (w_i w) = true -> i_past1 (w_i (cancel_side side w)) = true) /\
  (i_done (w_i w) = true -> i_done (w_i (cancel_side side w)) = true) /\
  (o_past2 (w_o w) = true -> o_past2 (w_o (cancel_side side w)) = true) /\
  (o_done (w_o w) = true -> o_done (w_o (cancel_side side w)) = true).
Proof.
  intros side [wo wi qo qi dd po pi]. unfold cancel_side. cbn [w_o w_i].
  destruct side; [destruct wo | destruct wi]; cbn; repeat split; intro H; try exact H; try reflexivity.
Qed.

Lemma apply_cancel_progress : forall c k fl w,
  (i_past1 (w_i w) = true -> i_past1 (w_i (apply_cancel c k fl w)) = true) /\
  (i_done (w_i w) = true -> i_done (w_i (apply_cancel c k fl w)) = true) /\
  (o_past2 (w_o w) = true -> o_past2 (w_o (apply_cancel c k fl w)) = true) /\
  (o_done (w_o w) = true -> o_done (w_o (apply_cancel c k fl w)) = true).
Proof.
  intros c k fl w. unfold apply_cancel.
  destruct fl as [b|]; [|repeat split; intro H; exact H].
  destruct (k_cancel c) as [[side kk]|]; [|repeat split; intro H; exact H].
  destruct (N.eqb kk k); [apply cancel_side_progress | repeat split; intro H; exact H].
Qed.

(* after a phase in which the incoming side reads, it is past its first read; if it was past it before, it is done *)
Lemma phase_in_progress : forall fx c k a w fl,
  i_past1 (w_i (fst (phase_in fx c k a w fl))) = true /\
  (i_past1 (w_i w) = true -> i_done (w_i (fst (phase_in fx c k a w fl))) = true).
Proof.
  intros fx c k a w fl.
  destruct (apply_cancel_progress c k fl w) as [Hp [_ _]].
  unfold phase_in. remember (apply_cancel c k fl w) as v eqn:Hv. clear Hv.
  destruct (arrive a fl (q_i v) (w_dead v)) as [q dead].
  destruct (w_i v) as [|r|o] eqn:Hst.
  - pose proof (in_step_progress fx (k_in c) (w_pi v) IW1 (hd_error q)) as [P1 _].
    destruct (in_step fx (k_in c) (w_pi v) IW1 (hd_error q)) as [[st rep] p']. cbn [fst] in P1.
    assert (Hx : i_past1 (w_i w) = true -> False) by (intro H; apply Hp in H; discriminate H).
    destruct rep as [[b [|]]|]; cbn [fst w_i];
      try (split; [exact P1 | intro H; exfalso; exact (Hx H)]).
    destruct ((dead || closed_o (w_o v)) && k_wfail c); cbn [fst w_i];
      (split; [first [exact P1 | reflexivity] | intro H; exfalso; exact (Hx H)]).
  - pose proof (in_step_progress fx (k_in c) (w_pi v) (IW3 r) (hd_error q)) as [P1 P2].
    specialize (P2 eq_refl).
    destruct (in_step fx (k_in c) (w_pi v) (IW3 r) (hd_error q)) as [[st rep] p']. cbn [fst] in P1, P2.
    destruct rep as [[b [|]]|]; cbn [fst w_i]; try (split; [exact P1 | intros _; exact P2]).
    destruct ((dead || closed_o (w_o v)) && k_wfail c); cbn [fst w_i];
      (split; [first [exact P1 | reflexivity] | intros _; first [exact P2 | reflexivity]]).
  - cbn [fst w_i]. split; [reflexivity | intros _; reflexivity].
Qed.

Lemma phase_out_progress : forall fx c k a w fl,
  o_past2 (w_o (fst (phase_out fx c k a w fl))) = true /\
  (o_past2 (w_o w) = true -> o_done (w_o (fst (phase_out fx c k a w fl))) = true).
Proof.
  intros fx c k a w fl.
  destruct (apply_cancel_progress c k fl w) as [_ [_ [Hp _]]].
  unfold phase_out. remember (apply_cancel c k fl w) as v eqn:Hv. clear Hv.
  destruct (arrive a fl (q_o v) (w_dead v)) as [q dead].
  destruct (w_o v) as [|r|o] eqn:Hst.
  - pose proof (out_step_progress fx (k_out c) (w_po v) OW2 (hd_error q)) as [P1 _].
    destruct (out_step fx (k_out c) (w_po v) OW2 (hd_error q)) as [[st rep] p']. cbn [fst] in P1.
    assert (Hx : o_past2 (w_o w) = true -> False) by (intro H; apply Hp in H; discriminate H).
    destruct rep as [[b [|]]|]; cbn [fst w_o];
      try (split; [exact P1 | intro H; exfalso; exact (Hx H)]).
    destruct ((dead || closed_i (w_i v)) && k_wfail c); cbn [fst w_o];
      (split; [first [exact P1 | reflexivity] | intro H; exfalso; exact (Hx H)]).
  - pose proof (out_step_progress fx (k_out c) (w_po v) (OW4 r) (hd_error q)) as [P1 P2].
    specialize (P2 eq_refl).
    destruct (out_step fx (k_out c) (w_po v) (OW4 r) (hd_error q)) as [[st rep] p']. cbn [fst] in P1, P2.
    destruct rep as [[b [|]]|]; cbn [fst w_o]; try (split; [exact P1 | intros _; exact P2]).
    destruct ((dead || closed_i (w_i v)) && k_wfail c); cbn [fst w_o];
      (split; [first [exact P1 | reflexivity] | intros _; first [exact P2 | reflexivity]]).
  - cbn [fst w_o]. split; [reflexivity | intros _; reflexivity].
Qed.

(* the other automaton is not moved by a phase, except by a cancellation, which only finishes it *)
Lemma phase_out_keeps_i : forall fx c k a w fl,
  (i_past1 (w_i w) = true -> i_past1 (w_i (fst (phase_out fx c k a w fl))) = true) /\
  (i_done (w_i w) = true -> i_done (w_i (fst (phase_out fx c k a w fl))) = true).
Proof.
  intros fx c k a w fl. rewrite phase_out_wi.
  destruct (apply_cancel_progress c k fl w) as [H1 [H2 _]]. split; assumption.
Qed.

Lemma phase_in_keeps_o : forall fx c k a w fl,
  (o_past2 (w_o w) = true -> o_past2 (w_o (fst (phase_in fx c k a w fl))) = true) /\
  (o_done (w_o w) = true -> o_done (w_o (fst (phase_in fx c k a w fl))) = true).
Proof.
  intros fx c k a w fl. rewrite phase_in_wo.
  destruct (apply_cancel_progress c k fl w) as [_ [_ [H1 H2]]]. split; assumption.
Qed.

(* the four phases as intermediate worlds *)
Definition world1 (fx : bool) (c : hs_case) :=
  phase_in fx c 1 (k_a1 c) (mkWorld OW2 IW1 [] [] false (k_pool_out c) (k_pool_in c)) (Some (BCred (mk_cred (k_out c)))).
Definition world2 (fx : bool) (c : hs_case) := phase_out fx c 2 (k_a2 c) (fst (world1 fx c)) (snd (world1 fx c)).
Definition world3 (fx : bool) (c : hs_case) := phase_in fx c 3 (k_a3 c) (fst (world2 fx c)) (snd (world2 fx c)).
Definition world4 (fx : bool) (c : hs_case) := phase_out fx c 4 (k_a4 c) (fst (world3 fx c)) (snd (world3 fx c)).

Lemma hs_world_phases : forall fx c, hs_world fx c = fst (world4 fx c).
Proof.
  intros fx c. unfold hs_world, world4, world3, world2, world1.
  destruct (phase_in fx c 1 (k_a1 c) _ _) as [w1 f2]. cbn [fst snd].
  destruct (phase_out fx c 2 (k_a2 c) w1 f2) as [w2 f3]. cbn [fst snd].
  destruct (phase_in fx c 3 (k_a3 c) w2 f3) as [w3 f4]. cbn [fst snd].
  destruct (phase_out fx c 4 (k_a4 c) w3 f4) as [w4 f5]. reflexivity.
Qed.

(* the responder has returned when frame 4 starts to travel *)
Lemma world3_i_done : forall fx c, i_done (w_i (fst (world3 fx c))) = true.
Proof.
  intros fx c. unfold world3.
  apply (phase_in_progress fx c 3 (k_a3 c) (fst (world2 fx c)) (snd (world2 fx c))).
  unfold world2. apply (phase_out_keeps_i fx c 2 (k_a2 c) (fst (world1 fx c)) (snd (world1 fx c))).
  unfold world1. apply phase_in_progress.
Qed.

(* at the end of every run -- man in the middle, cancellation, any kind of pipe -- both automata have returned *)
Theorem both_sides_return : forall fx c, exists oo oi,
  w_o (hs_world fx c) = OD oo /\ w_i (hs_world fx c) = ID oi /\ hs_run fx c = (oo, oi).
Proof.
  intros fx c. unfold hs_run. rewrite hs_world_phases.
  assert (Hi : i_done (w_i (fst (world4 fx c))) = true).
  { unfold world4. apply (phase_out_keeps_i fx c 4 (k_a4 c) (fst (world3 fx c)) (snd (world3 fx c))).
    apply world3_i_done. }
  assert (Ho : o_done (w_o (fst (world4 fx c))) = true).
  { unfold world4. apply (phase_out_progress fx c 4 (k_a4 c) (fst (world3 fx c)) (snd (world3 fx c))).
    unfold world3. apply (phase_in_keeps_o fx c 3 (k_a3 c) (fst (world2 fx c)) (snd (world2 fx c))).
    unfold world2. apply phase_out_progress. }
  destruct (w_o (fst (world4 fx c))) as [|r|oo]; try discriminate Ho.
  destruct (w_i (fst (world4 fx c))) as [|r|oi]; try discriminate Hi.
  exists oo, oi. repeat split; reflexivity.
Qed.

(* ---------------------------------------------------------------- a cancellation outside the window changes nothing *)
Definition no_cancel (c : hs_case) : hs_case :=
  mkCase (k_out c) (k_in c) (k_a1 c) (k_a2 c) (k_a3 c) (k_a4 c) None (k_wfail c) (k_pool_out c) (k_pool_in c).

Lemma apply_cancel_other : forall c side kk k fl w, k_cancel c = Some (side, kk) -> kk <> k -> apply_cancel c k fl w = w.
Proof.
  intros c side kk k fl w Hc Hne. unfold apply_cancel. rewrite Hc. destruct fl as [b|]; [|reflexivity].
  destruct (N.eqb kk k) eqn:E; [apply N.eqb_eq in E; contradiction | reflexivity].
Qed.

Lemma phase_in_no_cancel : forall fx c k a w fl, apply_cancel c k fl w = w ->
  phase_in fx c k a w fl = phase_in fx (no_cancel c) k a w fl.
Proof.
  intros fx c k a w fl H. unfold phase_in. rewrite H.
  rewrite (apply_cancel_none (no_cancel c)) by reflexivity. reflexivity.
Qed.

Lemma phase_out_no_cancel : forall fx c k a w fl, apply_cancel c k fl w = w ->
  phase_out fx c k a w fl = phase_out fx (no_cancel c) k a w fl.
Proof.
  intros fx c k a w fl H. unfold phase_out. rewrite H.
  rewrite (apply_cancel_none (no_cancel c)) by reflexivity. reflexivity.
Qed.

(* a responder that has returned is not affected by the cancellation of its context *)
Lemma apply_cancel_in_done : forall c kk k fl w, k_cancel c = Some (false, kk) -> i_done (w_i w) = true ->
  apply_cancel c k fl w = w.
Proof.
  intros c kk k fl w Hc Hd. unfold apply_cancel. rewrite Hc. destruct fl as [b|]; [|reflexivity].
  destruct (N.eqb kk k); [|reflexivity]. unfold cancel_side.
  destruct (w_i w); try discriminate Hd. reflexivity.
Qed.

Theorem cancel_outside_window : forall fx c, cancel_eff c = None -> hs_run fx c = hs_run fx (no_cancel c).
Proof.
  intros fx c Hc. unfold hs_run. rewrite !hs_world_phases.
  assert (H1 : world1 fx c = world1 fx (no_cancel c) /\ world2 fx c = world2 fx (no_cancel c) /\
               world3 fx c = world3 fx (no_cancel c) /\
               (apply_cancel c 4 (snd (world3 fx c)) (fst (world3 fx c)) = fst (world3 fx c))).
  { unfold cancel_eff in Hc. destruct (k_cancel c) as [[side kk]|] eqn:Hk.
    - assert (Hne : kk <> 1 /\ kk <> 2 /\ kk <> 3 /\ (side = true -> kk <> 4)).
      { destruct side.
        - destruct (N.leb 1 kk && N.leb kk 4) eqn:E; [discriminate Hc|].
          apply andb_false_iff in E. rewrite !N.leb_gt in E.
          split; [lia|]. split; [lia|]. split; [lia|]. intros _. lia.
        - destruct (N.leb 1 kk && N.leb kk 3) eqn:E; [discriminate Hc|].
          apply andb_false_iff in E. rewrite !N.leb_gt in E.
          split; [lia|]. split; [lia|]. split; [lia|]. intro H. discriminate H. }
      destruct Hne as [N1 [N2 [N3 N4]]].
      assert (W1 : world1 fx c = world1 fx (no_cancel c)).
      { unfold world1. apply phase_in_no_cancel. eapply apply_cancel_other; eassumption. }
      assert (W2 : world2 fx c = world2 fx (no_cancel c)).
      { unfold world2. rewrite <- W1. apply phase_out_no_cancel. eapply apply_cancel_other; eassumption. }
      assert (W3 : world3 fx c = world3 fx (no_cancel c)).
      { unfold world3. rewrite <- W2. apply phase_in_no_cancel. eapply apply_cancel_other; eassumption. }
      repeat split; try assumption.
      destruct side.
      + eapply apply_cancel_other; [exact Hk | apply N4; reflexivity].
      + eapply apply_cancel_in_done; [exact Hk | apply world3_i_done].
    - assert (W1 : world1 fx c = world1 fx (no_cancel c)).
      { unfold world1. apply phase_in_no_cancel. apply apply_cancel_none. exact Hk. }
      assert (W2 : world2 fx c = world2 fx (no_cancel c)).
      { unfold world2. rewrite <- W1. apply phase_out_no_cancel. apply apply_cancel_none. exact Hk. }
      assert (W3 : world3 fx c = world3 fx (no_cancel c)).
      { unfold world3. rewrite <- W2. apply phase_in_no_cancel. apply apply_cancel_none. exact Hk. }
      repeat split; try assumption. apply apply_cancel_none. exact Hk. }
  destruct H1 as [_ [_ [W3 W4]]].
  assert (W : world4 fx c = world4 fx (no_cancel c)).
  { unfold world4. rewrite <- W3. apply phase_out_no_cancel. exact W4. }
  rewrite W. reflexivity.
Qed.

(* ---------------------------------------------------------------- the model meets spec_C14 -- every case *)
Lemma spec_C14_no_cancel : forall c oo oi, cancel_eff c = None -> spec_C14 c oo oi = spec_C14 (no_cancel c) oo oi.
Proof.
  intros c oo oi H. unfold spec_C14, spec_C14_core, tamper_ok. rewrite H.
  change (cancel_eff (no_cancel c)) with (@None (bool * N)). reflexivity.
Qed.

Lemma cancel_eff_some : forall c side k, cancel_eff c = Some (side, k) ->
  k_cancel c = Some (side, k) /\ (k = 1 \/ k = 2 \/ k = 3 \/ (k = 4 /\ side = true)).
Proof.
  intros c side k H. unfold cancel_eff in H. destruct (k_cancel c) as [[[|] kk]|]; [| |discriminate H].
  - destruct (N.leb 1 kk && N.leb kk 4) eqn:E; [|discriminate H]. injection H as H1 H2. subst side k.
    apply andb_true_iff in E. rewrite !N.leb_le in E. split; [reflexivity|].
    assert (Hk : kk = 1 \/ kk = 2 \/ kk = 3 \/ kk = 4) by lia.
    destruct Hk as [Hk|[Hk|[Hk|Hk]]]; auto.
  - destruct (N.leb 1 kk && N.leb kk 3) eqn:E; [|discriminate H]. injection H as H1 H2. subst side k.
    apply andb_true_iff in E. rewrite !N.leb_le in E. split; [reflexivity|].
    assert (Hk : kk = 1 \/ kk = 2 \/ kk = 3) by lia.
    destruct Hk as [Hk|[Hk|Hk]]; auto.
Qed.

(* the cancellation clause in the language of the property: honest peers over a reliable stream, one side's context is
   cancelled while frame k is in flight (inside the window in which the cancellation can matter).  The cancelled side
   fails.  The other side fails too -- unless it is the responder, the initiator was cancelled after it had sent its
   acknowledgement (k >= 3: the responder already has, or is about to receive, every frame it waits for -- two generals),
   and the handshake was mutually acceptable. *)
Theorem cancel_safe : forall c side k, all_pass c = true -> cancel_eff c = Some (side, k) ->
  is_ok (fst (hs_run true c)) = false /\
  (is_ok (snd (hs_run true c)) = true ->
     side = true /\ 3 <= k /\ accepts (k_in c) (k_out c) && accepts (k_out c) (k_in c) = true).
Proof.
  intros [co ci a1 a2 a3 a4 can wf po pi] side k H He. apply cancel_eff_some in He. destruct He as [Hc Hk].
  unfold all_pass in H. cbn in H, Hc. subst can.
  destruct a1, a2, a3, a4; try discriminate H. clear H.
  exact (honest_cancel_run co ci wf po pi side k Hk).
Qed.

Theorem model_meets_core_cancel : forall c side k, cancel_eff c = Some (side, k) ->
  spec_C14_core c (fst (hs_run true c)) (snd (hs_run true c)) = true.
Proof.
  intros c side k He. destruct (hs_run true c) as [oo oi] eqn:E. cbn [fst snd].
  unfold spec_C14_core. destruct (run_sound c oo oi E) as [H1 H2]. rewrite H1, H2. cbn [andb].
  destruct (all_pass c) eqn:A; [|reflexivity].
  rewrite He. destruct (cancel_safe c side k A He) as [Ho Hi]. rewrite E in Ho, Hi. cbn [fst snd] in Ho, Hi.
  rewrite Ho. cbn [negb andb]. destruct side.
  - destruct (is_ok oi); [|reflexivity]. destruct (Hi eq_refl) as [_ [Hk _]]. cbn [negb orb]. apply N.leb_le. exact Hk.
  - destruct (is_ok oi); [|reflexivity]. destruct (Hi eq_refl) as [Hs _]. discriminate Hs.
Qed.

Theorem model_meets_spec : forall c, spec_C14 c (fst (hs_run true c)) (snd (hs_run true c)) = true.
Proof.
  intro c. destruct (cancel_eff c) as [[side k]|] eqn:He.
  - unfold spec_C14. rewrite (model_meets_core_cancel c side k He). unfold tamper_ok. rewrite He. reflexivity.
  - rewrite (cancel_outside_window true c He). rewrite (spec_C14_no_cancel c _ _ He).
    apply model_meets_spec_nocancel. reflexivity.
Qed.

(* every session of the (repaired) model satisfies the session predicate, cancellations included *)
Theorem model_session_meets_spec_all : forall l po pi, spec_C14_session (model_session true po pi l) = true.
Proof.
  induction l as [|[[c no] ni] r IH]; intros po pi; [reflexivity|].
  cbn [model_session].
  destruct (hs_pools true (with_pools c po pi)) as [po' pi'] eqn:Hp.
  unfold spec_C14_session. cbn [forallb so_case so_out so_in so_later_out so_later_in].
  rewrite !labels_stable_later_reads.
  rewrite <- (spec_C14_with_pools c po pi).
  rewrite model_meets_spec.
  cbn [andb]. apply IH.
Qed.

Theorem model_tamper_ok_all : forall c, tamper_ok c (fst (hs_run true c)) (snd (hs_run true c)) = true.
Proof.
  intro c. pose proof (model_meets_spec c) as H. unfold spec_C14 in H. apply andb_true_iff in H. exact (proj2 H).
Qed.
