(* Proofs/TreeAuthAcl.v — ACL side of C02: closestPermissions over an account's PermissionChanges answers either the
   permission the account really had in the state folded up to the cited record, or None — for every ACL log that the
   validating state machine of Model/Acl.v accepts (all 16 content kinds), and for every prefix a receiver may hold. *)
From Coq Require Import List NArith Bool Arith Lia.
Import ListNotations.
From AnySync Require Import Model.TreeAuth Proofs.AclBase.
Open Scope N_scope.

(* ------------------------------------------------------------------------------------------ histories *)
Definition last_perm (h : list (rid * perm)) : perm := match rev h with [] => pNone | e :: _ => snd e end.

Lemma last_perm_snoc : forall h r p, last_perm (h ++ [(r, p)]) = p.
Proof. intros. unfold last_perm. rewrite rev_unit. reflexivity. Qed.

Definition lp_ok (x : account) : Prop := a_perm x = last_perm (a_hist x).

(* how one record (id r) may change an account: the history is kept or restarted, then extended by entries of r;
   the current permission is the last entry's *)
Definition step_rel (r : rid) (x x' : account) : Prop :=
  lp_ok x' /\
  exists base ext, a_hist x' = base ++ ext /\ (base = a_hist x \/ base = []) /\ Forall (fun e => fst e = r) ext.

Lemma step_refl : forall r x, lp_ok x -> step_rel r x x.
Proof. intros r x H. split; [exact H|]. exists (a_hist x), []. rewrite app_nil_r. auto. Qed.

Lemma step_trans : forall r x y z, step_rel r x y -> step_rel r y z -> step_rel r x z.
Proof.
  intros r x y z [_ (b1 & e1 & H1 & B1 & F1)] [Lz (b2 & e2 & H2 & B2 & F2)]. split; [exact Lz|].
  destruct B2 as [->| ->].
  - exists b1, (e1 ++ e2). rewrite H2, H1, app_assoc. split; [reflexivity|]. split; [exact B1|].
    apply Forall_app; auto.
  - exists [], e2. auto.
Qed.

Lemma step_append : forall r x p st kr, step_rel r x (mkAccount p st kr (a_hist x ++ [(r, p)])).
Proof.
  intros. split; [unfold lp_ok; cbn; rewrite last_perm_snoc; reflexivity|].
  exists (a_hist x), [(r, p)]. cbn. auto.
Qed.

Lemma step_reset : forall r x p st kr, step_rel r x (mkAccount p st kr [(r, p)]).
Proof.
  intros. split; [reflexivity|]. exists [], [(r, p)]. cbn. auto.
Qed.

Lemma step_keep : forall r x st kr, lp_ok x -> step_rel r x (mkAccount (a_perm x) st kr (a_hist x)).
Proof.
  intros r x st kr H. split; [exact H|]. exists (a_hist x), []. cbn. rewrite app_nil_r. auto.
Qed.

Definition LP (s : state) : Prop := forall a, lp_ok (acc_of s a).
Definition SR (r : rid) (s s' : state) : Prop := forall a, step_rel r (acc_of s a) (acc_of s' a).

Lemma SR_refl : forall r s, LP s -> SR r s s.
Proof. intros r s H a. apply step_refl. apply H. Qed.
Lemma SR_trans : forall r s1 s2 s3, SR r s1 s2 -> SR r s2 s3 -> SR r s1 s3.
Proof. intros r s1 s2 s3 H1 H2 a. eapply step_trans; eauto. Qed.
Lemma SR_LP : forall r s s', SR r s s' -> LP s'.
Proof. intros r s s' H a. apply (H a). Qed.

Lemma acc_of_accounts : forall s s' a, accounts s' = accounts s -> acc_of s' a = acc_of s a.
Proof. intros s s' a H. unfold acc_of. rewrite H. reflexivity. Qed.

Lemma SR_same : forall r s s', LP s -> accounts s' = accounts s -> SR r s s'.
Proof. intros r s s' L H a. rewrite (acc_of_accounts _ _ a H). apply step_refl. apply L. Qed.

Section M.
  Variable me : acct.

  Lemma SR_set_acc : forall r s a x, LP s -> step_rel r (acc_of s a) x -> SR r s (set_acc s a x).
  Proof.
    intros r s a x L H b. rewrite acc_of_set_acc. destruct (b =? a) eqn:E.
    - apply N.eqb_eq in E. subst. exact H.
    - apply step_refl. apply L.
  Qed.

  Lemma acc_of_hist : forall s a,
    match mget a (accounts s) with Some x => a_hist x | None => [] end = a_hist (acc_of s a).
  Proof. intros. unfold acc_of. destruct (mget a (accounts s)); reflexivity. Qed.

  Lemma SR_update_perm : forall r s a p, LP s -> SR r s (update_perm s a p r).
  Proof. intros r s a p L. unfold update_perm. apply SR_set_acc; [exact L | apply step_append]. Qed.

  Lemma accounts_unpack : forall s a, accounts (unpack_if_me me s a) = accounts s.
  Proof. intros. unfold unpack_if_me. destruct (a =? me); reflexivity. Qed.
  Lemma accounts_drop : forall s q, accounts (drop_request s q) = accounts s.
  Proof. intros. unfold drop_request. destruct (mget q (requests s)); reflexivity. Qed.

  Lemma SR_perm_changes : forall r au l s s', LP s ->
    apply_perm_changes true s au r l = Some s' -> SR r s s'.
  Proof.
    intros r au. induction l as [|[t p] l IH]; cbn; intros s s' L H.
    - inversion H; subst. apply SR_refl; exact L.
    - unfold apply_perm_change in H. destruct (negb (parse_ok t)); [discriminate|].
      destruct (true && negb (validate_perm_change s au t p)); [discriminate|].
      pose proof (SR_update_perm r s t p L) as H1.
      eapply SR_trans; [exact H1|]. apply IH; [eapply SR_LP; eauto | exact H].
  Qed.

  Lemma SR_additions : forall r l s s', LP s -> do_additions me s r l = Some s' -> SR r s s'.
  Proof.
    intros r. induction l as [|[a p] l IH]; cbn; intros s s' L H.
    - inversion H; subst. apply SR_refl; exact L.
    - destruct (negb (parse_ok a)); [discriminate|].
      set (hist := match mget a (accounts s) with Some x => a_hist x ++ [(r, p)] | None => [(r, p)] end) in *.
      assert (Eh : hist = a_hist (acc_of s a) ++ [(r, p)])
        by (unfold hist, acc_of; destruct (mget a (accounts s)); reflexivity).
      set (s1 := set_acc s a (mkAccount p SActive (cur_key s) hist)) in *.
      assert (H1 : SR r s s1) by (apply SR_set_acc; [exact L | rewrite Eh; apply step_append]).
      assert (H2 : SR r s1 (unpack_if_me me s1 a))
        by (apply SR_same; [eapply SR_LP; eauto | apply accounts_unpack]).
      eapply SR_trans; [eapply SR_trans; eauto|]. apply IH; [eapply SR_LP; eauto | exact H].
  Qed.

  Lemma SR_removals : forall r l s s', LP s -> do_removals s r l = Some s' -> SR r s s'.
  Proof.
    intros r. induction l as [|a l IH]; cbn; intros s s' L H.
    - inversion H; subst. apply SR_refl; exact L.
    - destruct (negb (parse_ok a)); [discriminate|].
      destruct (mget a (accounts s)) as [x|] eqn:E; [|discriminate].
      assert (Ex : acc_of s a = x) by (unfold acc_of; rewrite E; reflexivity).
      set (s1 := set_acc s a (mkAccount pNone SRemoved (a_keyrec x) (a_hist x ++ [(r, pNone)]))) in *.
      assert (H1 : SR r s s1) by (apply SR_set_acc; [exact L | rewrite Ex; apply step_append]).
      set (s2 := match mget a (pending s1) with
                 | Some rq => set_reqs s1 (mdel rq (requests s1)) (mdel a (pending s1))
                 | None => s1 end) in *.
      assert (H2 : SR r s1 s2).
      { apply SR_same; [eapply SR_LP; eauto|]. unfold s2. destruct (mget a (pending s1)); reflexivity. }
      eapply SR_trans; [eapply SR_trans; eauto|]. apply IH; [eapply SR_LP; eauto | exact H].
  Qed.

  Lemma SR_do_rk : forall r s k s', LP s -> do_rk me s r k = Some s' -> SR r s s'.
  Proof.
    intros r s k s' L H. unfold do_rk in H.
    destruct (negb (rk_meta_ok k)); [discriminate|]. destruct (negb (forallb parse_ok (rk_invites k))); [discriminate|].
    inversion H; subst. apply SR_same; [exact L | reflexivity].
  Qed.

  Ltac ifs H := repeat (cbv zeta in H;
    match type of H with (if ?c then _ else _) = Some _ => destruct c; try discriminate end).

  Lemma content_SR : forall s au r c s', LP s -> apply_content false true me s au r c = Some s' -> SR r s s'.
  Proof.
    intros s au r c s' L H. destruct c; cbn [apply_content] in H.
    - (* invite *) unfold apply_invite in H. ifs H.
      inversion H; subst. apply SR_same; [exact L | reflexivity].
    - (* invite revoke *) unfold apply_invite_revoke in H. ifs H.
      inversion H; subst. apply SR_same; [exact L | reflexivity].
    - (* request join *) unfold apply_request_join in H.
      destruct (validate_request_join s au ident inv sig_key sig_msg meta_ok) eqn:V; cbn [andb negb] in H; [|discriminate].
      inversion H; subst; clear H.
      set (s1 := set_reqs s (mset r (mkRequest au RJoin (cur_key s)) (requests s)) (mset au r (pending s))).
      assert (Hp : perm_of s au = pNone).
      { unfold validate_request_join in V. destruct (mget inv (invites s)); [|discriminate].
        repeat rewrite andb_true_iff in V. destruct V as [[[[[[V _] _] _] _] _] _]. apply N.eqb_eq in V. exact V. }
      assert (H1 : SR r s s1) by (apply SR_same; [exact L | reflexivity]).
      eapply SR_trans; [exact H1|]. apply SR_set_acc; [eapply SR_LP; eauto|].
      rewrite (acc_of_accounts s s1 au eq_refl). rewrite acc_of_hist.
      pose proof (L au) as La. unfold perm_of in Hp.
      split; [unfold lp_ok in *; cbn; rewrite <- La; symmetry; exact Hp|].
      exists (a_hist (acc_of s au)), []. cbn. rewrite app_nil_r. auto.
    - (* request accept *) unfold apply_request_accept in H.
      ifs H. 
      destruct (mget req (requests s)) as [q|]; [|discriminate]. inversion H; subst; clear H.
      match goal with |- SR r s (unpack_if_me me (drop_request ?s1 req) ident) =>
        assert (H1 : SR r s s1);
        [ apply SR_set_acc; [exact L | unfold acc_of; destruct (mget ident (accounts s)); [apply step_append | apply step_reset]]
        | eapply SR_trans; [exact H1 | apply SR_same; [eapply SR_LP; eauto | rewrite accounts_unpack, accounts_drop; reflexivity]] ]
      end.
    - (* perm change *) unfold apply_perm_change in H. ifs H. inversion H; subst. apply SR_update_perm; exact L.
    - (* account remove *) unfold apply_account_remove in H. destruct rk as [k|]; [|discriminate].
      ifs H.
      destruct (do_removals s r ids) as [s1|] eqn:E; [|discriminate].
      pose proof (SR_removals r ids s s1 L E) as H1.
      eapply SR_trans; [exact H1|]. eapply SR_do_rk; [eapply SR_LP; eauto | exact H].
    - (* read key change *) unfold apply_read_key_change in H. ifs H.
      eapply SR_do_rk; eauto.
    - (* request decline *) unfold apply_request_decline in H. ifs H.
      destruct (mget req (requests s)) as [q|]; [|discriminate].
      destruct (mget (r_ident q) (accounts s)) as [x|] eqn:E; [|discriminate]. inversion H; subst; clear H.
      assert (Ex : acc_of s (r_ident q) = x) by (unfold acc_of; rewrite E; reflexivity).
      set (s1 := set_acc s (r_ident q) (mkAccount (a_perm x) SDeclined (a_keyrec x) (a_hist x))).
      assert (H1 : SR r s s1).
      { apply SR_set_acc; [exact L|]. rewrite Ex. apply step_keep. rewrite <- Ex. apply L. }
      eapply SR_trans; [exact H1|]. apply SR_same; [eapply SR_LP; eauto | apply accounts_drop].
    - (* request remove *) unfold apply_request_remove in H. ifs H.
      destruct (mget au (accounts s)) as [x|] eqn:E; [|discriminate]. inversion H; subst; clear H.
      assert (Ex : acc_of s au = x) by (unfold acc_of; rewrite E; reflexivity).
      set (s1 := set_reqs s (mset r (mkRequest au RRemove 0) (requests s)) (mset au r (pending s))).
      assert (H1 : SR r s s1) by (apply SR_same; [exact L | reflexivity]).
      eapply SR_trans; [exact H1|]. apply SR_set_acc; [eapply SR_LP; eauto|].
      rewrite (acc_of_accounts s s1 au eq_refl), Ex. apply step_keep. rewrite <- Ex. apply L.
    - (* perm changes *) eapply SR_perm_changes; eauto.
    - (* accounts add *) unfold apply_accounts_add in H. ifs H.
      eapply SR_additions; eauto.
    - (* request cancel *) unfold apply_request_cancel in H. ifs H.
      destruct (mget req (requests s)) as [q|]; [|discriminate].
      destruct (mget (r_ident q) (accounts s)) as [x|] eqn:E; [|discriminate]. inversion H; subst; clear H.
      assert (Ex : acc_of s (r_ident q) = x) by (unfold acc_of; rewrite E; reflexivity).
      set (st := match r_type q with RJoin => SCanceled | RRemove => SActive end).
      set (s1 := set_acc s (r_ident q) (mkAccount (a_perm x) st (a_keyrec x) (a_hist x))).
      assert (H1 : SR r s s1).
      { apply SR_set_acc; [exact L|]. rewrite Ex. apply step_keep. rewrite <- Ex. apply L. }
      eapply SR_trans; [exact H1|]. apply SR_same; [eapply SR_LP; eauto | apply accounts_drop].
    - (* invite join *) unfold apply_invite_join in H.
      ifs H. 
      inversion H; subst; clear H.
      match goal with |- SR r s (unpack_if_me me ?s2 ident) =>
        match s2 with context [set_acc s ident ?x] =>
          assert (H1 : SR r s (set_acc s ident x));
          [ apply SR_set_acc; [exact L | unfold acc_of; destruct (mget ident (accounts s)); [apply step_append | apply step_reset]]
          | eapply SR_trans; [exact H1 | apply SR_same; [eapply SR_LP; eauto |
              rewrite accounts_unpack; match goal with |- context [find_request_of ?i ?m] => destruct (find_request_of i m) end; reflexivity]] ]
        end
      end.
    - (* invite change *) unfold apply_invite_change in H.
      ifs H. inversion H; subst. apply SR_same; [exact L | reflexivity].
    - (* ownership *) unfold apply_ownership in H. ifs H.
      inversion H; subst.
      eapply SR_trans; [apply SR_update_perm; exact L|]. apply SR_update_perm. eapply SR_LP. apply SR_update_perm; exact L.
    - (* options *) unfold apply_options in H. ifs H.
      inversion H; subst. apply SR_same; [exact L | reflexivity].
    - (* empty *) inversion H; subst. apply SR_refl; exact L.
  Qed.

  Lemma contents_SR : forall cs s au r s', LP s -> apply_contents false true me s au r cs = Some s' -> SR r s s'.
  Proof.
    induction cs as [|c cs IH]; cbn; intros s au r s' L H.
    - inversion H; subst. apply SR_refl; exact L.
    - destruct (apply_content false true me s au r c) as [s1|] eqn:E; [|discriminate].
      pose proof (content_SR _ _ _ _ _ L E) as H1.
      eapply SR_trans; [exact H1|]. eapply IH; [eapply SR_LP; eauto | exact H].
  Qed.

  Lemma record_SR : forall cs s au r s', LP s -> apply_record false true me s au r cs = Some s' -> SR r s s'.
  Proof.
    intros cs s au r s' L H. unfold apply_record in H.
    destruct (apply_contents false true me s au r cs) as [s1|] eqn:E; [|discriminate]. inversion H; subst.
    eapply SR_trans; [eapply contents_SR; eauto|]. apply SR_same; [eapply SR_LP; eapply contents_SR; eauto | reflexivity].
  Qed.
End M.

(* ------------------------------------------------------------------------------------------ indexes *)
Lemma idx_from_bounds : forall l r k j, idx_from l r k = Some j -> (k <= j < k + length l)%nat /\ In r l.
Proof.
  induction l as [|x l IH]; cbn; intros r k j H; [discriminate|].
  destruct (x =? r) eqn:E.
  - inversion H; subst. apply N.eqb_eq in E. split; [lia | auto].
  - apply IH in H. destruct H. split; [lia | auto].
Qed.

Lemma idx_from_None : forall l r k, idx_from l r k = None <-> ~ In r l.
Proof.
  induction l as [|x l IH]; cbn; intros r k; [tauto|].
  destruct (x =? r) eqn:E.
  - apply N.eqb_eq in E. split; [discriminate | intros H; exfalso; apply H; auto].
  - apply N.eqb_neq in E. rewrite IH. tauto.
Qed.

Lemma idx_from_app : forall l1 l2 r k,
  idx_from (l1 ++ l2) r k = match idx_from l1 r k with Some j => Some j | None => idx_from l2 r (k + length l1) end.
Proof.
  induction l1 as [|x l1 IH]; cbn; intros l2 r k; [f_equal; lia|].
  destruct (x =? r); [reflexivity|]. rewrite IH. destruct (idx_from l1 r (S k)); [reflexivity|]. f_equal. lia.
Qed.

Lemma idx0_old : forall ids x r, In r ids -> idx0 (ids ++ [x]) r = idx0 ids r.
Proof.
  intros ids x r H. unfold idx0, idx_of. rewrite idx_from_app.
  destruct (idx_from ids r 0) eqn:E; [reflexivity|]. apply idx_from_None in E. contradiction.
Qed.

Lemma idx0_lt : forall ids r, In r ids -> (idx0 ids r < length ids)%nat.
Proof.
  intros ids r H. unfold idx0, idx_of. destruct (idx_from ids r 0) eqn:E.
  - apply idx_from_bounds in E. lia.
  - apply idx_from_None in E. contradiction.
Qed.

Lemma idx0_new : forall ids x, ~ In x ids -> idx0 (ids ++ [x]) x = length ids.
Proof.
  intros ids x H. unfold idx0, idx_of. rewrite idx_from_app.
  apply idx_from_None with (k := O) in H. rewrite H. cbn. rewrite N.eqb_refl. reflexivity.
Qed.

(* ------------------------------------------------------------------------------------------ closest *)
Lemma closest_rev_skip : forall ids l1 l2 r,
  (forall e, In e l1 -> is_after_nc ids r (fst e) = false) ->
  closest_rev ids (l1 ++ l2) r = closest_rev ids l2 r.
Proof.
  induction l1 as [|[r' p] l1 IH]; cbn; intros l2 r H; [reflexivity|].
  pose proof (H (r', p) (or_introl eq_refl)) as Hx. cbn in Hx. rewrite Hx. apply IH. auto.
Qed.

Lemma closest_rev_cong : forall ids ids' l r,
  idx0 ids' r = idx0 ids r -> (forall e, In e l -> idx0 ids' (fst e) = idx0 ids (fst e)) ->
  closest_rev ids' l r = closest_rev ids l r.
Proof.
  induction l as [|[r' p] l IH]; cbn; intros r Hr H; [reflexivity|].
  pose proof (H (r', p) (or_introl eq_refl)) as Hx. cbn in Hx.
  unfold is_after_nc. rewrite Hr, Hx.
  destruct (Nat.leb _ _); [reflexivity|]. apply IH; auto.
Qed.

(* the invariant: record ids so far, the state after each of them, the current state *)
Record INV (ids : list rid) (sts : list state) (s : state) : Prop := mkINV {
  inv_len : length ids = length sts;
  inv_lp : LP s;
  inv_in : forall a e, In e (a_hist (acc_of s a)) -> In (fst e) ids;
  inv_cl : forall a r k sk, idx_of ids r = Some k -> nth_error sts k = Some sk ->
           closest ids (a_hist (acc_of s a)) r = pNone \/ closest ids (a_hist (acc_of s a)) r = perm_of sk a
}.

Lemma inv_step : forall me ids sts s au r cs s',
  INV ids sts s -> ~ In r ids ->
  apply_record false true me s au r cs = Some s' ->
  INV (ids ++ [r]) (sts ++ [s']) s'.
Proof.
  intros me ids sts s au r cs s' I Hr H.
  pose proof (record_SR me cs s au r s' (inv_lp _ _ _ I) H) as S.
  constructor.
  - rewrite !app_length. cbn. rewrite (inv_len _ _ _ I). reflexivity.
  - eapply SR_LP; eauto.
  - intros a e He. destruct (S a) as [_ (base & ext & Hh & Hb & Hf)]. rewrite Hh in He.
    apply in_or_app. apply in_app_or in He. destruct He as [He|He].
    + left. destruct Hb as [->| ->]; [eapply (inv_in _ _ _ I); eauto | contradiction].
    + right. rewrite Forall_forall in Hf. rewrite (Hf e He). cbn. auto.
  - intros a r0 k sk Hk Hs.
    destruct (S a) as [Lp (base & ext & Hh & Hb & Hf)]. rewrite Forall_forall in Hf.
    assert (Hall : forall e, In e (a_hist (acc_of s' a)) -> In (fst e) (ids ++ [r])).
    { intros e He. rewrite Hh in He. apply in_or_app. apply in_app_or in He. destruct He as [He|He].
      - left. destruct Hb as [->| ->]; [eapply (inv_in _ _ _ I); eauto | contradiction].
      - right. rewrite (Hf e He). cbn. auto. }
    unfold idx_of in Hk. rewrite idx_from_app in Hk. destruct (idx_from ids r0 0) as [j|] eqn:Ej.
    + (* an old record *)
      inversion Hk; subst j; clear Hk. pose proof (idx_from_bounds _ _ _ _ Ej) as [Hb0 Hin0].
      rewrite nth_error_app1 in Hs by (rewrite <- (inv_len _ _ _ I); lia).
      assert (Hskip : closest (ids ++ [r]) (a_hist (acc_of s' a)) r0 = closest (ids ++ [r]) base r0).
      { unfold closest. rewrite Hh, rev_app_distr. apply closest_rev_skip.
        intros e He. apply in_rev in He. rewrite (Hf e He). unfold is_after_nc.
        rewrite (idx0_new ids r Hr), (idx0_old ids r r0 Hin0). apply Nat.leb_gt. apply idx0_lt; exact Hin0. }
      rewrite Hskip. destruct Hb as [->| ->]; [|left; reflexivity].
      assert (Hc : closest (ids ++ [r]) (a_hist (acc_of s a)) r0 = closest ids (a_hist (acc_of s a)) r0).
      { unfold closest. apply closest_rev_cong; [apply idx0_old; exact Hin0|].
        intros e He. apply in_rev in He. apply idx0_old. eapply (inv_in _ _ _ I); eauto. }
      rewrite Hc. apply (inv_cl _ _ _ I a r0 k sk); [exact Ej | exact Hs].
    + (* the new record *)
      cbn in Hk. destruct (r =? r0) eqn:E0; [|discriminate]. apply N.eqb_eq in E0. subst r0.
      inversion Hk; subst k; clear Hk. try rewrite Nat.add_0_l in Hs.
      rewrite nth_error_app2 in Hs by (rewrite (inv_len _ _ _ I); lia).
      rewrite (inv_len _ _ _ I), Nat.sub_diag in Hs. cbn in Hs. inversion Hs; subst sk; clear Hs.
      right. unfold perm_of. rewrite Lp. unfold closest, last_perm.
      destruct (rev (a_hist (acc_of s' a))) as [|[r' p'] l] eqn:Er; [reflexivity|]. cbn.
      assert (Hin' : In (r', p') (a_hist (acc_of s' a))) by (apply in_rev; rewrite Er; left; reflexivity).
      pose proof (Hall _ Hin') as Hi. cbn in Hi.
      unfold is_after_nc. rewrite (idx0_new ids r Hr).
      assert (Hle : (idx0 (ids ++ [r]) r' <= length ids)%nat).
      { pose proof (idx0_lt _ _ Hi) as Hlt. rewrite app_length in Hlt. cbn in Hlt. lia. }
      apply Nat.leb_le in Hle. rewrite Hle. reflexivity.
Qed.

Lemma last_indep : forall (l : list state) d d', l <> [] -> List.last l d = List.last l d'.
Proof.
  induction l as [|x l IH]; intros d d' H; [contradiction|].
  destruct l as [|y l]; [reflexivity|]. cbn. apply IH. discriminate.
Qed.

Lemma states_from_INV : forall me ws s ids sts l,
  INV ids sts s -> NoDup (ids ++ map w_id ws) ->
  states_from me s ws = Some l ->
  INV (ids ++ map w_id ws) (sts ++ l) (List.last l s).
Proof.
  intros me. induction ws as [|w ws IH]; cbn; intros s ids sts l I ND H.
  - inversion H; subst. rewrite !app_nil_r. exact I.
  - destruct (negb (w_prev w =? Acl.last s)); [discriminate|].
    destruct (apply_record false true me s (w_author w) (w_id w) (w_contents w)) as [s1|] eqn:E; [|discriminate].
    destruct (states_from me s1 ws) as [l'|] eqn:E2; [|discriminate]. inversion H; subst; clear H.
    assert (Hn : ~ In (w_id w) ids).
    { intros Hi. apply NoDup_remove_2 in ND. apply ND. apply in_or_app. left. exact Hi. }
    pose proof (inv_step me ids sts s _ _ _ s1 I Hn E) as I1.
    specialize (IH s1 (ids ++ [w_id w]) (sts ++ [s1]) l' I1).
    rewrite <- !app_assoc in IH. cbn in IH. specialize (IH ND E2).
    destruct l' as [|y l']; [exact IH|].
    change (List.last (s1 :: y :: l') s) with (List.last (y :: l') s).
    rewrite (last_indep (y :: l') s s1) by discriminate. exact IH.
Qed.

Lemma init_INV : forall me owner root, INV [root] [init_state me owner root None] (init_state me owner root None).
Proof.
  intros me owner root. constructor.
  - reflexivity.
  - intros a. unfold lp_ok, acc_of, init_state. cbn. destruct (a =? owner); reflexivity.
  - intros a e. unfold acc_of, init_state. cbn. destruct (a =? owner); cbn; [|contradiction].
    intros [<-|[]]. cbn. auto.
  - intros a r k sk Hk Hs. unfold idx_of in Hk. cbn in Hk. destruct (root =? r) eqn:E; [|discriminate].
    inversion Hk; subst k. cbn in Hs. inversion Hs; subst sk. apply N.eqb_eq in E. subst r.
    unfold closest, acc_of, perm_of, acc_of, init_state. cbn. destruct (a =? owner); cbn; [|left; reflexivity].
    right. unfold is_after_nc, idx0, idx_of. cbn. rewrite N.eqb_refl. reflexivity.
Qed.

Lemma states_from_firstn : forall me n ws s l,
  states_from me s ws = Some l -> states_from me s (firstn n ws) = Some (firstn n l).
Proof.
  intros me. induction n as [|n IH]; intros ws s l H; [reflexivity|].
  destruct ws as [|w ws]; cbn in *; [inversion H; reflexivity|].
  destruct (negb (w_prev w =? Acl.last s)); [discriminate|].
  destruct (apply_record false true me s (w_author w) (w_id w) (w_contents w)) as [s1|]; [|discriminate].
  destruct (states_from me s1 ws) as [l'|] eqn:E; [|discriminate]. inversion H; subst.
  rewrite (IH ws s1 l' E). reflexivity.
Qed.

Lemma In_firstn_aux : forall (A : Type) n (l : list A) x, In x (firstn n l) -> In x l.
Proof.
  induction n as [|n IH]; intros l x H; [contradiction|]. destruct l as [|y l]; [contradiction|].
  cbn in H. destruct H as [->|H]; [left; reflexivity | right; apply IH; exact H].
Qed.

Lemma NoDup_firstn_aux : forall (A : Type) n (l : list A), NoDup l -> NoDup (firstn n l).
Proof.
  induction n as [|n IH]; intros l H; [constructor|]. destruct l as [|y l]; [constructor|].
  cbn. inversion H; subst. constructor; [|apply IH; assumption].
  intros Hi. apply H2. eapply In_firstn_aux; eauto.
Qed.

(* (2) for every valid log and every prefix of it that a receiver may hold: what PermissionsAtRecord answers for a
   record of that prefix is None or the permission in the state folded up to that record *)
Theorem closest_sound : forall me owner root ws sts n v,
  acl_states me owner root ws = Some sts ->
  NoDup (acl_ids root ws) ->
  view_at (acl_ids root ws) sts n = Some v ->
  forall r who, has_head (av_ids v) r = true ->
    closest (av_ids v) (a_hist (acc_of (av_state v) who)) r = pNone \/
    truth_at (acl_ids root ws) sts r who = Some (closest (av_ids v) (a_hist (acc_of (av_state v) who)) r).
Proof.
  intros me owner root ws sts n v HS ND HV r who Hh.
  unfold acl_states in HS. destruct (states_from me (init_state me owner root None) ws) as [l|] eqn:E; [|discriminate].
  inversion HS; subst sts; clear HS.
  destruct n as [|m]; [discriminate|]. cbn [view_at] in HV.
  destruct (nth_error (init_state me owner root None :: l) m) as [sm|] eqn:Em; [|discriminate].
  inversion HV; subst v; clear HV. cbn [av_ids av_state] in *.
  (* the prefix is itself a valid log *)
  pose proof (states_from_firstn me m ws _ _ E) as Ep.
  assert (NDp : NoDup ([root] ++ map w_id (firstn m ws))).
  { unfold acl_ids in ND. cbn. rewrite <- firstn_map.
    inversion ND; subst. constructor.
    - intros Hi. apply H1. eapply In_firstn_aux; eauto.
    - eapply NoDup_firstn_aux; eauto. }
  pose proof (states_from_INV me (firstn m ws) _ [root] [init_state me owner root None] _
                (init_INV me owner root) NDp Ep) as I.
  assert (Eids : root :: firstn m (map w_id ws) = [root] ++ map w_id (firstn m ws)).
  { cbn. rewrite firstn_map. reflexivity. }
  assert (Est : List.last (firstn m l) (init_state me owner root None) = sm).
  { clear - Em. revert l Em. generalize (init_state me owner root None) as s0.
    induction m as [|m IH]; intros s0 l Em; cbn in *; [inversion Em; reflexivity|].
    destruct l as [|y l]; [destruct m; discriminate|]. cbn in Em.
    specialize (IH y l Em). destruct (firstn m l) eqn:Ef; cbn in *; [exact IH|]. rewrite <- IH.
    destruct l0; [reflexivity|]. apply last_indep. discriminate. }
  rewrite Eids in *. rewrite Est in I.
  apply memN_In in Hh.
  destruct (idx_of ([root] ++ map w_id (firstn m ws)) r) as [k|] eqn:Ek;
    [|apply idx_from_None in Ek; contradiction].
  pose proof (idx_from_bounds _ _ _ _ Ek) as [Hkb _].
  assert (Hlen : length ([root] ++ map w_id (firstn m ws)) = length ([init_state me owner root None] ++ firstn m l))
    by apply (inv_len _ _ _ I).
  destruct (nth_error ([init_state me owner root None] ++ firstn m l) k) as [sk|] eqn:Esk;
    [|apply nth_error_None in Esk; lia].
  destruct (inv_cl _ _ _ I who r k sk Ek Esk) as [Hc|Hc]; [left; exact Hc|]. right.
  unfold truth_at.
  (* index and state are the same in the full log *)
  assert (Ekf : idx_of (acl_ids root ws) r = Some k).
  { assert (Hsplit : acl_ids root ws = ([root] ++ map w_id (firstn m ws)) ++ map w_id (skipn m ws)).
    { unfold acl_ids. cbn. f_equal. rewrite <- map_app, firstn_skipn. reflexivity. }
    rewrite Hsplit. unfold idx_of. rewrite idx_from_app. unfold idx_of in Ek. rewrite Ek. reflexivity. }
  rewrite Ekf.
  assert (Eskf : nth_error (init_state me owner root None :: l) k = Some sk).
  { change (init_state me owner root None :: l) with ([init_state me owner root None] ++ l).
    rewrite <- (firstn_skipn m l). rewrite app_assoc. rewrite nth_error_app1; [exact Esk|].
    rewrite <- Hlen. lia. }
  rewrite Eskf. rewrite Hc. reflexivity.
Qed.
