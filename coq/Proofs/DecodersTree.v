(* Proofs/DecodersTree.v — C11, tree-change entry point (Model/DecodersTree.v): for every tree reached by Tree.Add /
   Tree.AddFast calls and EVERY batch (any parent references — repeated, dangling, cyclic — in any delivery order)
   Tree.Add reports every change at most once and only changes of the batch, hence createAddResult never
   dereferences a nil rawChange: objectTree.AddRawChanges answers nil or an error, never panics; and the observed
   rows of a whole stream of batches satisfy spec_C11_treeadd.  The design with waiting changes (instead of ids) in
   the wait list is refuted by a duplicated parent reference delivered before the parent. *)
From Coq Require Import List NArith Bool Arith Lia.
Import ListNotations.
From AnySync Require Import Lib.Dag Model.Dfs Model.Tree Model.Decoders Model.DecodersTree
  Proofs.DfsBase Proofs.TreeInc Proofs.TreeAppend.

(* ---------------------------------------------------------------- addedBuf mirrors the growth of attached *)

Definition shape (t : tree) (added : list N) (r : tree * list N) : Prop :=
  exists sfx, ids (t_att (fst r)) = rev sfx ++ ids (t_att t) /\ snd r = added ++ sfx.

Lemma shape_refl : forall t added, shape t added (t, added).
Proof. intros t added. exists []. cbn [rev app fst snd]. rewrite app_nil_r. split; reflexivity. Qed.

Lemma shape_trans : forall t a r1 r2, shape t a r1 -> shape (fst r1) (snd r1) r2 -> shape t a r2.
Proof.
  intros t a r1 r2 [s1 [H1 H2]] [s2 [H3 H4]]. exists (s1 ++ s2).
  rewrite rev_app_distr, <- app_assoc, <- H1. split; [exact H3 | rewrite H4, H2, app_assoc; reflexivity].
Qed.

Lemma attach_shape : forall fuel t added c newEl, shape t added (attach fuel t added c newEl).
Proof.
  induction fuel as [|f IH]; intros t added c newEl.
  - cbn [attach]. exists []. cbn [rev app fst snd set_oof t_att]. rewrite app_nil_r. split; reflexivity.
  - cbn [attach].
    set (t1 := mkTree (t_root t) (c :: t_att t)
                 (fold_left (fun m q => aupdate m q (insert_sorted (cid c))) (cprev c) (t_next t))
                 (if newEl then t_unatt t else remove_change (t_unatt t) (cid c))
                 (t_wait t) (t_heads t) (t_last t) true (t_oof t)).
    assert (H1 : shape t added (t1, added ++ [cid c])).
    { exists [cid c]. cbn [rev app fst snd]. unfold t1. cbn [t_att ids map]. split; reflexivity. }
    clearbody t1.
    assert (Hfold : forall (wl : list N) (acc : tree * list N),
               shape (fst acc) (snd acc)
                 (fold_left
                 (fun (acc : tree * list N) (wid : N) =>
                    let '(ta, ad) := acc in
                    match find_change (t_unatt ta) wid with
                    | None => acc
                    | Some nxt =>
                        let '(_, att, rem) := can_attach ta nxt false in
                        if att then attach f ta ad nxt false
                        else if rem then (set_unatt ta (remove_change (t_unatt ta) wid), ad)
                        else acc
                    end) wl acc)).
    { induction wl as [|wid wl IHwl]; intros [ta ad]; cbn [fold_left fst snd]; [apply shape_refl|].
      eapply shape_trans; [|apply IHwl].
      destruct (find_change (t_unatt ta) wid) as [nxt|]; [|apply shape_refl].
      destruct (can_attach ta nxt false) as [[tx att] rem]. destruct att; [apply IH|].
      destruct rem; [|apply shape_refl].
      exists []. cbn [rev app fst snd set_unatt t_att]. rewrite app_nil_r. split; reflexivity. }
    specialize (Hfold (alookup (t_wait t1) (cid c)) (t1, added ++ [cid c])). cbn [fst snd] in Hfold.
    pose proof (shape_trans _ _ _ _ H1 Hfold) as H2.
    destruct (fold_left _ (alookup (t_wait t1) (cid c)) (t1, added ++ [cid c])) as [t2 added2].
    destruct H2 as [sfx [Ha Hb]]. exists sfx. cbn [fst snd set_wait t_att] in *. split; assumption.
Qed.

Lemma add_shape : forall t added c, t_att t <> [] -> shape t added (add t added c).
Proof.
  intros t added c Hne. unfold add. unfold root_nil. destruct (t_att t) as [|a0 r0] eqn:Ea; [contradiction|].
  pose proof (can_attach_core t c true) as Hc. cbn zeta in Hc.
  destruct (can_attach t c true) as [[t1 att] rem]. cbn [fst] in Hc. destruct Hc as [Ha [_ [_ _]]].
  destruct att.
  - pose proof (attach_shape (S (length (t_unatt t1))) t1 added c true) as [sfx [H1 H2]].
    exists sfx. rewrite H1, Ha, Ea. split; [reflexivity | exact H2].
  - destruct rem.
    + exists []. cbn [rev app fst snd]. rewrite app_nil_r, Ha, Ea. split; reflexivity.
    + exists []. cbn [rev app fst snd set_unatt t_att]. rewrite app_nil_r, Ha, Ea. split; reflexivity.
Qed.

Lemma add_all_shape : forall cs t added,
  inv t -> t_att t <> [] -> shape t added (fst (add_all t added cs)).
Proof.
  induction cs as [|c r IH]; intros t added Hinv Hne; cbn [add_all].
  - cbn [fst]. apply shape_refl.
  - destruct (attached t (cid c) || has_change (t_unatt t) (cid c)) eqn:E.
    + specialize (IH t added Hinv Hne). destruct (add_all t added r) as [[t' ad'] fl]. exact IH.
    + apply orb_false_iff in E. destruct E as [E1 E2].
      destruct (add_inv t added c Hinv E1 E2) as [Hi Hn1].
      pose proof (add_shape t added c Hne) as Hs.
      destruct (add t added c) as [t1 ad1]. cbn [fst snd] in *.
      specialize (IH t1 ad1 Hi Hn1).
      destruct (add_all t1 ad1 r) as [[t' ad'] fl]. cbn [fst] in *.
      apply (shape_trans t added (t1, ad1) (t', ad')); [exact Hs | exact IH].
Qed.

(* ---------------------------------------------------------------- Tree.Add reports every change once *)

Lemma NoDup_app_l : forall (a b : list N), NoDup (a ++ b) -> NoDup a.
Proof.
  induction a as [|x a IH]; intros b H; [constructor|]. cbn [app] in H. inversion H as [|y l Hni Hnd]; subst.
  constructor; [intros Hx; apply Hni; apply in_or_app; left; exact Hx | apply (IH b Hnd)].
Qed.

Lemma NoDup_rev_app_l : forall (a b : list N), NoDup (rev a ++ b) -> NoDup a.
Proof.
  intros a b H. apply NoDup_app_l in H. apply NoDup_rev in H. rewrite rev_involutive in H. exact H.
Qed.

Lemma add_all_added_facts : forall t cs,
  inv t -> inv3 t -> t_att t <> [] ->
  let r := add_all t [] cs in
  NoDup (snd (fst r)) /\ (forall i, In i (snd (fst r)) -> In i (ids cs)).
Proof.
  intros t cs Hinv Hinv3 Hne. cbn zeta.
  pose proof (add_all_shape cs t [] Hinv Hne) as [sfx [Hs1 Hs2]].
  pose proof (add_all_grows cs t [] Hinv (i3_inv2 t Hinv3) Hne) as Hg. cbn zeta in Hg.
  destruct (add_all t [] cs) as [[t1 added] fresh]. cbn [fst snd app] in *. subst added.
  destruct Hg as [_ [Hinv2 [_ [[_ _ [Nw [Ha [Hin _]]] _] _]]]].
  split.
  - apply (NoDup_rev_app_l sfx (ids (t_att t))). rewrite <- Hs1. exact (i2_nodup t1 Hinv2).
  - intros i Hi.
    assert (Hnw : ids Nw = rev sfx).
    { rewrite Ha in Hs1. unfold ids in Hs1. rewrite map_app in Hs1. apply app_inv_tail in Hs1. exact Hs1. }
    assert (Hi' : In i (ids Nw)) by (rewrite Hnw; apply in_rev in Hi; exact Hi).
    specialize (Hin i Hi'). rewrite (i3_unatt t Hinv3) in Hin. cbn [ids map] in Hin. rewrite app_nil_r in Hin. exact Hin.
Qed.

Lemma tree_add_added : forall t cs, snd (tree_add t cs) = snd (fst (add_all t [] cs)).
Proof.
  intros t cs. unfold tree_add. destruct (add_all t [] cs) as [[t1 added] fresh]. cbn [fst snd].
  destruct added as [|a ad]; [reflexivity|]. destruct (root_nil t); reflexivity.
Qed.

Theorem tree_add_added_nodup : forall t cs,
  inv t -> inv3 t -> t_att t <> [] -> NoDup (snd (tree_add t cs)).
Proof. intros t cs H1 H2 H3. rewrite tree_add_added. apply (add_all_added_facts t cs H1 H2 H3). Qed.

Theorem tree_add_added_in_batch : forall t cs i,
  inv t -> inv3 t -> t_att t <> [] -> In i (snd (tree_add t cs)) -> In i (ids cs).
Proof. intros t cs i H1 H2 H3. rewrite tree_add_added. apply (add_all_added_facts t cs H1 H2 H3). Qed.

Lemma tree_add_nonempty : forall t cs, inv t -> inv3 t -> t_att t <> [] -> t_att (fst (fst (tree_add t cs))) <> [].
Proof.
  intros t cs Hinv Hinv3 Hne. unfold tree_add.
  pose proof (add_all_grows cs t [] Hinv (i3_inv2 t Hinv3) Hne) as Hg. cbn zeta in Hg.
  destruct (add_all t [] cs) as [[t1 added] fresh]. cbn [fst snd] in Hg. destruct Hg as [_ [_ [Hn _]]].
  destruct added as [|a ad]; cbn [fst set_unatt t_att]; [exact Hn|].
  destruct (root_nil t); cbn [fst]; rewrite (proj1 (update_heads_core _)); cbn [set_unatt t_att]; exact Hn.
Qed.

(* ---------------------------------------------------------------- createAddResult *)

Lemma create_add_result_ok : forall changes raw,
  NoDup changes -> (forall i, In i changes -> In i raw) -> create_add_result raw changes = Ok changes.
Proof.
  induction changes as [|i r IH]; intros raw Hnd Hin; cbn [create_add_result]; [reflexivity|].
  assert (Hm : mem i raw = true) by (apply mem_In; apply Hin; left; reflexivity). rewrite Hm.
  inversion Hnd as [|x l Hni Hnd']; subst.
  rewrite IH; [reflexivity | exact Hnd' |].
  intros j Hj. apply filter_In. split; [apply Hin; right; exact Hj|].
  destruct (N.eqb j i) eqn:E; [apply N.eqb_eq in E; subst j; contradiction | reflexivity].
Qed.

Lemma nodupb_true : forall l, NoDup l -> nodupb l = true.
Proof.
  induction l as [|x r IH]; intros H; [reflexivity|]. inversion H as [|y l Hni Hnd]; subst. cbn [nodupb].
  rewrite (IH Hnd), andb_true_r. destruct (mem x r) eqn:E; [apply mem_In in E; contradiction | reflexivity].
Qed.

Lemma subsetb_true : forall a b, (forall i, In i a -> In i b) -> subsetb a b = true.
Proof. intros a b H. unfold subsetb. apply forallb_forall. intros i Hi. apply mem_In. apply H. exact Hi. Qed.

(* ---------------------------------------------------------------- AddRawChanges, one batch *)

Record good (t : tree) : Prop := mkGood { g_inv : inv t; g_inv3 : inv3 t; g_ne : t_att t <> [] }.

Lemma filter_ids_incl : forall (f : change -> bool) cs i, In i (ids (filter f cs)) -> In i (ids cs).
Proof.
  intros f cs i H. unfold ids in *. apply in_map_iff in H. destruct H as [c [Hc Hin]]. apply filter_In in Hin.
  apply in_map_iff. exists c. tauto.
Qed.

Lemma add_raw_normal_facts : forall valid t batch,
  good t ->
  good (fst (add_raw_normal valid t batch)) /\
  match snd (add_raw_normal valid t batch) with
  | Ok (added, _) => NoDup added /\ (forall i, In i added -> In i (ids batch))
  | Err _ => True
  | Panic _ => False
  end.
Proof.
  intros valid t batch Hg. unfold add_raw_normal.
  set (newcs := filter (fun c => negb (attached t (cid c))) batch).
  destruct newcs as [|c0 r0] eqn:En.
  - cbn [fst snd]. split; [exact Hg|]. split; [constructor | intros i []].
  - rewrite <- En. clear En c0 r0.
    destruct Hg as [Hinv Hinv3 Hne].
    pose proof (tree_add_added_nodup t newcs Hinv Hinv3 Hne) as Hnd.
    pose proof (fun i => tree_add_added_in_batch t newcs i Hinv Hinv3 Hne) as Hin.
    pose proof (tree_add_inv t newcs Hinv) as Hi1.
    pose proof (tree_add_inv3 t newcs Hinv Hinv3) as Hi3.
    pose proof (tree_add_nonempty t newcs Hinv Hinv3 Hne) as Hn1.
    destruct (tree_add t newcs) as [[t1 m] added]. cbn [fst snd] in *.
    destruct added as [|a ad] eqn:Ead.
    + cbn [fst snd]. split; [split; assumption|]. split; [constructor | intros i []].
    + rewrite <- Ead in *. clear Ead a ad.
      destruct valid.
      * rewrite (create_add_result_ok added (ids newcs) Hnd Hin). cbn [fst snd].
        split; [split; assumption|]. split; [exact Hnd|].
        intros i Hi. apply (filter_ids_incl (fun c => negb (attached t (cid c))) batch i). apply Hin. exact Hi.
      * cbn [fst snd]. split; [split; assumption | exact I].
Qed.

Theorem add_raw_normal_no_panic : forall valid t batch,
  good t -> forall w, snd (add_raw_normal valid t batch) <> Panic w.
Proof.
  intros valid t batch Hg w E. pose proof (add_raw_normal_facts valid t batch Hg) as [_ H].
  rewrite E in H. exact H.
Qed.

(* ---------------------------------------------------------------- a stream of batches *)

Theorem add_raw_run_meets_spec : forall bs t,
  good t -> spec_C11_treeadd (map fst bs) (add_raw_run t bs) true true = true.
Proof.
  intros bs t Hg. unfold spec_C11_treeadd. rewrite !andb_true_r. revert t Hg.
  induction bs as [|[b valid] r IH]; intros t Hg; cbn [map fst add_raw_run ta_rows_ok]; [reflexivity|].
  pose proof (add_raw_normal_facts valid t b Hg) as [Hg' H].
  destruct (add_raw_normal valid t b) as [t' [[added heads]|e|w]]; cbn [fst snd] in *.
  - cbn [ta_rows_ok ta_row_ok spec_C11]. destruct H as [Hnd Hin].
    rewrite (nodupb_true added Hnd), (subsetb_true added (ids b) Hin). cbn [andb]. apply IH. exact Hg'.
  - cbn [ta_rows_ok ta_row_ok spec_C11 nodupb subsetb forallb andb]. destruct r; reflexivity.
  - destruct H.
Qed.

Theorem add_raw_run_no_panic : forall bs t,
  good t -> forall row, In row (add_raw_run t bs) -> spec_C11 (fst (fst row)) = true.
Proof.
  induction bs as [|[b valid] r IH]; intros t Hg row Hrow; cbn [add_raw_run] in Hrow; [destruct Hrow|].
  pose proof (add_raw_normal_facts valid t b Hg) as [Hg' H].
  destruct (add_raw_normal valid t b) as [t' [[added heads]|e|w]]; cbn [fst snd] in *.
  - destruct Hrow as [Hrow|Hrow]; [subst row; reflexivity | apply (IH t' Hg' row Hrow)].
  - destruct Hrow as [Hrow|[]]. subst row. reflexivity.
  - destruct H.
Qed.

(* every tree built by Tree.Add / Tree.AddFast calls that holds at least its root is good *)
Lemma run_ops_good : forall ops, t_att (run_ops ops) <> [] -> good (run_ops ops).
Proof. intros ops Hne. split; [apply run_ops_inv | apply run_ops_inv3 | exact Hne]. Qed.

Lemma ta_init_good : forall root, good (ta_init root).
Proof.
  intros root. unfold ta_init. change (fst (tree_add_fast empty_tree [root])) with (run_ops [OpAddFast [root]]).
  apply run_ops_good. unfold run_ops. cbn [fold_left apply_op]. unfold tree_add_fast. cbn [add_all].
  replace (attached empty_tree (cid root) || has_change (t_unatt empty_tree) (cid root)) with false by reflexivity.
  rewrite (add_empty empty_tree [] root eq_refl). cbn [fst set_unatt t_att].
  rewrite (proj1 (update_heads_core _)). cbn [t_att]. discriminate.
Qed.

(* ---------------------------------------------------------------- the pointer wait list is refuted *)

Definition dup_parent_batch : list change := [mkChange 3 [2; 2] 1 false; mkChange 2 [1] 1 false].

Lemma ptr_waitlist_refuted : p_add_raw [1%N] dup_parent_batch = Panic PNil.
Proof. vm_compute. reflexivity. Qed.

Lemma id_waitlist_same_batch :
  add_raw_run (ta_init (mkChange 1 [] 0 true)) [(dup_parent_batch, true)] = [(COk, [2%N; 3%N], [3%N])].
Proof. vm_compute. reflexivity. Qed.

(* ---------------------------------------------------------------- the statements used by Properties/C11.v *)

Theorem tree_add_reports_once : forall ops cs,
  t_att (run_ops ops) <> [] ->
  NoDup (snd (tree_add (run_ops ops) cs)) /\
  (forall i, In i (snd (tree_add (run_ops ops) cs)) -> In i (ids cs)).
Proof.
  intros ops cs Hne. destruct (run_ops_good ops Hne) as [H1 H2 H3]. split.
  - apply tree_add_added_nodup; assumption.
  - intros i. apply tree_add_added_in_batch; assumption.
Qed.

Theorem add_raw_changes_no_panic : forall ops valid batch w,
  t_att (run_ops ops) <> [] -> snd (add_raw_normal valid (run_ops ops) batch) <> Panic w.
Proof. intros ops valid batch w Hne. apply add_raw_normal_no_panic. apply run_ops_good. exact Hne. Qed.

Theorem add_raw_stream_no_panic : forall root bs row,
  In row (add_raw_run (ta_init root) bs) -> spec_C11 (fst (fst row)) = true.
Proof. intros root bs row. apply add_raw_run_no_panic. apply ta_init_good. Qed.

Theorem add_raw_stream_meets_spec : forall root bs,
  spec_C11_treeadd (map fst bs) (add_raw_run (ta_init root) bs) true true = true.
Proof. intros root bs. apply add_raw_run_meets_spec. apply ta_init_good. Qed.

(* why "at most once" is exactly what createAddResult needs: a change reported twice is a nil dereference *)
Theorem reported_twice_panics : forall raw i rest, exists w, create_add_result raw (i :: i :: rest) = Panic w.
Proof.
  intros raw i rest. cbn [create_add_result]. destruct (mem i raw); [|exists PNil; reflexivity].
  assert (E : mem i (filter (fun j => negb (N.eqb j i)) raw) = false).
  { destruct (mem i (filter (fun j => negb (N.eqb j i)) raw)) eqn:E; [|reflexivity].
    apply mem_In in E. apply filter_In in E. destruct E as [_ E]. rewrite N.eqb_refl in E. discriminate. }
  rewrite E. exists PNil. reflexivity.
Qed.

Theorem ptr_waitlist_refuted_ex : exists att batch w, p_add_raw att batch = Panic w.
Proof. exists [1%N], dup_parent_batch, PNil. exact ptr_waitlist_refuted. Qed.
