(* Run-level lemmas: every success is justified by the first frame that reached the side (man in the middle or
   not), pool independence of the repaired model. *)
From Coq Require Import List NArith Bool Lia.
Import ListNotations.
From AnySync Require Import Model.Handshake Proofs.HandshakeProofs.
Open Scope N_scope.

(* ---------------------------------------------------------------- readMsg *)
Lemma read_msg_inv : forall al d b, read_msg al d = inl b ->
  exists it, d = Some it /\ mem (w_type it) al = true /\ N.leb (w_size it) size_limit = true /\
             N.leb (w_size it) (w_avail it) = true /\ w_body it = b /\ body_type b = w_type it.
Proof.
  intros al d b. unfold read_msg. destruct d as [it|]; [|discriminate].
  destruct (mem (w_type it) al) eqn:Hm; cbn [negb]; [|discriminate].
  destruct (N.ltb size_limit (w_size it)) eqn:Hs; [discriminate|].
  destruct (N.ltb (w_avail it) (w_size it)) eqn:Ha; [discriminate|].
  intro H. exists it.
  assert (Hb : w_body it = b /\ body_type b = w_type it).
  { destruct (w_body it) as [c0|e| |] eqn:Hb; try discriminate;
      match type of H with (if ?x then _ else _) = _ => destruct x eqn:Ht end; try discriminate;
      injection H as H; subst b; apply N.eqb_eq in Ht; (split; [reflexivity | exact Ht]). }
  destruct Hb as [Hb Ht].
  apply N.ltb_ge in Hs. apply N.ltb_ge in Ha.
  repeat split; try assumption; apply N.leb_le; assumption.
Qed.

Lemma cver_eqb_of_eq : forall a b, a = b -> cver_eqb a b = true.
Proof. intros a b H. subst. apply cver_eqb_refl. Qed.

(* a frame accepted as credentials with result r is [item_sound] *)
Lemma item_sound_intro : forall V it c0 r al,
  read_msg al (Some it) = inl (BCred c0) ->
  cred_sound V c0 (dflt_ver (c_ver c0)) (dflt_cv (c_cv c0)) r ->
  item_sound V it r = true.
Proof.
  intros V it c0 r al Hr Hs. apply read_msg_inv in Hr.
  destruct Hr as [it' [Hit [_ [Hsz [Hav [Hb Ht]]]]]]. injection Hit as Hit. subst it'.
  unfold item_sound. cbn in Ht. rewrite <- Ht, Hsz, Hav, Hb. cbn [N.eqb T_Cred Pos.eqb andb].
  destruct Hs as [Hin [Hban [Hv [Hc Hm]]]].
  apply mem_In in Hin. rewrite Hin, Hv, Hc, N.eqb_refl, cver_eqb_refl, Hban. cbn [andb negb].
  destruct (s_verify V).
  - destruct Hm as [Hty [k [Hp Hi]]]. rewrite Hty, Hp, Hi, sig_valid_refl. cbn. rewrite N.eqb_refl. reflexivity.
  - rewrite Hm. reflexivity.
Qed.

(* ---------------------------------------------------------------- single steps *)
Definition reply_shape (s : side_cfg) (rep : option (body * bool)) : Prop :=
  rep = None \/ (exists e b, rep = Some (BAck e, b)) \/ rep = Some (BCred (mk_cred s), true).

Lemma rerr_reply_shape : forall s x, reply_shape s (option_map (fun b => (b, false)) (rerr_reply x)).
Proof. intros s [|]; cbn; [left; reflexivity | right; left; eexists; eexists; reflexivity]. Qed.
Lemma reply_for_shape : forall s e, reply_shape s (option_map (fun b => (b, false)) (reply_for e)).
Proof.
  intros s e. unfold reply_for. destruct (N.eqb e E_UnexpectedPayload); cbn;
    [left; reflexivity | right; left; eexists; eexists; reflexivity].
Qed.

(* first read of the incoming side *)
Lemma in_step_IW1 : forall s p d st rep p', in_step true s p IW1 d = (st, rep, p') ->
  reply_shape s rep /\
  ((exists e, st = ID (Err e)) \/
   (exists r it, st = IW3 r /\ d = Some it /\ item_sound s it r = true /\
      (forall c0, w_body it = BCred c0 -> check_cred s (eff_ver true p c0) (eff_cv true p c0) c0 = inl r))).
Proof.
  intros s p d st rep p'. cbn [in_step].
  destruct (read_msg [T_Cred] d) as [b|x] eqn:Hr.
  - destruct b as [c0|e| |].
    + destruct (check_cred s (eff_ver true p c0) (eff_cv true p c0) c0) as [r|e] eqn:Hc; intro H; injection H as H1 H2 H3;
        subst st rep.
      * split; [right; right; reflexivity|]. right.
        destruct d as [it|]; [|discriminate]. exists r, it.
        split; [reflexivity|]. split; [reflexivity|]. split.
        -- eapply item_sound_intro; [exact Hr|]. apply check_cred_ok in Hc.
           rewrite eff_ver_dflt, eff_cv_dflt in Hc. exact Hc.
        -- intros c1 Hb. apply read_msg_inv in Hr. destruct Hr as [it' [Hit [_ [_ [_ [Hb' _]]]]]].
           injection Hit as Hit. subst it'. rewrite Hb in Hb'. injection Hb' as Hb'. subst c1. exact Hc.
      * split; [apply reply_for_shape|]. left. eexists. reflexivity.
    + intro H; injection H as H1 H2 H3; subst. split; [left; reflexivity|]. left. eexists. reflexivity.
    + intro H; injection H as H1 H2 H3; subst. split; [left; reflexivity|]. left. eexists. reflexivity.
    + intro H; injection H as H1 H2 H3; subst. split; [left; reflexivity|]. left. eexists. reflexivity.
  - intro H; injection H as H1 H2 H3; subst. split; [apply rerr_reply_shape|]. left. eexists. reflexivity.
Qed.

Lemma in_step_IW3 : forall fx s p r d st rep p', in_step fx s p (IW3 r) d = (st, rep, p') ->
  reply_shape s rep /\ (st = ID (Ok r) \/ exists e, st = ID (Err e)).
Proof.
  intros fx s p r d st rep p'. cbn [in_step].
  destruct (read_msg [T_Ack] d) as [b|x] eqn:Hr.
  - destruct b as [c0|e| |]; try (intro H; injection H as H1 H2 H3; subst; split; [left; reflexivity|]; right; eexists; reflexivity).
    destruct (N.eqb e E_Null); intro H; injection H as H1 H2 H3; subst.
    + split; [right; left; eexists; eexists; reflexivity | left; reflexivity].
    + split; [left; reflexivity | right; eexists; reflexivity].
  - intro H; injection H as H1 H2 H3; subst. split; [apply rerr_reply_shape|]. right. eexists. reflexivity.
Qed.

Lemma out_step_OW2 : forall s p d st rep p', out_step true s p OW2 d = (st, rep, p') ->
  reply_shape s rep /\
  ((exists e, st = OD (Err e)) \/
   (exists r it, st = OW4 r /\ d = Some it /\ item_sound s it r = true /\
      (forall c0, w_body it = BCred c0 -> check_cred s (eff_ver true p c0) (eff_cv true p c0) c0 = inl r))).
Proof.
  intros s p d st rep p'. cbn [out_step].
  destruct (read_msg [T_Ack; T_Cred] d) as [b|x] eqn:Hr.
  - destruct b as [c0|e| |].
    + destruct (check_cred s (eff_ver true p c0) (eff_cv true p c0) c0) as [r|e] eqn:Hc; intro H; injection H as H1 H2 H3;
        subst st rep.
      * split; [right; left; eexists; eexists; reflexivity|]. right.
        destruct d as [it|]; [|discriminate]. exists r, it.
        split; [reflexivity|]. split; [reflexivity|]. split.
        -- eapply item_sound_intro; [exact Hr|]. apply check_cred_ok in Hc.
           rewrite eff_ver_dflt, eff_cv_dflt in Hc. exact Hc.
        -- intros c1 Hb. apply read_msg_inv in Hr. destruct Hr as [it' [Hit [_ [_ [_ [Hb' _]]]]]].
           injection Hit as Hit. subst it'. rewrite Hb in Hb'. injection Hb' as Hb'. subst c1. exact Hc.
      * split; [apply reply_for_shape|]. left. eexists. reflexivity.
    + intro H; injection H as H1 H2 H3; subst. split; [left; reflexivity|]. left. eexists. reflexivity.
    + intro H; injection H as H1 H2 H3; subst. split; [left; reflexivity|]. left. eexists. reflexivity.
    + intro H; injection H as H1 H2 H3; subst. split; [left; reflexivity|]. left. eexists. reflexivity.
  - intro H; injection H as H1 H2 H3; subst. split; [apply rerr_reply_shape|]. left. eexists. reflexivity.
Qed.

Lemma out_step_OW4 : forall fx s p r d st rep p', out_step fx s p (OW4 r) d = (st, rep, p') ->
  reply_shape s rep /\ (st = OD (Ok r) \/ exists e, st = OD (Err e)).
Proof.
  intros fx s p r d st rep p'. cbn [out_step].
  destruct (read_msg [T_Ack] d) as [b|x] eqn:Hr.
  - destruct b as [c0|e| |]; try (intro H; injection H as H1 H2 H3; subst; split; [left; reflexivity|]; right; eexists; reflexivity).
    destruct (N.eqb e E_Null); intro H; injection H as H1 H2 H3; subst.
    + split; [left; reflexivity | left; reflexivity].
    + split; [left; reflexivity | right; eexists; reflexivity].
  - intro H; injection H as H1 H2 H3; subst. split; [apply rerr_reply_shape|]. right. eexists. reflexivity.
Qed.

(* ---------------------------------------------------------------- invariants of the four phases *)
Definition Ki (c : hs_case) (st : ist) : Prop :=
  (exists e, st = ID (Err e)) \/
  (exists r, (st = IW3 r \/ st = ID (Ok r)) /\ success_sound (k_in c) (k_out c) (k_a1 c) (Ok r) = true).
Definition Ko (c : hs_case) (st : ost) : Prop :=
  (exists e, st = OD (Err e)) \/
  (exists r, (st = OW4 r \/ st = OD (Ok r)) /\ success_sound (k_out c) (k_in c) (k_a2 c) (Ok r) = true).

Lemma apply_cancel_facts : forall c k fl w,
  q_o (apply_cancel c k fl w) = q_o w /\ q_i (apply_cancel c k fl w) = q_i w /\
  w_dead (apply_cancel c k fl w) = w_dead w /\
  w_po (apply_cancel c k fl w) = w_po w /\ w_pi (apply_cancel c k fl w) = w_pi w /\
  (w_i (apply_cancel c k fl w) = w_i w \/ w_i (apply_cancel c k fl w) = ID (Err ECtx)) /\
  (w_o (apply_cancel c k fl w) = w_o w \/ w_o (apply_cancel c k fl w) = OD (Err ECtx)).
Proof.
  intros c k fl w. unfold apply_cancel, cancel_side.
  destruct fl as [b|]; [|repeat split; left; reflexivity].
  destruct (k_cancel c) as [[[|] kk]|]; [| |repeat split; left; reflexivity];
    (destruct (N.eqb kk k); [|repeat split; left; reflexivity]).
  - destruct w as [wo wi qo qi d po pi]; destruct wo; cbn; repeat split; auto.
  - destruct w as [wo wi qo qi d po pi]; destruct wi; cbn; repeat split; auto.
Qed.

Lemma Ki_cancel : forall c k fl w, Ki c (w_i w) -> Ki c (w_i (apply_cancel c k fl w)).
Proof.
  intros c k fl w H. destruct (apply_cancel_facts c k fl w) as [_ [_ [_ [_ [_ [[E|E] _]]]]]]; rewrite E;
    [exact H | left; eexists; reflexivity].
Qed.
Lemma Ko_cancel : forall c k fl w, Ko c (w_o w) -> Ko c (w_o (apply_cancel c k fl w)).
Proof.
  intros c k fl w H. destruct (apply_cancel_facts c k fl w) as [_ [_ [_ [_ [_ [_ [E|E]]]]]]]; rewrite E;
    [exact H | left; eexists; reflexivity].
Qed.

Lemma phase_out_wi : forall fx c k a w fl, w_i (fst (phase_out fx c k a w fl)) = w_i (apply_cancel c k fl w).
Proof.
  intros fx c k a w fl. unfold phase_out.
  destruct (arrive a fl (q_o (apply_cancel c k fl w)) (w_dead (apply_cancel c k fl w))) as [q dead].
  destruct (w_o (apply_cancel c k fl w)) as [|r|o] eqn:Hst; try reflexivity.
  - destruct (out_step fx (k_out c) (w_po (apply_cancel c k fl w)) OW2 (hd_error q)) as [[st rep] p'].
    destruct rep as [[b [|]]|]; try reflexivity.
    destruct ((dead || closed_i (w_i (apply_cancel c k fl w))) && k_wfail c); reflexivity.
  - destruct (out_step fx (k_out c) (w_po (apply_cancel c k fl w)) (OW4 r) (hd_error q)) as [[st rep] p'].
    destruct rep as [[b [|]]|]; try reflexivity.
    destruct ((dead || closed_i (w_i (apply_cancel c k fl w))) && k_wfail c); reflexivity.
Qed.

Lemma phase_in_wo : forall fx c k a w fl, w_o (fst (phase_in fx c k a w fl)) = w_o (apply_cancel c k fl w).
Proof.
  intros fx c k a w fl. unfold phase_in.
  destruct (arrive a fl (q_i (apply_cancel c k fl w)) (w_dead (apply_cancel c k fl w))) as [q dead].
  destruct (w_i (apply_cancel c k fl w)) as [|r|o] eqn:Hst; try reflexivity.
  - destruct (in_step fx (k_in c) (w_pi (apply_cancel c k fl w)) IW1 (hd_error q)) as [[st rep] p'].
    destruct rep as [[b [|]]|]; try reflexivity.
    destruct ((dead || closed_o (w_o (apply_cancel c k fl w))) && k_wfail c); reflexivity.
  - destruct (in_step fx (k_in c) (w_pi (apply_cancel c k fl w)) (IW3 r) (hd_error q)) as [[st rep] p'].
    destruct rep as [[b [|]]|]; try reflexivity.
    destruct ((dead || closed_o (w_o (apply_cancel c k fl w))) && k_wfail c); reflexivity.
Qed.

Lemma phase_in_Ki : forall fx c k a w fl, Ki c (w_i w) -> Ki c (w_i (fst (phase_in fx c k a w fl))).
Proof.
  intros fx c k a w fl H. apply (Ki_cancel c k fl) in H. unfold phase_in.
  destruct (arrive a fl (q_i (apply_cancel c k fl w)) (w_dead (apply_cancel c k fl w))) as [q dead].
  destruct (w_i (apply_cancel c k fl w)) as [|r|o] eqn:Hst.
  - exfalso. destruct H as [[e He]|[r [[He|He] _]]]; discriminate.
  - destruct (in_step fx (k_in c) (w_pi (apply_cancel c k fl w)) (IW3 r) (hd_error q)) as [[st rep] p'] eqn:E.
    apply in_step_IW3 in E. destruct E as [_ Hst'].
    assert (Hr : success_sound (k_in c) (k_out c) (k_a1 c) (Ok r) = true).
    { destruct H as [[e He]|[r' [[He|He] Hs]]]; try discriminate. injection He as He. subst r'. exact Hs. }
    assert (HK : Ki c st).
    { destruct Hst' as [Hs|[e Hs]]; subst st; [right; exists r; split; [right; reflexivity | exact Hr] | left; eexists; reflexivity]. }
    destruct rep as [[b [|]]|]; cbn; try exact HK.
    destruct ((dead || closed_o (w_o (apply_cancel c k fl w))) && k_wfail c); cbn; [left; eexists; reflexivity | exact HK].
  - cbn. exact H.
Qed.

Lemma phase_out_Ko : forall fx c k a w fl, Ko c (w_o w) -> Ko c (w_o (fst (phase_out fx c k a w fl))).
Proof.
  intros fx c k a w fl H. apply (Ko_cancel c k fl) in H. unfold phase_out.
  destruct (arrive a fl (q_o (apply_cancel c k fl w)) (w_dead (apply_cancel c k fl w))) as [q dead].
  destruct (w_o (apply_cancel c k fl w)) as [|r|o] eqn:Hst.
  - exfalso. destruct H as [[e He]|[r [[He|He] _]]]; discriminate.
  - destruct (out_step fx (k_out c) (w_po (apply_cancel c k fl w)) (OW4 r) (hd_error q)) as [[st rep] p'] eqn:E.
    apply out_step_OW4 in E. destruct E as [_ Hst'].
    assert (Hr : success_sound (k_out c) (k_in c) (k_a2 c) (Ok r) = true).
    { destruct H as [[e He]|[r' [[He|He] Hs]]]; try discriminate. injection He as He. subst r'. exact Hs. }
    assert (HK : Ko c st).
    { destruct Hst' as [Hs|[e Hs]]; subst st; [right; exists r; split; [right; reflexivity | exact Hr] | left; eexists; reflexivity]. }
    destruct rep as [[b [|]]|]; cbn; try exact HK.
    destruct ((dead || closed_i (w_i (apply_cancel c k fl w))) && k_wfail c); cbn; [left; eexists; reflexivity | exact HK].
  - cbn. exact H.
Qed.

(* the first frame that reaches a side justifies the result it computes from it *)
Lemma first_sound : forall V P a b dead it r p,
  (b = BCred (mk_cred P) \/ exists e, b = BAck e) ->
  hd_error (fst (deliver a b [] dead)) = Some it ->
  item_sound V it r = true ->
  (forall c0, w_body it = BCred c0 -> check_cred V (eff_ver true p c0) (eff_cv true p c0) c0 = inl r) ->
  success_sound V P a (Ok r) = true.
Proof.
  intros V P a b dead it r p Hb Hhd Hsound Hchk. unfold deliver in Hhd.
  destruct dead; [discriminate|].
  destruct a as [|items cut]; cbn in Hhd.
  - injection Hhd as Hit. subst it. destruct Hb as [Hb|[e Hb]]; subst b.
    + specialize (Hchk (mk_cred P) eq_refl). cbn [success_sound].
      destruct (accepts V P) eqn:Ha.
      * rewrite (honest_check_ok V P p Ha) in Hchk. injection Hchk as Hchk. subst r. rewrite result_eqb_refl. reflexivity.
      * destruct (honest_check_err V P p Ha) as [e He]. rewrite He in Hchk. discriminate.
    + unfold item_sound in Hsound. cbn in Hsound. discriminate.
  - destruct items as [|it' tl]; [discriminate|]. cbn in Hhd. injection Hhd as Hit. subst it'. exact Hsound.
Qed.

Definition f2_shape (c : hs_case) (f : option body) : Prop :=
  f = None \/ (exists e, f = Some (BAck e)) \/ f = Some (BCred (mk_cred (k_in c))).

Lemma phase1_facts : forall c w1 f2,
  phase_in true c 1 (k_a1 c) (mkWorld OW2 IW1 [] [] false (k_pool_out c) (k_pool_in c))
           (Some (BCred (mk_cred (k_out c)))) = (w1, f2) ->
  Ki c (w_i w1) /\ q_o w1 = [] /\ (w_o w1 = OW2 \/ w_o w1 = OD (Err ECtx)) /\ f2_shape c f2.
Proof.
  intros c w1 f2. set (w0 := mkWorld OW2 IW1 [] [] false (k_pool_out c) (k_pool_in c)).
  set (fl := Some (BCred (mk_cred (k_out c)))).
  intro H.
  assert (Hwo : w_o w1 = w_o (apply_cancel c 1 fl w0)).
  { rewrite <- (phase_in_wo true c 1 (k_a1 c) w0 fl). rewrite H. reflexivity. }
  destruct (apply_cancel_facts c 1 fl w0) as [Hqo [Hqi [Hd [Hpo [Hpi [Hi Ho]]]]]].
  unfold phase_in in H.
  remember (apply_cancel c 1 fl w0) as w eqn:Hw. clear Hw.
  cbn [w0 q_o q_i w_dead w_po w_pi w_i w_o] in Hqo, Hqi, Hd, Hpo, Hpi, Hi, Ho.
  destruct (arrive (k_a1 c) fl (q_i w) (w_dead w)) as [q dead] eqn:D.
  rewrite Hqi, Hd in D.
  assert (Hwo' : w_o w1 = OW2 \/ w_o w1 = OD (Err ECtx)).
  { rewrite Hwo. destruct Ho as [E|E]; rewrite E; [left; reflexivity | right; reflexivity]. }
  destruct Hi as [Hi|Hi]; rewrite Hi in H.
  - destruct (in_step true (k_in c) (w_pi w) IW1 (hd_error q)) as [[st rep] p'] eqn:E.
    apply in_step_IW1 in E. destruct E as [Hshape Hst].
    assert (HK : Ki c st).
    { destruct Hst as [[e He]|[r [it [Hs [Hhd [Hsound Hchk]]]]]]; subst st; [left; eexists; reflexivity|].
      right. exists r. split; [left; reflexivity|].
      eapply first_sound with (b := BCred (mk_cred (k_out c))) (dead := false) (it := it).
      - left. reflexivity.
      - change (deliver (k_a1 c) (BCred (mk_cred (k_out c))) [] false) with (arrive (k_a1 c) fl [] false).
        rewrite D. cbn. exact Hhd.
      - exact Hsound.
      - exact Hchk. }
    assert (Hf : forall (gone : bool) b, f2_shape c (if gone then None else Some b) \/ True) by (intros; right; exact I).
    destruct rep as [[b [|]]|].
    + destruct ((dead || closed_o (w_o w)) && k_wfail c).
      * injection H as H1 H2. subst w1 f2. cbn. repeat split; try assumption.
        -- left. eexists. reflexivity.
        -- left. reflexivity.
      * injection H as H1 H2. subst w1 f2. cbn. repeat split; try assumption.
        destruct (dead || closed_o (w_o w)); [left; reflexivity|].
        destruct Hshape as [Hs|[[e [b' Hs]]|Hs]]; try discriminate; injection Hs as Hs1; subst b.
        -- right. left. eexists. reflexivity.
        -- right. right. reflexivity.
    + injection H as H1 H2. subst w1 f2. cbn. repeat split; try assumption.
      destruct (dead || closed_o (w_o w)); [left; reflexivity|].
      destruct Hshape as [Hs|[[e [b' Hs]]|Hs]]; try discriminate; injection Hs as Hs1; subst b.
      right. left. eexists. reflexivity.
    + injection H as H1 H2. subst w1 f2. cbn. repeat split; try assumption. left. reflexivity.
  - injection H as H1 H2. subst w1 f2. cbn. repeat split; try assumption.
    + left. eexists. reflexivity.
    + left. reflexivity.
Qed.

Lemma phase2_facts : forall c w1 f2 w2 f3,
  q_o w1 = [] -> (w_o w1 = OW2 \/ w_o w1 = OD (Err ECtx)) -> f2_shape c f2 ->
  phase_out true c 2 (k_a2 c) w1 f2 = (w2, f3) -> Ko c (w_o w2).
Proof.
  intros c w1 f2 w2 f3 Hq Hwo Hf H.
  destruct (apply_cancel_facts c 2 f2 w1) as [Hqo [_ [Hd [_ [_ [_ Ho]]]]]].
  unfold phase_out in H. remember (apply_cancel c 2 f2 w1) as w eqn:Hw. clear Hw.
  assert (Hwo' : w_o w = OW2 \/ exists e, w_o w = OD (Err e)).
  { destruct Ho as [E|E]; rewrite E; [|right; eexists; reflexivity].
    destruct Hwo as [E'|E']; rewrite E'; [left; reflexivity | right; eexists; reflexivity]. }
  destruct (arrive (k_a2 c) f2 (q_o w) (w_dead w)) as [q dead] eqn:D.
  destruct Hwo' as [E|[e E]]; rewrite E in H.
  - destruct (out_step true (k_out c) (w_po w) OW2 (hd_error q)) as [[st rep] p'] eqn:Es.
    apply out_step_OW2 in Es. destruct Es as [_ Hst].
    assert (HK : Ko c st).
    { destruct Hst as [[e He]|[r [it [Hs [Hhd [Hsound Hchk]]]]]]; subst st; [left; eexists; reflexivity|].
      right. exists r. split; [left; reflexivity|].
      destruct f2 as [b|].
      - rewrite Hqo, Hq in D.
        eapply first_sound with (b := b) (dead := w_dead w) (it := it).
        + destruct Hf as [Hf|[[e Hf]|Hf]]; try discriminate; injection Hf as Hf; subst b;
            [right; eexists; reflexivity | left; reflexivity].
        + change (deliver (k_a2 c) b [] (w_dead w)) with (arrive (k_a2 c) (Some b) [] (w_dead w)).
          rewrite D. cbn. exact Hhd.
        + exact Hsound.
        + exact Hchk.
      - injection D as D1 D2. subst q. rewrite Hqo, Hq in Hhd. discriminate. }
    destruct rep as [[b [|]]|].
    + destruct ((dead || closed_i (w_i w)) && k_wfail c); injection H as H1 H2; subst w2; cbn;
        [left; eexists; reflexivity | exact HK].
    + injection H as H1 H2. subst w2. cbn. exact HK.
    + injection H as H1 H2. subst w2. cbn. exact HK.
  - injection H as H1 H2. subst w2. cbn. left. eexists. reflexivity.
Qed.

(* ---------------------------------------------------------------- every success is justified *)
Theorem run_sound : forall c oo oi, hs_run true c = (oo, oi) ->
  success_sound (k_in c) (k_out c) (k_a1 c) oi = true /\ success_sound (k_out c) (k_in c) (k_a2 c) oo = true.
Proof.
  intros c oo oi. unfold hs_run, hs_world.
  destruct (phase_in true c 1 (k_a1 c) _ _) as [w1 f2] eqn:P1.
  destruct (phase_out true c 2 (k_a2 c) w1 f2) as [w2 f3] eqn:P2.
  destruct (phase_in true c 3 (k_a3 c) w2 f3) as [w3 f4] eqn:P3.
  destruct (phase_out true c 4 (k_a4 c) w3 f4) as [w4 f5] eqn:P4.
  intro H. injection H as Ho Hi.
  apply phase1_facts in P1. destruct P1 as [HK1 [Hq [Hwo Hf]]].
  assert (HK2o : Ko c (w_o w2)) by (eapply phase2_facts; eassumption).
  assert (HK2i : Ki c (w_i w2)).
  { replace w2 with (fst (phase_out true c 2 (k_a2 c) w1 f2)) by (rewrite P2; reflexivity).
    rewrite phase_out_wi. apply Ki_cancel. exact HK1. }
  assert (HK3i : Ki c (w_i w3)).
  { replace w3 with (fst (phase_in true c 3 (k_a3 c) w2 f3)) by (rewrite P3; reflexivity). apply phase_in_Ki. exact HK2i. }
  assert (HK3o : Ko c (w_o w3)).
  { replace w3 with (fst (phase_in true c 3 (k_a3 c) w2 f3)) by (rewrite P3; reflexivity).
    rewrite phase_in_wo. apply Ko_cancel. exact HK2o. }
  assert (HK4o : Ko c (w_o w4)).
  { replace w4 with (fst (phase_out true c 4 (k_a4 c) w3 f4)) by (rewrite P4; reflexivity). apply phase_out_Ko. exact HK3o. }
  assert (HK4i : Ki c (w_i w4)).
  { replace w4 with (fst (phase_out true c 4 (k_a4 c) w3 f4)) by (rewrite P4; reflexivity).
    rewrite phase_out_wi. apply Ki_cancel. exact HK3i. }
  split.
  - subst oi. destruct HK4i as [[e He]|[r [[He|He] Hs]]]; rewrite He; cbn; try reflexivity. exact Hs.
  - subst oo. destruct HK4o as [[e He]|[r [[He|He] Hs]]]; rewrite He; cbn; try reflexivity. exact Hs.
Qed.

(* ---------------------------------------------------------------- honest peers, reliable stream, no cancellation *)
Lemma check_cred_err_nz : forall V v cv c e, check_cred V v cv c = inr e -> N.eqb e E_Null = false.
Proof.
  intros V v cv c e. unfold check_cred.
  destruct (negb (mem v (s_acc V))); [intro H; injection H as H; subst; reflexivity|].
  destruct (negb (s_verify V)).
  - destruct (cv_banned cv); intro H; [injection H as H; subst; reflexivity | discriminate].
  - destruct (negb (N.eqb (c_type c) CT_SignedPeerIds)); [intro H; injection H as H; subst; reflexivity|].
    destruct (c_payload c) as [|[k|] sg]; try (intro H; injection H as H; subst; reflexivity).
    destruct (negb (sig_valid k (s_remote V ++ s_peer V) sg)); [intro H; injection H as H; subst; reflexivity|].
    destruct (cv_banned cv); intro H; [injection H as H; subst; reflexivity | discriminate].
Qed.

Local Opaque check_cred mk_cred eff_ver eff_cv accepts label.

Lemma honest_nocancel : forall c, all_pass c = true -> k_cancel c = None ->
  is_ok (fst (hs_run true c)) = is_ok (snd (hs_run true c)) /\
  is_ok (fst (hs_run true c)) = accepts (k_in c) (k_out c) && accepts (k_out c) (k_in c) /\
  (is_ok (fst (hs_run true c)) = true ->
     hs_run true c = (Ok (label (k_out c) (k_in c)), Ok (label (k_in c) (k_out c)))).
Proof.
  intros [co ci a1 a2 a3 a4 can wf po pi] H Hc. unfold all_pass in H. cbn in H, Hc. subst can.
  destruct a1, a2, a3, a4; try discriminate. clear H.
  assert (C1 : exists x, check_cred ci (eff_ver true pi (mk_cred co)) (eff_cv true pi (mk_cred co)) (mk_cred co) = x /\
               (if accepts ci co then x = inl (label ci co) else exists e, x = inr e)).
  { eexists. split; [reflexivity|]. destruct (accepts ci co) eqn:A; [apply honest_check_ok; exact A | apply honest_check_err; exact A]. }
  assert (C2 : exists x, check_cred co (eff_ver true po (mk_cred ci)) (eff_cv true po (mk_cred ci)) (mk_cred ci) = x /\
               (if accepts co ci then x = inl (label co ci) else exists e, x = inr e)).
  { eexists. split; [reflexivity|]. destruct (accepts co ci) eqn:A; [apply honest_check_ok; exact A | apply honest_check_err; exact A]. }
  destruct C1 as [x1 [E1 A1]]. destruct C2 as [x2 [E2 A2]].
  unfold hs_run, hs_world, phase_in, phase_out, apply_cancel, arrive, deliver.
  cbn [k_out k_in k_a1 k_a2 k_a3 k_a4 k_cancel k_wfail k_pool_out k_pool_in].
  cbn. rewrite E1.
  destruct (accepts ci co).
  - rewrite A1. cbn. rewrite E2. destruct (accepts co ci).
    + rewrite A2. cbn. repeat split; reflexivity.
    + destruct A2 as [e2 A2]. rewrite A2. cbn.
      assert (Hnz : N.eqb e2 E_Null = false) by (rewrite A2 in E2; eapply check_cred_err_nz; exact E2).
      destruct (reply_for e2) as [b|] eqn:R; cbn.
      * unfold reply_for in R. destruct (N.eqb e2 E_UnexpectedPayload); [discriminate|]. injection R as R. subst b. cbn.
        rewrite Hnz. cbn. repeat split; try reflexivity; intro Hx; discriminate.
      * repeat split; try reflexivity; intro Hx; discriminate.
  - destruct A1 as [e1 A1]. rewrite A1. cbn.
    destruct (reply_for e1) as [b|] eqn:R; cbn.
    + unfold reply_for in R. destruct (N.eqb e1 E_UnexpectedPayload); [discriminate|]. injection R as R. subst b. cbn.
      repeat split; try reflexivity; intro Hx; discriminate.
    + repeat split; try reflexivity; intro Hx; discriminate.
Qed.

Local Transparent check_cred mk_cred eff_ver eff_cv accepts label.

(* ---------------------------------------------------------------- independence of the pooled object's previous use *)
Definition same (w w' : world) : Prop :=
  w_o w = w_o w' /\ w_i w = w_i w' /\ q_o w = q_o w' /\ q_i w = q_i w' /\ w_dead w = w_dead w'.

Lemma in_step_pool : forall s p q st d, fst (in_step true s p st d) = fst (in_step true s q st d).
Proof.
  intros s p q st d. destruct st as [|r|o]; cbn [in_step]; try reflexivity.
  - destruct (read_msg [T_Cred] d) as [[c0|e| |]|x]; try reflexivity.
  - destruct (read_msg [T_Ack] d) as [[c0|e| |]|x]; try reflexivity. destruct (N.eqb e E_Null); reflexivity.
Qed.

Lemma out_step_pool : forall s p q st d, fst (out_step true s p st d) = fst (out_step true s q st d).
Proof.
  intros s p q st d. destruct st as [|r|o]; cbn [out_step]; try reflexivity.
  - destruct (read_msg [T_Ack; T_Cred] d) as [[c0|e| |]|x]; try reflexivity.
  - destruct (read_msg [T_Ack] d) as [[c0|e| |]|x]; try reflexivity. destruct (N.eqb e E_Null); reflexivity.
Qed.

Lemma apply_cancel_same : forall c c' k fl w w', k_cancel c = k_cancel c' -> same w w' ->
  same (apply_cancel c k fl w) (apply_cancel c' k fl w').
Proof.
  intros c c' k fl w w' Hc [S1 [S2 [S3 [S4 S5]]]]. unfold apply_cancel. rewrite <- Hc.
  destruct fl as [b|]; [|repeat split; assumption].
  destruct (k_cancel c) as [[side kk]|]; [|repeat split; assumption].
  destruct (N.eqb kk k); [|repeat split; assumption].
  unfold cancel_side. destruct side.
  - rewrite <- S1. destruct (w_o w) eqn:Ew; repeat split; cbn; congruence.
  - rewrite <- S2. destruct (w_i w) eqn:Ew; repeat split; cbn; congruence.
Qed.

Lemma phase_in_same : forall c c' k a w w' fl,
  k_in c = k_in c' -> k_cancel c = k_cancel c' -> k_wfail c = k_wfail c' -> same w w' ->
  same (fst (phase_in true c k a w fl)) (fst (phase_in true c' k a w' fl)) /\
  snd (phase_in true c k a w fl) = snd (phase_in true c' k a w' fl).
Proof.
  intros c c' k a w w' fl Hin Hc Hw Hs.
  apply (apply_cancel_same c c' k fl) in Hs; [|exact Hc].
  unfold phase_in. rewrite <- Hin, <- Hw.
  remember (apply_cancel c k fl w) as v eqn:Hv. remember (apply_cancel c' k fl w') as v' eqn:Hv'. clear Hv Hv'.
  destruct Hs as [S1 [S2 [S3 [S4 S5]]]]. rewrite <- S1, <- S2, <- S3, <- S4, <- S5.
  destruct (arrive a fl (q_i v) (w_dead v)) as [q dead].
  destruct (w_i v) as [|r|o] eqn:Hst.
  - pose proof (in_step_pool (k_in c) (w_pi v) (w_pi v') IW1 (hd_error q)) as Hp.
    destruct (in_step true (k_in c) (w_pi v) IW1 (hd_error q)) as [[st rep] p1].
    destruct (in_step true (k_in c) (w_pi v') IW1 (hd_error q)) as [[st' rep'] p1'].
    cbn in Hp. injection Hp as Hp1 Hp2. subst st' rep'.
    destruct rep as [[b [|]]|]; try (repeat split; reflexivity).
    destruct ((dead || closed_o (w_o v)) && k_wfail c); repeat split; reflexivity.
  - pose proof (in_step_pool (k_in c) (w_pi v) (w_pi v') (IW3 r) (hd_error q)) as Hp.
    destruct (in_step true (k_in c) (w_pi v) (IW3 r) (hd_error q)) as [[st rep] p1].
    destruct (in_step true (k_in c) (w_pi v') (IW3 r) (hd_error q)) as [[st' rep'] p1'].
    cbn in Hp. injection Hp as Hp1 Hp2. subst st' rep'.
    destruct rep as [[b [|]]|]; try (repeat split; reflexivity).
    destruct ((dead || closed_o (w_o v)) && k_wfail c); repeat split; reflexivity.
  - repeat split; reflexivity.
Qed.

Lemma phase_out_same : forall c c' k a w w' fl,
  k_out c = k_out c' -> k_cancel c = k_cancel c' -> k_wfail c = k_wfail c' -> same w w' ->
  same (fst (phase_out true c k a w fl)) (fst (phase_out true c' k a w' fl)) /\
  snd (phase_out true c k a w fl) = snd (phase_out true c' k a w' fl).
Proof.
  intros c c' k a w w' fl Hin Hc Hw Hs.
  apply (apply_cancel_same c c' k fl) in Hs; [|exact Hc].
  unfold phase_out. rewrite <- Hin, <- Hw.
  remember (apply_cancel c k fl w) as v eqn:Hv. remember (apply_cancel c' k fl w') as v' eqn:Hv'. clear Hv Hv'.
  destruct Hs as [S1 [S2 [S3 [S4 S5]]]]. rewrite <- S1, <- S2, <- S3, <- S4, <- S5.
  destruct (arrive a fl (q_o v) (w_dead v)) as [q dead].
  destruct (w_o v) as [|r|o] eqn:Hst.
  - pose proof (out_step_pool (k_out c) (w_po v) (w_po v') OW2 (hd_error q)) as Hp.
    destruct (out_step true (k_out c) (w_po v) OW2 (hd_error q)) as [[st rep] p1].
    destruct (out_step true (k_out c) (w_po v') OW2 (hd_error q)) as [[st' rep'] p1'].
    cbn in Hp. injection Hp as Hp1 Hp2. subst st' rep'.
    destruct rep as [[b [|]]|]; try (repeat split; reflexivity).
    destruct ((dead || closed_i (w_i v)) && k_wfail c); repeat split; reflexivity.
  - pose proof (out_step_pool (k_out c) (w_po v) (w_po v') (OW4 r) (hd_error q)) as Hp.
    destruct (out_step true (k_out c) (w_po v) (OW4 r) (hd_error q)) as [[st rep] p1].
    destruct (out_step true (k_out c) (w_po v') (OW4 r) (hd_error q)) as [[st' rep'] p1'].
    cbn in Hp. injection Hp as Hp1 Hp2. subst st' rep'.
    destruct rep as [[b [|]]|]; try (repeat split; reflexivity).
    destruct ((dead || closed_i (w_i v)) && k_wfail c); repeat split; reflexivity.
  - repeat split; reflexivity.
Qed.

Theorem pool_independent : forall c po pi po' pi',
  hs_run true (with_pools c po pi) = hs_run true (with_pools c po' pi').
Proof.
  intros c po pi po' pi'. unfold hs_run, hs_world.
  set (d := with_pools c po pi). set (d' := with_pools c po' pi').
  assert (Ho : k_out d = k_out d') by reflexivity.
  assert (Hi : k_in d = k_in d') by reflexivity.
  assert (Hc : k_cancel d = k_cancel d') by reflexivity.
  assert (Hw : k_wfail d = k_wfail d') by reflexivity.
  change (k_a1 d') with (k_a1 d). change (k_a2 d') with (k_a2 d). change (k_a3 d') with (k_a3 d). change (k_a4 d') with (k_a4 d).
  change (k_out d') with (k_out d).
  set (w0 := mkWorld OW2 IW1 [] [] false (k_pool_out d) (k_pool_in d)).
  set (w0' := mkWorld OW2 IW1 [] [] false (k_pool_out d') (k_pool_in d')).
  assert (S0 : same w0 w0') by (repeat split; reflexivity).
  set (f1 := Some (BCred (mk_cred (k_out d)))).
  destruct (phase_in_same d d' 1 (k_a1 d) w0 w0' f1 Hi Hc Hw S0) as [S1 F1].
  destruct (phase_in true d 1 (k_a1 d) w0 f1) as [w1 f2]. destruct (phase_in true d' 1 (k_a1 d) w0' f1) as [w1' f2'].
  cbn [fst snd] in S1, F1. subst f2'.
  destruct (phase_out_same d d' 2 (k_a2 d) w1 w1' f2 Ho Hc Hw S1) as [S2 F2].
  destruct (phase_out true d 2 (k_a2 d) w1 f2) as [w2 f3]. destruct (phase_out true d' 2 (k_a2 d) w1' f2) as [w2' f3'].
  cbn [fst snd] in S2, F2. subst f3'.
  destruct (phase_in_same d d' 3 (k_a3 d) w2 w2' f3 Hi Hc Hw S2) as [S3 F3].
  destruct (phase_in true d 3 (k_a3 d) w2 f3) as [w3 f4]. destruct (phase_in true d' 3 (k_a3 d) w2' f3) as [w3' f4'].
  cbn [fst snd] in S3, F3. subst f4'.
  destruct (phase_out_same d d' 4 (k_a4 d) w3 w3' f4 Ho Hc Hw S3) as [S4 F4].
  destruct (phase_out true d 4 (k_a4 d) w3 f4) as [w4 f5]. destruct (phase_out true d' 4 (k_a4 d) w3' f4) as [w4' f5'].
  cbn [fst snd] in S4. destruct S4 as [E1 [E2 _]]. rewrite E1, E2. reflexivity.
Qed.

(* ---------------------------------------------------------------- credentials are bound to the connection *)
Lemma app_fixed_len_inj : forall (a a' b b' : list N), length a = length a' -> a ++ b = a' ++ b' -> a = a' /\ b = b'.
Proof.
  induction a as [|x a IH]; destruct a' as [|y a']; cbn; intros b b' Hl H; try discriminate.
  - split; [reflexivity | exact H].
  - injection H as Hx H. injection Hl as Hl. destruct (IH a' b b' Hl H) as [Ha Hb]. subst. split; reflexivity.
Qed.

Theorem not_transferable : forall P V v cv,
  s_verify V = true ->
  length (s_peer P) = length (s_remote V) ->
  (s_peer P, s_remote P) <> (s_remote V, s_peer V) ->
  exists e, check_cred V v cv (mk_cred P) = inr e.
Proof.
  intros P V v cv HV Hlen Hne.
  destruct (check_cred V v cv (mk_cred P)) as [r|e] eqn:E; [|exists e; reflexivity].
  exfalso. apply check_cred_ok in E. destruct E as [_ [_ [_ [_ Hm]]]]. rewrite HV in Hm.
  destruct Hm as [Ht [k [Hp _]]]. unfold mk_cred in Ht, Hp.
  destruct (s_verify P); cbn in Ht, Hp; [|discriminate].
  assert (Hmsg : s_peer P ++ s_remote P = s_remote V ++ s_peer V) by congruence.
  apply app_fixed_len_inj in Hmsg; [|exact Hlen]. destruct Hmsg as [H1 H2]. apply Hne. rewrite H1, H2. reflexivity.
Qed.

(* ---------------------------------------------------------------- corollaries *)
Theorem model_meets_core_nocancel : forall c, k_cancel c = None ->
  spec_C14_core c (fst (hs_run true c)) (snd (hs_run true c)) = true.
Proof.
  intros c Hc. destruct (hs_run true c) as [oo oi] eqn:E. cbn [fst snd].
  unfold spec_C14_core. destruct (run_sound c oo oi E) as [H1 H2]. rewrite H1, H2. cbn [andb].
  destruct (all_pass c) eqn:A; [|reflexivity].
  unfold cancel_eff. rewrite Hc.
  destruct (honest_nocancel c A Hc) as [V1 [V2 _]]. rewrite E in V1, V2. cbn [fst snd] in V1, V2.
  rewrite <- V2, <- V1. rewrite eqb_reflx. reflexivity.
Qed.

Definition malformed (it : witem) : Prop :=
  w_type it <> T_Cred \/ size_limit < w_size it \/ w_avail it < w_size it \/ (forall c0, w_body it <> BCred c0).

Lemma malformed_unsound : forall V it r, malformed it -> item_sound V it r = false.
Proof.
  intros V it r H. unfold item_sound.
  destruct (N.eqb (w_type it) T_Cred) eqn:Ht; [|reflexivity].
  destruct (N.leb (w_size it) size_limit) eqn:Hs; [|reflexivity].
  destruct (N.leb (w_size it) (w_avail it)) eqn:Ha; [|reflexivity].
  apply N.eqb_eq in Ht. apply N.leb_le in Hs. apply N.leb_le in Ha.
  destruct H as [H|[H|[H|H]]]; try (exfalso; lia); try (exfalso; apply H; exact Ht).
  destruct (w_body it) as [c0| | |] eqn:Hb; try reflexivity. exfalso. apply (H c0). reflexivity.
Qed.

Theorem garbage_never_success_in : forall c it rest cut,
  k_a1 c = AReplace (it :: rest) cut -> malformed it -> is_ok (snd (hs_run true c)) = false.
Proof.
  intros c it rest cut Ha Hm. destruct (hs_run true c) as [oo oi] eqn:E. cbn [snd].
  destruct (run_sound c oo oi E) as [H1 _]. destruct oi as [r|e]; [|reflexivity].
  cbn [success_sound] in H1. rewrite Ha in H1. rewrite (malformed_unsound _ _ _ Hm) in H1. discriminate.
Qed.

Theorem garbage_never_success_out : forall c it rest cut,
  k_a2 c = AReplace (it :: rest) cut -> malformed it -> is_ok (fst (hs_run true c)) = false.
Proof.
  intros c it rest cut Ha Hm. destruct (hs_run true c) as [oo oi] eqn:E. cbn [fst].
  destruct (run_sound c oo oi E) as [_ H1]. destruct oo as [r|e]; [|reflexivity].
  cbn [success_sound] in H1. rewrite Ha in H1. rewrite (malformed_unsound _ _ _ Hm) in H1. discriminate.
Qed.

Theorem nothing_never_success : forall c cut,
  (k_a1 c = AReplace [] cut -> is_ok (snd (hs_run true c)) = false) /\
  (k_a2 c = AReplace [] cut -> is_ok (fst (hs_run true c)) = false).
Proof.
  intros c cut. destruct (hs_run true c) as [oo oi] eqn:E. cbn [fst snd].
  destruct (run_sound c oo oi E) as [H1 H2]. split; intro Ha.
  - destruct oi as [r|e]; [|reflexivity]. cbn [success_sound] in H1. rewrite Ha in H1. discriminate.
  - destruct oo as [r|e]; [|reflexivity]. cbn [success_sound] in H2. rewrite Ha in H2. discriminate.
Qed.

(* a sound frame proves the identity put on the connection, and the version it is labelled with is accepted *)
Lemma item_sound_identity : forall V it r, item_sound V it r = true ->
  exists c0, w_body it = BCred c0 /\ In (dflt_ver (c_ver c0)) (s_acc V) /\ r_ver r = dflt_ver (c_ver c0) /\
             r_cv r = dflt_cv (c_cv c0) /\
             (s_verify V = true ->
              exists k, c_type c0 = CT_SignedPeerIds /\ c_payload c0 = PSigned (Some k) (SigOf k (s_remote V ++ s_peer V)) /\
                        r_ident r = Some k).
Proof.
  intros V it r H. unfold item_sound in H.
  destruct (w_body it) as [c0| | |]; try (rewrite andb_false_r in H; discriminate).
  exists c0. split; [reflexivity|].
  rewrite !andb_true_iff in H. destruct H as [_ [[[[M1 M2] M3] _] M5]].
  apply mem_In in M1. apply N.eqb_eq in M2. apply cver_eqb_eq in M3.
  repeat split; try assumption.
  intro HV. rewrite HV in M5.
  apply andb_true_iff in M5. destruct M5 as [Ht Hp].
  apply N.eqb_eq in Ht.
  destruct (c_payload c0) as [|[k|] sg]; try discriminate.
  apply andb_true_iff in Hp. destruct Hp as [Hs Hi]. apply sig_valid_inv in Hs. subst sg.
  exists k. repeat split; try assumption.
  destruct (r_ident r) as [k'|]; cbn in Hi; [|discriminate]. apply N.eqb_eq in Hi. subst. reflexivity.
Qed.

Theorem identity_is_proven_in : forall c r, snd (hs_run true c) = Ok r ->
  match k_a1 c with
  | APass => accepts (k_in c) (k_out c) = true /\ r = label (k_in c) (k_out c)
  | AReplace (it :: _) _ =>
      exists c0, w_body it = BCred c0 /\ In (dflt_ver (c_ver c0)) (s_acc (k_in c)) /\ r_ver r = dflt_ver (c_ver c0) /\
        r_cv r = dflt_cv (c_cv c0) /\
        (s_verify (k_in c) = true ->
         exists k, c_type c0 = CT_SignedPeerIds /\
                   c_payload c0 = PSigned (Some k) (SigOf k (s_remote (k_in c) ++ s_peer (k_in c))) /\ r_ident r = Some k)
  | AReplace [] _ => False
  end.
Proof.
  intros c r H. destruct (hs_run true c) as [oo oi] eqn:E. cbn [snd] in H. subst oi.
  destruct (run_sound c oo (Ok r) E) as [H1 _]. cbn [success_sound] in H1.
  destruct (k_a1 c) as [|[|it tl] cut].
  - apply andb_true_iff in H1. destruct H1 as [Ha Hr]. split; [exact Ha|].
    unfold result_eqb in Hr. destruct r as [ri rv rc]. unfold label in *. cbn in Hr.
    repeat (apply andb_true_iff in Hr; destruct Hr as [Hr ?]).
    match goal with X : N.eqb rv _ = true |- _ => apply N.eqb_eq in X; subst rv end.
    match goal with X : cver_eqb rc _ = true |- _ => apply cver_eqb_eq in X; subst rc end.
    f_equal. destruct ri as [k|]; destruct (s_verify (k_in c)); cbn in Hr; try discriminate; try reflexivity.
    apply N.eqb_eq in Hr. subst. reflexivity.
  - discriminate.
  - apply item_sound_identity. exact H1.
Qed.

Theorem identity_is_proven_out : forall c r, fst (hs_run true c) = Ok r ->
  match k_a2 c with
  | APass => accepts (k_out c) (k_in c) = true /\ r = label (k_out c) (k_in c)
  | AReplace (it :: _) _ =>
      exists c0, w_body it = BCred c0 /\ In (dflt_ver (c_ver c0)) (s_acc (k_out c)) /\ r_ver r = dflt_ver (c_ver c0) /\
        r_cv r = dflt_cv (c_cv c0) /\
        (s_verify (k_out c) = true ->
         exists k, c_type c0 = CT_SignedPeerIds /\
                   c_payload c0 = PSigned (Some k) (SigOf k (s_remote (k_out c) ++ s_peer (k_out c))) /\ r_ident r = Some k)
  | AReplace [] _ => False
  end.
Proof.
  intros c r H. destruct (hs_run true c) as [oo oi] eqn:E. cbn [fst] in H. subst oo.
  destruct (run_sound c (Ok r) oi E) as [_ H1]. cbn [success_sound] in H1.
  destruct (k_a2 c) as [|[|it tl] cut].
  - apply andb_true_iff in H1. destruct H1 as [Ha Hr]. split; [exact Ha|].
    unfold result_eqb in Hr. destruct r as [ri rv rc]. unfold label in *. cbn in Hr.
    repeat (apply andb_true_iff in Hr; destruct Hr as [Hr ?]).
    match goal with X : N.eqb rv _ = true |- _ => apply N.eqb_eq in X; subst rv end.
    match goal with X : cver_eqb rc _ = true |- _ => apply cver_eqb_eq in X; subst rc end.
    f_equal. destruct ri as [k|]; destruct (s_verify (k_out c)); cbn in Hr; try discriminate; try reflexivity.
    apply N.eqb_eq in Hr. subst. reflexivity.
  - discriminate.
  - apply item_sound_identity. exact H1.
Qed.

Theorem session_pool_independent : forall l po pi po' pi',
  session true po pi l = session true po' pi' l.
Proof.
  induction l as [|[c swap] l IH]; intros po pi po' pi'; [reflexivity|].
  cbn [session]. unfold hs_pools, release.
  rewrite (pool_independent c po pi po' pi').
  destruct swap; f_equal.
Qed.

(* ---------------------------------------------------------------- sessions: labels are stable *)
Lemma labels_stable_later_reads : forall o n, labels_stable o (later_reads o n) = true.
Proof.
  intros [r|e] n; cbn [labels_stable later_reads]; [|reflexivity].
  apply forallb_forall. intros x Hx. apply repeat_spec in Hx. subst x. apply result_eqb_refl.
Qed.

(* the outcomes of the model session are those of [session] *)
Lemma model_session_outcomes : forall fx l po pi,
  map (fun s => (so_out s, so_in s)) (model_session fx po pi l)
  = session fx po pi (map (fun x => (fst (fst x), false)) l).
Proof.
  intros fx l. induction l as [|[[c no] ni] r IH]; intros po pi; [reflexivity|].
  cbn [model_session map session fst snd].
  destruct (hs_pools fx (with_pools c po pi)) as [po' pi'] eqn:Hp.
  cbn [map so_out so_in]. rewrite IH. destruct (hs_run fx (with_pools c po pi)); reflexivity.
Qed.

