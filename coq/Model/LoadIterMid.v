(* Model/LoadIterMid.v — the full-sync response iterator while the responder's storage GROWS between the calls
   (property C09, "mid-stream stores").  Definitions only.

   synctree.HandleStreamRequest prepares the response under the tree lock (ChangesAfterCommonSnapshotLoader -> load:
   the cache = everything stored from the common snapshot on) and streams it after the lock is released: every
   NextBatch re-reads the storage from the cursor (GetAfterOrder(l.orderId), inclusive).  Changes stored in between
   (a third peer's delivery, a local change) are in the storage but not in the cache; NextBatch's cache-miss guard
       rawEntry, ok := l.cache[c.Id]; if !ok { return true, nil }
   walks over them: they are not sent, do not count, do not move the announced heads.

   [scan_c] is the callback loop WITH the guard, [relocate] re-reads the rest of the store that is current at the
   call from the cursor (the cursor is the first unprocessed cached change), [stream_mid] is the loop of
   HandleStreamRequest where the k-th NextBatch call sees the store [st k].  [spec_C09_mid] is the property predicate
   over observed batches for such histories: completeness is owed for what the responder held AT REQUEST TIME, the
   size bound for every batch whatever it contains (sizes looked up in the final store). *)
From Coq Require Import List NArith Bool Arith.
Import ListNotations.
From AnySync Require Export Model.LoadIter.

Definition cached (cache : list N) (e : sentry) : bool := mem (se_id e) cache.

(* the GetAfterOrder callback loop of NextBatch, with the cache-miss guard *)
Fixpoint scan_c (cache : list N) (maxSize : N) (removed : list N) (rest : list sentry) (batch : list sentry)
         (heads : list N) (cur : N) : list sentry * list N * list sentry * bool :=
  match rest with
  | [] => (batch, heads, [], true)
  | e :: r =>
      if negb (cached cache e) then scan_c cache maxSize removed r batch heads cur
      else if mem (se_id e) removed then scan_c cache maxSize removed r batch (upd_heads heads (se_ch e)) cur
      else if N.leb maxSize (cur + se_size e) && negb (match batch with [] => true | _ => false end)
      then (batch, heads, rest, false)
      else scan_c cache maxSize removed r (batch ++ [e]) (upd_heads heads (se_ch e)) (cur + se_size e)
  end.

Definition next_batch_c (cache : list N) (maxSize : N) (l : liter) : batch * liter :=
  if li_exhausted l then (mkBatch [] [], l)
  else
    let '(b, hs, rest', ex) := scan_c cache maxSize (li_removed l) (li_rest l) [] (li_lastHeads l) 0 in
    (mkBatch b hs, mkLI rest' (li_removed l) hs ex).

(* the storage as it is at the next call, read from the cursor on (the cursor = the first unprocessed change) *)
Definition relocate (s : list sentry) (l : liter) : liter :=
  if li_exhausted l then l
  else match li_rest l with
       | [] => l
       | e :: _ => mkLI (from_id (se_id e) s) (li_removed l) (li_lastHeads l) false
       end.

(* HandleStreamRequest's loop; the k-th NextBatch call (k = 0, 1, ...) finds the store [st k] *)
Fixpoint stream_mid (st : N -> list sentry) (cache : list N) (fuel : nat) (k : N) (maxSize : N) (l : liter)
  : list batch :=
  match fuel with
  | O => []
  | S f =>
      let '(b, l') := next_batch_c cache maxSize (relocate (st k) l) in
      match b_changes b with
      | [] => []
      | _ => b :: stream_mid st cache f (N.succ k) maxSize l'
      end
  end.

(* sigma0 = the store when the request is handled (load); st = the stores found by the NextBatch calls *)
Definition respond_mid (sigma0 : list sentry) (st : N -> list sentry) (ourPath theirPath theirHeads : list N)
  (maxSize : N) : option (list batch) :=
  match choose_snapshot ourPath theirPath with
  | None => None
  | Some cs =>
      let l := load sigma0 cs theirHeads in
      Some (stream_mid st (map se_id (li_rest l)) (S (length sigma0)) 0 maxSize l)
  end.

(* observed history of stores: [(k, s)] = from the k-th NextBatch call on the store is s (ascending k) *)
Fixpoint store_at (cur : list sentry) (chg : list (N * list sentry)) (k : N) : list sentry :=
  match chg with
  | [] => cur
  | (i, s) :: r => if N.leb i k then store_at s r k else cur
  end.

Definition final_store (sigma0 : list sentry) (chg : list (N * list sentry)) : list sentry :=
  last (map snd chg) sigma0.

(* ------------------------------------------------------------------------------------------------
   The property over OBSERVED batches when the store grew from sigma0 (request time) to sigmaN (after the last
   call).  Owed: everything held at request time that the requester lacks; allowed: anything the responder stores
   by the end; every batch below the limit or a single change, whatever it contains; heads = the childless members
   of what has been processed: the stored range restricted to the changes held at request time and the
   later-stored ones the responder chose to send. *)
Definition spec_C09_mid (G : list change) (sigma0 sigmaN : list sentry) (ourPath theirPath theirHeads haveB : list N)
  (maxSize : N) (bs : list (list N * list N)) (finalB : list N) : bool :=
  let haveA0 := map se_id sigma0 in
  let haveAN := map se_id sigmaN in
  let cs := spec_snapshot ourPath theirPath in
  let sent := concat (map fst bs) in
  let view := filter (fun e => mem (se_id e) haveA0 || mem (se_id e) sent) (from_id cs sigmaN) in
  (* complete w.r.t. the request-time store; nothing the responder does not store; no repeats *)
  forallb (fun i => mem i haveB || mem i sent) haveA0
  && subset_b sent haveAN && nodup_b sent
  (* whole request-time tree, in stored order, for an empty request *)
  && (match theirPath, theirHeads with
      | [], [] => list_eqb (filter (fun i => mem i haveA0) sent) haveA0
      | _, _ => true
      end)
  (* causal order *)
  && forallb (fun i => match find_change G i with
                       | Some c => forallb (fun p => mem p haveB || mem p sent) (cprev c)
                       | None => false
                       end) sent
  && topo_b G sent
  (* size bound: below the limit, or a single change; never an empty batch *)
  && forallb (fun b => match fst b with
                       | [] => false
                       | [_] => true
                       | ids => N.ltb (total_size (find_entries sigmaN ids)) maxSize
                       end) bs
  (* announced heads *)
  && heads_ok G view bs
  (* applying the batches in order leaves the requester with everything *)
  && subset_b sent finalB && subset_b haveB finalB.
