(* Model of the HAND-WRITTEN byte/structure-level glue that parses data coming from another party
   (property C11).  Definitions only; proofs are in Proofs/Decoders*.v.

   A total Gallina function cannot crash, so every Go operation that can fault is modelled with an explicit
   three-way outcome  Ok v | Err e | Panic why :
     b[i:], b[:j], b[i:j]  -> Panic PSlice   unless the bounds hold (against len, or cap where the code reslices)
     b[i]                  -> Panic PIndex   unless i < len
     p.f on a nil pointer  -> Panic PNil
     x / 0                 -> Panic PDiv
     unbounded recursion   -> Panic PStack   (fuel exhaustion)
   Err codes are small numbers naming the guard that fired; the correspondence check compares the outcome CLASS.

   Bytes are [list N] (the harness prints byte values 0..255; no theorem needs the bound).
   Lengths and offsets are [N] (Go int / uint64 without wrap unless stated). *)
From Coq Require Import List NArith Bool Arith.
Import ListNotations.
Open Scope N_scope.

Inductive outcome (A : Type) : Type :=
| Ok (v : A)
| Err (e : N)
| Panic (why : N).
Arguments Ok {A} v.
Arguments Err {A} e.
Arguments Panic {A} why.

Definition bind {A B} (x : outcome A) (f : A -> outcome B) : outcome B :=
  match x with Ok v => f v | Err e => Err e | Panic w => Panic w end.
Notation "'do' x <- a ; b" := (bind a (fun x => b)) (at level 200, x pattern, a at level 100, b at level 200).

(* panic reasons *)
Definition PSlice : N := 1.
Definition PIndex : N := 2.
Definition PNil   : N := 3.
Definition PDiv   : N := 4.
Definition PStack : N := 5.

(* observable class of an outcome / of a run of the implementation *)
Inductive cls := COk | CErr | CPanic | CHang | CAlloc.
Definition cls_eqb (a b : cls) : bool :=
  match a, b with
  | COk, COk | CErr, CErr | CPanic, CPanic | CHang, CHang | CAlloc, CAlloc => true
  | _, _ => false
  end.
Definition class_of {A} (o : outcome A) : cls :=
  match o with Ok _ => COk | Err _ => CErr | Panic _ => CPanic end.
(* the property over an OBSERVED class: accepted or rejected with an error; never panic / hang / over-allocation *)
Definition spec_C11 (observed : cls) : bool :=
  match observed with COk | CErr => true | _ => false end.

Definition bytes := list N.
Definition blen (b : bytes) : N := N.of_nat (length b).

(* ---- Go slice primitives ---- *)
Definition slice_from (b : bytes) (i : N) : outcome bytes :=
  if i <=? blen b then Ok (skipn (N.to_nat i) b) else Panic PSlice.
Definition slice_to (b : bytes) (j : N) : outcome bytes :=
  if j <=? blen b then Ok (firstn (N.to_nat j) b) else Panic PSlice.
Definition slice (b : bytes) (i j : N) : outcome bytes :=
  if (i <=? j) && (j <=? blen b) then Ok (firstn (N.to_nat (j - i)) (skipn (N.to_nat i) b)) else Panic PSlice.
Definition index (b : bytes) (i : N) : outcome N :=
  match nth_error b (N.to_nat i) with Some x => Ok x | None => Panic PIndex end.

(* ======================================================================================================== *)
(* (1) util/crypto: DecryptX25519, Ed25519PrivKey.Decrypt, AESKey.DecryptReuse                                *)
(* ======================================================================================================== *)
Definition E_short   : N := 10.
Definition E_decrypt : N := 11.
Definition E_key     : N := 12.

(* box.Open / gcm.Open are third-party: an arbitrary function of (header, body). *)
Definition opener := bytes -> bytes -> option bytes.

(* The code as it is on the unrepaired tree:
     copy(epk[:], encrypted[:32]) ... box.Open(nil, encrypted[32:], &nonce, &epk, privKey) *)
Definition decrypt_x25519_legacy (open : opener) (enc : bytes) : outcome bytes :=
  do epk <- slice_to enc 32;
  do body <- slice_from enc 32;
  match open epk body with Some p => Ok p | None => Err E_decrypt end.

(* Repaired (fixes/C11-x25519-short.patch): if len(encrypted) < 32 { return nil, ErrX25519DecryptionFailed } *)
Definition decrypt_x25519 (open : opener) (enc : bytes) : outcome bytes :=
  if blen enc <? 32 then Err E_short else decrypt_x25519_legacy open enc.

(* Ed25519PrivKey.Decrypt: once.Do(key conversion) may leave k.err; then DecryptX25519. *)
Definition ed25519_decrypt (conv_ok : bool) (open : opener) (msg : bytes) : outcome bytes :=
  if conv_ok then decrypt_x25519 open msg else Err E_key.
Definition ed25519_decrypt_legacy (conv_ok : bool) (open : opener) (msg : bytes) : outcome bytes :=
  if conv_ok then decrypt_x25519_legacy open msg else Err E_key.

(* UnmarshallAESKey: len(k) != 32 => error.  DecryptReuse: len(ct) < 12 => error; k.raw[:32];
   nonce := ct[:12]; gcm.Open(dst[:0], nonce, ct[12:]) *)
Definition aes_decrypt (key : bytes) (open : opener) (ct : bytes) : outcome bytes :=
  if negb (blen key =? 32) then Err E_key else
  if blen ct <? 12 then Err E_short else
  do _k <- slice_to key 32;
  do nonce <- slice_to ct 12;
  do body <- slice_from ct 12;
  match open nonce body with Some p => Ok p | None => Err E_decrypt end.

(* ======================================================================================================== *)
(* (3) net/secureservice/handshake: readMsg and the nil-able message parts its callers dereference           *)
(* ======================================================================================================== *)
Definition E_eof        : N := 20.
Definition E_unexpected : N := 21.  (* ErrUnexpectedPayload: type not in the whitelist *)
Definition E_not_hs     : N := 22.  (* ErrGotUnexpectedMessage: size > sizeLimit *)
Definition E_unmarshal  : N := 23.
Definition E_cred       : N := 24.  (* CheckCredential refused *)
Definition E_ack        : N := 25.  (* remote ack carries an error *)
Definition E_proto      : N := 26.  (* proto type not allowed *)

Definition header_size : N := 5.
Definition size_limit  : N := 204800.   (* 200 * 1024 *)
Definition msg_cred  : N := 1.
Definition msg_ack   : N := 2.
Definition msg_proto : N := 3.

(* h.buf as (len, cap).  slices.Grow(s, n) guarantees cap - len >= n (it may give more; the minimum is the
   adversarial case for the following reslice). *)
Record hbuf := mkBuf { hb_len : N; hb_cap : N }.
Definition grow (b : hbuf) (n : N) : hbuf := mkBuf (hb_len b) (N.max (hb_cap b) (hb_len b + n)).
Definition reslice_to (b : hbuf) (m : N) : outcome hbuf :=
  if m <=? hb_cap b then Ok (mkBuf m (hb_cap b)) else Panic PSlice.

Fixpoint mem_N (x : N) (l : list N) : bool :=
  match l with [] => false | y :: r => (x =? y) || mem_N x r end.

Definition le32 (b0 b1 b2 b3 : N) : N := b0 + 256 * b1 + 65536 * b2 + 16777216 * b3.

(* what readMsg returns: which of msg.cred / msg.ack / msg.proto is non-nil is determined by the type byte *)
Record hmsg := mkMsg { m_tp : N }.
Definition has_cred (m : hmsg) := m_tp m =? msg_cred.
Definition has_ack (m : hmsg) := m_tp m =? msg_ack.
Definition has_proto (m : hmsg) := m_tp m =? msg_proto.

(* readMsg(allowedTypes...) on a connection that will deliver [stream] and then either EOF or nothing at all.
   [short] = what a read that wants more bytes than the peer sent ends in: [E_eof] (the peer closed: io.ReadFull
   returns an error) or [E_blocked] (the peer is silent: the goroutine stays parked in conn.Read).
   [vt_ok body] = the generated UnmarshalVT of the selected message accepts the body (black box).
   Returns the message, the buffer and the rest of the stream. *)
Definition E_blocked  : N := 27.  (* not a Go error: the goroutine never leaves conn.Read / conn.Write *)
Definition E_deadline : N := 28.  (* ctx.Err() returned by the exported entry point *)

Definition read_msg_e (short : N) (allowed : list N) (vt_ok : N -> bytes -> bool) (buf : hbuf) (stream : bytes)
  : outcome (hmsg * hbuf * bytes) :=
  do buf1 <- reslice_to (grow buf header_size) header_size;          (* slices.Grow(h.buf, 5)[:5] *)
  if blen stream <? header_size then Err short else                  (* io.ReadFull(h.conn, h.buf[:5]) *)
  do tp <- index stream 0;                                           (* h.buf[0] *)
  if negb (mem_N tp allowed) then Err E_unexpected else
  do b1 <- index stream 1; do b2 <- index stream 2; do b3 <- index stream 3; do b4 <- index stream 4;
  let size := le32 b1 b2 b3 b4 in                                    (* LittleEndian.Uint32(h.buf[1:5]) *)
  if size_limit <? size then Err E_not_hs else
  do buf2 <- reslice_to (grow buf1 size) size;                       (* slices.Grow(h.buf, int(size))[:size] *)
  do rest <- slice_from stream header_size;
  if blen rest <? size then Err short else                           (* io.ReadFull(h.conn, h.buf[:size]) *)
  do body <- slice_to rest size;
  do rest' <- slice_from rest size;
  if (tp =? msg_cred) || (tp =? msg_ack) || (tp =? msg_proto) then
    if vt_ok tp body then Ok (mkMsg tp, buf2, rest') else Err E_unmarshal
  else Ok (mkMsg tp, buf2, rest').

(* the peer sends [stream] and closes *)
Definition read_msg := read_msg_e E_eof.

(* dereferencing one of the optional parts of a message *)
Definition need (present : bool) : outcome unit := if present then Ok tt else Panic PNil.

(* black-box answers of the collaborators of a handshake, supplied per run *)
Record hs_env := mkEnv {
  e_vt_ok    : N -> bytes -> bool;   (* generated decoders *)
  e_cred_ok  : bool;                 (* CheckCredential accepts the remote credentials *)
  e_ack_null : bytes -> bool;        (* decoded ack body has Error == Null *)
  e_proto_allowed : bytes -> bool;   (* decoded proto body has an allowed proto type *)
  e_write_ok : bool                  (* writes to the connection succeed *)
}.

Definition pool_buf : hbuf := mkBuf 0 1024.   (* handshakePool.New: make([]byte, 0, 1024); release: buf[:0] *)

(* How the other end behaves apart from the bytes it sends: after [stream] it closes ([p_eof]) or stays silent
   while keeping the connection alive; our writes succeed, fail, or park forever (the peer does not read and the
   transport's window is full). *)
Inductive wmode := WOk | WFail | WBlock.
Record peer := mkPeer { p_eof : bool; p_write : wmode }.
Definition short_read (p : peer) : N := if p_eof p then E_eof else E_blocked.
Definition conn_write (p : peer) : outcome unit :=
  match p_write p with WOk => Ok tt | WFail => Err E_eof | WBlock => Err E_blocked end.

(* if err != nil { h.tryWriteErrAndClose(err); return }: ErrUnexpectedPayload closes silently; every other error
   is first reported to the peer with writeAck — a write like any other, so it parks when the peer does not read.
   (A goroutine that is already parked never gets here.) *)
Definition or_report {A} (p : peer) (x : outcome A) : outcome A :=
  match x with
  | Err e => if (e =? E_unexpected) || (e =? E_blocked) then Err e
             else match p_write p with WBlock => Err E_blocked | _ => Err e end
  | o => o
  end.

(* incomingHandshake: readMsg(cred); CheckCredential(msg.cred); write our credentials; readMsg(ack); msg.ack.Error;
   writeAck *)
Definition incoming_handshake_p (env : hs_env) (p : peer) (buf : hbuf) (stream : bytes) : outcome unit :=
  do (m1, buf1, rest1) <- or_report p (read_msg_e (short_read p) [msg_cred] (e_vt_ok env) buf stream);
  do _ <- need (has_cred m1);                          (* CheckCredential reads cred.Type / cred.Payload *)
  do _ <- or_report p (if e_cred_ok env then Ok tt else Err E_cred);
  do _ <- or_report p (conn_write p);
  do (m2, buf2, rest2) <- or_report p (read_msg_e (short_read p) [msg_ack] (e_vt_ok env) buf1 rest1);
  do _ <- need (has_ack m2);                           (* msg.ack.Error *)
  let body2 := firstn (length rest1 - 5 - length rest2)%nat (skipn 5%nat rest1) in
  if negb (e_ack_null env body2) then Err E_ack else   (* returned without a report *)
  or_report p (conn_write p).

(* outgoingHandshake: write our credentials; readMsg(ack, cred); ack => error (no report); CheckCredential;
   writeAck; readMsg(ack); msg.ack.Error *)
Definition outgoing_handshake_p (env : hs_env) (p : peer) (buf : hbuf) (stream : bytes) : outcome unit :=
  do _ <- or_report p (conn_write p);
  do (m1, buf1, rest1) <- or_report p (read_msg_e (short_read p) [msg_ack; msg_cred] (e_vt_ok env) buf stream);
  if has_ack m1 then Err E_ack else
  do _ <- need (has_cred m1);
  do _ <- or_report p (if e_cred_ok env then Ok tt else Err E_cred);
  do _ <- or_report p (conn_write p);
  do (m2, buf2, rest2) <- or_report p (read_msg_e (short_read p) [msg_ack] (e_vt_ok env) buf1 rest1);
  do _ <- need (has_ack m2);
  let body2 := firstn (length rest1 - 5 - length rest2)%nat (skipn 5%nat rest1) in
  if negb (e_ack_null env body2) then Err E_ack else Ok tt.

(* incomingProtoHandshake: readMsg(proto); msg.proto.Proto allowed?; answer with an ack or a proto *)
Definition incoming_proto_handshake_p (env : hs_env) (p : peer) (buf : hbuf) (stream : bytes) : outcome unit :=
  do (m1, buf1, rest1) <- or_report p (read_msg_e (short_read p) [msg_proto] (e_vt_ok env) buf stream);
  do _ <- need (has_proto m1);                         (* msg.proto.Proto *)
  let body := firstn (length stream - 5 - length rest1)%nat (skipn 5%nat stream) in
  do _ <- or_report p (if e_proto_allowed env body then Ok tt else Err E_proto);
  or_report p (conn_write p).

(* outgoingProtoHandshake: write our proto; readMsg(ack, proto); an ack answers for old peers (Null => accepted),
   a proto is accepted as it is; neither part set => ErrUnexpectedPayload (no dereference) *)
Definition outgoing_proto_handshake_p (env : hs_env) (p : peer) (buf : hbuf) (stream : bytes) : outcome unit :=
  do _ <- or_report p (conn_write p);
  do (m1, buf1, rest1) <- or_report p (read_msg_e (short_read p) [msg_ack; msg_proto] (e_vt_ok env) buf stream);
  let body := firstn (length stream - 5 - length rest1)%nat (skipn 5%nat stream) in
  if has_ack m1 then (if e_ack_null env body then Ok tt else Err E_ack)
  else if has_proto m1 then Ok tt else Err E_unexpected.

(* the conversations against a peer that sends [stream] and closes; writes succeed or fail as the run says *)
Definition eof_peer (env : hs_env) : peer := mkPeer true (if e_write_ok env then WOk else WFail).
Definition incoming_handshake (env : hs_env) (buf : hbuf) (stream : bytes) : outcome unit :=
  incoming_handshake_p env (eof_peer env) buf stream.
Definition outgoing_handshake (env : hs_env) (buf : hbuf) (stream : bytes) : outcome unit :=
  outgoing_handshake_p env (eof_peer env) buf stream.
Definition incoming_proto_handshake (env : hs_env) (buf : hbuf) (stream : bytes) : outcome unit :=
  incoming_proto_handshake_p env (eof_peer env) buf stream.
Definition outgoing_proto_handshake (env : hs_env) (buf : hbuf) (stream : bytes) : outcome unit :=
  outgoing_proto_handshake_p env (eof_peer env) buf stream.

(* ---- the exported entry points: OutgoingHandshake / IncomingHandshake / OutgoingProtoHandshake /
   IncomingProtoHandshake(ctx, conn, ...) ----
   The conversation runs in its own goroutine; the caller selects on its completion and on ctx.Done():
       go func() { defer close(done); res, err = inner(h, conn, ...) }()
       select { case <-done: return res, err
                case <-ctx.Done(): _ = conn.Close(); return ctx.Err() }
   for a ctx that is eventually done (every caller passes a deadline).  What conn.Close() does to a parked
   Read/Write is not relied upon; the kinds of connection the transports hand in differ exactly there. *)
Inductive conn_kind :=
| KCloseInterrupts   (* net.Pipe, TCP, libp2p-TLS, yamux stream: Close makes a pending Read/Write return *)
| KCloseSendOnly     (* quic-go Stream: Close closes the send direction only, a pending Read stays parked *)
| KCloseInert.       (* any other io.ReadWriteCloser: Close releases nothing *)

Inductive run_result := Returned (o : outcome unit) | Hung.
Definition class_of_run (r : run_result) : cls :=
  match r with Returned o => class_of o | Hung => CHang end.
Definition is_blocked (o : outcome unit) : bool := match o with Err e => e =? E_blocked | _ => false end.
Definition is_deadline (r : run_result) : bool :=
  match r with Returned (Err e) => e =? E_deadline | _ => false end.

Definition entry_with_ctx (k : conn_kind) (inner : outcome unit) : run_result :=
  if is_blocked inner then Returned (Err E_deadline) else Returned inner.

(* NOT the code — the design "run the conversation inline, let context.AfterFunc(ctx, conn.Close) interrupt it":
   it returns only if Close releases the parked call.  (On a send-only Close a parked Write may be released; the
   refutation witness in Proofs parks in Read.)  Kept to show what the goroutine + select buys. *)
Definition entry_inline_close_on_done (k : conn_kind) (inner : outcome unit) : run_result :=
  if is_blocked inner then
    match k with KCloseInterrupts => Returned (Err E_deadline) | _ => Hung end
  else Returned inner.

(* [which]: 0 IncomingHandshake, 1 OutgoingHandshake, 2 IncomingProtoHandshake, 3 OutgoingProtoHandshake *)
Definition hs_inner (which : N) (env : hs_env) (p : peer) (buf : hbuf) (stream : bytes) : outcome unit :=
  if which =? 0 then incoming_handshake_p env p buf stream
  else if which =? 1 then outgoing_handshake_p env p buf stream
  else if which =? 2 then incoming_proto_handshake_p env p buf stream
  else outgoing_proto_handshake_p env p buf stream.
Definition hs_entry (which : N) (k : conn_kind) (env : hs_env) (p : peer) (buf : hbuf) (stream : bytes) : run_result :=
  entry_with_ctx k (hs_inner which env p buf stream).

(* A stalled peer: it sends the first [n] bytes of [stream] and then nothing, keeping the connection alive. *)
Definition stall_at (n : N) (stream : bytes) : bytes := firstn (N.to_nat n) stream.
Definition stalled (w : wmode) : peer := mkPeer false w.

(* the property over the OBSERVED classes of one entry point called once per stall point: every call came back
   (no hang past the deadline) with nil or an error, and did not crash *)
Definition spec_C11_stall (observed : list cls) : bool := forallb spec_C11 observed.

(* ======================================================================================================== *)
(* (2) commonspace/object/acl/list/keepidentity.go: the hand-written protobuf wire parser of the fast path    *)
(* ======================================================================================================== *)
Definition E_trunc     : N := 30.  (* protowire errCodeTruncated *)
Definition E_overflow  : N := 31.  (* varint longer than 64 bits *)
Definition E_fieldnum  : N := 32.  (* field number out of range *)
Definition E_noncanon  : N := 33.  (* errNonCanonical: defer to the full decoder *)
Definition E_vt        : N := 34.  (* error of the generated decoder *)

Definition two63 : N := 9223372036854775808.
Definition two64 : N := 18446744073709551616.
Definition max_int32 : N := 2147483647.

(* protowire.ConsumeVarint(b): unrolled in Go; step k reads b[k] after checking len(b) <= k.
   Steps 0..8: y < 0x80 ends the varint; step 9 accepts only y < 2.  Returns (value, bytes consumed). *)
Fixpoint consume_varint_from (fuel : nat) (b : bytes) (k v : N) : outcome (N * N) :=
  match fuel with
  | O => Err E_overflow
  | S f =>
      if blen b <=? k then Err E_trunc else
      do y <- index b k;
      if k =? 9 then (if y <? 2 then Ok (v + y * 2 ^ 63, 10) else Err E_overflow)
      else if y <? 128 then Ok (v + y * 2 ^ (7 * k), k + 1)
      else consume_varint_from f b (k + 1) (v + (y - 128) * 2 ^ (7 * k))
  end.
Definition consume_varint (b : bytes) : outcome (N * N) := consume_varint_from 10 b 0 0.

(* protowire.ConsumeTag: DecodeTag gives num = v>>3 (or -1 above MaxInt32), typ = v&7; num < 1 is an error *)
Definition consume_tag (b : bytes) : outcome (N * N * N) :=
  do (v, n) <- consume_varint b;
  let num := v / 8 in
  if (max_int32 <? num) || (num <? 1) then Err E_fieldnum else Ok (num, v mod 8, n).

(* protowire.ConsumeBytes: m > len(b[n:]) => truncated; returns b[n:][:m], n+m *)
Definition consume_bytes (b : bytes) : outcome (bytes * N) :=
  do (m, n) <- consume_varint b;
  do tail <- slice_from b n;
  if blen tail <? m then Err E_trunc else
  do v <- slice_to tail m;
  Ok (v, n + m).

(* readTag(dAtA, i): ConsumeTag(dAtA[i:]); group wire types rejected; returns (field, wire type, next index) *)
Definition read_tag (d : bytes) (i : N) : outcome (N * N * N) :=
  do sub <- slice_from d i;
  do (num, typ, n) <- consume_tag sub;
  if (typ =? 3) || (typ =? 4) then Err E_noncanon else Ok (num, typ, i + n).

(* readBytes(dAtA, i): ConsumeBytes(dAtA[i:]); returns (payload, next index) *)
Definition read_bytes (d : bytes) (i : N) : outcome (bytes * N) :=
  do sub <- slice_from d i;
  do (b, n) <- consume_bytes sub;
  Ok (b, i + n).

(* ---- the generated decoder of AclEncryptedReadKey and protohelpers.Skip (not hand-written; modelled because
        the fast path's outcome depends on them; tied to the code by the correspondence check) ---- *)

(* the varint loop of generated code: for shift := 0; ; shift += 7 { shift >= 64 => overflow; iNdEx >= l => EOF;
   b := dAtA[iNdEx]; iNdEx++; v |= uint64(b&0x7F) << shift; b < 0x80 => break }.  Returns (value mod 2^64, index). *)
Fixpoint vt_varint (fuel : nat) (d : bytes) (i shift acc : N) : outcome (N * N) :=
  match fuel with
  | O => Err E_overflow
  | S f =>
      if 64 <=? shift then Err E_overflow else
      if blen d <=? i then Err E_eof else
      do b <- index d i;
      let acc' := N.lor acc ((N.shiftl (b mod 128) shift) mod two64) in
      if b <? 128 then Ok (acc', i + 1) else vt_varint f d (i + 1) (shift + 7) acc'
  end.
Definition vt_read_varint (d : bytes) (i : N) := vt_varint 11 d i 0 0.

(* the varint-skipping loop of Skip for wire type 0 *)
Fixpoint vt_skip_varint (fuel : nat) (d : bytes) (i shift : N) : outcome N :=
  match fuel with
  | O => Err E_overflow
  | S f =>
      if 64 <=? shift then Err E_overflow else
      if blen d <=? i then Err E_eof else
      do b <- index d i;                                   (* dAtA[iNdEx-1] after iNdEx++ *)
      if b <? 128 then Ok (i + 1) else vt_skip_varint f d (i + 1) (shift + 7)
  end.

(* protohelpers.Skip(dAtA): index arithmetic is Go int (int64): a sum >= 2^63 is negative *)
Fixpoint vt_skip_loop (fuel : nat) (d : bytes) (i depth : N) : outcome N :=
  match fuel with
  | O => Panic PStack
  | S f =>
      if blen d <=? i then Err E_eof else
      do (wire, i1) <- vt_read_varint d i;
      let wt := wire mod 8 in
      do r <- (if wt =? 0 then do i2 <- vt_skip_varint 11 d i1 0; Ok (i2, depth, false)
               else if wt =? 1 then Ok (i1 + 8, depth, false)
               else if wt =? 2 then
                 do (len, i2) <- vt_read_varint d i1;
                 if two63 <=? len then Err E_vt else Ok (i2 + len, depth, false)
               else if wt =? 3 then Ok (i1, depth + 1, false)
               else if wt =? 4 then (if depth =? 0 then Err E_vt else Ok (i1, depth - 1, false))
               else if wt =? 5 then Ok (i1 + 4, depth, false)
               else Err E_vt);
      let '(i', depth', _) := r in
      if two63 <=? i' then Err E_vt else
      if depth' =? 0 then Ok i' else vt_skip_loop f d i' depth'
  end.
Definition vt_skip (d : bytes) : outcome N := vt_skip_loop (S (length d)) d 0 0.

Record enc_key := mkEncKey { ek_identity : bytes; ek_key : bytes }.

(* AclEncryptedReadKey.UnmarshalVT, with Skip as a parameter (third-party) *)
Fixpoint enc_key_loop (skip : bytes -> outcome N) (fuel : nat) (d : bytes) (i : N) (acc : enc_key) : outcome enc_key :=
  match fuel with
  | O => Panic PStack
  | S f =>
      if blen d <=? i then Ok acc else
      do (wire, i1) <- vt_read_varint d i;
      let fnum := (wire / 8) mod 4294967296 in            (* int32(wire >> 3) *)
      let wt := wire mod 8 in
      if wt =? 4 then Err E_vt else
      if (fnum =? 0) || (2147483648 <=? fnum) then Err E_vt else   (* fieldNum <= 0 *)
      if (fnum =? 1) || (fnum =? 2) then
        if negb (wt =? 2) then Err E_vt else
        do (len, i2) <- vt_read_varint d i1;
        if two63 <=? len then Err E_vt else                (* byteLen < 0 *)
        let post := i2 + len in
        if two63 <=? post then Err E_vt else               (* postIndex < 0 *)
        if blen d <? post then Err E_eof else
        do v <- slice d i2 post;                           (* dAtA[iNdEx:postIndex] *)
        enc_key_loop skip f d post (if fnum =? 1 then mkEncKey v (ek_key acc) else mkEncKey (ek_identity acc) v)
      else
        do sub <- slice_from d i;                          (* Skip(dAtA[preIndex:]) *)
        do skippy <- skip sub;
        if two63 <=? i + skippy then Err E_vt else
        if blen d <? i + skippy then Err E_eof else
        do _unknown <- slice d i (i + skippy);
        if skippy =? 0 then Err E_vt   (* cannot happen: Skip consumes a tag; guards the model's fuel *)
        else enc_key_loop skip f d (i + skippy) acc
  end.
Definition enc_key_unmarshal_with (skip : bytes -> outcome N) (d : bytes) : outcome enc_key :=
  enc_key_loop skip (S (length d)) d 0 (mkEncKey [] []).
Definition enc_key_unmarshal (d : bytes) : outcome enc_key := enc_key_unmarshal_with vt_skip d.

(* ---- the fast path proper ---- *)
Record rkc := mkRkc {
  rk_account_keys : list enc_key;
  rk_meta : option bytes; rk_enc_meta : option bytes; rk_old : option bytes;
  rk_invite_keys : list enc_key }.
Record acc_remove := mkAR { ar_identities : list bytes; ar_rkc : option rkc }.
Inductive content := CRkc (r : rkc) | CRemove (a : acc_remove).

Definition is_some {A} (o : option A) : bool := match o with Some _ => true | None => false end.

(* encryptedReadKeyMatches: strict walk of one AclEncryptedReadKey element; state = (identity, seenIdentity, seenKey) *)
Fixpoint erk_loop (fuel : nat) (d : bytes) (i : N) (ident : bytes) (seen_id seen_key : bool) : outcome bytes :=
  match fuel with
  | O => Panic PStack
  | S f =>
      if blen d <=? i then Ok ident else
      do (field, wt, ni) <- read_tag d i;
      if negb (wt =? 2) then Err E_noncanon else
      do (body, ni2) <- read_bytes d ni;
      if field =? 1 then (if seen_id then Err E_noncanon else erk_loop f d ni2 body true seen_key)
      else if field =? 2 then (if seen_key then Err E_noncanon else erk_loop f d ni2 ident seen_id true)
      else Err E_noncanon
  end.
Definition enc_read_key_matches (ours : bytes -> bool) (elem : bytes) : outcome bool :=
  do ident <- erk_loop (S (length elem)) elem 0 [] false false;
  Ok (ours ident).

(* keepReadKeyChange; [vt] = AclEncryptedReadKey.UnmarshalVT *)
Fixpoint rkc_loop (vt : bytes -> outcome enc_key) (ours : bytes -> bool) (fuel : nat) (d : bytes) (i : N) (acc : rkc)
  : outcome rkc :=
  match fuel with
  | O => Panic PStack
  | S f =>
      if blen d <=? i then Ok acc else
      do (field, wt, ni) <- read_tag d i;
      if negb (wt =? 2) then Err E_noncanon else
      do (body, ni2) <- read_bytes d ni;
      if field =? 1 then
        do keep <- enc_read_key_matches ours body;
        if keep then
          do ek <- vt body;
          rkc_loop vt ours f d ni2 (mkRkc (rk_account_keys acc ++ [ek]) (rk_meta acc) (rk_enc_meta acc) (rk_old acc) (rk_invite_keys acc))
        else rkc_loop vt ours f d ni2 acc
      else if field =? 2 then
        if is_some (rk_meta acc) then Err E_noncanon
        else rkc_loop vt ours f d ni2 (mkRkc (rk_account_keys acc) (Some body) (rk_enc_meta acc) (rk_old acc) (rk_invite_keys acc))
      else if field =? 3 then
        if is_some (rk_enc_meta acc) then Err E_noncanon
        else rkc_loop vt ours f d ni2 (mkRkc (rk_account_keys acc) (rk_meta acc) (Some body) (rk_old acc) (rk_invite_keys acc))
      else if field =? 4 then
        if is_some (rk_old acc) then Err E_noncanon
        else rkc_loop vt ours f d ni2 (mkRkc (rk_account_keys acc) (rk_meta acc) (rk_enc_meta acc) (Some body) (rk_invite_keys acc))
      else if field =? 5 then
        do ek <- vt body;
        rkc_loop vt ours f d ni2 (mkRkc (rk_account_keys acc) (rk_meta acc) (rk_enc_meta acc) (rk_old acc) (rk_invite_keys acc ++ [ek]))
      else Err E_noncanon
  end.
Definition empty_rkc : rkc := mkRkc [] None None None [].
Definition keep_read_key_change vt ours (d : bytes) : outcome rkc := rkc_loop vt ours (S (length d)) d 0 empty_rkc.

(* keepAccountRemove *)
Fixpoint ar_loop (vt : bytes -> outcome enc_key) (ours : bytes -> bool) (fuel : nat) (d : bytes) (i : N) (acc : acc_remove)
  : outcome acc_remove :=
  match fuel with
  | O => Panic PStack
  | S f =>
      if blen d <=? i then Ok acc else
      do (field, wt, ni) <- read_tag d i;
      if negb (wt =? 2) then Err E_noncanon else
      do (body, ni2) <- read_bytes d ni;
      if field =? 1 then ar_loop vt ours f d ni2 (mkAR (ar_identities acc ++ [body]) (ar_rkc acc))
      else if field =? 2 then
        if is_some (ar_rkc acc) then Err E_noncanon else
        do r <- keep_read_key_change vt ours body;
        ar_loop vt ours f d ni2 (mkAR (ar_identities acc) (Some r))
      else Err E_noncanon
  end.
Definition keep_account_remove vt ours (d : bytes) : outcome acc_remove := ar_loop vt ours (S (length d)) d 0 (mkAR [] None).

(* keepContentValue: exactly one length-delimited field spanning the whole buffer, number 7 or 6 *)
Definition keep_content_value vt ours (cv : bytes) : outcome content :=
  do (field, wt, ni) <- read_tag cv 0;
  if negb (wt =? 2) then Err E_noncanon else
  do (body, next) <- read_bytes cv ni;
  if negb (next =? blen cv) then Err E_noncanon else
  if field =? 7 then do r <- keep_read_key_change vt ours body; Ok (CRkc r)
  else if field =? 6 then do a <- keep_account_remove vt ours body; Ok (CRemove a)
  else Err E_noncanon.

(* keepIdentityFast *)
Fixpoint fast_loop (vt : bytes -> outcome enc_key) (ours : bytes -> bool) (fuel : nat) (d : bytes) (i : N) (acc : list content)
  : outcome (list content) :=
  match fuel with
  | O => Panic PStack
  | S f =>
      if blen d <=? i then Ok acc else
      do (field, wt, ni) <- read_tag d i;
      if negb ((field =? 1) && (wt =? 2)) then Err E_noncanon else
      do (cv, ni2) <- read_bytes d ni;
      do c <- keep_content_value vt ours cv;
      fast_loop vt ours f d ni2 (acc ++ [c])
  end.
Definition keep_identity_fast_with vt ours (d : bytes) : outcome (list content) := fast_loop vt ours (S (length d)) d 0 [].
Definition keep_identity_fast ours (d : bytes) : outcome (list content) := keep_identity_fast_with enc_key_unmarshal ours d.

(* unmarshalAclDataKeepIdentity: fast path, on ANY error the authoritative generated decoder + filter *)
Definition unmarshal_keep_identity (full : bytes -> outcome (list content)) ours (d : bytes) : outcome (list content) :=
  match keep_identity_fast ours d with
  | Ok v => Ok v
  | Err _ => full d
  | Panic w => Panic w
  end.

(* observable summary of a fast-path result: per content (kind 7|6, kept account keys, invite keys, identities) *)
Definition rkc_summary (r : rkc) : N * N := (N.of_nat (length (rk_account_keys r)), N.of_nat (length (rk_invite_keys r))).
Definition content_summary (c : content) : N * N * N * N :=
  match c with
  | CRkc r => (7, fst (rkc_summary r), snd (rkc_summary r), 0)
  | CRemove a =>
      match ar_rkc a with
      | Some r => (6, fst (rkc_summary r), snd (rkc_summary r), N.of_nat (length (ar_identities a)))
      | None => (6, 0, 0, N.of_nat (length (ar_identities a)))
      end
  end.

(* ======================================================================================================== *)
(* (4) commonspace/pubsub: splitTopic / ValidateTopic / TopicOwner / handlePublish guard / msgIdDedup.seen     *)
(* ======================================================================================================== *)
Definition E_topic   : N := 40.
Definition E_message : N := 41.
Definition max_segments : N := 16.
Definition max_topic_len : N := 256.
Definition msg_id_len : N := 16.
Definition ch_slash : N := 47.   (* '/' *)
Definition ch_star  : N := 42.   (* '*' *)
Definition ch_gt    : N := 62.   (* '>' *)

(* strings.IndexByte *)
Fixpoint index_byte_from (c : N) (b : bytes) (pos : N) : option N :=
  match b with
  | [] => None
  | x :: r => if x =? c then Some pos else index_byte_from c r (pos + 1)
  end.
Definition index_byte (c : N) (b : bytes) : option N := index_byte_from c b 0.

(* tsa[n] = ... on  var tsa [maxSegments]string *)
Definition array_store (n : N) : outcome unit := if n <? max_segments then Ok tt else Panic PIndex.

(* splitTopic: for n < maxSegments { idx := IndexByte(rest,'/'); idx<0 => tsa[n]=rest; return tsa[:n+1];
                                     tsa[n] = rest[:idx]; n++; rest = rest[idx+1:] };  return append(tsa[:n:n], rest) *)
Fixpoint split_loop (fuel : nat) (rest : bytes) (n : N) (acc : list bytes) : outcome (list bytes) :=
  match fuel with
  | O => Panic PStack
  | S f =>
      if n <? max_segments then
        match index_byte ch_slash rest with
        | None => do _ <- array_store n; Ok (acc ++ [rest])
        | Some idx =>
            do _ <- array_store n;
            do seg <- slice_to rest idx;
            do rest' <- slice_from rest (idx + 1);
            split_loop f rest' (n + 1) (acc ++ [seg])
        end
      else Ok (acc ++ [rest])
  end.
Definition split_topic (topic : bytes) : outcome (list bytes) := split_loop 17 topic 0 [].

Definition is_empty (b : bytes) : bool := match b with [] => true | _ => false end.
Definition has_wildcard (b : bytes) : bool := existsb (fun x => (x =? ch_star) || (x =? ch_gt)) b.

(* ValidateTopic: splitTopic; validateSegments (length, segment count, no empty segment); no '*' / '>' *)
Definition validate_topic (topic : bytes) : outcome unit :=
  do segs <- split_topic topic;
  if (blen topic =? 0) || (max_topic_len <? blen topic) then Err E_topic else
  if max_segments <? N.of_nat (length segs) then Err E_topic else
  if existsb is_empty segs then Err E_topic else
  if existsb has_wildcard segs then Err E_topic else Ok tt.

(* TopicOwner: segs := splitTopic(topic); len(segs) < 2 || segs[0] != "acc" => ""; segs[len(segs)-1] *)
Definition acc_ns : bytes := [97; 99; 99].
Fixpoint beq_bytes (a b : bytes) : bool :=
  match a, b with
  | [], [] => true
  | x :: a', y :: b' => (x =? y) && beq_bytes a' b'
  | _, _ => false
  end.
Definition nth_seg (segs : list bytes) (i : N) : outcome bytes :=
  match nth_error segs (N.to_nat i) with Some s => Ok s | None => Panic PIndex end.
Definition topic_owner (topic : bytes) : outcome bytes :=
  do segs <- split_topic topic;
  if N.of_nat (length segs) <? 2 then Ok [] else
  do s0 <- nth_seg segs 0;
  if negb (beq_bytes s0 acc_ns) then Ok [] else nth_seg segs (N.of_nat (length segs) - 1).

(* handlePublish: len(MsgId) != 16 || len(Payload) > max => InvalidMessage; ValidateTopic != nil => InvalidTopic *)
Definition handle_publish_guard (msg_id : bytes) (payload_len max_payload : N) (topic : bytes) : outcome unit :=
  if negb (blen msg_id =? msg_id_len) || (max_payload <? payload_len) then Err E_message else
  validate_topic topic.

(* msgIdDedup.seen: len(id) != 16 => false; var key [16]byte; copy(key[:], id) — the conversion is a copy, never a
   slice-to-array cast; ring index d.pos < len(d.ring) is maintained by the wrap *)
Definition dedup_key (id : bytes) : outcome (option bytes) :=
  if negb (blen id =? msg_id_len) then Ok None else do k <- slice_to id msg_id_len; Ok (Some k).

(* ======================================================================================================== *)
(* (5) commonspace/spacepayloads: ValidateSpaceStorageCreatePayload / ValidateSpaceHeader                     *)
(* ======================================================================================================== *)
Definition E_header : N := 50.
Definition ch_dot : N := 46.

(* what the harness knows about a delivered payload: which parts are present, the header id, and whether every
   black-box step (cid, generated decoders, signatures, replication key, id equalities) would pass *)
Record raw_header := mkHdr { h_id : bytes; h_rest_ok : bool }.
Record create_payload := mkPayload {
  p_header : option raw_header;
  p_acl : option bool;        (* Some ok: AclWithId present, ok = its validation passes *)
  p_settings : option bool;
  p_ids_ok : bool }.

Definition deref {A} (o : option A) : outcome A := match o with Some v => Ok v | None => Panic PNil end.

(* ValidateSpaceHeader: nil => error; sepIdx := Index(id, "."); -1 => error; id[:sepIdx]; ...; id[sepIdx+1:] *)
Definition validate_space_header (h : option raw_header) : outcome unit :=
  match h with
  | None => Err E_header
  | Some hd =>
      match index_byte ch_dot (h_id hd) with
      | None => Err E_header
      | Some sep =>
          do _cid <- slice_to (h_id hd) sep;
          do _rk <- slice_from (h_id hd) (sep + 1);
          if h_rest_ok hd then Ok tt else Err E_header
      end
  end.

(* the unrepaired function evaluates payload.AclWithId.Payload and payload.SpaceSettingsWithId.RawChange as
   arguments of ValidateSpaceHeader, before any check *)
Definition validate_create_legacy (p : create_payload) : outcome unit :=
  do acl_ok <- deref (p_acl p);
  do set_ok <- deref (p_settings p);
  do _ <- validate_space_header (p_header p);
  if acl_ok && set_ok && p_ids_ok p then Ok tt else Err E_header.
(* repaired (fixes/C13-nil-parts.patch): nil AclWithId / SpaceSettingsWithId => ErrIncorrectSpaceHeader *)
Definition validate_create (p : create_payload) : outcome unit :=
  match p_acl p, p_settings p with
  | Some _, Some _ => validate_create_legacy p
  | _, _ => Err E_header
  end.

(* ======================================================================================================== *)
(* (6) ACL records: optional sub-messages of the content values (aclstate.go applyChangeContent)               *)
(* ======================================================================================================== *)
Definition E_acl : N := 60.

(* an AclReadKeyChange as the state machine sees it *)
Record rkc_in := mkRkcIn {
  ri_validate_ok : bool;             (* contentValidator.ValidateReadKeyChange passes (when it validates) *)
  ri_meta_ok : bool;                 (* PubKeyFromProto(MetadataPubKey) succeeds *)
  ri_own : list (bytes * bool);      (* ciphertexts of the account keys addressed to us, and whether the box opens
                                        to a well-formed key *)
  ri_invites_ok : bool;              (* every invite-key identity decodes *)
  ri_meta_priv_ok : bool }.          (* the metadata private key decrypts when we got a read key *)

Fixpoint decrypt_own (legacy : bool) (l : list (bytes * bool)) : outcome bool :=
  match l with
  | [] => Ok false
  | (ct, ok) :: r =>
      do _ <- (if legacy then ed25519_decrypt_legacy true (fun _ _ => if ok then Some [] else None) ct
               else ed25519_decrypt true (fun _ _ => if ok then Some [] else None) ct);
      do _ <- decrypt_own legacy r; Ok true
  end.

(* applyReadKeyChange(ch, record, validate).  [patched] = fixes/C04-nil-readkeychange.patch (+ C11-x25519-short):
   a nil ch is ErrIncorrectReadKey; unrepaired: validateReadKeyChange reads ch.MetadataPubKey when the verifier
   validates, applyReadKeyChange reads it in any case. *)
Definition apply_read_key_change (patched should_validate validate : bool) (ch : option rkc_in) : outcome unit :=
  if patched && negb (is_some ch) then Err E_acl else
  do _ <- (if validate && should_validate then do c <- deref ch; if ri_validate_ok c then Ok tt else Err E_acl else Ok tt);
  do c <- deref ch;
  if negb (ri_meta_ok c) then Err E_acl else
  do got <- decrypt_own (negb patched) (ri_own c);
  if negb (ri_invites_ok c) then Err E_acl else
  if got && negb (ri_meta_priv_ok c) then Err E_acl else Ok tt.

Inductive acl_content :=
| AC_unset                                        (* AclContentValue without a value: logged, accepted *)
| AC_read_key_change (ch : rkc_in)
| AC_account_remove (remove_ok : bool) (ch : option rkc_in)   (* remove_ok: ValidateAccountRemove + identities known *)
| AC_space_options (valid : bool) (opts : option bool)        (* Options may be absent: stored as nil, never read here *)
| AC_other (ok : bool).                                        (* variants without optional sub-messages *)

Definition apply_content (patched should_validate : bool) (c : acl_content) : outcome unit :=
  match c with
  | AC_unset => Ok tt
  | AC_read_key_change ch => apply_read_key_change patched should_validate true (Some ch)
  | AC_account_remove remove_ok ch =>
      if negb remove_ok then Err E_acl else apply_read_key_change patched should_validate false ch
  | AC_space_options valid _ => if valid then Ok tt else Err E_acl
  | AC_other ok => if ok then Ok tt else Err E_acl
  end.

(* ApplyRecord: the contents of one record in order, stop at the first error *)
Fixpoint apply_contents (patched should_validate : bool) (cs : list acl_content) : outcome unit :=
  match cs with
  | [] => Ok tt
  | c :: r => do _ <- apply_content patched should_validate c; apply_contents patched should_validate r
  end.

(* ======================================================================================================== *)
(* (7) head sync: HandleRangeRequest -> diff.Ranges -> getRange on hostile HeadSyncRange lists                 *)
(* ======================================================================================================== *)
Record hs_range := mkRange { r_from : N; r_to : N; r_elements : bool; r_limit : N }.

(* state of the serving diff: element hashes (the skip list, any order here) and the (from,to) -> count map of
   the divided ranges.  getRange: map lookup; known and !Elements => (hash, count) only; otherwise scan the skip
   list from Find(from) while hash <= to — r.Limit is not consulted. *)
Definition in_window (r : hs_range) (h : N) : bool := (r_from r <=? h) && (h <=? r_to r).
Definition scan_count (elems : list N) (r : hs_range) : N := N.of_nat (length (filter (in_window r) elems)).
Fixpoint lookup_range (known : list (N * N * N)) (f t : N) : option N :=
  match known with
  | [] => None
  | (f', t', c) :: rest => if (f =? f') && (t =? t') then Some c else lookup_range rest f t
  end.
(* (Count, number of elements returned) *)
Definition get_range (known : list (N * N * N)) (elems : list N) (r : hs_range) : N * N :=
  match lookup_range known (r_from r) (r_to r) with
  | Some c => if r_elements r then (scan_count elems r, scan_count elems r) else (c, 0)
  | None => (scan_count elems r, scan_count elems r)
  end.
Definition handle_range_request (known : list (N * N * N)) (elems : list N) (ranges : list hs_range)
  : outcome (list (N * N)) := Ok (map (get_range known elems) ranges).
Definition response_elements (res : list (N * N)) : N := fold_right (fun x a => snd x + a) 0 res.
