(* C05 — long-lived OPEN object trees across a membership history.  DEFINITIONS ONLY (proofs: Proofs/AclKeysTree.v).
   Nothing in Model/AclKeys.v is changed; its symbolic change builder / reader ([build_change], [read_change]) is
   reused.

   The code keeps, per open tree, a cache (objectTree.keys, objectTree.currentReadKey) of per-tree keys derived from the
   ACL state's read keys, refreshed by readKeysFromAclState.  The symbolic model has NO such cache: a change written
   when the ACL's current generation is g is  SEnc (treeKey (K g)) data  labelled with read-key id g, whoever writes
   it and whatever that writer's tree has seen before; a reader holding the generations [held] in its ACL view reads
   exactly the changes whose named generation is in [held].  The correspondence check compares this with what real
   open trees (production builder, encryption on) did after every ACL record of a history. *)
From Coq Require Import List NArith Bool.
Import ListNotations.
From AnySync Require Export Model.AclKeys.
Open Scope N_scope.

(* one change written through an ALREADY OPEN tree, as observed *)
Record wobs := mkW {
  w_idx : N;                 (* number of the change in the history (its plaintext is a marker carrying this number) *)
  w_author : acct;
  w_gen : rid;               (* CurrentReadKeyId of the ACL when the change was written *)
  w_key_id : rid;            (* ReadKeyId named by the raw change *)
  w_plain : bool;            (* the raw bytes handed to the other accounts contain the plaintext *)
  w_tried : list rid;        (* every key generation of the history so far (the harness holds all read keys) *)
  w_opens : list rid         (* those of them whose per-tree key opens the change's data to the original plaintext *)
}.

(* one account's reading at the end of a round *)
Record robs := mkR {
  r_acct : acct;
  r_perm : N;                             (* permission in the reference ACL state (0 = none) *)
  r_held : list rid;                      (* generations with a ReadKey in the account's own ACL view *)
  r_open_ok : bool;                       (* its OPEN tree: IterateRoot(convert) returned no error *)
  r_open_got : list N;                    (* numbers of the changes its open tree handed over as the original plaintext *)
  r_fresh : option (bool * list N)        (* the same for a tree freshly built over the account's storage (members only) *)
}.

(* after one accepted ACL record: the writes of every account that may write, then every account's reading *)
Record round := mkRound {
  rd_writes : list wobs;
  rd_readers : list robs
}.

(* ------------------------------------------------------------------------------------------ symbolic model *)
(* the tree's content: number, named read-key id, data *)
Definition tchange := (N * rid * tdata)%type.

Definition opens_with (g : rid) (t : tdata) (d : N) : bool :=
  match t with TSEnc g' d' => (g' =? g) && (d' =? d) | TPlain _ => false end.

Definition model_write (gen : rid) (idx : N) : option tchange :=
  match build_change true (Some gen) idx with
  | BOk id data => Some (idx, id, data)
  | BErrMissingKey => None
  end.

Definition readable (held : list rid) (c : tchange) : bool :=
  match read_change held (snd (fst c)) (snd c) with Some d => d =? fst (fst c) | None => false end.

Definition setN_eqb (a b : list N) : bool := subsetN a b && subsetN b a.

(* IterateRoot over the whole content: no error iff everything is readable; what was handed over before an error is
   some subset of the readable changes (the iteration order is the tree's, not modelled) *)
Definition read_matches (held : list rid) (cs : list tchange) (ok : bool) (got : list N) : bool :=
  let can := map (fun c => fst (fst c)) (filter (readable held) cs) in
  Bool.eqb ok (forallb (readable held) cs)
  && (if ok then setN_eqb got (map (fun c => fst (fst c)) cs) else subsetN got can).

Definition write_matches (w : wobs) : option tchange :=
  match model_write (w_gen w) (w_idx w) with
  | None => None
  | Some c =>
      if (w_key_id w =? snd (fst c)) && Bool.eqb (w_plain w) (tdata_is_plain (snd c) (w_idx w))
         && list_eqb N.eqb (w_opens w) (filter (fun g => opens_with g (snd c) (w_idx w)) (w_tried w))
      then Some c else None
  end.

Fixpoint writes_match (ws : list wobs) (cs : list tchange) : option (list tchange) :=
  match ws with
  | [] => Some cs
  | w :: r => match write_matches w with
              | Some c => writes_match r (cs ++ [c])
              | None => None
              end
  end.

Definition reader_matches (cs : list tchange) (r : robs) : bool :=
  read_matches (r_held r) cs (r_open_ok r) (r_open_got r)
  && match r_fresh r with Some (ok, got) => read_matches (r_held r) cs ok got | None => true end.

Fixpoint open_model_ok (cs : list tchange) (rs : list round) : bool :=
  match rs with
  | [] => true
  | rd :: rest =>
      match writes_match (rd_writes rd) cs with
      | None => false
      | Some cs' => forallb (reader_matches cs') (rd_readers rd) && open_model_ok cs' rest
      end
  end.

(* ------------------------------------------------------------------------------------------ property predicate
   over OBSERVED data only (no model function): per written change — the id it names is the ACL's current generation,
   the bytes are not the plaintext, the ciphertext opens with the NAMED generation's tree key and with no other one;
   per reading — an account holding a permission reads every change written so far, through its open tree and through
   a fresh one; any account reads only changes whose named generation it holds in its own ACL view. *)
Definition wobs_ok (w : wobs) : bool :=
  (w_key_id w =? w_gen w) && negb (w_plain w) && memN (w_key_id w) (w_tried w)
  && list_eqb N.eqb (w_opens w) [w_key_id w].

Definition named_of (ws : list wobs) : list (N * rid) := map (fun w => (w_idx w, w_key_id w)) ws.

Definition got_ok (all : list (N * rid)) (held : list rid) (member : bool) (ok : bool) (got : list N) : bool :=
  (if member then ok && setN_eqb got (map fst all) else true)
  && forallb (fun i => match find (fun p => fst p =? i) all with
                       | Some p => memN (snd p) held
                       | None => false
                       end) got.

Definition robs_ok (all : list (N * rid)) (r : robs) : bool :=
  let member := negb (r_perm r =? 0) in
  got_ok all (r_held r) member (r_open_ok r) (r_open_got r)
  && match r_fresh r with Some (ok, got) => got_ok all (r_held r) member ok got | None => true end.

Fixpoint spec_open (all : list (N * rid)) (rs : list round) : bool :=
  match rs with
  | [] => true
  | rd :: rest =>
      let all' := all ++ named_of (rd_writes rd) in
      forallb wobs_ok (rd_writes rd) && forallb (robs_ok all') (rd_readers rd) && spec_open all' rest
  end.

Definition spec_C05_open (rs : list round) : bool := spec_open [] rs.
Definition open_tree_model_ok (rs : list round) : bool := open_model_ok [] rs.

(* ------------------------------------------------------------------------------------------ what the model presents
   (used by the theorems of Proofs/AclKeysTree.v: the symbolic model, run over any sequence of rounds, passes the
   correspondence test and satisfies the property predicate) *)
Record rspec := mkRS {
  rs_gen : rid;                                  (* the ACL's current generation in this round *)
  rs_tried : list rid;                           (* the generations known so far *)
  rs_writes : list (N * acct);                   (* number and author of every change written in this round *)
  rs_readers : list (acct * N * list rid)        (* account, permission, generations held in its ACL view *)
}.

Definition tc_idx (c : tchange) : N := fst (fst c).
Definition tc_key (c : tchange) : rid := snd (fst c).

Definition written (gen : rid) (ias : list (N * acct)) : list tchange :=
  map (fun ia => (fst ia, gen, TSEnc gen (fst ia))) ias.

Definition model_wobs (gen : rid) (tried : list rid) (ia : N * acct) : wobs :=
  mkW (fst ia) (snd ia) gen gen false tried
      (filter (fun g => opens_with g (TSEnc gen (fst ia)) (fst ia)) tried).

Definition model_read (held : list rid) (cs : list tchange) : bool * list N :=
  (forallb (readable held) cs, map tc_idx (filter (readable held) cs)).

Definition model_robs (cs : list tchange) (x : acct * N * list rid) : robs :=
  let rd := model_read (snd x) cs in
  mkR (fst (fst x)) (snd (fst x)) (snd x) (fst rd) (snd rd) (Some rd).

Fixpoint model_rounds (cs : list tchange) (l : list rspec) : list round :=
  match l with
  | [] => []
  | s :: r =>
      let cs' := cs ++ written (rs_gen s) (rs_writes s) in
      mkRound (map (model_wobs (rs_gen s) (rs_tried s)) (rs_writes s)) (map (model_robs cs') (rs_readers s))
        :: model_rounds cs' r
  end.

(* ------------------------------------------------------------------------------------------ one write racing one ACL record
   (harness: cmd/c05/ilv.go).  ONE encrypted AddContent through an open tree while ONE pending ACL record is applied to
   the writer's ACL list at crossing [i_k] of the ACL lock (a point at which the writer does not hold the lock, so that
   another goroutine can win it).  The symbolic model has no lock structure: whatever the interleaving, a stored change
   is  SEnc (treeKey (K id)) data  with id = the generation NAMED in the change.  The interleaved history is presented
   to it as a sequential one: the record is sequenced BEFORE or AFTER the write according to the ACL head the OBSERVED
   change names ([i_head]); the generation at that head is what the change must name and open with. *)
Record iobs := mkI {
  i_kind : N;                (* kind of the injected record (informational; the harness's numbering) *)
  i_k : N;                   (* crossing index at which the record is injected *)
  i_fired : bool;            (* the crossing was reached during AddContent (false: the record arrived after the call) *)
  i_gen0 : rid;              (* the ACL's current generation at the head before the record *)
  i_gen1 : rid;              (* ... after the record *)
  i_can0 : bool;             (* the writer may write at the head before the record *)
  i_can1 : bool;             (* ... after the record *)
  i_head : N;                (* ACL head NAMED by the stored change: 0 = the head before the record, 1 = the record, other = neither *)
  i_write : option wobs;     (* the racing AddContent; None = it returned an error and stored nothing.
                                [w_gen] = the generation at the ACL head the change names, as looked up by the harness *)
  i_retry : option wobs;     (* after a failed racing write: the same account's sequential write after the record *)
  i_pre : list round;        (* what happened in the tree before the race *)
  i_readers : list robs      (* every account's reading after the record reached every list and the changes every tree *)
}.

Definition opt_list {A} (o : option A) : list A := match o with Some a => [a] | None => [] end.

(* the interleaved history as a sequential one *)
Definition ilv_rounds (x : iobs) : list round :=
  i_pre x ++ [mkRound (opt_list (i_write x) ++ opt_list (i_retry x)) (i_readers x)].

Definition named_gen (x : iobs) : option rid :=
  if i_head x =? 0 then Some (i_gen0 x) else if i_head x =? 1 then Some (i_gen1 x) else None.

(* sequencing, over OBSERVED data only.  A stored change names one of the two heads (the record's only if the record
   really landed during the call) and [w_gen] is the generation at THAT head - so [wobs_ok] below demands that the change
   names and opens with the generation of the head it names: a change labelled with the new head / generation but
   encrypted under the retired key fails, it is not explained away by sequencing it before the record.  A failed
   AddContent is acceptable when the record landed during the call or the writer had no right to write; an account that
   may write after the record then writes successfully (sequentially), under the generation after the record. *)
Definition ilv_seq_ok (x : iobs) : bool :=
  match i_write x with
  | Some w =>
      match named_gen x with
      | Some g => (w_gen w =? g) && ((i_head x =? 0) || i_fired x)
      | None => false
      end
      && match i_retry x with None => true | Some _ => false end
  | None =>
      (i_fired x || negb (i_can0 x))
      && match i_retry x with
         | Some w => i_can1 x && (w_gen w =? i_gen1 x)
         | None => negb (i_can1 x)
         end
  end.

Definition spec_C05_ilv (x : iobs) : bool := ilv_seq_ok x && spec_C05_open (ilv_rounds x).

(* correspondence: the model writes only with a permission at the position the write is sequenced at, and what it
   stores / reads is the cache-free symbolic tree of the sequential presentation *)
Definition ilv_model_ok (x : iobs) : bool :=
  match i_write x with
  | Some _ => if i_head x =? 0 then i_can0 x else if i_head x =? 1 then i_can1 x else false
  | None => true
  end
  && open_tree_model_ok (ilv_rounds x).

(* what the model presents for a race: the scheduler's decision is the only freedom *)
Inductive idec := IBefore | IAfter | IFail.

Record ispec := mkIS {
  is_kind : N; is_k : N; is_fired : bool;
  is_gen0 : rid; is_gen1 : rid; is_can0 : bool; is_can1 : bool;
  is_dec : idec;
  is_idx : N;                                    (* number of the racing change *)
  is_retry_idx : N;                              (* number of the sequential change after a failed racing write *)
  is_author : acct;
  is_tried : list rid;
  is_pre : list rspec;
  is_readers : list (acct * N * list rid)
}.

(* which decisions the model allows *)
Definition is_valid (s : ispec) : bool :=
  match is_dec s with
  | IBefore => is_can0 s
  | IAfter => is_fired s && is_can1 s
  | IFail => is_fired s || negb (is_can0 s)
  end.

(* the race as one more sequential round *)
Definition is_last (s : ispec) : rspec :=
  match is_dec s with
  | IBefore => mkRS (is_gen0 s) (is_tried s) [(is_idx s, is_author s)] (is_readers s)
  | IAfter => mkRS (is_gen1 s) (is_tried s) [(is_idx s, is_author s)] (is_readers s)
  | IFail => mkRS (is_gen1 s) (is_tried s) (if is_can1 s then [(is_retry_idx s, is_author s)] else []) (is_readers s)
  end.

Fixpoint content_after (cs : list tchange) (l : list rspec) : list tchange :=
  match l with
  | [] => cs
  | s :: r => content_after (cs ++ written (rs_gen s) (rs_writes s)) r
  end.

Definition model_ilv (s : ispec) : iobs :=
  let cs := content_after [] (is_pre s) in
  let last := is_last s in
  let ws := map (model_wobs (rs_gen last) (rs_tried last)) (rs_writes last) in
  mkI (is_kind s) (is_k s) (is_fired s) (is_gen0 s) (is_gen1 s) (is_can0 s) (is_can1 s)
      (match is_dec s with IBefore => 0 | _ => 1 end)
      (match is_dec s with IFail => None | _ => hd_error ws end)
      (match is_dec s with IFail => hd_error ws | _ => None end)
      (model_rounds [] (is_pre s))
      (map (model_robs (cs ++ written (rs_gen last) (rs_writes last))) (rs_readers last)).
