(* Model for property C10: the transactional store (any-store / SQLite seen from above), the storage
   scripts of the workload operations, crash images, injected faults and the live objects' recovery.
   Definitions only; proofs are in Proofs/Store*.v.

   Mirrors (REPAIRED behaviour, see fixes/C10-*.patch; the original error paths are the [legacy_*] functions):
     objecttree/storage.go            CreateStorageTx, AddAll, Delete
     objecttree/storagedeferred.go    createStorageAndDoInTx (root creation + first AddAll in ONE transaction)
     objecttree/objecttree.go         AddContentWithValidator, AddRawChangesWithUpdater (rollback = rebuildFromStorage)
     acl/list/storage.go              CreateStorageTx, AddAll;   acl/list/list.go AddRawRecord
     spacestorage/spacestorage.go     Create
     headsync/headstorage             UpdateEntry (UpsertId with a field-wise modifier)

   Identifiers are N (0 = "none"); order ids are N ranks supplied by the harness (monotone embedding of the
   lexid strings of one case).  The tree algorithm itself (which changes get attached, in which order) is
   NOT modelled here (C01/C06): remote operations carry the resolved batch as reported by AddResult. *)
From Coq Require Import List NArith Bool Arith.
Import ListNotations.
Open Scope N_scope.

(* ------------------------------------------------------------------ documents and tables *)

Inductive coll := KState | KHeads | KChanges | KAcl.

Inductive doc :=
| DState  (acl settings : N)
| DHeads  (heads : list N) (snap : N) (del : N)            (* heads entry: h, s, d *)
| DChange (tree : N) (prevs : list N) (snap : N) (ord : N)  (* changes collection: t, p, i, o *)
| DRecord (prev : N) (ord : N).                            (* ACL records collection: p, o *)

Definition coll_eqb (a b : coll) : bool :=
  match a, b with
  | KState, KState | KHeads, KHeads | KChanges, KChanges | KAcl, KAcl => true
  | _, _ => false
  end.

Definition entry := (coll * N * doc)%type.
Definition table := list entry.

Definition key_eqb (c : coll) (id : N) (e : entry) : bool :=
  let '(c', id', _) := e in coll_eqb c c' && (id =? id').

Fixpoint get (t : table) (c : coll) (id : N) : option doc :=
  match t with
  | [] => None
  | e :: r => if key_eqb c id e then Some (snd e) else get r c id
  end.

(* replace in place or append *)
Fixpoint put (t : table) (c : coll) (id : N) (d : doc) : table :=
  match t with
  | [] => [(c, id, d)]
  | e :: r => if key_eqb c id e then (c, id, d) :: r else e :: put r c id d
  end.

Definition in_tree (tree : N) (e : entry) : bool :=
  match e with
  | (KChanges, _, DChange tr _ _ _) => tr =? tree
  | _ => false
  end.

Definition del_tree (t : table) (tree : N) : table := filter (fun e => negb (in_tree tree e)) t.

(* ------------------------------------------------------------------ storage calls *)

Record chg := mkChg { c_id : N; c_prevs : list N; c_snap : N; c_ord : N }.

Inductive call :=
| CBegin                                   (* DB.WriteTx: BEGIN IMMEDIATE, or SAVEPOINT when nested *)
| CCommit                                  (* tx.Commit: COMMIT / RELEASE *)
| CRollback                                (* tx.Rollback *)
| CInsert (c : coll) (docs : list (N * doc))      (* Collection.Insert(docs...): fails if any id exists *)
| CUpsertHeads (id : N) (heads : option (list N)) (snap : option N) (del : option N)
                                           (* heads collection UpsertId with the HeadsUpdate modifier *)
| CDeleteTree (tree : N).                  (* changes.Find(t = tree).Delete *)

(* reference transactional semantics: committed table + a stack of working copies (one per open
   transaction / savepoint); a write outside any transaction is its own (auto-commit) transaction. *)
Record store := mkStore { committed : table; open : list table }.

Definition view (s : store) : table :=
  match open s with
  | [] => committed s
  | t :: _ => t
  end.

Definition set_view (s : store) (t : table) : store :=
  match open s with
  | [] => mkStore t []
  | _ :: r => mkStore (committed s) (t :: r)
  end.

Fixpoint ins_all (t : table) (c : coll) (docs : list (N * doc)) : option table :=
  match docs with
  | [] => Some t
  | (id, d) :: r =>
      match get t c id with
      | Some _ => None
      | None => ins_all (t ++ [(c, id, d)]) c r
      end
  end.

Definition upd_heads (old : option doc) (heads : option (list N)) (snap del : option N) : doc :=
  let '(h0, s0, d0) := match old with Some (DHeads h s d) => (h, s, d) | _ => ([], 0, 0) end in
  DHeads (match heads with Some h => h | None => h0 end)
         (match snap with Some s => s | None => s0 end)
         (match del with Some d => d | None => d0 end).

(* None = the call returns an error *)
Definition exec (s : store) (c : call) : option store :=
  match c with
  | CBegin => Some (mkStore (committed s) (view s :: open s))
  | CCommit =>
      match open s with
      | [] => None
      | t :: [] => Some (mkStore t [])
      | t :: _ :: r => Some (mkStore (committed s) (t :: r))
      end
  | CRollback =>
      match open s with
      | [] => None
      | _ :: r => Some (mkStore (committed s) r)
      end
  | CInsert k docs =>
      match ins_all (view s) k docs with
      | Some t => Some (set_view s t)
      | None => None
      end
  | CUpsertHeads id h sn dl =>
      Some (set_view s (put (view s) KHeads id (upd_heads (get (view s) KHeads id) h sn dl)))
  | CDeleteTree tree => Some (set_view s (del_tree (view s) tree))
  end.

(* run a list of calls; stops at the first call that returns an error: (state reached, all succeeded) *)
Fixpoint exec_all (s : store) (l : list call) : store * bool :=
  match l with
  | [] => (s, true)
  | c :: r =>
      match exec s c with
      | Some s' => exec_all s' r
      | None => (s, false)
      end
  end.

Definition fresh (t : table) : store := mkStore t [].

(* what is on disk if the process dies after the calls [l] were issued against durable state [t]
   (reference semantics; the real store enters the theorems as a Section variable assumed to agree) *)
Definition ref_disk (t : table) (l : list call) : table := committed (fst (exec_all (fresh t) l)).

(* the calls form ONE transaction: Begin, a body that never closes the outer bracket, and a Commit of the
   outer bracket as the very last call; or a single auto-commit write; or nothing at all.
   [closes_at_end d l]: at nesting depth d inside the outer bracket, l closes the outer bracket exactly with
   its last call, by a Commit. *)
Fixpoint closes_at_end (d : nat) (l : list call) : bool :=
  match l with
  | [] => false
  | CBegin :: r => closes_at_end (S d) r
  | CCommit :: r => match d with O => match r with [] => true | _ => false end | S d' => closes_at_end d' r end
  | CRollback :: r => match d with O => false | S d' => closes_at_end d' r end
  | _ :: r => closes_at_end d r
  end.

Definition is_write (c : call) : bool :=
  match c with CInsert _ _ | CUpsertHeads _ _ _ _ | CDeleteTree _ => true | _ => false end.

Definition one_tx (l : list call) : bool :=
  match l with
  | [] => true
  | CBegin :: r => closes_at_end 0 r
  | [c] => is_write c
  | _ => false
  end.

(* ------------------------------------------------------------------ live objects *)

Record tlive := mkTL {
  tl_heads : list N;          (* ObjectTree.Heads() *)
  tl_root  : N;               (* in-memory root = common snapshot *)
  tl_defer : option N         (* Some ord: storage creation still deferred (root's order rank) *)
}.

Record world := mkW {
  w_store : table;                  (* durable state *)
  w_trees : list (N * tlive);       (* live object trees *)
  w_acl   : list N                  (* live ACL list: record ids, oldest first *)
}.

Fixpoint tget (l : list (N * tlive)) (id : N) : option tlive :=
  match l with
  | [] => None
  | (i, x) :: r => if i =? id then Some x else tget r id
  end.

Fixpoint tput (l : list (N * tlive)) (id : N) (x : tlive) : list (N * tlive) :=
  match l with
  | [] => [(id, x)]
  | (i, y) :: r => if i =? id then (i, x) :: r else (i, y) :: tput r id x
  end.

Definition tdel (l : list (N * tlive)) (id : N) : list (N * tlive) :=
  filter (fun p => negb (fst p =? id)) l.

Fixpoint acl_id (t : table) : N :=
  match t with
  | [] => 0
  | (KState, _, DState a _) :: _ => a
  | _ :: r => acl_id r
  end.

(* BuildObjectTree over NewStorage: heads and common snapshot as recorded *)
Definition rebuild_tree (t : table) (tree : N) : option tlive :=
  match get t KHeads tree, get t KChanges tree with
  | Some (DHeads h s _), Some _ => Some (mkTL h s None)
  | _, _ => None
  end.

Definition list_N_eqb (a b : list N) : bool :=
  (length a =? length b)%nat && forallb (fun p => fst p =? snd p) (combine a b).

Definition last_or0 (l : list N) : N := last l 0.

(* ------------------------------------------------------------------ operations *)

Inductive op :=
| OSpaceCreate (space acl settings : N) (ord : N)
| OTreeCreate (root : N) (ord : N)                        (* CreateStorage + BuildObjectTree *)
| ODeferredOpen (root : N) (ord : N)                      (* CreateStorageWithDeferredCreation + BuildObjectTree *)
| OLocalAdd (tree id ord : N) (is_snap : bool)            (* AddContent *)
| ORemoteAdd (tree : N) (batch : list chg) (heads : list N) (snap : N)  (* AddRawChanges, resolved *)
| OAclAdd (id : N)                                        (* AddRawRecord *)
| OMarkDeleted (tree status : N)                          (* headStorage.UpdateEntry{DeletedStatus} *)
| ODeleteTree (tree : N).                                 (* ObjectTree.Delete *)

Definition chg_doc (tree : N) (c : chg) : (N * doc) := (c_id c, DChange tree (c_prevs c) (c_snap c) (c_ord c)).

Definition add_all_calls (tree : N) (batch : list chg) (heads : list N) (snap : N) : list call :=
  [CBegin] ++ map (fun c => CInsert KChanges [chg_doc tree c]) batch
           ++ [CUpsertHeads tree (Some heads) (Some snap) None; CCommit].

Definition create_calls (root ord : N) : list call :=
  [CInsert KChanges [(root, DChange root [] 0 ord)]; CUpsertHeads root (Some [root]) (Some root) None].

(* storage.AddAll, or createStorageAndDoInTx { CreateStorageTx; AddAll } when creation is deferred *)
Definition tree_add_calls (tl : tlive) (tree : N) (batch : list chg) (heads : list N) (snap : N) : list call :=
  match tl_defer tl with
  | None => add_all_calls tree batch heads snap
  | Some ord => [CBegin] ++ create_calls tree ord ++ add_all_calls tree batch heads snap ++ [CCommit]
  end.

(* [prep w o]: None = rejected before any storage call; Some (calls, live state on success) *)
Definition prep (w : world) (o : op) : option (list call * (list (N * tlive) * list N)) :=
  match o with
  | OSpaceCreate space acl settings ord =>
      Some ([CBegin; CInsert KState [(space, DState acl settings)];
             CInsert KAcl [(acl, DRecord 0 1)]; CUpsertHeads acl (Some [acl]) None None]
            ++ create_calls settings ord ++ [CCommit],
            (w_trees w, [acl]))
  | OTreeCreate root ord =>
      Some ([CBegin] ++ create_calls root ord ++ [CCommit],
            (tput (w_trees w) root (mkTL [root] root None), w_acl w))
  | ODeferredOpen root ord =>
      match get (w_store w) KChanges root with
      | Some _ => None                                            (* ErrTreeExists *)
      | None => Some ([], (tput (w_trees w) root (mkTL [root] root (Some ord)), w_acl w))
      end
  | OLocalAdd tree id ord is_snap =>
      match tget (w_trees w) tree with
      | None => None
      | Some tl =>
          let snap' := if is_snap then id else tl_root tl in
          Some (tree_add_calls tl tree [mkChg id (tl_heads tl) (tl_root tl) ord] [id] snap',
                (tput (w_trees w) tree (mkTL [id] snap' None), w_acl w))
      end
  | ORemoteAdd tree batch heads snap =>
      match tget (w_trees w) tree with
      | None => None
      | Some tl =>
          Some (tree_add_calls tl tree batch heads snap,
                (tput (w_trees w) tree (mkTL heads snap None), w_acl w))
      end
  | OAclAdd id =>
      if existsb (N.eqb id) (w_acl w) then None                   (* ErrRecordAlreadyExists *)
      else
        let a := acl_id (w_store w) in
        Some ([CBegin; CInsert KAcl [(id, DRecord (last_or0 (w_acl w)) (N.of_nat (length (w_acl w)) + 1))];
               CUpsertHeads a (Some [id]) None None; CCommit],
              (w_trees w, w_acl w ++ [id]))
  | OMarkDeleted tree status =>
      Some ([CUpsertHeads tree None None (Some status)], (w_trees w, w_acl w))
  | ODeleteTree tree =>
      match tget (w_trees w) tree with
      | None => None
      | Some _ => Some ([CBegin; CDeleteTree tree; CCommit], (tdel (w_trees w) tree, w_acl w))
      end
  end.

Definition script (w : world) (o : op) : list call :=
  match prep w o with Some (l, _) => l | None => [] end.

(* the live object the operation works on, as a fresh build from storage would give it;
   an object whose storage creation is still deferred stays deferred (s.storage is cleared again) *)
Definition recover (w : world) (o : op) : list (N * tlive) * list N :=
  match o with
  | OLocalAdd tree _ _ _ | ORemoteAdd tree _ _ _ =>
      match tget (w_trees w) tree with
      | Some tl =>
          match tl_defer tl with
          | Some ord => (tput (w_trees w) tree (mkTL [tree] tree (Some ord)), w_acl w)
          | None =>
              match rebuild_tree (w_store w) tree with
              | Some tl' => (tput (w_trees w) tree tl', w_acl w)
              | None => (w_trees w, w_acl w)
              end
          end
      | None => (w_trees w, w_acl w)
      end
  | _ => (w_trees w, w_acl w)     (* storage is written BEFORE the live ACL list / nothing live was touched *)
  end.

(* the operation without any fault: (world after, succeeded) *)
Definition run (w : world) (o : op) : world * bool :=
  match prep w o with
  | None => (w, false)
  | Some (l, (trees', acl')) =>
      let '(s, ok) := exec_all (fresh (w_store w)) l in
      if ok then (mkW (committed s) trees' acl', true)
      else let '(tr, ac) := recover w o in (mkW (w_store w) tr ac, false)
  end.

(* the k-th call (1-based) returns an injected error: the calls before it ran, then the error path:
   every open transaction is rolled back and the live object recovers *)
Definition fault (w : world) (o : op) (k : nat) : world * bool :=
  match prep w o with
  | None => (w, false)
  | Some (l, _) =>
      let s := fst (exec_all (fresh (w_store w)) (firstn (pred k) l)) in
      let '(tr, ac) := recover w o in
      (mkW (committed s) tr ac, false)
  end.

(* the durable state when the process dies after the first k calls of the operation *)
Definition crash (w : world) (o : op) (k : nat) : table := ref_disk (w_store w) (firstn k (script w o)).

Definition post (w : world) (o : op) : table := w_store (fst (run w o)).

(* ------------------------------------------------------------------ the ORIGINAL error paths (findings) *)

(* F13: AddContentWithValidator returns the AddAll error and keeps the new head in memory *)
Definition legacy_fault_local (w : world) (tree id : N) (is_snap : bool) : world :=
  match tget (w_trees w) tree with
  | Some tl => mkW (w_store w) (tput (w_trees w) tree (mkTL [id] (if is_snap then id else tl_root tl) (tl_defer tl))) (w_acl w)
  | None => w
  end.

(* F14: AddRawRecord appended the record to the live list before storage.AddAll failed *)
Definition legacy_fault_acl (w : world) (id : N) : world := mkW (w_store w) (w_trees w) (w_acl w ++ [id]).

(* F15: createStorage set s.storage although the creating transaction was rolled back *)
Definition legacy_fault_deferred (w : world) (tree : N) : world :=
  match tget (w_trees w) tree with
  | Some tl => mkW (w_store w) (tput (w_trees w) tree (mkTL [tree] tree None)) (w_acl w)
  | None => w
  end.

(* ------------------------------------------------------------------ the durable invariant *)

Definition chg_in (t : table) (tree x : N) (bound : option N) : bool :=
  match get t KChanges x with
  | Some (DChange tr _ _ o) => (tr =? tree) && match bound with Some b => o <? b | None => true end
  | _ => false
  end.

Definition has_heads (t : table) (id : N) : bool :=
  match get t KHeads id with Some (DHeads _ _ _) => true | _ => false end.

Definition is_nil {A} (l : list A) : bool := match l with [] => true | _ => false end.

Definition rec_ord (t : table) (id : N) : option N :=
  match get t KAcl id with Some (DRecord _ o) => Some o | _ => None end.

Definition entry_ok (t : table) (e : entry) : bool :=
  match e with
  | (KChanges, id, DChange tree prevs snap ord) =>
      (* the change belongs to a known object; parents and snapshot base are stored, earlier in the order *)
      has_heads t tree
      && forallb (fun p => chg_in t tree p (Some ord)) prevs
      && (if id =? tree then (snap =? 0) && is_nil prevs else chg_in t tree snap (Some ord))
  | (KHeads, id, DHeads hs sn dl) =>
      if id =? acl_id t then
        (* the ACL head is one stored record and no stored record is later *)
        match hs with
        | [h] => match rec_ord t h with
                 | Some o => forallb (fun e' => match e' with
                                                | (KAcl, _, DRecord _ o') => o' <=? o
                                                | _ => true end) t
                 | None => false
                 end
        | _ => false
        end
      else if dl =? 0 then
        (* a live tree: root, recorded heads and common snapshot are stored changes of this tree *)
        chg_in t id id None && negb (is_nil hs) && forallb (fun h => chg_in t id h None) hs && chg_in t id sn None
      else true
  | (KAcl, id, DRecord p o) =>
      (* contiguous chain: the root has order 1, every other record follows its stored predecessor *)
      if o =? 1 then (p =? 0) && (id =? acl_id t)
      else match rec_ord t p with Some o' => o' + 1 =? o | None => false end
  | (KState, _, DState a s) => has_heads t a && has_heads t s && negb (a =? 0)
  | _ => false
  end.

Definition inv_b (t : table) : bool := forallb (entry_ok t) t.

(* live objects agree with storage *)
Definition tree_consistent (t : table) (p : N * tlive) : bool :=
  let '(tree, tl) := p in
  match tl_defer tl with
  | Some _ => is_nil (filter (fun e => match e with (KChanges, i, _) => i =? tree | (KHeads, i, _) => i =? tree | _ => false end) t)
              && list_N_eqb (tl_heads tl) [tree] && (tl_root tl =? tree)
  | None => match get t KHeads tree with
            | Some (DHeads h s _) => list_N_eqb h (tl_heads tl) && (s =? tl_root tl)
            | _ => false
            end
  end.

Definition acl_consistent (t : table) (recs : list N) : bool :=
  match recs with
  | [] => is_nil t
  | _ =>
      match get t KHeads (acl_id t) with
      | Some (DHeads [h] _ _) =>
          (h =? last_or0 recs)
          && match rec_ord t h with Some o => o =? N.of_nat (length recs) | None => false end
          && forallb (fun e => match e with (KAcl, i, _) => existsb (N.eqb i) recs | _ => true end) t
      | _ => false
      end
  end.

Definition consistent (w : world) : bool :=
  forallb (tree_consistent (w_store w)) (w_trees w) && acl_consistent (w_store w) (w_acl w).

(* ------------------------------------------------------------------ what the tree layer guarantees
   about the arguments of an operation (C06/C01/C03 territory), checked on every observed case *)

Fixpoint batch_ok (t : table) (tree : N) (seen : list chg) (batch : list chg) : bool :=
  match batch with
  | [] => true
  | c :: r =>
      let stored x := chg_in t tree x (Some (c_ord c))
                      || existsb (fun s => (c_id s =? x) && (c_ord s <? c_ord c)) seen in
      negb (c_id c =? tree) && negb (c_id c =? 0)
      && match get t KChanges (c_id c) with None => true | Some _ => false end
      && negb (existsb (fun s => c_id s =? c_id c) seen)
      && forallb stored (c_prevs c) && stored (c_snap c)
      && batch_ok t tree (c :: seen) r
  end.

Definition names_ok (t : table) (tree : N) (batch : list chg) (x : N) : bool :=
  chg_in t tree x None || existsb (fun s => c_id s =? x) batch.

Definition op_wf (w : world) (o : op) : bool :=
  let t := w_store w in
  match o with
  | OSpaceCreate space acl settings ord =>
      is_nil t && negb (acl =? 0) && negb (settings =? 0) && negb (acl =? settings)
  | OTreeCreate root ord =>
      negb (root =? 0) && negb (root =? acl_id t)
      && match get t KChanges root, get t KHeads root with None, None => true | _, _ => false end
  | ODeferredOpen root ord =>
      negb (root =? 0) && negb (root =? acl_id t)
      && match get t KHeads root, tget (w_trees w) root with None, None => true | _, _ => false end
  | OLocalAdd tree id ord is_snap =>
      match tget (w_trees w) tree with
      | Some tl =>
          let t' := match tl_defer tl with
                    | Some o0 => t ++ [(KChanges, tree, DChange tree [] 0 o0)]
                    | None => t end in
          negb (tree =? acl_id t) && negb (is_nil (tl_heads tl))
          && batch_ok t' tree [] [mkChg id (tl_heads tl) (tl_root tl) ord]
          && match get t KHeads tree with Some (DHeads _ _ d) => d =? 0 | None => true | _ => false end
      | None => true
      end
  | ORemoteAdd tree batch heads snap =>
      match tget (w_trees w) tree with
      | Some tl =>
          let t' := match tl_defer tl with
                    | Some o0 => t ++ [(KChanges, tree, DChange tree [] 0 o0)]
                    | None => t end in
          negb (tree =? acl_id t) && negb (is_nil heads)
          && batch_ok t' tree [] batch
          && forallb (names_ok t' tree batch) heads && names_ok t' tree batch snap
          && match get t KHeads tree with Some (DHeads _ _ d) => d =? 0 | None => true | _ => false end
      | None => true
      end
  | OAclAdd id =>
      negb (id =? 0) && negb (is_nil (w_acl w))
      && match get t KAcl id with None => true | Some _ => false end
  | OMarkDeleted tree status =>
      negb (status =? 0) && negb (tree =? acl_id t) && has_heads t tree
  | ODeleteTree tree =>
      negb (tree =? acl_id t)
      && match get t KHeads tree with Some (DHeads _ _ d) => negb (d =? 0) | _ => false end
  end.

(* ------------------------------------------------------------------ side conditions of the theorems
   (all decidable; Run/C10_run.v checks them on every observed case) *)

(* unique keys: the tables the store can reach (put replaces, insert refuses an existing id) *)
Fixpoint uniq (t : table) : bool :=
  match t with
  | [] => true
  | e :: r => match get r (fst (fst e)) (snd (fst e)) with None => true | Some _ => false end && uniq r
  end.


(* unique keys in the list of live trees (tput replaces, tdel removes) *)
Fixpoint tuniq (l : list (N * tlive)) : bool :=
  match l with
  | [] => true
  | (i, _) :: r => match tget r i with None => true | Some _ => false end && tuniq r
  end.

Definition not_deferred (w : world) (x : N) : bool :=
  match tget (w_trees w) x with
  | Some tl => match tl_defer tl with Some _ => false | None => true end
  | None => true
  end.


(* what [op_wf] leaves out and preservation of [consistent] needs (see the counterexamples in StoreSpec.v):
   the space is created before anything is opened; a space exists before trees are written; new change ids
   are not the ids of trees whose creation is deferred; no live tree carries the ACL's id *)
Definition op_wf2 (w : world) (o : op) : bool :=
  match o with
  | OSpaceCreate _ _ _ _ => is_nil (w_trees w)
  | OTreeCreate _ _ => negb (is_nil (w_acl w))
  | OLocalAdd tree id _ _ => negb (is_nil (w_acl w)) && not_deferred w id
  | ORemoteAdd tree batch _ _ => negb (is_nil (w_acl w)) && forallb (fun c => not_deferred w (c_id c)) batch
  | OAclAdd _ => match tget (w_trees w) (acl_id (w_store w)) with None => true | Some _ => false end
  | _ => true
  end.

(* [spec_fault] compares the live heads with the stored ones: the operation's object must be live.
   OMarkDeleted on a tree that is not open is the one operation whose script is non-empty without this
   (counterexample: [spec_needs_live] below). *)
Definition op_live (w : world) (o : op) : bool :=
  match o with
  | OMarkDeleted tree _ => match tget (w_trees w) tree with Some _ => true | None => false end
  | _ => true
  end.

(* sequences of operations *)
Fixpoint run_seq (w : world) (ops : list op) : world :=
  match ops with [] => w | o :: r => run_seq (fst (run w o)) r end.

Fixpoint wf_seq (w : world) (ops : list op) : bool :=
  match ops with
  | [] => true
  | o :: r => op_wf w o && op_wf2 w o && wf_seq (fst (run w o)) r
  end.


(* ------------------------------------------------------------------ spec_C10 over OBSERVED behaviour *)

(* an observed storage call; OMeta = DDL (collection / index creation) inside the transaction *)
Inductive ocall := OCall (c : call) | OMeta.

Definition strip (l : list ocall) : list call :=
  flat_map (fun o => match o with OCall c => [c] | OMeta => [] end) l.

(* projections: order ranks are not compared in scripts (they are constrained by [inv_b] on the images) *)
Definition doc_eqb_noord (a b : doc) : bool :=
  match a, b with
  | DState a1 s1, DState a2 s2 => (a1 =? a2) && (s1 =? s2)
  | DHeads h1 s1 d1, DHeads h2 s2 d2 => list_N_eqb h1 h2 && (s1 =? s2) && (d1 =? d2)
  | DChange t1 p1 s1 _, DChange t2 p2 s2 _ => (t1 =? t2) && list_N_eqb p1 p2 && (s1 =? s2)
  | DRecord p1 o1, DRecord p2 o2 => (p1 =? p2) && (o1 =? o2)
  | _, _ => false
  end.

Definition doc_eqb (a b : doc) : bool :=
  doc_eqb_noord a b &&
  match a, b with DChange _ _ _ o1, DChange _ _ _ o2 => o1 =? o2 | _, _ => true end.

Definition opt_eqb {A} (f : A -> A -> bool) (a b : option A) : bool :=
  match a, b with Some x, Some y => f x y | None, None => true | _, _ => false end.

Fixpoint list_eqb {A} (f : A -> A -> bool) (a b : list A) : bool :=
  match a, b with
  | [], [] => true
  | x :: r, y :: s => f x y && list_eqb f r s
  | _, _ => false
  end.

Definition call_eqb (a b : call) : bool :=
  match a, b with
  | CBegin, CBegin | CCommit, CCommit | CRollback, CRollback => true
  | CInsert k1 d1, CInsert k2 d2 =>
      coll_eqb k1 k2 && list_eqb (fun x y => (fst x =? fst y) && doc_eqb_noord (snd x) (snd y)) d1 d2
  | CUpsertHeads i1 h1 s1 d1, CUpsertHeads i2 h2 s2 d2 =>
      (i1 =? i2) && opt_eqb list_N_eqb h1 h2 && opt_eqb N.eqb s1 s2 && opt_eqb N.eqb d1 d2
  | CDeleteTree t1, CDeleteTree t2 => t1 =? t2
  | _, _ => false
  end.

(* tables as sets of entries *)
Definition entry_eqb (a b : entry) : bool :=
  let '(c1, i1, d1) := a in let '(c2, i2, d2) := b in coll_eqb c1 c2 && (i1 =? i2) && doc_eqb d1 d2.

Definition table_sub (a b : table) : bool := forallb (fun e => existsb (entry_eqb e) b) a.
Definition table_eqb (a b : table) : bool := table_sub a b && table_sub b a && (length a =? length b)%nat.

(* one crash image, reopened: the dump and, per object with a live heads entry, what the real constructors
   answer (Some heads; None = the constructor failed) *)
Record image := mkImg { im_table : table; im_reopen : list (N * option (list N)) }.

Definition reopen_ok (im : image) : bool :=
  forallb (fun e => match e with
                    | (KHeads, id, DHeads hs _ dl) =>
                        if dl =? 0 then
                          existsb (fun p => (fst p =? id)
                                            && match snd p with Some hs' => list_N_eqb hs hs' | None => false end)
                                  (im_reopen im)
                        else true
                    | _ => true end) (im_table im).

(* observed outcome of one injected fault (the k-th call failed) followed by a retry of the same input *)
Record fobs := mkF {
  f_err        : bool;            (* the operation returned an error *)
  f_live       : list N;          (* live Heads() / [Head().Id] after the error *)
  f_stored     : list N;          (* heads recorded in storage after the error ([] = no entry) *)
  f_table      : table;           (* durable dump after the error *)
  f_retry_ok   : bool;            (* re-submitting the same input succeeded *)
  f_live2      : list N;          (* live heads after the retry *)
  f_final      : image            (* durable dump after the retry, reopened *)
}.

Record obs := mkObs {
  o_obj    : N;                   (* the object the operation works on (tree id / ACL id) *)
  o_pre    : table;               (* durable dump before the operation *)
  o_ok     : bool;                (* the fault-free run succeeded *)
  o_calls  : list ocall;          (* storage calls of the fault-free run *)
  o_images : list image;          (* crash images at boundaries 0..n (n = number of calls) *)
  o_post   : table;               (* durable dump after the fault-free run *)
  o_live   : list N;              (* live heads after the fault-free run *)
  o_faults : list fobs            (* one per boundary 1..n *)
}.

(* (a) one bracket containing all writes *)
Definition spec_bracket (ob : obs) : bool := one_tx (strip (o_calls ob)).

(* (b) every crash image is pre or post, satisfies Inv and reopens with the recorded heads *)
Definition spec_images (ob : obs) : bool :=
  forallb (fun im => (table_eqb (im_table im) (o_pre ob) || table_eqb (im_table im) (o_post ob))
                     && inv_b (im_table im) && reopen_ok im) (o_images ob).

(* (c) after an injected error: live = stored, nothing durable changed, the retry succeeds and the final state is good *)
Definition sorted_eqb (a b : list N) : bool :=
  forallb (fun x => existsb (N.eqb x) b) a && forallb (fun x => existsb (N.eqb x) a) b.

Definition spec_fault (ob : obs) (f : fobs) : bool :=
  f_err f
  && (sorted_eqb (f_live f) (f_stored f)
      (* an object whose storage creation is still deferred: nothing stored, as before the operation *)
      || (is_nil (f_stored f) && list_N_eqb (f_live f) [o_obj ob]
          && negb (existsb (fun e => match e with (KHeads, i, _) => i =? o_obj ob | _ => false end) (o_pre ob))))
  && table_eqb (f_table f) (o_pre ob)
  && f_retry_ok f
  && inv_b (im_table (f_final f)) && reopen_ok (f_final f)
  && table_eqb (im_table (f_final f)) (o_post ob)
  && sorted_eqb (f_live2 f) (o_live ob).

Definition spec_C10 (ob : obs) : bool :=
  if o_ok ob then
    spec_bracket ob && spec_images ob && forallb (spec_fault ob) (o_faults ob)
    && (length (o_images ob) =? S (length (o_calls ob)))%nat
    && (length (o_faults ob) =? length (o_calls ob))%nat
  else
    (* rejected before storage was touched: nothing may have changed *)
    is_nil (o_calls ob) && table_eqb (o_post ob) (o_pre ob).

(* ------------------------------------------------------------------ the model's prediction of an observation *)

Definition live_heads (w : world) (o : op) : list N :=
  match o with
  | OSpaceCreate _ _ _ _ | OAclAdd _ => match w_acl w with [] => [] | l => [last_or0 l] end
  | OTreeCreate tree _ | ODeferredOpen tree _ | OLocalAdd tree _ _ _ | ORemoteAdd tree _ _ _
  | OMarkDeleted tree _ | ODeleteTree tree =>
      match tget (w_trees w) tree with Some tl => tl_heads tl | None => [] end
  end.

Definition obj_of (t : table) (o : op) : N :=
  match o with
  | OSpaceCreate _ a _ _ => a
  | OAclAdd _ => acl_id t
  | OTreeCreate tree _ | ODeferredOpen tree _ | OLocalAdd tree _ _ _ | ORemoteAdd tree _ _ _
  | OMarkDeleted tree _ | ODeleteTree tree => tree
  end.

(* the heads recorded in the heads entry of the operation's object ([] = no entry) *)
Definition stored_heads (t : table) (o : op) : list N :=
  match get t KHeads (obj_of t o) with
  | Some (DHeads h _ _) => h
  | _ => []
  end.

Definition model_image (t : table) : image :=
  mkImg t (flat_map (fun e => match e with
                              | (KHeads, id, DHeads hs _ dl) => if dl =? 0 then [(id, Some hs)] else []
                              | _ => [] end) t).

Definition model_fault (w : world) (o : op) (k : nat) : fobs :=
  let '(w1, _) := fault w o k in
  let '(w2, ok2) := run w1 o in
  mkF true (live_heads w1 o) (stored_heads (w_store w1) o)
      (w_store w1) ok2 (live_heads w2 o) (model_image (w_store w2)).

Definition model_obs (w : world) (o : op) : obs :=
  let l := script w o in
  let '(w', ok) := run w o in
  mkObs (obj_of (w_store w) o) (w_store w) ok (map OCall l)
        (if ok then map (fun k => model_image (crash w o k)) (seq 0 (S (length l))) else [])
        (w_store w') (live_heads w' o)
        (if ok then map (fun k => model_fault w o k) (seq 1 (length l)) else []).
