(* Model/Tree.v — the in-memory change tree and the object tree on top of it (property C06; base of C09,
   C01, C02).  Definitions only.

   Mirrors (commonspace/object/tree/objecttree):
     tree.go        Tree.add / canAttachOrRemove / attach / Add / AddFast / updateHeads / dfsNext
     treereduce.go  reduceTree / makeRootAndRemove
     util.go        commonSnapshotForTwoPaths
     objecttree.go  addChangesToTree (normal path and rebuild-from-storage path), AddRawChangesWithUpdater tail,
                    SnapshotPath
     treebuilder.go buildWithAdded for the two option sets objecttree.go uses
                    ({theirHeads, ourSnapshotPath, theirSnapshotPath(non-empty), newChanges} and {} = reopen)
   Not modelled: order-id strings (lexid).  The stored order is modelled as the canonical order of the stored set
   ([stored_seq]); that the real storage returns exactly this sequence is compared on every step of the
   correspondence check, and the harness checks that OrderId strings strictly increase along every iteration. *)
From Coq Require Import List NArith Bool Arith.
Import ListNotations.
From AnySync Require Export Lib.Dag Model.Dfs.

Inductive mode := Append | Rebuild | Nothing.

Record tree := mkTree {
  t_root  : N;                    (* t.root.Id; meaningful when t_att <> [] (t.root == nil <-> t_att = []) *)
  t_att   : list change;          (* attached, newest first *)
  t_next  : list (N * list N);    (* Next lists: id -> child ids in slice order *)
  t_unatt : list change;          (* unAttached *)
  t_wait  : list (N * list N);    (* waitList: missing previous id -> waiting change ids *)
  t_heads : list N;               (* headIds (sorted) *)
  t_last  : N;                    (* lastIteratedHeadId *)
  t_dirty : bool;                 (* len(possibleRoots) > 0 *)
  t_oof   : bool                  (* a model loop ran out of fuel (never happens: Proofs, and checked on every run) *)
}.

Definition empty_tree : tree := mkTree 0%N [] [] [] [] [] 0%N false false.

Definition root_nil (t : tree) : bool := match t_att t with [] => true | _ => false end.

Definition set_unatt (t : tree) (u : list change) : tree :=
  mkTree (t_root t) (t_att t) (t_next t) u (t_wait t) (t_heads t) (t_last t) (t_dirty t) (t_oof t).
Definition set_wait (t : tree) (w : list (N * list N)) : tree :=
  mkTree (t_root t) (t_att t) (t_next t) (t_unatt t) w (t_heads t) (t_last t) (t_dirty t) (t_oof t).
Definition set_oof (t : tree) : tree :=
  mkTree (t_root t) (t_att t) (t_next t) (t_unatt t) (t_wait t) (t_heads t) (t_last t) (t_dirty t) true.
Definition set_dirty (t : tree) (d : bool) : tree :=
  mkTree (t_root t) (t_att t) (t_next t) (t_unatt t) (t_wait t) (t_heads t) (t_last t) d (t_oof t).

Definition remove_change (S : list change) (i : N) : list change :=
  filter (fun c => negb (N.eqb (cid c) i)) S.

Definition attached (t : tree) (i : N) : bool := has_change (t_att t) i.

(* canAttachOrRemove(c, addToWait) -> (tree with updated wait list, attach, remove) *)
Definition can_attach (t : tree) (c : change) (addToWait : bool) : tree * bool * bool :=
  let miss := filter (fun p => negb (attached t p)) (cprev c) in
  let t1 := if addToWait
            then set_wait t (fold_left (fun w p => aupdate w p (fun l => l ++ [cid c])) miss (t_wait t))
            else t in
  match miss with
  | _ :: _ => (t1, false, false)
  | [] => if attached t (csnap c) then (t1, true, false) else (t1, false, true)
  end.

(* Tree.attach(c, newEl); [added] = addedBuf (ids).  Recursion through the wait list is fuel-bounded. *)
Fixpoint attach (fuel : nat) (t : tree) (added : list N) (c : change) (newEl : bool) : tree * list N :=
  match fuel with
  | O => (set_oof t, added)
  | S f =>
      let t1 := mkTree (t_root t) (c :: t_att t)
                  (fold_left (fun m p => aupdate m p (insert_sorted (cid c))) (cprev c) (t_next t))
                  (if newEl then t_unatt t else remove_change (t_unatt t) (cid c))
                  (t_wait t) (t_heads t) (t_last t) true (t_oof t) in
      let '(t2, added2) :=
        fold_left
          (fun (acc : tree * list N) (wid : N) =>
             let '(ta, ad) := acc in
             match find_change (t_unatt ta) wid with
             | None => acc
             | Some nxt =>
                 let '(_, att, rem) := can_attach ta nxt false in
                 if att then attach f ta ad nxt false
                 else if rem then (set_unatt ta (remove_change (t_unatt ta) wid), ad)
                 else acc
             end)
          (alookup (t_wait t1) (cid c)) (t1, added ++ [cid c]) in
      (set_wait t2 (adelete (t_wait t2) (cid c)), added2)
  end.

(* Tree.add(c).  (sort.Strings(c.PreviousIds) only changes the order in which waiting changes are examined,
   which no observable depends on; not mirrored.) *)
Definition add (t : tree) (added : list N) (c : change) : tree * list N :=
  if root_nil t then
    (mkTree (cid c) [c] [] [] [] (t_heads t) (cid c) false (t_oof t), added ++ [cid c])
  else
    let '(t1, att, rem) := can_attach t c true in
    if att then attach (S (length (t_unatt t1))) t1 added c true
    else if rem then (t1, added)
    else (set_unatt t1 (c :: t_unatt t1), added).

(* the "ignore existing" loop of Add / AddFast; the third component tells, per position of the batch,
   whether t.add was called with that object (false = skipped as already attached / unAttached) *)
Fixpoint add_all (t : tree) (added : list N) (cs : list change) : tree * list N * list bool :=
  match cs with
  | [] => (t, added, [])
  | c :: r =>
      if attached t (cid c) || has_change (t_unatt t) (cid c) then
        let '(t', ad', fl) := add_all t added r in (t', ad', false :: fl)
      else
        let '(t1, ad1) := add t added c in
        let '(t', ad', fl) := add_all t1 ad1 r in (t', ad', true :: fl)
  end.

Definition nxf (t : tree) : N -> list N := alookup (t_next t).

(* makeIterBuffer(t.root) reversed = the presented order *)
Definition iter_tree (t : tree) : option (list N) :=
  match t_att t with
  | [] => Some []
  | _ => dfs_loop (nxf t) (dfs_fuel (view (t_att t) (t_root t))) (dfs_init (t_root t))
  end.

Definition iter_ids (t : tree) : list N := match iter_tree t with Some l => l | None => [] end.

Definition is_nil (l : list N) : bool := match l with [] => true | _ => false end.

(* updateHeads: heads in iteration order, lastIteratedHeadId = the last of them, headIds sorted *)
Definition update_heads (t : tree) : tree :=
  match iter_tree t with
  | None => set_oof t
  | Some seq =>
      let hs := filter (fun i => is_nil (nxf t i)) seq in
      mkTree (t_root t) (t_att t) (t_next t) (t_unatt t) (t_wait t) (isort hs) (last hs 0%N)
             (t_dirty t) (t_oof t)
  end.

Fixpoint exists2b {A B} (f : A -> B -> bool) (l1 : list A) (l2 : list B) : bool :=
  match l1, l2 with
  | a :: r1, b :: r2 => f a b || exists2b f r1 r2
  | _, _ => false
  end.

(* Tree.Add *)
Definition tree_add (t : tree) (cs : list change) : tree * mode * list N :=
  let last0 := t_last t in
  let empty := root_nil t in
  let '(t1, added, fresh) := add_all t [] cs in
  let t1c := set_unatt t1 [] in
  match added with
  | [] => (t1c, Nothing, [])
  | _ =>
      let t2 := update_heads t1c in
      if empty then (t2, Rebuild, added)
      else
        let vis := reach_loop (nxf t2) (dfs_fuel (t_att t2)) [last0] [] in
        (* a position forces Rebuild if its id is attached and its OBJECT was not visited: either the object
           is not the attached one (it was skipped as a duplicate) or it is not reachable from the old
           lastIteratedHeadId through Next *)
        let bad := exists2b (fun c fr => attached t2 (cid c) && negb (fr && mem (cid c) vis)) cs fresh in
        (t2, if bad then Rebuild else Append, added)
  end.

(* Tree.AddFast *)
Definition tree_add_fast (t : tree) (cs : list change) : tree * list N :=
  match cs with
  | [] => (t, [])
  | _ =>
      let '(t1, added, _) := add_all t [] cs in
      (set_unatt (update_heads t1) [], added)
  end.

(* ---- treereduce.go ---- *)

(* makeRootAndRemove(start) *)
Definition make_root (t : tree) (start : change) : tree :=
  if N.eqb (cid start) (t_root t) then t
  else
    let anc := ancestors (t_att t) (cprev start) in
    mkTree (cid start) (filter (fun c => negb (mem (cid c) anc)) (t_att t)) (t_next t) []
           (t_wait t) (t_heads t) (t_last t) (t_dirty t) (t_oof t).

(* snapshots from [cur] down to the root of the tree: cur, its snapshot, ..., root *)
Fixpoint snap_chain (fuel : nat) (t : tree) (cur : change) : option (list change) :=
  if N.eqb (cid cur) (t_root t) then Some [cur]
  else match fuel with
       | O => None
       | S f =>
           match find_change (t_att t) (csnap cur) with
           | None => None
           | Some nxt => option_map (cons cur) (snap_chain f t nxt)
           end
       end.

Fixpoint index_of (i : N) (l : list N) (k : nat) : option nat :=
  match l with
  | [] => None
  | a :: r => if N.eqb a i then Some k else index_of i r (S k)
  end.

(* walk the snapshot chain of one more head until it meets [path]; index in path *)
Fixpoint meet_idx (fuel : nat) (t : tree) (path : list N) (cur : change) : option nat :=
  match index_of (cid cur) path 0 with
  | Some k => Some k
  | None =>
      match fuel with
      | O => None
      | S f =>
          match find_change (t_att t) (csnap cur) with
          | None => None
          | Some nxt => meet_idx f t path nxt
          end
      end
  end.

Fixpoint max_meet (fuel : nat) (t : tree) (path : list N) (heads : list N) (mx : nat) : option nat :=
  match heads with
  | [] => Some mx
  | h :: r =>
      match find_change (t_att t) h with
      | None => None
      | Some hc =>
          match find_change (t_att t) (csnap hc) with
          | None => None
          | Some cur =>
              match meet_idx fuel t path cur with
              | None => None
              | Some k => max_meet fuel t path r (Nat.max mx k)
              end
          end
      end
  end.

(* reduceTree *)
Definition reduce_tree (t : tree) : tree * bool :=
  if negb (t_dirty t) then (t, false)
  else
    match t_heads t with
    | [] => (t, false)
    | h0 :: hs =>
        match find_change (t_att t) h0 with
        | None => (t, false)
        | Some fh =>
            if cissnap fh && is_nil hs then (make_root (set_dirty t false) fh, true)
            else
              match find_change (t_att t) (csnap fh) with
              | None => (t, false)
              | Some cur =>
                  if is_nil hs then (make_root (set_dirty t false) cur, true)
                  else
                    let fuel := S (length (t_att t)) in
                    match snap_chain fuel t cur with
                    | None => (t, false)
                    | Some path =>
                        match max_meet fuel t (ids path) hs 0 with
                        | None => (t, false)
                        | Some k =>
                            match nth_error path k with
                            | None => (t, false)
                            | Some r => (make_root (set_dirty t false) r, true)
                            end
                        end
                    end
              end
        end
    end.

(* ---- util.go: commonSnapshotForTwoPaths (paths are newest-first; the tree root is last) ---- *)

Fixpoint drop_to (x : N) (l : list N) : option (list N) :=
  match l with
  | [] => None
  | a :: r => if N.eqb a x then Some l else drop_to x r
  end.

Fixpoint find_start (ro rt : list N) : option (list N * list N) :=
  match ro with
  | [] => None
  | a :: r => match drop_to a rt with
              | Some rt' => Some (ro, rt')
              | None => find_start r rt
              end
  end.

Fixpoint common_walk (lst : N) (ro rt : list N) : N :=
  match ro, rt with
  | a :: r1, b :: r2 => if N.eqb a b then common_walk a r1 r2 else lst
  | _, _ => lst
  end.

Definition common_snapshot (ourPath theirPath : list N) : option N :=
  match find_start (rev ourPath) (rev theirPath) with
  | None => None
  | Some (ro, rt) => Some (common_walk 0%N ro rt)
  end.

(* ---- object tree: in-memory tree + storage ---- *)

Record otree := mkOT {
  o_tree   : tree;
  o_stored : list change;   (* everything in storage (a set; newest first) *)
  o_root0  : N;             (* storage.Id(): the tree's root change *)
  o_common : N              (* CommonSnapshot in the heads entry *)
}.

Definition stored_seq (o : otree) : list N := order (o_stored o) (o_root0 o).

(* SnapshotPath(): from the in-memory root along SnapshotId through storage *)
Fixpoint path_loop (fuel : nat) (S : list change) (i : N) : option (list N) :=
  if N.eqb i 0%N then Some []
  else match fuel with
       | O => None
       | S f => match find_change S i with
                | None => None
                | Some c => option_map (cons i) (path_loop f S (csnap c))
                end
       end.

Definition snapshot_path (o : otree) : option (list N) :=
  path_loop (S (length (o_stored o))) (o_stored o) (t_root (o_tree o)).

Fixpoint find_all (S : list change) (l : list N) : list change :=
  match l with
  | [] => []
  | i :: r => match find_change S i with Some c => c :: find_all S r | None => find_all S r end
  end.

(* stored changes with order >= order(snap), in stored order *)
Definition stored_from (o : otree) (snap : N) : list change :=
  match drop_to snap (stored_seq o) with
  | None => []
  | Some l => find_all (o_stored o) l
  end.

Fixpoint dedup_changes (cs : list change) (seen : list N) : list change :=
  match cs with
  | [] => []
  | c :: r => if mem (cid c) seen then dedup_changes r seen else c :: dedup_changes r (cid c :: seen)
  end.


(* BuildTestableTree / rebuildFromStorage(nil,nil,nil): load from the stored common snapshot *)
Definition reopen (o : otree) : otree :=
  let '(t, _) := tree_add_fast empty_tree (stored_from o (o_common o)) in
  mkOT (set_dirty t false) (o_stored o) (o_root0 o) (o_common o).

Inductive add_res := AddErr | AddOk (m : mode) (heads : list N).

Definition same_set (a b : list N) : bool := list_eqb (isort a) (isort b).

(* snapshotNotInTree over newChangesBuf: None = ErrHasInvalidChanges, Some b = shouldRebuildFromStorage *)
Fixpoint need_rebuild (t : tree) (newsnaps : list N) (cs : list change) : option bool :=
  match cs with
  | [] => Some false
  | c :: r =>
      if N.eqb (csnap c) (t_root t) then need_rebuild t newsnaps r
      else
        match find_change (t_att t) (csnap c) with
        | Some sn => if cissnap sn
                     then (if mem (csnap c) newsnaps then need_rebuild t newsnaps r else Some true)
                     else None
        | None => if mem (csnap c) newsnaps then need_rebuild t newsnaps r else Some true
        end
  end.

(* the tail of AddRawChangesWithUpdater: reduce, Rebuild if the old last head is gone, AddAll *)
Definition finish_add (o : otree) (t : tree) (lastHead : N) (m : mode) (added : list N) (newcs : list change)
  : otree * add_res :=
  let '(t', _) := reduce_tree t in
  let m' := if attached t' lastHead then m else Rebuild in
  let addedcs := find_all newcs added in
  (mkOT t' (addedcs ++ o_stored o) (o_root0 o) (t_root t'), AddOk m' (t_heads t)).

(* AddRawChanges(payload{NewHeads (non-nil), RawChanges = batch, SnapshotPath = theirPath (non-empty)}) *)
Definition ot_add_raw (o : otree) (batch : list change) (theirPath : list N) : otree * add_res :=
  let t := o_tree o in
  let lastHead := t_last t in
  let newcs := filter (fun c => negb (attached t (cid c))) batch in
  match newcs with
  | [] => finish_add o t lastHead Nothing [] []
  | _ =>
      let newsnaps := ids (filter cissnap newcs) in
      match need_rebuild t newsnaps newcs with
      | None => (o, AddErr)
      | Some false =>
          let '(t1, m, added) := tree_add t newcs in
          finish_add o t1 lastHead m added newcs
      | Some true =>
          match snapshot_path o with
          | None => (reopen o, AddErr)
          | Some ourPath =>
              match common_snapshot ourPath theirPath with
              | None => (reopen o, AddErr)
              | Some snap =>
                  let old := stored_from o snap in
                  let fresh := filter (fun c => negb (mem (cid c) (ids old))) (dedup_changes newcs []) in
                  match old with
                  | [] => (reopen o, AddErr)
                  | _ =>
                      let '(t1, added0) := tree_add_fast empty_tree (old ++ fresh) in
                      let added := filter (fun i => mem i (ids fresh)) added0 in
                      let t2 :=
                        if same_set (t_heads t) (t_heads t1) && attached t1 (t_root t)
                           && negb (N.eqb (t_root t1) (t_root t))
                        then match find_change (t_att t1) (t_root t) with
                             | Some rc => make_root t1 rc
                             | None => t1
                             end
                        else t1 in
                      finish_add o (set_dirty t2 false) lastHead Rebuild added fresh
                  end
              end
          end
      end
  end.

(* a fresh object tree over a new storage holding only the root change *)
Definition ot_init (root : change) : otree :=
  reopen (mkOT empty_tree [root] (cid root) (cid root)).

(* ------------------------------------------------------------------------------------------------
   Observed histories and the property predicate spec_C06 (applied to what the IMPLEMENTATION presented;
   it uses only the DAG, list helpers of Lib/Dag.v and the declarative [heads_of] — none of the
   tree / DFS functions above). *)

Inductive step :=
| SAdd     (batch : list N) (m : mode) (heads iter : list N)                 (* Tree.Add *)
| SAddFast (batch : list N) (heads iter : list N)                            (* Tree.AddFast *)
| SRaw     (batch path : list N) (ok : bool) (m : mode) (heads iter stored : list N)   (* ObjectTree.AddRawChanges *)
| SReopen  (ok : bool) (heads iter stored : list N).                         (* new storage object + BuildTestableTree *)

Record obs := mkObs {
  ob_mode   : option mode;          (* Some for Add / AddRawChanges that returned without error *)
  ob_heads  : list N;
  ob_iter   : list N;               (* IterateRoot / IterateSkip(root) *)
  ob_stored : option (list N)       (* Storage.GetAfterOrder("") *)
}.

Definition obs_of (s : step) : obs :=
  match s with
  | SAdd _ m hs it => mkObs (Some m) hs it None
  | SAddFast _ hs it => mkObs None hs it None
  | SRaw _ _ ok m hs it st => mkObs (if ok then Some m else None) hs it (Some st)
  | SReopen _ hs it st => mkObs None hs it (Some st)
  end.

Definition restrict (keep l : list N) : list N := filter (fun i => mem i keep) l.

(* one presented sequence is well formed w.r.t. the DAG: no repeats, known changes only, every change
   after all of its previous changes that are in the view, and the announced heads are the childless ones *)
Definition seq_ok (G : list change) (l : list N) : bool :=
  nodup_b l && subset_b l (ids G) && topo_b G l.

Definition obs_ok (G : list change) (o : obs) : bool :=
  seq_ok G (ob_iter o)
  && list_eqb (ob_heads o) (heads_of (find_all G (ob_iter o)))
  && match ob_stored o with
     | None => true
     | Some st => seq_ok G st && list_eqb (ob_iter o) (restrict (ob_iter o) st)   (* the view is the stored order restricted *)
     end.

(* along one history: Append => the previously presented sequence is a prefix of the new one; growing a view
   never reorders what was there; storage never reorders *)
Fixpoint hist_ok (prev : obs) (h : list obs) : bool :=
  match h with
  | [] => true
  | o :: r =>
      match ob_mode o with
      | Some Append => is_prefix (ob_iter prev) (ob_iter o)
      | _ => true
      end
      && (if subset_b (ob_iter prev) (ob_iter o)
          then list_eqb (ob_iter prev) (restrict (ob_iter prev) (ob_iter o)) else true)
      && match ob_stored prev, ob_stored o with
         | Some a, Some b => list_eqb a (restrict a b)
         | _, _ => true
         end
      && hist_ok o r
  end.

(* the order is a function of the set: any two presented (stored) sequences over the same set are equal *)
Fixpoint fun_of_set (keyed : list (list N * list N)) : bool :=
  match keyed with
  | [] => true
  | (k, l) :: r => forallb (fun kl => negb (list_eqb k (fst kl)) || list_eqb l (snd kl)) r && fun_of_set r
  end.

Definition keyed_of (l : list (list N)) : list (list N * list N) := map (fun s => (isort s, s)) l.

Fixpoint stored_list (os : list obs) : list (list N) :=
  match os with
  | [] => []
  | o :: r => match ob_stored o with Some s => s :: stored_list r | None => stored_list r end
  end.

Definition spec_C06 (G : list change) (hists : list (list step)) : bool :=
  let hs := map (map obs_of) hists in
  let all := concat hs in
  forallb (obs_ok G) all
  && forallb (hist_ok (mkObs None [] [] None)) hs
  && fun_of_set (keyed_of (map ob_iter all))
  && fun_of_set (keyed_of (stored_list all)).
