(* Model of commonspace/headsync/diffmanager.go (DiffManager.FillDiff at start-up, DiffManager.UpdateHeads live)
   over the head storage entries of commonspace/headsync/headstorage/headstorage.go — the layer above app/ldiff
   for property C08.  Definitions only; proofs are in Proofs/HeadIndex*.v.

   What is mirrored
     HeadsEntry{Id, Heads, CommonSnapshot, IsDerived, DeletedStatus}      [entry]
       - CommonSnapshot only matters through  CommonSnapshot != ""         [e_cs : bool]
       - the "d" key of the stored document is optional: IterateEntries(IterOpts{}) selects the documents in which
         the key is ABSENT, while entryFromVal reads an absent key as 0 = DeletedStatusNotDeleted.  So the model
         keeps the key as [option N]                                       [e_del]
     headStorage.UpdateEntry: upsert by id, then OnUpdate(resulting entry) to every observer  [put / EvUpd]
     DiffManager.FillDiff     [included_fill, fill_elems, fill_ops, fill_index]
     DiffManager.UpdateHeads  [live_action, wstep]: the order of its tests is the order of the code
     StateStorage().SetHash(diff.Hash()) after FillDiff and after every update that is not ignored   [w_hash]
     deletionstate: Exists(id) = id is in the in-memory queued/deleted sets; rebuilt from the entries that carry
       a deletion mark when the space is started                           [w_ds, ds_of]

   Idealisations: ids and head ids are numbers (the harness ranks the strings of a case, an id and a head that are
   the same string get the same number); [H id] is the xxhash64 of the id, [HD heads] stands for
   hasher.HashId(concatStrings(heads)) — both are arbitrary functions in the theorems, tables in the runner.
   The ldiff index underneath is Model/Ldiff.v unchanged. *)
From Coq Require Import List NArith Bool.
Import ListNotations.
From AnySync Require Import Model.Ldiff.
Open Scope N_scope.

Record entry := mkEntry {
  e_id : N;
  e_heads : list N;
  e_cs : bool;              (* CommonSnapshot != "" *)
  e_derived : bool;         (* IsDerived *)
  e_del : option N          (* the "d" key of the document: None = absent *)
}.

(* the head storage: a finite map id -> entry, kept as a list with one entry per id *)
Definition store := list entry.

Definition lookup (id : N) (s : store) : option entry := find (fun e => e_id e =? id) s.

(* UpsertId: the document of this id is replaced by the resulting entry *)
Definition put (u : entry) (s : store) : store := u :: filter (fun e => negb (e_id e =? e_id u)) s.

Fixpoint uniq_nb (l : list N) : bool :=
  match l with [] => true | x :: r => negb (existsb (N.eqb x) r) && uniq_nb r end.
Definition store_okb (s : store) : bool := uniq_nb (map e_id s).

(* entryFromVal: DeletedStatus(val.GetInt("d")) *)
Definition del_status (e : entry) : N := match e_del e with Some d => d | None => 0 end.

(* ------------------------------------------------------------------ FillDiff *)

(* IterateEntries(ctx, IterOpts{}, ...): query.Key{"d", Not{Exists{}}} *)
Definition fill_visible (e : entry) : bool := match e_del e with None => true | Some _ => false end.

(* len(entry.Heads) > 0 && entry.Heads[0] == entry.Id *)
Definition first_is_id (e : entry) : bool := match e_heads e with h :: _ => h =? e_id e | [] => false end.

(* ... && (entry.IsDerived || entry.CommonSnapshot != "")  => skipped *)
Definition fill_skips (e : entry) : bool := first_is_id e && (e_derived e || e_cs e).

Definition included_fill (e : entry) : bool := fill_visible e && negb (fill_skips e).

Section Digests.
  Variable H : N -> N.            (* xxhash64 of an id *)
  Variable HD : list N -> N.      (* hasher.HashId(concatStrings(heads)) *)

  (* ldiff.Element{Id: entry.Id, Head: hasher.HashId(concatStrings(entry.Heads))} *)
  Definition elem_of (e : entry) : elem := mkElem (H (e_id e)) (e_id e) (HD (e_heads e)).

  Definition fill_elems (s : store) : list elem := map elem_of (filter included_fill s).

  (* if len(els) > 0 { dm.diff.Set(els...) } *)
  Definition fill_ops (s : store) : list op := match fill_elems s with [] => [] | els => [OSet els] end.

  (* ---------------------------------------------------------------- UpdateHeads *)

  Definition mem (id : N) (l : list N) : bool := existsb (N.eqb id) l.

  (* len(update.Heads) == 1 && update.Heads[0] == update.Id *)
  Definition root_only (u : entry) : bool := match e_heads u with [h] => h =? e_id u | _ => false end.

  Inductive live_act := LRemove (id : N) | LIgnore | LSet.

  Definition live_action (ds : list N) (u : entry) : live_act :=
    if negb (del_status u =? 0) then LRemove (e_id u)       (* update.DeletedStatus != NotDeleted *)
    else if mem (e_id u) ds then LIgnore                    (* dm.deletionState.Exists(update.Id) *)
    else if root_only u then LIgnore                        (* live updates never add empty roots *)
    else LSet.

  Definition included_live (ds : list N) (u : entry) : bool :=
    match live_action ds u with LSet => true | _ => false end.

  Definition live_ops (ds : list N) (u : entry) : list op :=
    match live_action ds u with
    | LRemove id => [ORemove id]
    | LIgnore => []
    | LSet => [OSet [elem_of u]]
    end.

  (* ---------------------------------------------------------------- the running space *)

  Inductive event :=
  | EvUpd (u : entry)                (* UpdateEntry whose resulting entry is [u]: stored, then delivered to UpdateHeads *)
  | EvDs (id : N)                    (* the deletion state records id (queued or deleted) *)
  | EvRestart (silent : list entry). (* process restart: [silent] = entries written during start-up before the
                                        DiffManager observes (deletionstate.Run queueing orphans); then
                                        deletionstate.Run, ldiff.New, FillDiff *)

  (* the part of the state that does not depend on the index: the head storage and the deletion state *)
  Record istate := mkI { i_store : store; i_ds : list N }.

  (* deletionstate.Run: IterateEntries(IterOpts{Deleted: true}) = "d" >= 1 *)
  Definition ds_of (s : store) : list N := map e_id (filter (fun e => 1 <=? del_status e) s).

  Definition put_all (l : list entry) (s : store) : store := fold_left (fun acc u => put u acc) l s.

  Definition istep (i : istate) (ev : event) : istate :=
    match ev with
    | EvUpd u => mkI (put u (i_store i)) (i_ds i)
    | EvDs id => mkI (i_store i) (id :: i_ds i)
    | EvRestart sil => let s := put_all sil (i_store i) in mkI s (ds_of s)
    end.

  Definition istart (s0 : store) : istate := mkI s0 (ds_of s0).

  Section Params.
    Variables (df th : N).

    (* a DiffManager over a fresh ldiff after FillDiff *)
    Definition fill_index (s : store) : index := run_ops df th (fill_ops s).

    (* [w_ops]: ghost — the operations applied to the current ldiff since ldiff.New *)
    Record world := mkW { w_i : istate; w_ix : index; w_hash : digest; w_ops : list op }.

    Definition w_store (w : world) := i_store (w_i w).
    Definition w_ds (w : world) := i_ds (w_i w).

    Definition wfill (i : istate) : world :=
      let ix := fill_index (i_store i) in mkW i ix (top_hash ix) (fill_ops (i_store i)).

    Definition wstart (s0 : store) : world := wfill (istart s0).

    Definition wstep (w : world) (ev : event) : world :=
      let i' := istep (w_i w) ev in
      match ev with
      | EvUpd u =>
          match live_action (w_ds w) u with
          | LRemove id =>                                   (* _ = dm.diff.RemoveId(update.Id); SetHash *)
              let ix' := fst (remove_id df th (w_ix w) id) in
              mkW i' ix' (top_hash ix') (w_ops w ++ [ORemove id])
          | LIgnore => mkW i' (w_ix w) (w_hash w) (w_ops w)  (* return before SetHash *)
          | LSet =>                                          (* dm.diff.Set(el); SetHash *)
              let ix' := set_many df th (w_ix w) [elem_of u] in
              mkW i' ix' (top_hash ix') (w_ops w ++ [OSet [elem_of u]])
          end
      | EvDs _ => mkW i' (w_ix w) (w_hash w) (w_ops w)
      | EvRestart _ => wfill i'
      end.

    Definition wrun (w : world) (evs : list event) : world := fold_left wstep evs w.
  End Params.

  Definition irun (i : istate) (evs : list event) : istate := fold_left istep evs i.

  (* ---------------------------------------------------------------- the well-formedness condition *)

  (* what FillDiff makes of an entry: nothing, or an element with these heads *)
  Definition contrib (e : entry) : option (list N) := if included_fill e then Some (e_heads e) else None.
  Definition contrib_of (s : store) (id : N) : option (list N) :=
    match lookup id s with Some e => contrib e | None => None end.

  Fixpoint nl_eqb (a b : list N) : bool :=
    match a, b with [], [] => true | x :: r, y :: t => (x =? y) && nl_eqb r t | _, _ => false end.
  Definition ocontrib_eqb (a b : option (list N)) : bool :=
    match a, b with None, None => true | Some x, Some y => nl_eqb x y | _, _ => false end.

  (* EXACT per-update condition (the weakest one that keeps live == restart):
       an update that the live side turns into Set must be one that FillDiff includes;
       an update that the live side ignores must leave FillDiff's view of that id unchanged. *)
  Definition update_ok (i : istate) (u : entry) : bool :=
    match live_action (i_ds i) u with
    | LRemove _ => true
    | LSet => included_fill u
    | LIgnore => ocontrib_eqb (contrib u) (contrib_of (i_store i) (e_id u))
    end.

  (* READABLE sufficient condition on an update (what the code paths of the repository guarantee):
       W1  the "d" key is only ever written with a non-zero status;
       W2  an id known to the deletion state keeps its deletion mark;
       W3  the id of the entry occurs among its heads only alone (heads = [id]);
       W4  a root-only entry (heads = [id]) written while a DiffManager is live either is derived / has a
           CommonSnapshot and the id contributed nothing before (creation of a tree), or does not change what
           FillDiff makes of the id (the ACL entry, which is root-only WITHOUT CommonSnapshot, is only written by
           space creation, before any DiffManager exists). *)
  Definition update_wf (i : istate) (u : entry) : bool :=
    match e_del u with
    | Some d => negb (d =? 0)                                                     (* W1 *)
    | None =>
        negb (mem (e_id u) (i_ds i))                                              (* W2 *)
        && (if root_only u
            then ocontrib_eqb (contrib u) (contrib_of (i_store i) (e_id u))       (* W4 *)
            else negb (first_is_id u))                                            (* W3 *)
    end.

  Definition event_ok (i : istate) (ev : event) : bool :=
    match ev with
    | EvUpd u => update_ok i u
    | EvDs _ => true
    | EvRestart sil => true
    end.

  Definition event_wf (i : istate) (ev : event) : bool :=
    match ev with EvUpd u => update_wf i u | _ => true end.

  Fixpoint hist_ok (i : istate) (evs : list event) : bool :=
    match evs with [] => true | ev :: r => event_ok i ev && hist_ok (istep i ev) r end.

  Fixpoint hist_wf (i : istate) (evs : list event) : bool :=
    match evs with [] => true | ev :: r => event_wf i ev && hist_wf (istep i ev) r end.
End Digests.

(* ------------------------------------------------------------------ spec_C08 at this level, over OBSERVED values *)
(* at a restart point: the hash of the live index, the hash of the index a second DiffManager builds with FillDiff
   over the same storage, and the hash read back from StateStorage are the same; so are the ids *)
Definition spec_C08_restart (live_hash restarted_hash stored_hash : N) (live_ids restarted_ids : list N) : bool :=
  (live_hash =? restarted_hash) && (live_hash =? stored_hash) && same_ids live_ids restarted_ids.
