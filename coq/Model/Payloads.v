(* Model of commonspace/spacepayloads/payloads.go (property C13).
   Definitions only; proofs are in Proofs/PayloadsProofs.v.

   Two layers.

   (1) VIEW layer, generic in the type [A] of atoms (byte strings / strings / keys, compared by [eqb]):
       what the validators see of a delivered payload after decoding — ids, raw bytes, the result of each
       unmarshal step, and one flag per hash/signature primitive.  [validate_header], [validate_acl],
       [validate_settings], [validate_create] mirror ValidateSpaceHeader, validateCreateSpaceAclPayload,
       validateCreateSpaceSettingsPayload and ValidateSpaceStorageCreatePayload check by check, in the
       code's order, with the code's error classes.  The harness instantiates A := N (it interns byte
       strings) and fills the flags by calling the primitives (cidutil, PubKey.Verify, the vtproto
       decoders) directly.

   (2) TERM layer: a free term algebra [tm] (symbolic cryptography, DESIGN §1.3).  A delivered payload is six
       terms; [view_of] decodes it structurally into a view over A := tm; the constructors
       (create/derive v0/v1, one-to-one) build payload terms the way the Go constructors do. *)
From Coq Require Import List NArith Bool.
Import ListNotations.

(* error classes of the validators (observables of the property) *)
Inductive verdict :=
| VOk
| VErrHeader      (* spacestorage.ErrIncorrectSpaceHeader *)
| VErrCid         (* objecttree.ErrIncorrectCid *)
| VErrParse       (* any unmarshal / key decoding error *)
| VErrIdentity    (* spacepayloads.ErrIncorrectIdentity *)
| VErrOto.        (* spacepayloads.ErrIncorrectOneToOnePayload *)

Definition verdict_eqb (a b : verdict) : bool :=
  match a, b with
  | VOk, VOk | VErrHeader, VErrHeader | VErrCid, VErrCid | VErrParse, VErrParse
  | VErrIdentity, VErrIdentity | VErrOto, VErrOto => true
  | _, _ => false
  end.

Definition is_ok (v : verdict) : bool := match v with VOk => true | _ => false end.

(* ------------------------------------------------------------------------------------------------ *)
(* (1) VIEW layer                                                                                     *)
(* ------------------------------------------------------------------------------------------------ *)
Section View.
  Variable A : Type.
  Variable eqb : A -> A -> bool.

  (* decoded spacesyncproto.SpaceHeader *)
  Record hdr := mkHdr {
    hd_ident     : option A;  (* Some k: header.Identity decodes to the Ed25519 public key k *)
    hd_sig_ok    : bool;      (* k.Verify(raw.SpaceHeader, raw.Signature) *)
    hd_repkey36  : A;         (* strconv.FormatUint(header.ReplicationKey, 36) *)
    hd_v1        : bool;      (* header.Version == SpaceHeaderVersion1 *)
    hd_acl       : A;         (* header.AclPayload *)
    hd_settings  : A;         (* header.SettingPayload *)
    hd_oto_type  : bool;      (* IsOneToOneType(header.SpaceType) *)
    hd_oto_parse : bool       (* AclOneToOneInfo.UnmarshalVT(header.SpaceHeaderPayload) == nil *)
  }.

  (* spacesyncproto.RawSpaceHeaderWithId *)
  Record hpart := mkHPart {
    hp_id      : A;                          (* the whole id string *)
    hp_split   : option (A * A);             (* Some (id[:i], id[i+1:]) for the first '.', None: no '.' *)
    hp_raw     : A;                          (* RawHeader bytes *)
    hp_raw_cid : A;                          (* the CID string of RawHeader, computed by the primitive *)
    hp_parse   : option (option hdr)         (* None: RawSpaceHeader does not unmarshal;
                                                Some None: SpaceHeader does not unmarshal *)
  }.

  (* decoded aclrecordproto.AclRoot inside consensusproto.RawRecord *)
  Record aclroot := mkAclRoot {
    ar_ident    : option A;   (* aclRoot.Identity decodes to key *)
    ar_sig_ok   : bool;       (* identity.Verify(rawAcl.Payload, rawAcl.Signature) *)
    ar_master   : option A;   (* aclRoot.MasterKey decodes to key *)
    ar_idsig_ok : bool;       (* master.Verify(identity.Raw(), aclRoot.IdentitySignature) *)
    ar_space    : A           (* aclRoot.SpaceId *)
  }.

  Record apart := mkAPart {
    ap_id    : A;
    ap_nil   : bool;                    (* Payload == nil (Go nil slice) *)
    ap_raw   : A;                       (* Payload bytes *)
    ap_cid   : A;                       (* CID string of Payload *)
    ap_parse : option (option aclroot)
  }.

  (* decoded treechangeproto.RootChange inside RawTreeChange *)
  Record sroot := mkSRoot {
    sr_ident   : option A;
    sr_sig_ok  : bool;
    sr_space   : A;           (* rootChange.SpaceId *)
    sr_aclhead : A            (* rootChange.AclHeadId *)
  }.

  Record spart := mkSPart {
    sp_id    : A;
    sp_nil   : bool;
    sp_raw   : A;
    sp_cid   : A;
    sp_parse : option (option sroot)
  }.

  (* spacestorage.SpaceStorageCreatePayload; None = nil pointer *)
  Record payload := mkPayload {
    p_hdr : option hpart;
    p_acl : option apart;
    p_set : option spart
  }.

  Definition opt_neq (arg : option A) (x : A) : bool :=
    match arg with Some a => negb (eqb a x) | None => false end.

  (* ValidateSpaceHeader(rawHeaderWithId, identity, aclPayload, settingsPayload) -> (needCheckSpaceId, err).
     [acl_arg]/[set_arg] = None models a nil slice argument. *)
  Definition validate_header (h : option hpart) (identity : option A) (acl_arg set_arg : option A)
    : verdict * bool :=
    match h with
    | None => (VErrHeader, false)                                   (* rawHeaderWithId == nil *)
    | Some h =>
      match hp_split h with
      | None => (VErrHeader, false)                                 (* no '.' in the id *)
      | Some (pre, suf) =>
        if negb (eqb (hp_raw_cid h) pre) then (VErrCid, false)      (* VerifyCid(RawHeader, id[:sep]) *)
        else match hp_parse h with
        | None => (VErrParse, false)
        | Some None => (VErrParse, false)
        | Some (Some d) =>
          match hd_ident d with
          | None => (VErrParse, false)
          | Some k =>
            if negb (hd_sig_ok d) then (VErrHeader, false)
            else if negb (eqb suf (hd_repkey36 d)) then (VErrHeader, false)
            else
              let need := negb (hd_v1 d) in
              if hd_v1 d && opt_neq acl_arg (hd_acl d) then (VErrHeader, false)
              else if hd_v1 d && opt_neq set_arg (hd_settings d) then (VErrHeader, false)
              else if hd_oto_type d then
                (if hd_oto_parse d then (VOk, need) else (VErrOto, false))
              else if opt_neq identity k then (VErrIdentity, false)
              else (VOk, need)
          end
        end
      end
    end.

  (* validateCreateSpaceAclPayload -> (spaceId, err) *)
  Definition validate_acl (a : apart) : verdict * option A :=
    if negb (eqb (ap_cid a) (ap_id a)) then (VErrCid, None)
    else match ap_parse a with
    | None => (VErrParse, None)
    | Some None => (VErrParse, None)
    | Some (Some r) =>
      match ar_ident r with
      | None => (VErrParse, None)
      | Some _ =>
        if negb (ar_sig_ok r) then (VErrHeader, None)
        else match ar_master r with
        | None => (VErrParse, None)
        | Some _ =>
          if negb (ar_idsig_ok r) then (VErrHeader, None)
          else (VOk, Some (ar_space r))
        end
      end
    end.

  (* validateCreateSpaceSettingsPayload -> (aclHeadId, spaceId, err) *)
  Definition validate_settings (s : spart) : verdict * option (A * A) :=
    if negb (eqb (sp_cid s) (sp_id s)) then (VErrHeader, None)
    else match sp_parse s with
    | None => (VErrParse, None)
    | Some None => (VErrParse, None)
    | Some (Some r) =>
      match sr_ident r with
      | None => (VErrParse, None)
      | Some _ =>
        if negb (sr_sig_ok r) then (VErrHeader, None)
        else (VOk, Some (sr_aclhead r, sr_space r))
      end
    end.

  Definition arg_of (nil : bool) (x : A) : option A := if nil then None else Some x.

  (* ValidateSpaceStorageCreatePayload.  A nil AclWithId / SpaceSettingsWithId is dereferenced by the code
     before anything else (a panic); the model describes the repaired behaviour (fixes/C13-nil-parts.patch):
     ErrIncorrectSpaceHeader. *)
  Definition validate_create (p : payload) : verdict :=
    match p_acl p, p_set p with
    | Some a, Some s =>
      match validate_header (p_hdr p) None (arg_of (ap_nil a) (ap_raw a)) (arg_of (sp_nil s) (sp_raw s)) with
      | (VOk, need) =>
        match validate_acl a with
        | (VOk, Some acl_space) =>
          match validate_settings s with
          | (VOk, Some (aclhead, set_space)) =>
            let hid := match p_hdr p with Some h => hp_id h | None => acl_space end in
            if need && (negb (eqb acl_space hid) || negb (eqb acl_space set_space)) then VErrHeader
            else if negb (eqb aclhead (ap_id a)) then VErrHeader
            else VOk
          | (VOk, None) => VErrHeader
          | (e, _) => e
          end
        | (VOk, None) => VErrHeader
        | (e, _) => e
        end
      | (e, _) => e
      end
    | _, _ => VErrHeader
    end.

  (* ---- declarative binding conditions (used by spec_C13; does not call the validators) ---- *)

  Definition hdr_of (h : hpart) : option hdr :=
    match hp_parse h with Some (Some d) => Some d | _ => None end.
  Definition acl_of (a : apart) : option aclroot :=
    match ap_parse a with Some (Some r) => Some r | _ => None end.
  Definition set_of (s : spart) : option sroot :=
    match sp_parse s with Some (Some r) => Some r | _ => None end.
  Definition is_some {T} (o : option T) : bool := match o with Some _ => true | None => false end.

  (* the header part alone: id = cid(raw) "." base36(replication key), signed by the identity inside *)
  Definition header_bound (h : hpart) : bool :=
    match hp_split h, hdr_of h with
    | Some (pre, suf), Some d =>
        eqb (hp_raw_cid h) pre && is_some (hd_ident d) && hd_sig_ok d && eqb suf (hd_repkey36 d)
        && (negb (hd_oto_type d) || hd_oto_parse d)
    | _, _ => false
    end.

  (* the whole create payload: every hash and signature verifies, all parts name one space,
     (v1) the header embeds exactly the delivered roots, the settings root cites the ACL root *)
  Definition binding (p : payload) : bool :=
    match p_hdr p, p_acl p, p_set p with
    | Some h, Some a, Some s =>
      match hdr_of h, acl_of a, set_of s with
      | Some d, Some r, Some t =>
        header_bound h
        && eqb (ap_cid a) (ap_id a) && is_some (ar_ident r) && ar_sig_ok r
        && is_some (ar_master r) && ar_idsig_ok r
        && eqb (sp_cid s) (sp_id s) && is_some (sr_ident t) && sr_sig_ok t
        && (if hd_v1 d
            then (ap_nil a || eqb (ap_raw a) (hd_acl d)) && (sp_nil s || eqb (sp_raw s) (hd_settings d))
            else eqb (ar_space r) (hp_id h) && eqb (ar_space r) (sr_space t))
        && eqb (sr_aclhead t) (ap_id a)
      | _, _, _ => false
      end
    | _, _, _ => false
    end.

  (* observed behaviour of ValidateSpaceStorageCreatePayload on a payload;
     [pristine] = the payload is the unmodified output of a constructor *)
  Definition spec_C13_create (p : payload) (pristine : bool) (observed : verdict) : bool :=
    (negb (is_ok observed) || binding p) && (negb pristine || is_ok observed).

  (* observed behaviour of ValidateSpaceHeader: accepted => header bound, v1 args equal the embedded roots,
     identity argument equals the header's (non one-to-one) *)
  Definition spec_C13_header (h : option hpart) (identity acl_arg set_arg : option A) (pristine : bool)
             (observed : verdict) (need : bool) : bool :=
    (negb (is_ok observed) ||
       match h with
       | Some h =>
         header_bound h &&
         match hdr_of h with
         | Some d =>
             Bool.eqb need (negb (hd_v1 d))
             && (negb (hd_v1 d) || (negb (opt_neq acl_arg (hd_acl d)) && negb (opt_neq set_arg (hd_settings d))))
             && (hd_oto_type d || match hd_ident d with Some k => negb (opt_neq identity k) | None => false end)
         | None => false
         end
       | None => false
       end)
    && (negb pristine || is_ok observed).
End View.

Arguments mkHdr {A}. Arguments mkHPart {A}. Arguments mkAclRoot {A}. Arguments mkAPart {A}.
Arguments mkSRoot {A}. Arguments mkSPart {A}. Arguments mkPayload {A}.
Arguments hd_ident {A}. Arguments hd_sig_ok {A}. Arguments hd_repkey36 {A}. Arguments hd_v1 {A}.
Arguments hd_acl {A}. Arguments hd_settings {A}. Arguments hd_oto_type {A}. Arguments hd_oto_parse {A}.
Arguments hp_id {A}. Arguments hp_split {A}. Arguments hp_raw {A}. Arguments hp_raw_cid {A}. Arguments hp_parse {A}.
Arguments ar_ident {A}. Arguments ar_sig_ok {A}. Arguments ar_master {A}. Arguments ar_idsig_ok {A}. Arguments ar_space {A}.
Arguments ap_id {A}. Arguments ap_nil {A}. Arguments ap_raw {A}. Arguments ap_cid {A}. Arguments ap_parse {A}.
Arguments sr_ident {A}. Arguments sr_sig_ok {A}. Arguments sr_space {A}. Arguments sr_aclhead {A}.
Arguments sp_id {A}. Arguments sp_nil {A}. Arguments sp_raw {A}. Arguments sp_cid {A}. Arguments sp_parse {A}.
Arguments p_hdr {A}. Arguments p_acl {A}. Arguments p_set {A}.
Arguments hdr_of {A}. Arguments acl_of {A}. Arguments set_of {A}.

(* ------------------------------------------------------------------------------------------------ *)
(* (2) TERM layer                                                                                     *)
(* ------------------------------------------------------------------------------------------------ *)

(* private keys: atoms, or the key both parties of a one-to-one space derive:
   HKDF(X25519 secret [sh], "joined-identity-v1" ++ lo ++ hi) -> SLIP-21 [path] -> Ed25519 seed *)
Inductive skey :=
| SKAtom (n : N)
| SKShared (sh lo hi path : N).

Definition skey_eqb (a b : skey) : bool :=
  match a, b with
  | SKAtom x, SKAtom y => N.eqb x y
  | SKShared s l h p, SKShared s' l' h' p' => N.eqb s s' && N.eqb l l' && N.eqb h h' && N.eqb p p'
  | _, _ => false
  end.

Inductive tm :=
| TAtom (n : N)                       (* opaque bytes / string; [TAtom 0] is the empty string *)
| TPub (k : skey)                     (* marshalled (cryptoproto.Key) Ed25519 public key of k *)
| TRawPub (k : skey)                  (* raw 32-byte public key of k *)
| TSig (k : skey) (m : tm)            (* Ed25519 signature of m under k *)
| TCid (b : tm)                       (* cidutil.NewCidFromBytes(b) *)
| TB36 (n : N)                        (* strconv.FormatUint(n, 36) *)
| TId (pre suf : tm)                  (* pre ++ "." ++ suf *)
| THeader (ident : tm) (rk stype : N) (pl : tm) (v1 : bool) (acl set : tm) (rest : N)
                                      (* marshalled SpaceHeader; rest = timestamp, seed, fileproto version *)
| TRaw (body sig : tm)                (* marshalled {payload, signature}: RawSpaceHeader / RawRecord / RawTreeChange *)
| TAclRoot (ident master idsig space oto : tm) (rest : N)   (* marshalled AclRoot *)
| TRoot (ident aclhead space : tm) (rest : N)               (* marshalled RootChange *)
| TOto (owner w0 w1 : tm).                                  (* marshalled AclOneToOneInfo *)

Fixpoint tm_eqb (a b : tm) : bool :=
  match a, b with
  | TAtom x, TAtom y => N.eqb x y
  | TPub k, TPub k' => skey_eqb k k'
  | TRawPub k, TRawPub k' => skey_eqb k k'
  | TSig k m, TSig k' m' => skey_eqb k k' && tm_eqb m m'
  | TCid x, TCid y => tm_eqb x y
  | TB36 x, TB36 y => N.eqb x y
  | TId p s, TId p' s' => tm_eqb p p' && tm_eqb s s'
  | THeader i rk st pl v a s r, THeader i' rk' st' pl' v' a' s' r' =>
      tm_eqb i i' && N.eqb rk rk' && N.eqb st st' && tm_eqb pl pl' && Bool.eqb v v'
      && tm_eqb a a' && tm_eqb s s' && N.eqb r r'
  | TRaw p s, TRaw p' s' => tm_eqb p p' && tm_eqb s s'
  | TAclRoot i m g sp o r, TAclRoot i' m' g' sp' o' r' =>
      tm_eqb i i' && tm_eqb m m' && tm_eqb g g' && tm_eqb sp sp' && tm_eqb o o' && N.eqb r r'
  | TRoot i h sp r, TRoot i' h' sp' r' => tm_eqb i i' && tm_eqb h h' && tm_eqb sp sp' && N.eqb r r'
  | TOto o a b, TOto o' a' b' => tm_eqb o o' && tm_eqb a a' && tm_eqb b b'
  | _, _ => false
  end.

Definition tempty : tm := TAtom 0.

(* space types *)
Definition ST_OTO : N := 1.       (* "anytype.onetoone" *)
Definition ST_OTO_ANY : N := 2.   (* "any.onetoone" *)
Definition is_oto_type (st : N) : bool := N.eqb st ST_OTO || N.eqb st ST_OTO_ANY.

(* a delivered create payload: six byte strings / strings *)
Record tpayload := mkT {
  t_id : tm; t_raw : tm;        (* RawSpaceHeaderWithId *)
  t_aclid : tm; t_acl : tm;     (* RawRecordWithId *)
  t_setid : tm; t_set : tm      (* RawTreeChangeWithId *)
}.

Definition pub_of (t : tm) : option skey := match t with TPub k => Some k | _ => None end.

Definition sig_valid (ident : tm) (msg sg : tm) : bool :=
  match ident with TPub k => tm_eqb sg (TSig k msg) | _ => false end.

Definition key_view (t : tm) : option tm := match t with TPub _ => Some t | _ => None end.

(* structural decoding: bytes of the wrong shape do not unmarshal *)
Definition hview_of (id raw : tm) : hpart tm :=
  mkHPart id
    (match id with TId p s => Some (p, s) | _ => None end)
    raw (TCid raw)
    (match raw with
     | TRaw body sg =>
       Some (match body with
             | THeader ident rk st pl v1 acl set _ =>
               Some (mkHdr (key_view ident) (sig_valid ident body sg) (TB36 rk) v1 acl set (is_oto_type st)
                           (match pl with TOto _ _ _ => true | _ => false end))
             | _ => None
             end)
     | _ => None
     end).

Definition aview_of (id raw : tm) : apart tm :=
  mkAPart id false raw (TCid raw)
    (match raw with
     | TRaw body sg =>
       Some (match body with
             | TAclRoot ident master idsig space _ _ =>
               Some (mkAclRoot (key_view ident) (sig_valid ident body sg) (key_view master)
                      (match ident with TPub k => sig_valid master (TRawPub k) idsig | _ => false end)
                      space)
             | _ => None
             end)
     | _ => None
     end).

Definition sview_of (id raw : tm) : spart tm :=
  mkSPart id false raw (TCid raw)
    (match raw with
     | TRaw body sg =>
       Some (match body with
             | TRoot ident aclhead space _ =>
               Some (mkSRoot (key_view ident) (sig_valid ident body sg) space aclhead)
             | _ => None
             end)
     | _ => None
     end).

Definition view_of (p : tpayload) : payload tm :=
  mkPayload (Some (hview_of (t_id p) (t_raw p))) (Some (aview_of (t_aclid p) (t_acl p)))
            (Some (sview_of (t_setid p) (t_set p))).

Definition validate_t (p : tpayload) : verdict := validate_create tm tm_eqb (view_of p).

Definition validate_header_t (id raw : tm) (identity acl_arg set_arg : option tm) : verdict * bool :=
  validate_header tm tm_eqb (Some (hview_of id raw)) identity acl_arg set_arg.

(* ---- constructors ---- *)

Definition sign (k : skey) (body : tm) : tm := TRaw body (TSig k body).

Definition acl_root (sk mk : skey) (space oto : tm) (rest : N) : tm :=
  sign sk (TAclRoot (TPub sk) (TPub mk) (TSig mk (TRawPub sk)) space oto rest).

Definition settings_root (sk : skey) (aclid space : tm) (rest : N) : tm :=
  sign sk (TRoot (TPub sk) aclid space rest).

(* StoragePayloadForSpaceCreate / ...Derive (v0): the roots carry the space id *)
Definition create_v0 (sk mk : skey) (rk st : N) (pl : tm) (hrest arest srest : N) : tpayload :=
  let raw := sign sk (THeader (TPub sk) rk st pl false tempty tempty hrest) in
  let id := TId (TCid raw) (TB36 rk) in
  let acl := acl_root sk mk id tempty arest in
  let set := settings_root sk (TCid acl) id srest in
  mkT id raw (TCid acl) acl (TCid set) set.

(* StoragePayloadForSpaceCreateV1 / ...DeriveV1: the header embeds both roots, the roots carry no space id *)
Definition create_v1 (sk mk : skey) (rk st : N) (pl : tm) (hrest arest srest : N) : tpayload :=
  let acl := acl_root sk mk tempty tempty arest in
  let set := settings_root sk (TCid acl) tempty srest in
  let raw := sign sk (THeader (TPub sk) rk st pl true acl set hrest) in
  mkT (TId (TCid raw) (TB36 rk)) raw (TCid acl) acl (TCid set) set.

Section Derived.
  (* FNV-64 of the raw public key (the derived replication key) *)
  Variable rk_of : skey -> N.

  Definition derive_v0 (sk mk : skey) (st : N) (pl : tm) (frest : N) : tpayload :=
    create_v0 sk mk (rk_of sk) st pl frest 0 0.
  Definition derive_v1 (sk mk : skey) (st : N) (pl : tm) (frest : N) : tpayload :=
    create_v1 sk mk (rk_of sk) st pl frest 0 0.

  (* X25519 and the byte order of marshalled public keys are not logic: Section variables *)
  Variable dh : N -> N -> N.          (* dh a b = X25519(curve(a), curve(pub b)) *)
  Variable kle : N -> N -> bool.      (* bytes.Compare(pub a, pub b) <= 0 *)

  Definition PATH_SPACE : N := 1.     (* crypto.AnysyncOneToOneSpacePath *)

  (* crypto.GenerateSharedKey(a, pub b, path) *)
  Definition shared_key (a b path : N) : skey :=
    if kle a b then SKShared (dh a b) a b path else SKShared (dh a b) b a path.

  (* makeOneToOneInfo: owner = shared public key, writers sorted *)
  Definition oto_info (s : skey) (a b : N) : tm :=
    if kle a b then TOto (TPub s) (TPub (SKAtom a)) (TPub (SKAtom b))
    else TOto (TPub s) (TPub (SKAtom b)) (TPub (SKAtom a)).

  (* StoragePayloadForOneToOneSpaceWithType(a, pub b, st) *)
  Definition one_to_one (a b st : N) : tpayload :=
    let s := shared_key a b PATH_SPACE in
    let info := oto_info s a b in
    let acl := acl_root s s tempty info 0 in
    let set := settings_root s (TCid acl) tempty 0 in
    let raw := sign s (THeader (TPub s) (rk_of s) st info true acl set (if N.eqb st ST_OTO_ANY then 2 else 0)) in
    mkT (TId (TCid raw) (TB36 (rk_of s))) raw (TCid acl) acl (TCid set) set.
End Derived.

Definition tpayload_eqb (p q : tpayload) : bool :=
  tm_eqb (t_id p) (t_id q) && tm_eqb (t_raw p) (t_raw q) && tm_eqb (t_aclid p) (t_aclid q)
  && tm_eqb (t_acl p) (t_acl q) && tm_eqb (t_setid p) (t_setid q) && tm_eqb (t_set p) (t_set q).

(* ---- single-field replacement and splicing ---- *)

Inductive field := FId | FRaw | FAclId | FAcl | FSetId | FSet.

Definition get_field (f : field) (p : tpayload) : tm :=
  match f with
  | FId => t_id p | FRaw => t_raw p | FAclId => t_aclid p | FAcl => t_acl p
  | FSetId => t_setid p | FSet => t_set p
  end.

Definition set_field (f : field) (x : tm) (p : tpayload) : tpayload :=
  match f with
  | FId => mkT x (t_raw p) (t_aclid p) (t_acl p) (t_setid p) (t_set p)
  | FRaw => mkT (t_id p) x (t_aclid p) (t_acl p) (t_setid p) (t_set p)
  | FAclId => mkT (t_id p) (t_raw p) x (t_acl p) (t_setid p) (t_set p)
  | FAcl => mkT (t_id p) (t_raw p) (t_aclid p) x (t_setid p) (t_set p)
  | FSetId => mkT (t_id p) (t_raw p) (t_aclid p) (t_acl p) x (t_set p)
  | FSet => mkT (t_id p) (t_raw p) (t_aclid p) (t_acl p) (t_setid p) x
  end.

(* parts (bytes with their id) taken from p (true) or q (false) *)
Definition mix (ch ca cs : bool) (p q : tpayload) : tpayload :=
  mkT (t_id (if ch then p else q)) (t_raw (if ch then p else q))
      (t_aclid (if ca then p else q)) (t_acl (if ca then p else q))
      (t_setid (if cs then p else q)) (t_set (if cs then p else q)).

(* the decoded pieces of a payload term *)
Definition t_header (p : tpayload) : option (hdr tm) := hdr_of (hview_of (t_id p) (t_raw p)).
Definition t_aclroot (p : tpayload) : option (aclroot tm) := acl_of (aview_of (t_aclid p) (t_acl p)).
Definition t_sroot (p : tpayload) : option (sroot tm) := set_of (sview_of (t_setid p) (t_set p)).

(* constructor-shaped naming: v0 roots name the space, v1 roots name nothing *)
Definition canonical (p : tpayload) : bool :=
  match t_header p, t_aclroot p, t_sroot p with
  | Some d, Some r, Some t =>
      if hd_v1 d then tm_eqb (ar_space r) tempty && tm_eqb (sr_space t) tempty
      else tm_eqb (ar_space r) (t_id p) && tm_eqb (sr_space t) (t_id p)
  | _, _, _ => false
  end.

(* observed outputs of the one-to-one constructor, as per-field equality of (a,B) vs (b,A) and of (a,B) vs (a,C):
   both parties derive byte-identical payloads; a different peer gives a payload differing in every field *)
Definition spec_C13_oto (same_peer : bool) (eq_ab_ba eq_ab_ac : list bool) : bool :=
  forallb (fun b => b) eq_ab_ba
  && (if same_peer then forallb (fun b => b) eq_ab_ac else forallb negb eq_ab_ac).

Definition tp_eqs (p q : tpayload) : list bool :=
  [tm_eqb (t_id p) (t_id q); tm_eqb (t_raw p) (t_raw q); tm_eqb (t_aclid p) (t_aclid q);
   tm_eqb (t_acl p) (t_acl q); tm_eqb (t_setid p) (t_setid q); tm_eqb (t_set p) (t_set q)].

(* ------------------------------------------------------------------------------------------------ *)
(* (3) OVERLAPPING derivations (one process derives several one-to-one spaces / keys at the same time) *)
(* ------------------------------------------------------------------------------------------------ *)

(* crypto.GenerateSharedKey ends in a SLIP-21 chain: node_0 = HMAC("Symmetric key seed", seed),
   node_{i+1} = HMAC(chain code of node_i, 0x00 ++ label_i); the key is read out of the last node.
   slip21.DeriveForPath allocates a fresh Node per step, so every in-flight call owns its node.
   A call is a small-step machine; a schedule (list of call indices) interleaves the steps of several calls.
   [K] = 64-byte node, [L] = label, [S] = seed; HMAC is not logic: [master], [child] are Section variables. *)
Section Derivation.
  Variable K L S : Type.
  Variable master : S -> K.
  Variable child : K -> L -> K.

  (* what one call computes when nothing else runs *)
  Definition derive_seq (seed : S) (labels : list L) : K := fold_left child labels (master seed).

  Record dcall := mkDCall {
    dc_seed : S;
    dc_todo : list L;            (* labels not yet consumed *)
    dc_node : option K;          (* the call's own node; None = master node not computed yet *)
    dc_out : option K            (* the key material copied out at the end *)
  }.

  Definition dcall_init (sl : S * list L) : dcall := mkDCall (fst sl) (snd sl) None None.

  (* one step of one call, node held by the call itself (the code as it is) *)
  Definition step_own (c : dcall) : dcall :=
    match dc_out c with
    | Some _ => c
    | None =>
      match dc_node c with
      | None => mkDCall (dc_seed c) (dc_todo c) (Some (master (dc_seed c))) None
      | Some n =>
        match dc_todo c with
        | l :: r => mkDCall (dc_seed c) r (Some (child n l)) None
        | [] => mkDCall (dc_seed c) [] (Some n) (Some n)
        end
      end
    end.

  Fixpoint upd_nth {X : Type} (i : nat) (f : X -> X) (l : list X) : list X :=
    match l, i with
    | [], _ => []
    | x :: r, O => f x :: r
    | x :: r, Datatypes.S j => x :: upd_nth j f r
    end.

  Definition run_own (sched : list nat) (cs : list dcall) : list dcall :=
    fold_left (fun st i => upd_nth i step_own st) sched cs.

  (* the same calls over ONE node buffer shared by all of them (a process-wide, reusable deriver):
     every step reads the chain code out of the shared buffer and writes its result back into it *)
  Definition step_shared (buf : option K) (c : dcall) : option K * dcall :=
    match dc_out c with
    | Some _ => (buf, c)
    | None =>
      match dc_node c with
      | None => let n := master (dc_seed c) in (Some n, mkDCall (dc_seed c) (dc_todo c) (Some n) None)
      | Some own =>
        let cur := match buf with Some b => b | None => own end in
        match dc_todo c with
        | l :: r => let n := child cur l in (Some n, mkDCall (dc_seed c) r (Some n) None)
        | [] => (buf, mkDCall (dc_seed c) [] (Some cur) (Some cur))
        end
      end
    end.

  Definition run_shared (sched : list nat) (cs : list dcall) : option K * list dcall :=
    fold_left (fun st i =>
                 match nth_error (snd st) i with
                 | Some c => let '(b, c') := step_shared (fst st) c in (b, upd_nth i (fun _ => c') (snd st))
                 | None => st
                 end) sched (None, cs).

  (* number of steps a call needs: master node, one per label, copy-out *)
  Definition steps_of (sl : S * list L) : nat := Datatypes.S (Datatypes.S (length (snd sl))).
End Derivation.

Arguments mkDCall {K L S}. Arguments dc_seed {K L S}. Arguments dc_todo {K L S}.
Arguments dc_node {K L S}. Arguments dc_out {K L S}.

(* observed results of derivations by [a] that OVERLAP in time, each compared field by field with what each contact
   derives on its own: [same] = the result was requested for that contact.  Same contact: every field identical;
   another contact: every field different. *)
Definition spec_C13_conc (pairs : list (bool * list bool)) : bool :=
  forallb (fun sp : bool * list bool =>
             if fst sp then forallb (fun b => b) (snd sp) else forallb negb (snd sp)) pairs.

(* the three derivation paths of crypto: space, read key, metadata key *)
Definition PATH_READ : N := 2.      (* crypto.AnysyncReadOneToOneSpacePath *)
Definition PATH_META : N := 3.      (* crypto.AnysyncMetadataOneToOnePath *)
Definition oto_paths : list N := [PATH_SPACE; PATH_READ; PATH_META].

Definition keys_eqs (dh : N -> N -> N) (kle : N -> N -> bool) (a b a' b' : N) : list bool :=
  map (fun p => skey_eqb (shared_key dh kle a b p) (shared_key dh kle a' b' p)) oto_paths.

(* all (result, contact) pairs: [reqs] = contacts whose results were observed, [contacts] = all contacts *)
Definition conc_pairs (eqs : N -> N -> list bool) (reqs contacts : list N) : list (bool * list bool) :=
  flat_map (fun b => map (fun b' => (N.eqb b b', eqs b b')) contacts) reqs.
