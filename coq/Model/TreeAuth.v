(* Model/TreeAuth.v — authenticity and authorisation of incoming tree changes (property C02).  Definitions only.

   Mirrors
     commonspace/object/tree/objecttree/changebuilder.go        Unmarshall(verify = true)
     commonspace/object/tree/objecttree/objecttreevalidator.go  validateChange / ValidateNewChanges / ValidateFullTree(root)
     commonspace/object/tree/objecttree/objecttree.go           addChangesToTree (normal path) + rollback, AddRawChanges tail
     commonspace/object/tree/objecttree/objecttreefactory.go    buildObjectTree (root validation + verification)
     commonspace/object/acl/list/aclstate.go                    PermissionsAtRecord / closestPermissions
     commonspace/object/acl/list/list.go                        IsAfter / isAfterNoCheck / HasHead
   on top of the ACL state machine of Model/Acl.v (accounts with their PermissionChanges histories).

   Symbolic cryptography (DESIGN §1.3): a delivered raw change carries three validity flags which the harness computes
   with the primitives on the delivered bytes (cidutil.VerifyCid, proto decoding + PubKeyFromProto, PubKey.Verify) and
   the decoded fields.  Section [Symbolic] below gives the term algebra from which the flags derive and in which the
   mutation theorem is stated.

   What is abstracted (and why it is sound for C02's observables):
   * Tree.add / attach with its wait lists is modelled by the round-based closure [settle]: the SET of changes that end
     up attached is the least set closed under "all previous ids attached"; the order in which the code attaches them
     only fixes the order of addedBuf, and ValidateNewChanges is a conjunction over addedBuf evaluated on the final
     attached map, so neither the verdict nor the rollback depends on it (attach order itself is C06's Model/Tree.v).
   * Only trees that were never reduced are modelled: a delivered change whose SnapshotBaseId is not the tree root takes
     the rebuild-from-storage path (or the `remove` branch of canAttachOrRemove); the model answers [RUnmodelled] and the
     harness never generates such a change with valid flags.
   * Error values are projected to two classes: [EUnmarshal] (returned by ChangeBuilder.Unmarshall, nothing touched yet)
     and [EInvalid] (wrapped in ErrHasInvalidChanges: validation failed after attaching, rollback performed). *)
From Coq Require Import List NArith Bool Arith.
Import ListNotations.
From AnySync Require Export Model.Acl.
From AnySync Require Model.Dfs.
Open Scope N_scope.

(* ------------------------------------------------------------------------------------------ ACL queries *)

(* aclList.indexes: record id -> position in the log *)
Fixpoint idx_from (ids : list rid) (r : rid) (k : nat) : option nat :=
  match ids with
  | [] => None
  | x :: rest => if x =? r then Some k else idx_from rest r (S k)
  end.
Definition idx_of (ids : list rid) (r : rid) : option nat := idx_from ids r 0.
(* HasHead *)
Definition has_head (ids : list rid) (r : rid) : bool := memN r ids.
(* a.indexes[id] with Go's zero default *)
Definition idx0 (ids : list rid) (r : rid) : nat := match idx_of ids r with Some k => k | None => O end.
(* isAfterNoCheck(first, second) = indexes[first] >= indexes[second] *)
Definition is_after_nc (ids : list rid) (a b : rid) : bool := Nat.leb (idx0 ids b) (idx0 ids a).
(* IsAfter: error (None) unless both records are known *)
Definition is_after (ids : list rid) (a b : rid) : option bool :=
  if has_head ids a && has_head ids b then Some (is_after_nc ids a b) else None.

(* closestPermissions: walk PermissionChanges backwards, first entry whose record is not after [r] *)
Fixpoint closest_rev (ids : list rid) (rh : list (rid * perm)) (r : rid) : perm :=
  match rh with
  | [] => pNone
  | (r', p) :: rest => if is_after_nc ids r r' then p else closest_rev ids rest r
  end.
Definition closest (ids : list rid) (hist : list (rid * perm)) (r : rid) : perm := closest_rev ids (rev hist) r.

(* the receiver's view of the ACL: record ids in log order (root first) and the derived state *)
Record aclv := mkAclv { av_ids : list rid; av_state : state }.

(* AclState.PermissionsAtRecord: None = ErrNoSuchRecord / ErrNoSuchAccount *)
Definition perm_at (a : aclv) (r : rid) (who : acct) : option perm :=
  if negb (has_head (av_ids a) r) then None
  else match mget who (accounts (av_state a)) with
       | None => None
       | Some x => Some (closest (av_ids a) (a_hist x) r)
       end.

(* AclPermissions.CanWrite *)
Definition can_write (p : perm) : bool := (p =? pAdmin) || (p =? pWriter) || (p =? pOwner).

(* ------------------------------------------------------------------------------------------ raw changes, the tree *)

Record rawchange := mkRC {
  rc_id : N;             (* RawTreeChangeWithId.Id *)
  rc_cid_ok : bool;      (* cidutil.VerifyCid(RawChange, Id) *)
  rc_canon : bool;       (* RawChange is byte-for-byte the encoding of RawTreeChange{Payload, Signature}: no unknown
                            fields, no reordered / repeated fields, no non-minimal varints (REPAIRED behaviour, see
                            fixes/C02-canonical-rawchange.patch; the code before the patch does not look at this) *)
  rc_decodes : bool;     (* RawTreeChange and TreeChange (RootChange for the root id) unmarshal, identity parses *)
  rc_sig_ok : bool;      (* identity.Verify(payload, signature) *)
  rc_prev : list N;      (* TreeHeadIds *)
  rc_snap : N;           (* SnapshotBaseId (0 = "") *)
  rc_issnap : bool;      (* IsSnapshot *)
  rc_head : rid;         (* AclHeadId *)
  rc_ident : acct        (* Identity *)
}.

Fixpoint find_rc (S : list rawchange) (i : N) : option rawchange :=
  match S with
  | [] => None
  | c :: r => if rc_id c =? i then Some c else find_rc r i
  end.
Definition has_rc (S : list rawchange) (i : N) : bool := match find_rc S i with Some _ => true | None => false end.
Definition rc_ids (S : list rawchange) : list N := map rc_id S.

(* association lists id -> ids (Change.Next) *)
Fixpoint nlookup (m : list (N * list N)) (k : N) : list N :=
  match m with
  | [] => []
  | (k', v) :: r => if k' =? k then v else nlookup r k
  end.
Fixpoint nupdate (m : list (N * list N)) (k : N) (f : list N -> list N) : list (N * list N) :=
  match m with
  | [] => [(k, f [])]
  | (k', v) :: r => if k' =? k then (k', f v) :: r else (k', v) :: nupdate r k f
  end.

Record atree := mkAT {
  at_root : N;                   (* tree.root.Id = the object tree's id (never reduced, see header) *)
  at_derived : bool;             (* root.IsDerived *)
  at_att : list rawchange;       (* tree.attached, newest first; the root is its last element *)
  at_next : list (N * list N);   (* Next lists *)
  at_heads : list N;             (* headIds, sorted *)
  at_last : N;                   (* lastIteratedHeadId *)
  at_stored : list N             (* ids in storage, newest first *)
}.

Inductive eclass := EUnmarshal | EInvalid.
Inductive result := ROk (added : list N) | RErr (e : eclass) | RUnmodelled.

(* ---- changeBuilder.Unmarshall(raw, verify = true): CID, decode, signature (derived root exempt) *)
Definition is_derived_root (t : atree) (i : N) : bool := at_derived t && (i =? at_root t).
Definition unmarshal_ok (t : atree) (c : rawchange) : bool :=
  rc_cid_ok c && rc_decodes c && rc_canon c && (is_derived_root t (rc_id c) || rc_sig_ok c).
(* the code before fixes/C02-canonical-rawchange.patch *)
Definition unmarshal_ok_legacy (t : atree) (c : rawchange) : bool :=
  rc_cid_ok c && rc_decodes c && (is_derived_root t (rc_id c) || rc_sig_ok c).

(* ---- objectTreeValidator.validateChange(tree, aclList, c) *)
Definition prev_ok (a : aclv) (t : atree) (att : list rawchange) (c : rawchange) (pid : N) : bool :=
  match find_rc att pid with
  | None => false                                    (* tree.attached[id] == nil: never happens for attached changes *)
  | Some pc =>
      (rc_head pc =? rc_head c)
      || is_derived_root t (rc_id pc)
      || match is_after (av_ids a) (rc_head c) (rc_head pc) with Some b => b | None => false end
  end.
Definition validate_change (a : aclv) (t : atree) (att : list rawchange) (c : rawchange) : bool :=
  if is_derived_root t (rc_id c) then true
  else
    match perm_at a (rc_head c) (rc_ident c) with
    | None => false
    | Some p =>
        can_write p &&
        (if rc_id c =? at_root t then true else forallb (prev_ok a t att c) (rc_prev c))
    end.

(* ---- Tree.Add, as far as the attached set goes *)
Definition attachable (att : list rawchange) (c : rawchange) : bool := forallb (has_rc att) (rc_prev c).
Fixpoint settle (fuel : nat) (att pend : list rawchange) : list rawchange :=
  match fuel with
  | O => []
  | S f =>
      match filter (attachable att) pend with
      | [] => []
      | ready => ready ++ settle f (rev ready ++ att) (filter (fun c => negb (attachable att c)) pend)
      end
  end.

(* "ignore existing": later copies of an id already met in the batch are skipped *)
Fixpoint dedup (seen : list N) (cs : list rawchange) : list rawchange :=
  match cs with
  | [] => []
  | c :: r => if memN (rc_id c) seen then dedup seen r else c :: dedup (rc_id c :: seen) r
  end.

(* attach: append c to Next of every previous id (sorted insertion) *)
Definition ins_sorted (x : N) (l : list N) : list N := insert_sorted x l.
Definition link (nx : list (N * list N)) (c : rawchange) : list (N * list N) :=
  fold_left (fun m p => nupdate m p (ins_sorted (rc_id c))) (rc_prev c) nx.
Definition link_all (nx : list (N * list N)) (cs : list rawchange) : list (N * list N) := fold_left link cs nx.

(* iteration from the root through Next (treeiterator.go, Model/Dfs.v) *)
Definition sum_prevs (S : list rawchange) : nat := fold_right (fun c n => (length (rc_prev c) + n)%nat) O S.
Definition iter_fuel (S : list rawchange) : nat := ((length S + 1) * (sum_prevs S + 2) + 1)%nat.
Definition iter_with (root : N) (att : list rawchange) (nx : list (N * list N)) : list N :=
  match Dfs.dfs_loop (nlookup nx) (iter_fuel att) (Dfs.dfs_init root) with
  | Some l => l
  | None => []
  end.
Definition iter_seq (t : atree) : list N := iter_with (at_root t) (at_att t) (at_next t).

Definition is_nil (l : list N) : bool := match l with [] => true | _ => false end.

(* updateHeads *)
Definition heads_in_order (root : N) (att : list rawchange) (nx : list (N * list N)) : list N :=
  filter (fun i => is_nil (nlookup nx i)) (iter_with root att nx).

(* rollback(changes): delete from attached, discard from every Next, restore heads and lastIteratedHeadId *)
Definition rollback (t : atree) (att1 : list rawchange) (nx1 : list (N * list N)) (added : list rawchange) : atree :=
  let gone := rc_ids added in
  mkAT (at_root t) (at_derived t)
       (filter (fun c => negb (memN (rc_id c) gone)) att1)
       (map (fun kv => (fst kv, filter (fun i => negb (memN i gone)) (snd kv))) nx1)
       (at_heads t) (at_last t) (at_stored t).

(* ---- AddRawChanges *)
Definition accept (a : aclv) (t : atree) (batch : list rawchange) : atree * result :=
  (* filtering, verifying and unmarshalling: changes already attached are skipped, the first failure aborts *)
  let news := filter (fun c => negb (has_rc (at_att t) (rc_id c))) batch in
  if negb (forallb (unmarshal_ok t) news) then (t, RErr EUnmarshal)
  else
    match news with
    | [] => (t, ROk [])
    | _ =>
        if negb (forallb (fun c => rc_snap c =? at_root t) news) then (t, RUnmodelled)
        else
          let added := settle (S (length news)) (at_att t) (dedup [] news) in
          match added with
          | [] => (t, ROk [])                            (* Mode Nothing *)
          | _ =>
              let att1 := rev added ++ at_att t in
              let nx1 := link_all (at_next t) added in
              if forallb (validate_change a t att1) added then
                let hs := heads_in_order (at_root t) att1 nx1 in
                (mkAT (at_root t) (at_derived t) att1 nx1 (sort_N hs) (List.last hs 0)
                      (rev (rc_ids added) ++ at_stored t),
                 ROk (rc_ids added))
              else (rollback t att1 nx1 added, RErr EInvalid)
          end
    end.

(* ---- buildObjectTree over a storage that holds only the root: load, ValidateFullTree, verify the header *)
Definition build (a : aclv) (root : rawchange) (derived : bool) : option atree :=
  let t0 := mkAT (rc_id root) derived [root] [] [rc_id root] (rc_id root) [rc_id root] in
  if rc_decodes root && validate_change a t0 [root] root && unmarshal_ok t0 root then Some t0 else None.

(* ------------------------------------------------------------------------------------------ the ACL the receiver holds *)

(* states after every record of a log: element k = state after record k (k = 0: the root) *)
Section Chain.
  Variable me : acct.
  Fixpoint states_from (s : state) (ws : list raw) : option (list state) :=
    match ws with
    | [] => Some []
    | w :: rest =>
        if negb (w_prev w =? last s) then None
        else match apply_record false true me s (w_author w) (w_id w) (w_contents w) with
             | None => None
             | Some s1 => match states_from s1 rest with Some l => Some (s1 :: l) | None => None end
             end
    end.
  Definition acl_states (owner : acct) (root : rid) (ws : list raw) : option (list state) :=
    let s0 := init_state me owner root None in
    match states_from s0 ws with Some l => Some (s0 :: l) | None => None end.
End Chain.

Definition acl_ids (root : rid) (ws : list raw) : list rid := root :: map w_id ws.

(* the view of a receiver that holds the first [n] records (n >= 1) *)
Definition view_at (ids : list rid) (sts : list state) (n : nat) : option aclv :=
  match n with
  | O => None
  | S k => match nth_error sts k with Some s => Some (mkAclv (firstn n ids) s) | None => None end
  end.

(* ------------------------------------------------------------------------------------------ symbolic crypto *)
Section Symbolic.
  (* what the author signs *)
  Record payload := mkPayload {
    p_prev : list N; p_snap : N; p_issnap : bool; p_head : rid; p_ident : acct; p_data : N
  }.
  Inductive sigterm := Sig (signer : acct) (p : payload) | SigGarbage (n : N).
  (* the delivered bytes: payload, signature, and whatever else the sender put around them (0 = nothing) *)
  Record wire := mkWire { wr_payload : payload; wr_sig : sigterm; wr_pad : N }.
  Inductive idterm := Cid (w : wire) | IdOther (n : N).
  (* a delivered change: the id it is delivered under (a term) and the number the tree knows it by *)
  Record delivered := mkDelivered { dl_id : idterm; dl_num : N; dl_wire : wire }.

  Definition list_N_eq_dec : forall a b : list N, {a = b} + {a <> b} := list_eq_dec N.eq_dec.
  Definition payload_eq_dec : forall a b : payload, {a = b} + {a <> b}.
  Proof. decide equality; try apply N.eq_dec; try apply Bool.bool_dec; apply list_N_eq_dec. Defined.
  Definition sig_eq_dec : forall a b : sigterm, {a = b} + {a <> b}.
  Proof. decide equality; try apply N.eq_dec; apply payload_eq_dec. Defined.
  Definition wire_eq_dec : forall a b : wire, {a = b} + {a <> b}.
  Proof. decide equality; [apply N.eq_dec | apply sig_eq_dec | apply payload_eq_dec]. Defined.
  Definition id_eq_dec : forall a b : idterm, {a = b} + {a <> b}.
  Proof. decide equality; [apply wire_eq_dec | apply N.eq_dec]. Defined.

  Definition sym_cid_ok (d : delivered) : bool := if id_eq_dec (dl_id d) (Cid (dl_wire d)) then true else false.
  Definition sym_sig_ok (d : delivered) : bool :=
    let p := wr_payload (dl_wire d) in
    if sig_eq_dec (wr_sig (dl_wire d)) (Sig (p_ident p) p) then true else false.

  (* the flags view of a delivered term (identity 0 = bytes that do not parse as a key) *)
  Definition to_raw (d : delivered) : rawchange :=
    let p := wr_payload (dl_wire d) in
    mkRC (dl_num d) (sym_cid_ok d) (wr_pad (dl_wire d) =? 0) (negb (p_ident p =? 0)) (sym_sig_ok d)
         (p_prev p) (p_snap p) (p_issnap p) (p_head p) (p_ident p).

  (* an honest change: signed by the identity it names, delivered under its content id *)
  Definition honest (num : N) (p : payload) : delivered :=
    let w := mkWire p (Sig (p_ident p) p) 0 in mkDelivered (Cid w) num w.
End Symbolic.

(* ------------------------------------------------------------------------------------------ observations, spec_C02 *)

(* one AddRawChanges call on the receiver and what was seen afterwards *)
Record delivery := mkDel {
  d_acl_len : nat;                (* number of ACL records (root included) the receiver holds at this call *)
  d_batch : list rawchange;
  d_ok : bool;                    (* err == nil *)
  d_eclass : N;                   (* 0 no error, 1 not ErrHasInvalidChanges, 2 errors.Is(err, ErrHasInvalidChanges) *)
  d_added : list N;               (* AddResult.Added ids *)
  d_heads : list N;               (* Heads() *)
  d_iter : list N;                (* IterateRoot ids *)
  d_stored : list N;              (* Storage.GetAfterOrder("") ids *)
  d_has : list bool               (* Storage.Has(id) for every element of the batch, in order *)
}.

Record scenario := mkScen {
  sc_me : acct;                   (* identity the ACL lists are built with *)
  sc_owner : acct;
  sc_aclroot : rid;
  sc_recs : list raw;             (* the ACL log after the root, every record accepted by the real list *)
  sc_hists : list (acct * list (rid * perm));   (* PermissionChanges of every account in the real final state *)
  sc_root : rawchange;
  sc_derived : bool;
  sc_root_len : nat;              (* ACL length at BuildObjectTree *)
  sc_built : bool;                (* BuildObjectTree returned no error *)
  sc_heads0 : list N; sc_iter0 : list N; sc_stored0 : list N;
  sc_dels : list delivery
}.

(* --- declarative side: permission truth = the state folded up to the record *)
Definition truth_at (ids : list rid) (sts : list state) (r : rid) (who : acct) : option perm :=
  match idx_of ids r with
  | None => None
  | Some k => match nth_error sts k with Some s => Some (perm_of s who) | None => None end
  end.

(* authorisation of one change against the truth; [known] = changes attached so far (root included) *)
Definition auth_ok (ids : list rid) (sts : list state) (n : nat) (root : N) (derived : bool)
           (known : list rawchange) (c : rawchange) : bool :=
  rc_cid_ok c && rc_canon c &&
  ((derived && (rc_id c =? root)) ||
   (rc_sig_ok c &&
    has_head (firstn n ids) (rc_head c) &&
    match truth_at ids sts (rc_head c) (rc_ident c) with Some p => can_write p | None => false end &&
    ((rc_id c =? root) ||
     forallb (fun pid =>
                match find_rc known pid with
                | None => false
                | Some pc => (derived && (rc_id pc =? root)) ||
                             (has_head (firstn n ids) (rc_head pc) && Nat.leb (idx0 ids (rc_head pc)) (idx0 ids (rc_head c)))
                end) (rc_prev c)))).

Definition sameset (a b : list N) : bool := list_N_eqb (sort_N a) (sort_N b).
Definition subset_N (a b : list N) : bool := forallb (fun x => memN x b) a.
Definition list_bool_eqb (a b : list bool) : bool := list_eqb Bool.eqb a b.

(* every copy of id [i] in the batch (the code verifies each copy it has not attached yet) *)
Definition copies (batch : list rawchange) (i : N) : list rawchange := filter (fun c => rc_id c =? i) batch.

(* what a successful call must have announced in Added: every id now in memory that was not in memory AND on disk
   before, and every id now on disk that was not on disk before.
   [fresh_ids_legacy] is the first version of this predicate; it also counted an id that was (and still is) on disk but
   is not reachable by the iteration -- a non-root change with empty TreeHeadIds, which Tree.canAttachOrRemove attaches
   (an orphan: stored, never iterated, never a head) -- and so demanded that such a change be announced again by every
   later successful call.  That is false of the code and of the model (Properties/C02.v,
   c02_spec_legacy_orphan_refuted); the orphan itself is authentic and authorised, so C02 is not concerned. *)
Definition fresh_ids (iter stored iter' stored' : list N) : list N :=
  filter (fun i => negb (memN i iter) || negb (memN i stored)) iter' ++
  filter (fun i => negb (memN i stored)) stored'.
Definition fresh_ids_legacy (iter stored iter' stored' : list N) : list N :=
  filter (fun i => negb (memN i iter) || negb (memN i stored)) (iter' ++ stored').

Fixpoint spec_dels (ids : list rid) (sts : list state) (root : N) (derived : bool)
         (known : list rawchange) (heads iter stored : list N) (ds : list delivery) : bool :=
  match ds with
  | [] => true
  | d :: rest =>
      if d_ok d then
        let fresh := fresh_ids iter stored (d_iter d) (d_stored d) in
        let newk := flat_map (fun i => match find_rc (d_batch d) i with Some c => [c] | None => [] end) (d_added d) in
        let known' := newk ++ known in
        (* nothing disappears; everything new in memory or on disk was announced as added and came with the batch *)
        subset_N iter (d_iter d) && subset_N stored (d_stored d) &&
        subset_N fresh (d_added d) && subset_N (d_added d) (rc_ids (d_batch d)) &&
        (* ... and every delivered copy of it is authentic and authorised *)
        forallb (fun i => forallb (auth_ok ids sts (d_acl_len d) root derived known') (copies (d_batch d) i)) (d_added d) &&
        spec_dels ids sts root derived known' (d_heads d) (d_iter d) (d_stored d) rest
      else
        (* a rejected batch is a no-op *)
        sameset (d_heads d) heads && list_N_eqb (d_iter d) iter && list_N_eqb (d_stored d) stored &&
        list_bool_eqb (d_has d) (map (fun c => memN (rc_id c) stored) (d_batch d)) &&
        spec_dels ids sts root derived known heads iter stored rest
  end.

Definition spec_C02 (sc : scenario) : bool :=
  match acl_states (sc_me sc) (sc_owner sc) (sc_aclroot sc) (sc_recs sc) with
  | None => false                                   (* the scenario's ACL log is not a valid log: harness error *)
  | Some sts =>
      let ids := acl_ids (sc_aclroot sc) (sc_recs sc) in
      if sc_built sc then
        auth_ok ids sts (sc_root_len sc) (rc_id (sc_root sc)) (sc_derived sc) [sc_root sc] (sc_root sc) &&
        spec_dels ids sts (rc_id (sc_root sc)) (sc_derived sc) [sc_root sc]
                  (sc_heads0 sc) (sc_iter0 sc) (sc_stored0 sc) (sc_dels sc)
      else match sc_dels sc with [] => true | _ => false end
  end.

(* ------------------------------------------------------------------------------------------ the model as a scenario producer *)
Definition class_of (r : result) : N :=
  match r with ROk _ => 0 | RErr EUnmarshal => 1 | RErr EInvalid => 2 | RUnmodelled => 3 end.
Definition ok_of (r : result) : bool := match r with ROk _ => true | _ => false end.
Definition added_of (r : result) : list N := match r with ROk l => l | _ => [] end.

Fixpoint model_dels (ids : list rid) (sts : list state) (t : atree) (ins : list (nat * list rawchange)) : list delivery :=
  match ins with
  | [] => []
  | (n, b) :: rest =>
      match view_at ids sts n with
      | None => []
      | Some a =>
          let '(t', r) := accept a t b in
          mkDel n b (ok_of r) (class_of r) (added_of r) (at_heads t') (iter_seq t') (at_stored t')
                (map (fun c => memN (rc_id c) (at_stored t')) b)
          :: model_dels ids sts t' rest
      end
  end.

(* the scenario the model produces for the inputs of [sc] (observation fields of [sc] are ignored) *)
Definition model_scenario (sc : scenario) : scenario :=
  let ins := map (fun d => (d_acl_len d, d_batch d)) (sc_dels sc) in
  let ids := acl_ids (sc_aclroot sc) (sc_recs sc) in
  let blank := mkScen (sc_me sc) (sc_owner sc) (sc_aclroot sc) (sc_recs sc) (sc_hists sc) (sc_root sc) (sc_derived sc)
                      (sc_root_len sc) false [] [] [] [] in
  match acl_states (sc_me sc) (sc_owner sc) (sc_aclroot sc) (sc_recs sc) with
  | None => blank
  | Some sts =>
      match view_at ids sts (sc_root_len sc) with
      | None => blank
      | Some a =>
          match build a (sc_root sc) (sc_derived sc) with
          | None => blank
          | Some t0 =>
              mkScen (sc_me sc) (sc_owner sc) (sc_aclroot sc) (sc_recs sc) (sc_hists sc) (sc_root sc) (sc_derived sc)
                     (sc_root_len sc) true (at_heads t0) (iter_seq t0) (at_stored t0) (model_dels ids sts t0 ins)
          end
      end
  end.

(* ------------------------------------------------------------------------------------------ whole trees delivered: the root *)
(* The ROOT as a first-class delivered change.  A root delivery hands a raw root (honest or mutated), optionally some
   changes built against it and the heads the sender claims, to one of the real construction paths:
     0  CreateStorage (eager: CreateStorageTx verifies the root) + BuildObjectTree [+ AddRawChanges if changes <> []]
     1  CreateStorageWithDeferredCreation (nothing verified, nothing written) + BuildObjectTree [+ AddRawChanges]
     2  ValidateRawTreeDefault: deferred storage, BuildEmptyDataObjectTree, AddRawChanges(changes, heads) (which calls
        Storage.AddAll even when nothing was added: the deferred storage is created -- CreateStorageTx -- inside that
        transaction), heads comparison, ErrDerived for a root-only derived tree; then BuildObjectTree over the
        returned tree's storage (what synctree does with the collector's tree)
     3  ValidateFilterRawTree: HadReadPermissions(own identity) first, BuildEmptyDataKeyFilterableObjectTree,
        AddRawChanges through the key filter (FilterChanges drops -- does not reject -- a change whose cited record is
        unknown or whose read key the receiver lacks; modelled only when it drops nothing: [rd_keyed] and every cited
        record known), NO heads comparison and NO ErrDerived, ErrNoChangeInTree when only the root is attached.
   buildObjectTree is the same function on every path: rebuildFromStorage (decode, ValidateFullTree = validateChange of
   the root) and Unmarshall(root, verify = true); that is [build].  The eager CreateStorageTx check is [unmarshal_ok] on
   the one-element tree [tree0]. *)
Definition tree0 (root : rawchange) (derived : bool) : atree :=
  mkAT (rc_id root) derived [root] [] [rc_id root] (rc_id root) [rc_id root].

Record rootdel := mkRD {
  rd_path : N;
  rd_acl_len : nat;               (* ACL records (root included) the receiver holds *)
  rd_root : rawchange;            (* the delivered root: decoded fields + validity flags of the delivered bytes *)
  rd_derived : bool;              (* RootChange.IsDerived of the delivered bytes *)
  rd_changes : list rawchange;    (* payload.Changes *)
  rd_heads : list N;              (* payload.Heads (paths 2, 3) / NewHeads (paths 0, 1) *)
  rd_keyed : bool;                (* every delivered change names a read key (ReadKeyId) the receiver's ACL state holds:
                                     computed by the harness from the delivered bytes and AclState.Keys(); with it and
                                     all cited records known, FilterChanges / validateKeys of path 3 let everything through *)
  (* observed *)
  rd_live : bool;                 (* a live ObjectTree was returned *)
  rd_rebuilt : bool;              (* ... and BuildObjectTree over its storage gave the same heads and ids (paths 2, 3) *)
  rd_lheads : list N;             (* Heads() of the live tree, [] if none *)
  rd_iter : list N;               (* IterateRoot ids of the live tree, [] if none *)
  rd_stored : list N;             (* what a FRESH NewStorage(root id) finds in the database afterwards, [] = no such tree *)
  rd_added : list N               (* ids in memory or on disk other than the root *)
}.

Record rootworld := mkRW {
  rw_me : acct; rw_owner : acct; rw_aclroot : rid; rw_recs : list raw;
  rw_hists : list (acct * list (rid * perm));
  rw_dels : list rootdel
}.

(* --- specification over observed behaviour *)
(* what CreateStorageTx promises for the root it writes: authenticity *)
Definition authentic (derived : bool) (c : rawchange) : bool :=
  rc_cid_ok c && rc_canon c && (derived || rc_sig_ok c).

Definition spec_rootdel (ids : list rid) (sts : list state) (d : rootdel) : bool :=
  let root := rd_root d in
  let r := rc_id root in
  let root_ok := auth_ok ids sts (rd_acl_len d) r (rd_derived d) [root] root in
  let known := flat_map (fun i => match find_rc (rd_changes d) i with Some c => [c] | None => [] end) (rd_added d) ++ [root] in
  (* in memory: a live tree only for a root whose id is the hash of its bytes, canonical, signed by the identity it
     names (derived roots excepted), that identity holding write permission at the cited record, which the receiver knows *)
  (if rd_live d || rd_rebuilt d then root_ok else is_nil (rd_lheads d) && is_nil (rd_iter d)) &&
  (* on disk: the same; on path 0 the caller itself created the storage before the tree was validated, and
     CreateStorage promises authenticity only *)
  (if is_nil (rd_stored d) then true else if rd_path d =? 0 then authentic (rd_derived d) root else root_ok) &&
  (* whatever else is in memory or on disk came with the delivery, under an authentic authorised root, and every
     delivered copy of it is authentic and authorised *)
  subset_N (rd_iter d ++ rd_stored d) (r :: rd_added d) &&
  subset_N (rd_added d) (rc_ids (rd_changes d)) &&
  (is_nil (rd_added d) || root_ok) &&
  forallb (fun i => forallb (auth_ok ids sts (rd_acl_len d) r (rd_derived d) known) (copies (rd_changes d) i)) (rd_added d).

Definition spec_roots (rw : rootworld) : bool :=
  match acl_states (rw_me rw) (rw_owner rw) (rw_aclroot rw) (rw_recs rw) with
  | None => false
  | Some sts => forallb (spec_rootdel (acl_ids (rw_aclroot rw) (rw_recs rw)) sts) (rw_dels rw)
  end.

(* --- the model *)
(* AclState.HadReadPermissions(identity) *)
Definition had_read (a : aclv) (who : acct) : bool :=
  match mget who (accounts (av_state a)) with
  | None => false
  | Some x => existsb (fun rp => negb (snd rp =? pNone)) (a_hist x)
  end.

Record rootout := mkRO { ro_live : bool; ro_heads : list N; ro_iter : list N; ro_stored : list N; ro_added : list N }.
Definition ro_none : rootout := mkRO false [] [] [] [].

(* None = the model makes no prediction (a change whose snapshot base is not the root; the key filter of path 3) *)
Definition model_rootdel (me : acct) (a : aclv) (d : rootdel) : option rootout :=
  let root := rd_root d in
  let r := rc_id root in
  let eager := rd_path d =? 0 in
  if (rd_path d =? 3) && negb (had_read a me) then Some ro_none
  else
    match build a root (rd_derived d) with
    | None =>
        (* path 0: CreateStorage has already written the root if it is authentic *)
        Some (if eager && unmarshal_ok (tree0 root (rd_derived d)) root then mkRO false [] [] [r] [] else ro_none)
    | Some t0 =>
        if rd_path d <? 2 then
          match rd_changes d with
          | [] => Some (mkRO true (at_heads t0) (iter_seq t0) (if eager then at_stored t0 else []) [])
          | cs =>
              let '(t1, res) := accept a t0 cs in
              match res with
              | RUnmodelled => None
              | ROk added => Some (mkRO true (at_heads t1) (iter_seq t1) (at_stored t1) added)
              | RErr _ => Some (mkRO true (at_heads t1) (iter_seq t1) (if eager then at_stored t1 else []) [])
              end
          end
        else if rd_path d =? 2 then
          let '(t1, res) := accept a t0 (rd_changes d) in
          match res with
          | RUnmodelled => None
          | RErr _ => Some ro_none
          | ROk added =>
              if negb (sameset (at_heads t1) (rd_heads d)) then Some (mkRO false [] [] (at_stored t1) added)
              else if rd_derived d && Nat.eqb (length (at_att t1)) 1 then Some (mkRO false [] [] (at_stored t1) added)
              else Some (mkRO true (at_heads t1) (iter_seq t1) (at_stored t1) added)
          end
        else
          match rd_changes d with
          | [] => Some (mkRO false [] [] (at_stored t0) [])       (* AddAll(nothing) created the storage; ErrNoChangeInTree *)
          | cs =>
              if rd_keyed d && forallb (fun c => has_head (av_ids a) (rc_head c)) cs then
                let '(t1, res) := accept a t0 cs in
                match res with
                | RUnmodelled => None
                | RErr _ => Some ro_none
                | ROk added =>
                    if Nat.eqb (length (at_att t1)) 1 then Some (mkRO false [] [] (at_stored t1) added)
                    else Some (mkRO true (at_heads t1) (iter_seq t1) (at_stored t1) added)
                end
              else None                                           (* the filter drops something: no prediction *)
          end
    end.

Definition rd_with (d : rootdel) (o : rootout) : rootdel :=
  mkRD (rd_path d) (rd_acl_len d) (rd_root d) (rd_derived d) (rd_changes d) (rd_heads d) (rd_keyed d)
       (ro_live o) (ro_live o) (ro_heads o) (ro_iter o) (ro_stored o) (ro_added o).

(* the root world the model produces for the inputs of [rw] (deliveries without a prediction: nothing happened) *)
Definition model_rootworld (rw : rootworld) : rootworld :=
  let ids := acl_ids (rw_aclroot rw) (rw_recs rw) in
  mkRW (rw_me rw) (rw_owner rw) (rw_aclroot rw) (rw_recs rw) (rw_hists rw)
       (match acl_states (rw_me rw) (rw_owner rw) (rw_aclroot rw) (rw_recs rw) with
        | None => []
        | Some sts =>
            map (fun d => match view_at ids sts (rd_acl_len d) with
                          | None => rd_with d ro_none
                          | Some a => match model_rootdel (rw_me rw) a d with
                                      | Some o => rd_with d o
                                      | None => rd_with d ro_none
                                      end
                          end) (rw_dels rw)
        end).

(* ------------------------------------------------------------------------------------------ ACL records landing DURING a call *)
(* AddRawChanges runs under the TREE lock only; the ACL list is shared with the ACL sync handler, which adds records
   under the list's WRITE lock.  The code takes the list's READ lock around everything that looks at the ACL
   (objectTree.validateTree), so a record can land before the validation or after it, never in between: the call is
   atomic with respect to the ACL log, its outcome is that of one of the two serial orders.
   A race scenario is a scenario in which a concurrent ACL writer holds pending records during some calls; the harness
   lets the writer take every lock-free point the call offers (TryLock on the list's own RWMutex at every access the
   tree makes to the list) and reports how many records got in while the call was running. *)
Record racescen := mkRace {
  rs_sc : scenario;        (* d_acl_len of every delivery = number of ACL records held when the call was ENTERED *)
  rs_mid : list nat        (* per delivery: records the concurrent writer added WHILE the call was running (0: it had to
                              wait for the call to return, or there was no writer) *)
}.

Definition set_len (d : delivery) (n : nat) : delivery :=
  mkDel n (d_batch d) (d_ok d) (d_eclass d) (d_added d) (d_heads d) (d_iter d) (d_stored d) (d_has d).

Definition with_dels (sc : scenario) (ds : list delivery) : scenario :=
  mkScen (sc_me sc) (sc_owner sc) (sc_aclroot sc) (sc_recs sc) (sc_hists sc) (sc_root sc) (sc_derived sc)
         (sc_root_len sc) (sc_built sc) (sc_heads0 sc) (sc_iter0 sc) (sc_stored0 sc) ds.

(* the deliveries labelled with the number of records the receiver holds when the call RETURNS *)
Fixpoint at_return (ds : list delivery) (mid : list nat) : list delivery :=
  match ds with
  | [] => []
  | d :: r => set_len d (d_acl_len d + hd O mid) :: at_return r (tl mid)
  end.

(* the property over OBSERVED behaviour: whatever the interleaving was, every change that became part of the tree is
   authentic and was authorised (in the TRUTH) at a record the receiver holds when the call returns, parents likewise;
   a rejected call is a no-op.  (That the outcome is exactly that of one of the two serial orders is the model
   comparison, Run/C02_run.v.) *)
Definition spec_race (rs : racescen) : bool :=
  spec_C02 (with_dels (rs_sc rs) (at_return (sc_dels (rs_sc rs)) (rs_mid rs))).

(* the model: per call a serial order -- false: the pending records land after the call, true: before it *)
Fixpoint race_ins (ds : list delivery) (mid : list nat) (ch : list bool) : list (nat * list rawchange) :=
  match ds with
  | [] => []
  | d :: r => ((if hd false ch then d_acl_len d + hd O mid else d_acl_len d)%nat, d_batch d)
              :: race_ins r (tl mid) (tl ch)
  end.

Definition blank_del (nb : nat * list rawchange) : delivery := mkDel (fst nb) (snd nb) false 0 [] [] [] [] [].

(* the model's deliveries labelled with the entry lengths again *)
Fixpoint enter_lens (ms ds : list delivery) : list delivery :=
  match ms, ds with
  | m :: mr, d :: dr => set_len m (d_acl_len d) :: enter_lens mr dr
  | _, _ => []
  end.

Definition model_race (ch : list bool) (rs : racescen) : racescen :=
  let sc := rs_sc rs in
  let m := model_scenario (with_dels sc (map blank_del (race_ins (sc_dels sc) (rs_mid rs) ch))) in
  mkRace (with_dels m (enter_lens (sc_dels m) (sc_dels sc))) (rs_mid rs).
