(* Model of the serving side of commonspace/pubsub/service.go (C17): handleSubscribe, handleUnsubscribe,
   handlePublish/relayPublish/fanout, onStreamClose, EvictMember/RevalidateMembers, CloseSpace, and the
   part of net/streampool they use (per-stream tags, Broadcast de-duplication, removeStream).
   Definitions only.  Granularity: one event = one handler run to completion (the lock regions of the
   Go code are not interleaved); the one race the code defends against — a stream removed from the pool
   while its read loop still delivers a Subscribe — is the explicit event [EBreak] followed by [ESub];
   the finer interleaving "a stream leaves the pool WHILE a Subscribe handler sits between recording the
   interest and pool.AddTagsCtx" is the event [ESubMid], which follows the lock regions of the Go code
   (pool.mu region of removeStream / remoteMu region of handleSubscribe / remoteMu region of onStreamClose);
   "the PUBLISHER's stream goes away (its context is cancelled, the pool drops it, its close hook runs) while its
   Publish frame — already read — is being handled" is the event [EPubMid].

   Spaces, stream ids and accounts are numbers (the harness owns the tables); patterns/topics are byte
   strings so that Model/Trie.v is reused unchanged.  One stream per peer (peer id = stream id). *)
From Coq Require Import List NArith Bool Arith.
Import ListNotations.
From AnySync Require Import Model.Trie.

(* ------------------------------------------------------------------ maps keyed by N *)

Fixpoint nassoc {V} (k : N) (l : list (N * V)) : option V :=
  match l with
  | [] => None
  | (k', v) :: r => if N.eqb k k' then Some v else nassoc k r
  end.
Fixpoint nset {V} (k : N) (v : V) (l : list (N * V)) : list (N * V) :=
  match l with
  | [] => [(k, v)]
  | (k', v') :: r => if N.eqb k k' then (k, v) :: r else (k', v') :: nset k v r
  end.
Fixpoint ndel {V} (k : N) (l : list (N * V)) : list (N * V) :=
  match l with
  | [] => []
  | (k', v') :: r => if N.eqb k k' then ndel k r else (k', v') :: ndel k r
  end.
Definition memN (k : N) (l : list N) : bool := existsb (N.eqb k) l.

(* ------------------------------------------------------------------ state *)

Definition tag := (N * str)%type.                      (* interestTag(space, pattern) *)
Definition tag_eqb (a b : tag) : bool := N.eqb (fst a) (fst b) && str_eqb (snd a) (snd b).
Definition mem_tag (t : tag) (l : list tag) : bool := existsb (tag_eqb t) l.

(* streamInterest *)
Record sstream := mkSS { ss_account : N; ss_by : list (N * list str); ss_total : N }.

Record svc := mkSvc {
  sv_remote : list (N * trie);          (* service.remote: space -> trie *)
  sv_streams : list (N * sstream);      (* service.streams: stream id -> record *)
  sv_pool : list (N * list tag);        (* streampool: pooled stream -> its tags *)
  sv_conns : list (N * N);              (* read loops still running: stream id -> proven account *)
  sv_members : list (N * N);            (* fake MembershipChecker: (space, account) *)
  sv_rate : list (N * N)                (* publishes let through per peer (token bucket without refill) *)
}.

Record cfg := mkCfg {
  max_space : N;       (* MaxPatternsPerSpace *)
  max_stream : N;      (* MaxPatternsPerStream *)
  burst : N;           (* PublishBurst, PublishRps ~ 0 *)
  resp : list N;       (* spaces this node is responsible for *)
  nodes : list N;      (* streams whose peer is a responsible node *)
  names : list str     (* account id -> identity.Account() string, for the acc/ namespace *)
}.

Definition svc_init : svc := mkSvc [] [] [] [] [] [].

Definition is_member (s : svc) (space acct : N) : bool :=
  existsb (fun m => N.eqb (fst m) space && N.eqb (snd m) acct) (sv_members s).

(* status codes (pubsubproto.ErrCodes) *)
Definition NotAMember : N := 1.
Definition NotResponsible : N := 2.
Definition RateLimited : N := 3.
Definition TooManyTopics : N := 4.
Definition InvalidMessage : N := 5.
Definition TopicNotOwned : N := 6.
Definition InvalidTopic : N := 7.

Inductive ev :=
| EOpen (sid acct : N)                                   (* inbound stream accepted into the pool *)
| ESub (sid space : N) (pats : list str)
| EUnsub (sid space : N) (pats : list str)
| EPub (sid space : N) (topic : str) (claim : N) (relayed wellformed : bool)
      (* claim: 0 = empty Identity field, a+1 = identity of account a *)
| EClose (sid : N)                                       (* read loop ends: stream closed *)
| EBreak (sid : N)                                       (* write side fails: stream leaves the pool, read loop still alive *)
| EEvict (space acct : N)
| ERevalidate (space : N)
| ECloseSpace (space : N)
| ESetMember (space acct : N) (b : bool)
| ESnap
| ESubMid (sid victim space : N) (pats : list str)
      (* Subscribe on [sid] during which stream [victim] (possibly [sid] itself) leaves the pool: if the handler gets as
         far as pool.AddTagsCtx, [victim] is removed from the pool right before that call — after the interest
         was recorded — and its close hook runs as soon as remoteMu allows; otherwise right after the handler *)
| EPubMid (sid space : N) (topic : str) (claim : N) (relayed wellformed : bool).
      (* Publish on [sid] whose stream goes away while the frame (already read) is being handled: the stream
         context is cancelled and the stream leaves the pool (close hook included) at the first lookup the
         handler makes on behalf of the publisher (Membership.CheckMember for a direct publish,
         Relay.IsResponsibleNode for a relayed one); if the handler returns before any lookup, right after it *)

Inductive out :=
| ONone
| OStatus (code : N) (topics : list str)
| OPub (delivered : list N) (status : option N) (forwarded : bool)
| OSnap (remote : list (N * (N * bool)))                          (* space -> (trie Len, root empty) *)
        (streams : list (N * (N * N * list (N * list str))))      (* sid -> (account, total, bySpace) *)
        (pool : list (N * list tag)).                             (* sid -> tags *)

(* ------------------------------------------------------------------ helpers mirroring service.go *)

Definition prune_space (remote : list (N * trie)) (space : N) (tr : trie) : list (N * trie) :=
  if N.eqb (trie_len tr) 0 then ndel space remote else nset space tr remote.
Definition prune_stream (streams : list (N * sstream)) (sid : N) (st : sstream) : list (N * sstream) :=
  if N.eqb (ss_total st) 0 then ndel sid streams else nset sid st streams.

Definition del_str (p : str) (l : list str) : list str := filter (fun q => negb (str_eqb q p)) l.

(* removeStreamPattern on the (strm, si) pair held by the caller *)
Definition remove_stream_pattern (st : sstream) (tr : trie) (space : N) (p : str) : sstream * trie * bool :=
  match nassoc space (ss_by st) with
  | None => (st, tr, false)
  | Some pats =>
      if mem_str p pats then
        let pats' := del_str p pats in
        let by' := if is_nil pats' then ndel space (ss_by st) else nset space pats' (ss_by st) in
        (mkSS (ss_account st) by' (N.pred (ss_total st)), fst (trie_remove tr p), true)
      else (st, tr, false)
  end.

Fixpoint remove_patterns (st : sstream) (tr : trie) (space : N) (ps : list str) (removed : list str)
  : sstream * trie * list str :=
  match ps with
  | [] => (st, tr, removed)
  | p :: r =>
      let '(st', tr', b) := remove_stream_pattern st tr space p in
      remove_patterns st' tr' space r (if b then removed ++ [p] else removed)
  end.

Definition add_tags (cur : list tag) (new : list tag) : list tag :=
  fold_left (fun acc t => if mem_tag t acc then acc else acc ++ [t]) new cur.
Definition remove_tags (cur : list tag) (gone : list tag) : list tag :=
  filter (fun t => negb (mem_tag t gone)) cur.
Definition pool_remove_tags (pool : list (N * list tag)) (sid : N) (gone : list tag) :=
  match nassoc sid pool with
  | Some tags => nset sid (remove_tags tags gone) pool
  | None => pool
  end.

(* the accept loop of handleSubscribe *)
Fixpoint sub_loop (c : cfg) (pats : list str) (sp : list str) (total : N) (tr : trie) (acc : list str)
  : list str * N * trie * list str * list str :=
  match pats with
  | [] => (sp, total, tr, acc, [])
  | p :: r =>
      if mem_str p sp then sub_loop c r sp total tr acc
      else if N.leb (max_space c) (N.of_nat (length sp)) || N.leb (max_stream c) total
      then (sp, total, tr, acc, p :: r)
      else sub_loop c r (sp ++ [p]) (total + 1) (fst (trie_add tr p)) (acc ++ [p])
  end.

Definition in_pool (s : svc) (sid : N) : bool :=
  match nassoc sid (sv_pool s) with Some _ => true | None => false end.

(* Status frames go through pool.SendById(peerId): nothing arrives if the stream left the pool *)
Definition reply (s : svc) (sid : N) (o : out) : out := if in_pool s sid then o else ONone.

(* [repaired = false] is the code before fixes/C17-empty-subscribe-leak.patch: a Subscribe that records nothing
   (no topics, or the cap hit on its first new pattern) left the placeholder entries it had created in
   [remote] / [streams] / [bySpace] behind. *)
Definition handle_sub_gen (repaired : bool) (c : cfg) (s : svc) (sid space : N) (pats : list str) : svc * out :=
  match nassoc sid (sv_conns s) with
  | None => (s, ONone)
  | Some acct =>
      if negb (memN space (resp c)) then (s, reply s sid (OStatus NotResponsible pats))
      else if negb (forallb validate_pattern pats) then (s, reply s sid (OStatus InvalidTopic pats))
      else if negb (is_member s space acct) then (s, reply s sid (OStatus NotAMember pats))
      else
        let tr := match nassoc space (sv_remote s) with Some t => t | None => trie_empty end in
        let st := match nassoc sid (sv_streams s) with Some x => x | None => mkSS acct [] 0 end in
        let sp := match nassoc space (ss_by st) with Some l => l | None => [] end in
        let '(sp', total', tr', accepted, rejected) := sub_loop c pats sp (ss_total st) tr [] in
        (* the three map entries exist from here on, empty or not *)
        let st1 := mkSS (ss_account st) (nset space sp' (ss_by st)) total' in
        let remote1 := nset space tr' (sv_remote s) in
        let streams1 := nset sid st1 (sv_streams s) in
        let o := if is_nil rejected then ONone else reply s sid (OStatus TooManyTopics rejected) in
        if is_nil accepted then
          (if repaired then
             let st2 := if is_nil sp' then mkSS (ss_account st1) (ndel space (ss_by st1)) (ss_total st1) else st1 in
             mkSvc (prune_space remote1 space tr') (prune_stream streams1 sid st2)
                   (sv_pool s) (sv_conns s) (sv_members s) (sv_rate s)
           else mkSvc remote1 streams1 (sv_pool s) (sv_conns s) (sv_members s) (sv_rate s), o)
        else
          match nassoc sid (sv_pool s) with
          | Some tags =>
              (mkSvc remote1 streams1
                     (nset sid (add_tags tags (map (fun p => (space, p)) accepted)) (sv_pool s))
                     (sv_conns s) (sv_members s) (sv_rate s), o)
          | None =>
              (* AddTagsCtx failed: the stream is gone; roll the interest back *)
              let '(st2, tr2, _) := remove_patterns st1 tr' space accepted [] in
              (mkSvc (prune_space remote1 space tr2) (prune_stream streams1 sid st2)
                     (sv_pool s) (sv_conns s) (sv_members s) (sv_rate s), o)
          end
  end.

Definition handle_sub := handle_sub_gen true.

Definition handle_unsub (s : svc) (sid space : N) (pats : list str) : svc :=
  match nassoc sid (sv_conns s), nassoc sid (sv_streams s), nassoc space (sv_remote s) with
  | Some _, Some st, Some tr =>
      let ps := if is_nil pats
                then match nassoc space (ss_by st) with Some l => l | None => [] end
                else pats in
      let '(st', tr', removed) := remove_patterns st tr space ps [] in
      mkSvc (prune_space (sv_remote s) space tr') (prune_stream (sv_streams s) sid st')
            (pool_remove_tags (sv_pool s) sid (map (fun p => (space, p)) removed))
            (sv_conns s) (sv_members s) (sv_rate s)
  | _, _, _ => s
  end.

(* fanout: Match on the space trie, then pool.Broadcast over the matching tags (one copy per stream) *)
Definition fanout (s : svc) (space : N) (topic : str) : list N :=
  match nassoc space (sv_remote s) with
  | None => []
  | Some tr =>
      let tags := map (fun p => (space, p)) (trie_match tr topic) in
      map fst (filter (fun e => existsb (fun t => mem_tag t (snd e)) tags) (sv_pool s))
  end.

Definition name_of (c : cfg) (acct : N) : str := nth (N.to_nat acct) (names c) [].

Definition handle_pub (c : cfg) (s : svc) (sid space : N) (topic : str) (claim : N) (relayed wellformed : bool)
  : svc * out :=
  match nassoc sid (sv_conns s) with
  | None => (s, ONone)
  | Some acct =>
      let st code := (s, OPub [] (if in_pool s sid then Some code else None) false) in
      if negb wellformed then st InvalidMessage
      else if negb (validate_topic topic) then st InvalidTopic
      else if negb (memN space (resp c)) then st NotResponsible
      else if relayed then
        (if memN sid (nodes c) then (s, OPub (fanout s space topic) None false) else (s, OPub [] None false))
      else if N.eqb claim 0 || negb (N.eqb claim (acct + 1)) then st InvalidMessage
      else if negb (is_member s space acct) then st NotAMember
      else if negb (is_nil (topic_owner topic)) && negb (str_eqb (topic_owner topic) (name_of c acct))
      then st TopicNotOwned
      else
        let used := match nassoc sid (sv_rate s) with Some u => u | None => 0%N end in
        if N.leb (burst c) used then st RateLimited
        else (mkSvc (sv_remote s) (sv_streams s) (sv_pool s) (sv_conns s) (sv_members s)
                    (nset sid (used + 1)%N (sv_rate s)),
              OPub (fanout s space topic) None true)
  end.

(* onStreamClose *)
Definition on_stream_close (s : svc) (sid : N) : svc :=
  match nassoc sid (sv_streams s) with
  | None => s
  | Some st =>
      let remote' :=
        fold_left (fun rem e =>
                     match nassoc (fst e) rem with
                     | None => rem
                     | Some tr =>
                         prune_space rem (fst e)
                                     (fold_left (fun t p => fst (trie_remove t p)) (snd e) tr)
                     end) (ss_by st) (sv_remote s) in
      mkSvc remote' (ndel sid (sv_streams s)) (sv_pool s) (sv_conns s) (sv_members s) (sv_rate s)
  end.

(* streampool.removeStream + close hook *)
Definition pool_remove (s : svc) (sid : N) : svc :=
  if in_pool s sid then
    on_stream_close (mkSvc (sv_remote s) (sv_streams s) (ndel sid (sv_pool s)) (sv_conns s) (sv_members s) (sv_rate s)) sid
  else s.

(* the pool.mu region of streampool.removeStream alone: the stream is gone from the pool, its close hook
   (which needs remoteMu) has not run yet *)
Definition drop_pool (s : svc) (sid : N) : svc :=
  mkSvc (sv_remote s) (sv_streams s) (ndel sid (sv_pool s)) (sv_conns s) (sv_members s) (sv_rate s).

(* does this run of handleSubscribe get as far as pool.AddTagsCtx (all checks pass and the accept loop
   accepted at least one pattern)? *)
Definition sub_accepted (c : cfg) (s : svc) (sid space : N) (pats : list str) : list str :=
  match nassoc sid (sv_conns s) with
  | None => []
  | Some acct =>
      if negb (memN space (resp c)) then []
      else if negb (forallb validate_pattern pats) then []
      else if negb (is_member s space acct) then []
      else
        let tr := match nassoc space (sv_remote s) with Some t => t | None => trie_empty end in
        let st := match nassoc sid (sv_streams s) with Some x => x | None => mkSS acct [] 0 end in
        let sp := match nassoc space (ss_by st) with Some l => l | None => [] end in
        let '(_, _, _, accepted, _) := sub_loop c pats sp (ss_total st) tr [] in
        accepted
  end.
Definition sub_reaches_tagging (c : cfg) (s : svc) (sid space : N) (pats : list str) : bool :=
  negb (is_nil (sub_accepted c s sid space pats)).

(* handleSubscribe on [sid] racing with the removal of [victim] from the pool.  remoteMu is held from the
   recording of the interest to the end of the roll-back, so the close hook of [victim] (onStreamClose, which
   takes remoteMu) can only run after the handler: the lock regions are, in this order,
     pool.mu  (removeStream: victim leaves the pool)
     remoteMu (handleSubscribe: record, AddTagsCtx — fails if victim = sid — , roll back)
     remoteMu (onStreamClose victim).
   A run that makes no pool call (nothing accepted) is followed by the removal. *)
Definition handle_sub_mid_gen (repaired : bool) (c : cfg) (s : svc) (sid victim space : N) (pats : list str) : svc * out :=
  if sub_reaches_tagging c s sid space pats then
    let '(s2, o) := handle_sub_gen repaired c (drop_pool s victim) sid space pats in
    (on_stream_close s2 victim, o)
  else
    let '(s2, o) := handle_sub_gen repaired c s sid space pats in
    (pool_remove s2 victim, o).
Definition handle_sub_mid := handle_sub_mid_gen true.

(* does this run of handlePublish/relayPublish get as far as the first lookup made on behalf of the publisher
   (relayed: Relay.IsResponsibleNode; direct: Membership.CheckMember, reached once the frame is well formed, the
   topic canonical, the node responsible and the message identity equal to the handshake identity)? *)
Definition pub_reaches_lookup (c : cfg) (s : svc) (sid space : N) (topic : str) (claim : N) (relayed wellformed : bool) : bool :=
  match nassoc sid (sv_conns s) with
  | None => false
  | Some acct =>
      wellformed && validate_topic topic && memN space (resp c)
      && (relayed || (negb (N.eqb claim 0) && N.eqb claim (acct + 1)))
  end.

(* handlePublish on [sid] while the publisher's stream goes away.  The frame has been read; the stream context is
   cancelled inside the first lookup, the pool's write loop drops the stream and its close hook runs (no lock is
   held by the handler at that point); the handler then carries on with the frame: the remaining ingress checks,
   fanout, forward.  Status replies made from then on cannot reach the stream any more.  A run that makes no
   lookup is followed by the removal. *)
Definition handle_pub_mid (c : cfg) (s : svc) (sid space : N) (topic : str) (claim : N) (relayed wellformed : bool) : svc * out :=
  if pub_reaches_lookup c s sid space topic claim relayed wellformed then
    handle_pub c (pool_remove s sid) sid space topic claim relayed wellformed
  else
    let '(s2, o) := handle_pub c s sid space topic claim relayed wellformed in
    (pool_remove s2 sid, o).

Definition drop_conn (s : svc) (sid : N) : svc :=
  mkSvc (sv_remote s) (sv_streams s) (sv_pool s) (ndel sid (sv_conns s)) (sv_members s) (sv_rate s).

(* evictSpaceStreams; [with_trie] = false is the CloseSpace variant (trie dropped wholesale) *)
Definition evict_streams (s : svc) (space : N) (evict : N -> bool) (with_trie : bool) : svc :=
  let si := nassoc space (sv_remote s) in
  let '(streams', pool', tr') :=
    fold_left (fun (a : list (N * sstream) * list (N * list tag) * option trie) e =>
                 let '(strs, pool, tro) := a in
                 let sid := fst e in let st := snd e in
                 match nassoc space (ss_by st) with
                 | None => a
                 | Some pats =>
                     if is_nil pats || negb (evict (ss_account st)) then a
                     else
                       let total' := fold_left (fun t _ => N.pred t) pats (ss_total st) in
                       let tro' := if with_trie
                                   then option_map (fun tr => fold_left (fun t p => fst (trie_remove t p)) pats tr) tro
                                   else tro in
                       let st' := mkSS (ss_account st) (ndel space (ss_by st)) total' in
                       (prune_stream strs sid st',
                        pool_remove_tags pool sid (map (fun p => (space, p)) pats), tro')
                 end)
              (sv_streams s) (sv_streams s, sv_pool s, si) in
  let remote' :=
    if with_trie then match tr' with Some tr => prune_space (sv_remote s) space tr | None => sv_remote s end
    else ndel space (sv_remote s) in
  mkSvc remote' streams' pool' (sv_conns s) (sv_members s) (sv_rate s).

Definition set_member (s : svc) (space acct : N) (b : bool) : svc :=
  let ms := filter (fun m => negb (N.eqb (fst m) space && N.eqb (snd m) acct)) (sv_members s) in
  mkSvc (sv_remote s) (sv_streams s) (sv_pool s) (sv_conns s)
        (if b then (space, acct) :: ms else ms) (sv_rate s).

Definition snapshot (s : svc) : out :=
  OSnap (map (fun e => (fst e, (trie_len (snd e), trie_is_empty (snd e)))) (sv_remote s))
        (map (fun e => (fst e, (ss_account (snd e), ss_total (snd e), ss_by (snd e)))) (sv_streams s))
        (sv_pool s).

Definition svc_step_gen (repaired : bool) (c : cfg) (s : svc) (e : ev) : svc * out :=
  match e with
  | EOpen sid acct =>
      (mkSvc (sv_remote s) (sv_streams s) (nset sid [] (sv_pool s)) (nset sid acct (sv_conns s))
             (sv_members s) (sv_rate s), ONone)
  | ESub sid space pats => handle_sub_gen repaired c s sid space pats
  | EUnsub sid space pats => (handle_unsub s sid space pats, ONone)
  | EPub sid space topic claim relayed wf => handle_pub c s sid space topic claim relayed wf
  | EClose sid => (drop_conn (pool_remove s sid) sid, ONone)
  | EBreak sid => (pool_remove s sid, ONone)
  | EEvict space acct => (evict_streams s space (N.eqb acct) true, ONone)
  | ERevalidate space => (evict_streams s space (fun a => negb (is_member s space a)) true, ONone)
  | ECloseSpace space => (evict_streams s space (fun _ => true) false, ONone)
  | ESetMember space acct b => (set_member s space acct b, ONone)
  | ESnap => (s, snapshot s)
  | ESubMid sid victim space pats => handle_sub_mid_gen repaired c s sid victim space pats
  | EPubMid sid space topic claim relayed wf => handle_pub_mid c s sid space topic claim relayed wf
  end.

Definition svc_step := svc_step_gen true.

Fixpoint svc_run_gen (repaired : bool) (c : cfg) (s : svc) (evs : list ev) : list out :=
  match evs with
  | [] => []
  | e :: r => let '(s', o) := svc_step_gen repaired c s e in o :: svc_run_gen repaired c s' r
  end.
Definition svc_run := svc_run_gen true.

Definition svc_exec (c : cfg) (s : svc) (evs : list ev) : svc :=
  fold_left (fun s e => fst (svc_step c s e)) evs s.

(* ------------------------------------------------------------------ declarative specification *)
(* The property, stated over OBSERVED outputs.  It keeps only what the property talks about: the set
   [reg] of registered (stream, space, pattern) triples, which streams are pooled, who is a member.
   It never looks at tries, refcounts, per-stream records or tags — those are the implementation's three
   views, which a snapshot must show to agree with [reg]. *)

Definition triple := (N * N * str)%type.
Definition tr_sid (t : triple) := fst (fst t).
Definition tr_space (t : triple) := snd (fst t).
Definition tr_pat (t : triple) := snd t.
Definition triple_eqb (a b : triple) : bool :=
  N.eqb (tr_sid a) (tr_sid b) && N.eqb (tr_space a) (tr_space b) && str_eqb (tr_pat a) (tr_pat b).
Definition mem_triple (t : triple) (l : list triple) : bool := existsb (triple_eqb t) l.

Record pstate := mkP {
  p_reg : list triple;
  p_accts : list (N * N);     (* running read loops: stream -> proven account *)
  p_pooled : list N;
  p_mem : list (N * N);
  p_passed : list (N * N)     (* direct publishes let through, per peer *)
}.
Definition p_init : pstate := mkP [] [] [] [] [].

Definition p_member (p : pstate) (space acct : N) : bool :=
  existsb (fun m => N.eqb (fst m) space && N.eqb (snd m) acct) (p_mem p).

Definition reg_add (reg : list triple) (sid space : N) (pats : list str) : list triple :=
  fold_left (fun r q => if mem_triple (sid, space, q) r then r else r ++ [(sid, space, q)]) pats reg.

Fixpoint is_suffix (suf l : list str) : bool :=
  if Nat.eqb (length suf) (length l)
  then (fix eq (a b : list str) := match a, b with
                                   | [], [] => true
                                   | x :: a', y :: b' => str_eqb x y && eq a' b'
                                   | _, _ => false
                                   end) suf l
  else match l with [] => false | _ :: r => is_suffix suf r end.

(* owner of a topic in the self-owned namespace, by the plain split *)
Definition spec_owner_ok (c : cfg) (topic : str) (acct : N) : bool :=
  let segs := full_split topic in
  match segs with
  | s0 :: _ :: _ => if str_eqb s0 acc_seg then str_eqb (last segs []) (name_of c acct) else true
  | _ => true
  end.

Definition nodupN (l : list N) : bool :=
  (fix nd (l : list N) := match l with [] => true | x :: r => negb (memN x r) && nd r end) l.
Definition set_eqN (a b : list N) : bool := forallb (fun x => memN x b) a && forallb (fun x => memN x a) b.

Definition expected_delivery (p : pstate) (space : N) (topic : str) : list N :=
  filter (fun sid => existsb (fun t => N.eqb (tr_sid t) sid && N.eqb (tr_space t) space
                                       && spec_matches (tr_pat t) topic) (p_reg p)) (p_pooled p).

Definition tags_of (reg : list triple) (sid : N) : list tag :=
  map (fun t => (tr_space t, tr_pat t)) (filter (fun t => N.eqb (tr_sid t) sid) reg).
Definition pats_of (reg : list triple) (sid space : N) : list str :=
  map tr_pat (filter (fun t => N.eqb (tr_sid t) sid && N.eqb (tr_space t) space) reg).
Definition space_pats (reg : list triple) (space : N) : list str :=
  dedup_str (map tr_pat (filter (fun t => N.eqb (tr_space t) space) reg)).
Definition dedupN (l : list N) : list N :=
  (fix dd (l : list N) := match l with [] => [] | x :: r => if memN x r then dd r else x :: dd r end) l.

Definition set_eq_tag (a b : list tag) : bool :=
  forallb (fun x => mem_tag x b) a && forallb (fun x => mem_tag x a) b.

(* the three views agree with [reg], and hold nothing else *)
Definition spec_snapshot (p : pstate)
  (remote : list (N * (N * bool))) (streams : list (N * (N * N * list (N * list str)))) (pool : list (N * list tag)) : bool :=
  let reg := p_reg p in
  (* pool tags *)
  set_eqN (map fst pool) (p_pooled p) && Nat.eqb (length pool) (length (p_pooled p))
  && forallb (fun e => set_eq_tag (snd e) (tags_of reg (fst e))
                       && Nat.eqb (length (snd e)) (length (tags_of reg (fst e)))) pool
  (* per-stream records: exactly the streams with registered interest *)
  && set_eqN (map fst streams) (dedupN (map tr_sid reg)) && nodupN (map fst streams)
  && forallb (fun e =>
                let sid := fst e in
                let '(acct, total, by_) := snd e in
                (match nassoc sid (p_accts p) with Some a => N.eqb a acct | None => false end)
                && N.eqb total (N.of_nat (length (tags_of reg sid)))
                && nodupN (map fst by_)
                && set_eqN (map fst by_) (dedupN (map fst (tags_of reg sid)))
                && forallb (fun b => set_eq_str (snd b) (pats_of reg sid (fst b))
                                     && Nat.eqb (length (snd b)) (length (pats_of reg sid (fst b)))) by_) streams
  (* space tries: exactly the spaces with registered interest; Len = distinct patterns *)
  && set_eqN (map fst remote) (dedupN (map tr_space reg)) && nodupN (map fst remote)
  && forallb (fun e => N.eqb (fst (snd e)) (N.of_nat (length (space_pats reg (fst e))))
                       && negb (snd (snd e))) remote.

Definition p_set (p : pstate) reg accts pooled mem passed := mkP reg accts pooled mem passed.

(* a Subscribe frame on [sid] and the reply [o] observed for it *)
Definition spec_sub (c : cfg) (p : pstate) (sid space : N) (pats : list str) (o : out) : bool * pstate :=
  let same := (true, p) in
  let bad := (false, p) in
  let is_none := match o with ONone => true | _ => false end in
      match nassoc sid (p_accts p) with
      | None => (is_none, p)
      | Some acct =>
          let eligible := memN space (resp c) && forallb spec_valid_pattern pats && p_member p space acct in
          let pooled := memN sid (p_pooled p) in
          match o with
          | ONone =>
              if pooled then
                (eligible, mkP (reg_add (p_reg p) sid space pats) (p_accts p) (p_pooled p) (p_mem p) (p_passed p))
              else same      (* no reply can reach a stream outside the pool; nothing may be registered *)
          | OStatus code topics =>
              if N.eqb code TooManyTopics then
                (eligible && pooled && is_suffix topics pats && negb (is_nil topics),
                 mkP (reg_add (p_reg p) sid space (firstn (length pats - length topics) pats))
                     (p_accts p) (p_pooled p) (p_mem p) (p_passed p))
              else (negb eligible && pooled, p)
          | _ => bad
          end
      end.

(* the stream has left the pool and its close hook has run: no registered interest, not pooled *)
Definition after_break (p : pstate) (sid : N) : pstate :=
  mkP (filter (fun t => negb (N.eqb (tr_sid t) sid)) (p_reg p)) (p_accts p)
      (filter (fun x => negb (N.eqb x sid)) (p_pooled p)) (p_mem p) (p_passed p).

(* a Publish frame on [sid] and the outcome [o] observed for it *)
Definition spec_pub (c : cfg) (p : pstate) (sid space : N) (topic : str) (claim : N) (relayed wf : bool) (o : out)
  : bool * pstate :=
  let bad := (false, p) in
  let is_none := match o with ONone => true | _ => false end in
      match nassoc sid (p_accts p) with
      | None => (is_none, p)
      | Some acct =>
          let ingress :=
            wf && spec_valid_topic topic && memN space (resp c)
            && (if relayed then memN sid (nodes c)
                else N.eqb claim (acct + 1) && p_member p space acct && spec_owner_ok c topic acct) in
          let passed := match nassoc sid (p_passed p) with Some u => u | None => 0%N end in
          match o with
          | OPub delivered status forwarded =>
              if negb ingress then (is_nil delivered && negb forwarded, p)
              else
                match status with
                | Some code =>
                    (N.eqb code RateLimited && negb relayed && N.leb (burst c) passed
                     && is_nil delivered && negb forwarded, p)
                | None =>
                    if negb relayed && N.leb (burst c) passed
                    then (* rate limited; the Status frame cannot reach a stream that left the pool *)
                      (negb (memN sid (p_pooled p)) && is_nil delivered && negb forwarded, p)
                    else
                    ((relayed || N.ltb passed (burst c))
                     && nodupN delivered && set_eqN delivered (expected_delivery p space topic)
                     && Bool.eqb forwarded (negb relayed),
                     if relayed then p
                     else mkP (p_reg p) (p_accts p) (p_pooled p) (p_mem p) (nset sid (passed + 1)%N (p_passed p)))
                end
          | _ => bad
          end
      end.

Definition spec_step (c : cfg) (p : pstate) (e : ev) (o : out) : bool * pstate :=
  let same := (true, p) in
  let bad := (false, p) in
  let is_none := match o with ONone => true | _ => false end in
  match e with
  | EOpen sid acct =>
      (is_none, mkP (p_reg p) (nset sid acct (p_accts p)) (sid :: filter (fun x => negb (N.eqb x sid)) (p_pooled p))
                    (p_mem p) (p_passed p))
  | ESub sid space pats => spec_sub c p sid space pats o
  | EUnsub sid space pats =>
      match nassoc sid (p_accts p) with
      | None => (is_none, p)
      | Some _ =>
          (is_none,
           mkP (filter (fun t => negb (N.eqb (tr_sid t) sid && N.eqb (tr_space t) space
                                       && (is_nil pats || mem_str (tr_pat t) pats))) (p_reg p))
               (p_accts p) (p_pooled p) (p_mem p) (p_passed p))
      end
  | EPub sid space topic claim relayed wf => spec_pub c p sid space topic claim relayed wf o
  | EClose sid =>
      (is_none, mkP (filter (fun t => negb (N.eqb (tr_sid t) sid)) (p_reg p)) (ndel sid (p_accts p))
                    (filter (fun x => negb (N.eqb x sid)) (p_pooled p)) (p_mem p) (p_passed p))
  | EBreak sid =>
      (is_none, mkP (filter (fun t => negb (N.eqb (tr_sid t) sid)) (p_reg p)) (p_accts p)
                    (filter (fun x => negb (N.eqb x sid)) (p_pooled p)) (p_mem p) (p_passed p))
  | EEvict space acct =>
      (is_none,
       mkP (filter (fun t => negb (N.eqb (tr_space t) space
                                   && match nassoc (tr_sid t) (p_accts p) with Some a => N.eqb a acct | None => false end))
                   (p_reg p)) (p_accts p) (p_pooled p) (p_mem p) (p_passed p))
  | ERevalidate space =>
      (is_none,
       mkP (filter (fun t => negb (N.eqb (tr_space t) space
                                   && match nassoc (tr_sid t) (p_accts p) with
                                      | Some a => negb (p_member p space a) | None => true end))
                   (p_reg p)) (p_accts p) (p_pooled p) (p_mem p) (p_passed p))
  | ECloseSpace space =>
      (is_none, mkP (filter (fun t => negb (N.eqb (tr_space t) space)) (p_reg p))
                    (p_accts p) (p_pooled p) (p_mem p) (p_passed p))
  | ESetMember space acct b =>
      let ms := filter (fun m => negb (N.eqb (fst m) space && N.eqb (snd m) acct)) (p_mem p) in
      (is_none, mkP (p_reg p) (p_accts p) (p_pooled p) (if b then (space, acct) :: ms else ms) (p_passed p))
  | ESnap =>
      match o with
      | OSnap remote streams pool => (spec_snapshot p remote streams pool, p)
      | _ => bad
      end
  | ESubMid sid victim space pats =>
      (* whatever is replied must be a legal reply to that Subscribe; whatever the interleaving, afterwards
         [victim] holds no interest and is not pooled, and nobody else's registrations are disturbed *)
      let '(ok, p1) := spec_sub c p sid space pats o in (ok, after_break p1 victim)
  | EPubMid sid space topic claim relayed wf =>
      (* the publisher's stream goes away while its frame is being handled.  Delivery depends on the ingress
         checks and the registered interest only, not on the liveness of the publisher's stream once the frame
         was read: the outcome must be that of the same Publish handled either just AFTER the publisher left
         the pool or just BEFORE (the two differ only in the publisher's own copy and in whether a Status
         reply can still reach it); afterwards the publisher holds no interest and is not pooled *)
      let '(ok1, _) := spec_pub c (after_break p sid) sid space topic claim relayed wf o in
      let '(ok2, p2) := spec_pub c p sid space topic claim relayed wf o in
      (ok1 || ok2, after_break p2 sid)
  end.

Fixpoint spec_svc_from (c : cfg) (p : pstate) (evs : list ev) (obs : list out) : bool :=
  match evs, obs with
  | [], [] => true
  | e :: r, o :: ro => let '(ok, p') := spec_step c p e o in ok && spec_svc_from c p' r ro
  | _, _ => false
  end.

Definition spec_C17_svc (c : cfg) (evs : list ev) (obs : list out) : bool := spec_svc_from c p_init evs obs.
