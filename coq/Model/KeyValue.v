(* Model of the space key-value store (property C12).  Definitions only; proofs are in Proofs/KeyValue*.v.

   Mirrors:
     commonspace/object/keyvalue/keyvaluestorage/storage.go            SetRaw, Set
     commonspace/object/keyvalue/keyvaluestorage/innerstorage/keyvaluestorage.go   Set (tx + undo), updateValues
     commonspace/object/keyvalue/keyvaluestorage/innerstorage/element.go           KeyValueFromProto
     commonspace/object/keyvalue/keyvalue.go                           syncWithPeer / HandleStoreElementsRequest
                                                                       (one exchange driven by CompareDiff)

   A [value] is one concrete envelope (StoreKeyValue: KeyPeerId, Value, PeerSignature, IdentitySignature).
   The harness owns the tables  slot string <-> N  and  envelope bytes <-> v_id, and computes the validity
   flags from primitives (proto decoder, ed25519 verification, the ACL script), never from SetRaw.

   The model describes the REPAIRED behaviour (fixes/C12-slot-binding.patch, fixes/C12-setraw-permission.patch):
   [set_raw] = [set_raw_gen true true].  The behaviour of the unrepaired tree is [set_raw_legacy]
   (= [set_raw_gen false false]); Properties/C12.v refutes authenticity for it. *)
From Coq Require Import List NArith ZArith Bool.
Import ListNotations.

(* ------------------------------------------------------------------------------------------------ *)
(* Finite maps keyed by N, kept as association lists sorted by key (so equal maps are equal lists).   *)

Section SMap.
  Context {A : Type}.

  Fixpoint sm_get (m : list (N * A)) (k : N) : option A :=
    match m with
    | [] => None
    | (k', a) :: r => if (k' =? k)%N then Some a else sm_get r k
    end.

  (* insert or replace, keeping the keys increasing *)
  Fixpoint sm_set (m : list (N * A)) (k : N) (a : A) : list (N * A) :=
    match m with
    | [] => [(k, a)]
    | (k', a') :: r =>
        if (k <? k')%N then (k, a) :: m
        else if (k =? k')%N then (k, a) :: r
        else (k', a') :: sm_set r k a
    end.

  Fixpoint sm_remove (m : list (N * A)) (k : N) : list (N * A) :=
    match m with
    | [] => []
    | (k', a') :: r => if (k' =? k)%N then sm_remove r k else (k', a') :: sm_remove r k
    end.

  (* keys strictly increasing *)
  Fixpoint sm_sorted (m : list (N * A)) : Prop :=
    match m with
    | [] => True
    | (k, _) :: r => Forall (fun p => (k < fst p)%N) r /\ sm_sorted r
    end.

  Fixpoint sm_sortedb (m : list (N * A)) : bool :=
    match m with
    | [] => true
    | (k, _) :: r => (match r with [] => true | (k', _) :: _ => (k <? k')%N end) && sm_sortedb r
    end.
End SMap.

Definition smap (A : Type) := list (N * A).

Definition sm_map {A B : Type} (f : A -> B) (m : smap A) : smap B :=
  map (fun p => (fst p, f (snd p))) m.

(* ------------------------------------------------------------------------------------------------ *)
(* Values and their validity flags                                                                   *)

Record value := mkValue {
  v_id     : N;     (* identity of the envelope bytes (Value, PeerSignature, IdentitySignature) *)
  v_env    : N;     (* slot named by the UNSIGNED envelope field KeyPeerId *)
  v_signed : N;     (* slot named by the signed bytes: inner.Key ++ "-" ++ PeerId(inner.Peer) *)
  v_ts     : Z;     (* inner.TimestampMicro (signed) *)
  v_decodes : bool; (* inner value and both public keys unmarshal *)
  v_dev    : bool;  (* PeerSignature verifies over Value under inner.Peer *)
  v_acc    : bool;  (* IdentitySignature verifies over Value under inner.Identity *)
  v_known  : bool;  (* inner.AclHeadId is a record of the local ACL *)
  v_write  : bool   (* inner.Identity could write at inner.AclHeadId *)
}.

(* the five conditions of the property (decoding is a precondition of all of them) *)
Definition valid (v : value) : bool :=
  v_decodes v && v_dev v && v_acc v && (v_env v =? v_signed v)%N && v_known v && v_write v.

(* timestamps for which the code's three comparisons coincide:
   - SetRaw compares big-endian uint64 strings (unsigned order),
   - updateValues compares int64(float64) read back from the document (exact only below 2^53),
   - the property compares signed integers. *)
Definition ts_ok (v : value) : Prop := (0 <= v_ts v < 2 ^ 53)%Z.
Definition ts_okb (v : value) : bool := ((0 <=? v_ts v) && (v_ts v <? 2 ^ 53))%Z.

(* binary.BigEndian.PutUint64(uint64(ts)); string comparison of 8-byte big-endian = unsigned comparison *)
Definition u64 (t : Z) : N := Z.to_N (t mod 2 ^ 64).
Definition head_of (v : value) : N := u64 (v_ts v).

(* ------------------------------------------------------------------------------------------------ *)
(* State: the collection (slot -> stored envelope) and the in-memory ldiff index (slot -> head)        *)

Record state := mkState { st_store : smap value; st_index : smap N }.

Definition image (m : smap value) : smap N := sm_map head_of m.
Definition empty_state : state := mkState [] [].

Inductive fault :=
| FNone
| FUpsert (k : nat)   (* the k-th UpsertOne of this call fails (0-based); no effect if fewer upserts happen *)
| FHead               (* headStorage.UpdateEntry fails (after diff.Set) *)
| FCommit.            (* tx.Commit fails *)

(* updateValues: for each value FindId; skip if stored timestamp >= ; remember prior / added; UpsertOne *)
Record uv := mkUv {
  uv_tx : smap value;          (* documents as seen inside the write transaction *)
  uv_els : list (N * N);       (* elements = append(elements, anyEncToElement(val)) *)
  uv_prior : list (N * N);     (* prior = append(prior, anyEncToElement(doc)) *)
  uv_added : list N            (* added = append(added, value.KeyPeerId) *)
}.

Definition uv_step (a : uv) (v : value) : uv :=
  match sm_get (uv_tx a) (v_env v) with
  | Some old =>
      if (v_ts v <=? v_ts old)%Z then a
      else mkUv (sm_set (uv_tx a) (v_env v) v) (uv_els a ++ [(v_env v, head_of v)])
                (uv_prior a ++ [(v_env v, head_of old)]) (uv_added a)
  | None =>
      mkUv (sm_set (uv_tx a) (v_env v) v) (uv_els a ++ [(v_env v, head_of v)])
           (uv_prior a) (uv_added a ++ [v_env v])
  end.

Definition update_values (tx : smap value) (vals : list value) : uv :=
  fold_left uv_step vals (mkUv tx [] [] []).

(* s.diff.Set(elements...) *)
Definition idx_set_all (idx : smap N) (els : list (N * N)) : smap N :=
  fold_left (fun i e => sm_set i (fst e) (snd e)) els idx.

(* deferred undo: for i := len(prior)-1 .. 0 { diff.Set(prior[i]) }; for id in added { diff.RemoveId(id) } *)
Definition idx_undo (prior : list (N * N)) (added : list N) (idx : smap N) : smap N :=
  fold_left (fun i k => sm_remove i k) added
            (fold_left (fun i e => sm_set i (fst e) (snd e)) (rev prior) idx).

(* innerstorage.Set: returns the new state and whether the call succeeded *)
Definition inner_set (f : fault) (st : state) (vals : list value) : state * bool :=
  let r := update_values (st_store st) vals in
  let committed := (mkState (uv_tx r) (idx_set_all (st_index st) (uv_els r)), true) in
  match f with
  | FNone => committed
  | FUpsert k => if (k <? length (uv_els r))%nat then (st, false) else committed
  | FHead | FCommit =>
      (mkState (st_store st) (idx_undo (uv_prior r) (uv_added r) (idx_set_all (st_index st) (uv_els r))), false)
  end.

(* KeyValueFromProto(kv, true) (+ the slot-binding repair when [check_slot]) *)
Definition decode_verify (check_slot : bool) (v : value) : bool :=
  v_decodes v && v_acc v && v_dev v && (if check_slot then (v_env v =? v_signed v)%N else true).

(* el, err := diff.Element(KeyPeerId); if err == nil && el.Head >= BE(ts) { skip } *)
Definition newer_than_index (idx : smap N) (v : value) : bool :=
  match sm_get idx (v_env v) with
  | Some h => (h <? head_of v)%N
  | None => true
  end.

(* ReadKeyForAclId(AclId) succeeds (+ the permission repair when [check_perm]) *)
Definition acl_ok (check_perm : bool) (v : value) : bool :=
  v_known v && (if check_perm then v_write v else true).

Definition set_raw_gen (check_slot check_perm : bool) (f : fault) (st : state) (batch : list value)
  : state * bool :=
  let kvs := filter (decode_verify check_slot) batch in
  let kvs2 := filter (fun v => newer_than_index (st_index st) v && acl_ok check_perm v) kvs in
  match kvs2 with
  | [] => (st, true)                 (* len(keyValues) == 0: return nil, no transaction *)
  | _ => inner_set f st kvs2
  end.

Definition set_raw := set_raw_gen true true.
Definition set_raw_legacy := set_raw_gen false false.

(* local Set: permission of the own account at the current head, then inner.Set of the freshly signed value.
   [v] is the value the store built (observed through Broadcast); v_write v = CanWrite() at the head it cites. *)
Definition local_set (f : fault) (st : state) (v : value) : state * bool :=
  if v_write v then inner_set f st [v] else (st, false).

(* ------------------------------------------------------------------------------------------------ *)
(* Two stores and one sync exchange                                                                  *)

(* ids the initiator sends values for: removedIds ++ changedIds (mine only, or my head greater) *)
Definition push_ids (mine theirs : smap N) : list N :=
  map fst (filter (fun p => match sm_get theirs (fst p) with
                            | None => true
                            | Some h => (h <? snd p)%N
                            end) mine).

Definition values_of (store : smap value) (ids : list N) : list value :=
  flat_map (fun k => match sm_get store k with Some v => [v] | None => [] end) ids.

(* initiator [a] syncs with [b]: CompareDiff; push removed++changed; request theirChanged++new; the responder
   reads the requested values BEFORE applying the pushed ones; both apply with SetRaw. *)
Definition sync_exchange (a b : state) : state * state :=
  let push := values_of (st_store a) (push_ids (st_index a) (st_index b)) in
  let pull := values_of (st_store b) (push_ids (st_index b) (st_index a)) in
  (fst (set_raw FNone a pull), fst (set_raw FNone b push)).

(* ---- the exchange as it really runs over the StoreElements stream --------------------------------- *)

(* responder, HandleStoreElementsRequest: sortIdsNewestFirst orders the requested ids by head, descending (ids the
   diff does not know sort last), ties by id.  The id order of the code is the string order of the slot names, which
   the model does not know (slots are numbers handed out by the harness): ties are broken by slot number here.  Every
   theorem about the streamed exchange is proved for ANY order of the stream, so nothing depends on this choice. *)
Definition newer_first (idx : smap N) (x y : N) : bool :=
  match sm_get idx x, sm_get idx y with
  | Some hx, Some hy => if (hx =? hy)%N then (x <=? y)%N else (hy <? hx)%N
  | Some _, None => true
  | None, Some _ => false
  | None, None => (x <=? y)%N
  end.

Fixpoint insert_newest (idx : smap N) (x : N) (l : list N) : list N :=
  match l with
  | [] => [x]
  | y :: r => if newer_first idx x y then x :: l else y :: insert_newest idx x r
  end.

Definition newest_first (idx : smap N) (ids : list N) : list N :=
  fold_right (insert_newest idx) [] ids.

(* initiator, syncWithPeer: batch = append(batch, msg); if len(batch) >= applyBatchSize { SetRaw(batch...); batch =
   batch[:0] }; after the terminator: SetRaw(batch...) (also when the batch is empty).  [n] = applyBatchSize. *)
Fixpoint stream_apply (n : nat) (st : state) (batch : list value) (msgs : list value) : state :=
  match msgs with
  | [] => fst (set_raw FNone st batch)
  | m :: r =>
      let batch' := batch ++ [m] in
      if (n <=? length batch')%nat then stream_apply n (fst (set_raw FNone st batch')) [] r
      else stream_apply n st batch' r
  end.

(* initiator [a], responder [b]: same id sets as [sync_exchange]; the responder streams the requested values
   newest-first (read BEFORE it applies the pushed ones), the initiator applies them in chunks of [n]. *)
Definition sync_exchange_stream (n : nat) (a b : state) : state * state :=
  let push := values_of (st_store a) (push_ids (st_index a) (st_index b)) in
  let pull := values_of (st_store b) (newest_first (st_index b) (push_ids (st_index b) (st_index a))) in
  (stream_apply n a [] pull, fst (set_raw FNone b push)).

(* ------------------------------------------------------------------------------------------------ *)
(* Operation histories on a world of two stores                                                      *)

Inductive op :=
| OpRaw (who : bool) (f : fault) (batch : list value)     (* pushed batch / pulled stream chunk: SetRaw *)
| OpLocal (who : bool) (f : fault) (v : value)            (* local Set *)
| OpSync (who : bool)                                     (* [who] initiates one exchange with the other *)
| OpSyncStream (who : bool) (n : nat).                    (* the same through the real service: streamed, chunks of n *)

Definition world := (state * state)%type.
Definition wget (w : world) (who : bool) : state := if who then snd w else fst w.
Definition wset (w : world) (who : bool) (s : state) : world :=
  if who then (fst w, s) else (s, snd w).

Definition step (w : world) (o : op) : world * bool :=
  match o with
  | OpRaw who f b => let '(s, ok) := set_raw f (wget w who) b in (wset w who s, ok)
  | OpLocal who f v => let '(s, ok) := local_set f (wget w who) v in (wset w who s, ok)
  | OpSync who =>
      let '(a, b) := sync_exchange (wget w who) (wget w (negb who)) in
      (wset (wset w who a) (negb who) b, true)
  | OpSyncStream who n =>
      let '(a, b) := sync_exchange_stream n (wget w who) (wget w (negb who)) in
      (wset (wset w who a) (negb who) b, true)
  end.

Definition step_legacy (w : world) (o : op) : world * bool :=
  match o with
  | OpRaw who f b => let '(s, ok) := set_raw_legacy f (wget w who) b in (wset w who s, ok)
  | _ => step w o
  end.

(* ------------------------------------------------------------------------------------------------ *)
(* Declarative specification                                                                         *)

(* LWW join of one more value into a slot's current content (ties keep the incumbent) *)
Definition join1 (cur : option value) (v : value) : option value :=
  match cur with
  | None => Some v
  | Some old => if (v_ts v <=? v_ts old)%Z then cur else Some v
  end.

(* the content of slot [s] after [vals] were delivered on top of [cur] *)
Definition best (s : N) (cur : option value) (vals : list value) : option value :=
  fold_left join1 (filter (fun v => valid v && (v_env v =? s)%N) vals) cur.

(* Observables: contents as (slot, timestamp, envelope id) sorted by slot; index as (slot, head) sorted by slot *)
Definition obs_entry := (N * Z * N)%type.
Record obs := mkObs {
  o_contents : list obs_entry;  (* Iterate / IterateValues *)
  o_index : list (N * N);       (* InnerStorage().Diff().Elements(), head as uint64 *)
  o_hash_ok : bool;             (* Diff().Hash() = hash of a fresh ldiff holding exactly o_index, and the
                                   heads entry of the store id = [that hash] *)
  o_ok : bool                   (* the call returned nil *)
}.

Definition contents_of (st : state) : list obs_entry :=
  map (fun p => (fst p, v_ts (snd p), v_id (snd p))) (st_store st).

Definition observe (st : state) (ok : bool) : obs :=
  mkObs (contents_of st) (st_index st) true ok.

(* spec_C12 — stated on OBSERVED contents only.  [delivered] = all values handed to this store by calls that
   returned nil (SetRaw batches, local Sets, values received in sync exchanges), with harness-computed flags. *)
Definition entry_justified (delivered : list value) (e : obs_entry) : bool :=
  let '(s, t, id) := e in
  existsb (fun v => valid v && (v_env v =? s)%N && (v_ts v =? t)%Z && (v_id v =? id)%N) delivered
  && forallb (fun v => negb (valid v && (v_env v =? s)%N) || (v_ts v <=? t)%Z) delivered.

Definition slot_present (contents : list obs_entry) (s : N) : bool :=
  existsb (fun e => (fst (fst e) =? s)%N) contents.

Fixpoint slots_increasing (l : list N) : bool :=
  match l with
  | [] => true
  | k :: r => (match r with [] => true | k' :: _ => (k <? k')%N end) && slots_increasing r
  end.

Definition index_matches (contents : list obs_entry) (index : list (N * N)) : bool :=
  let want := map (fun e => (fst (fst e), u64 (snd (fst e)))) contents in
  (length want =? length index)%nat &&
  forallb (fun pq => (fst (fst pq) =? fst (snd pq))%N && (snd (fst pq) =? snd (snd pq))%N) (combine want index).

Definition spec_C12 (delivered : list value) (o : obs) : bool :=
  forallb (entry_justified delivered) (o_contents o)
  && forallb (fun v => negb (valid v) || slot_present (o_contents o) (v_env v)) delivered
  && slots_increasing (map (fun e => fst (fst e)) (o_contents o))
  && index_matches (o_contents o) (o_index o)
  && o_hash_ok o.

(* equality tests used by the runner *)
Definition entry_eqb (a b : obs_entry) : bool :=
  (fst (fst a) =? fst (fst b))%N && (snd (fst a) =? snd (fst b))%Z && (snd a =? snd b)%N.
Definition pairN_eqb (a b : N * N) : bool := (fst a =? fst b)%N && (snd a =? snd b)%N.

Fixpoint list_eqb {A} (eqb : A -> A -> bool) (a b : list A) : bool :=
  match a, b with
  | [], [] => true
  | x :: a', y :: b' => eqb x y && list_eqb eqb a' b'
  | _, _ => false
  end.

Definition obs_eqb (a b : obs) : bool :=
  list_eqb entry_eqb (o_contents a) (o_contents b) && list_eqb pairN_eqb (o_index a) (o_index b)
  && Bool.eqb (o_hash_ok a) (o_hash_ok b) && Bool.eqb (o_ok a) (o_ok b).
