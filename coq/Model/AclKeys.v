(* C05 — read keys.  DEFINITIONS ONLY (proofs: Proofs/AclKeys*.v).

   Built ON TOP of Model/Acl.v (the shared ACL state machine, reused unchanged for every membership transition and
   for the validator, with legacy := false, v := true, me := 0); this file adds

   * the C05 repair (fixes/C05-permchange-nonmember.patch): ValidatePermissionChange refuses a target that holds no
     permission ([apply_content5]; [legacy5 := true] gives the code before the patch);
   * SYMBOLIC key material: key generation g (a record id: the root or the record that carried the read-key change) has
     the symbolic read key K g; every record carries, next to the content the validator inspects, a payload [kpay]
     saying WHICH generation each ciphertext contains (None = bytes that do not decrypt to a known read key):
       Enc pk_account (K g)   AccountKeys entry / AccountsAdd / RequestAccept / InviteJoin / root
       Enc invite_key (K g)   InviteKeys entry / anyone-can-join invite
       SEnc (K r) (K g)       EncryptedOldReadKey of the rotation in record r
     (metadata keys are not tracked as terms; the code's "decrypt the metadata key with the candidate read key" step is
     modelled as the equality test it amounts to, see [unpack]);
   * deducibility [derives] (executable saturation) and [Derives] (inductive);
   * the CODE's view: what applyReadKeyChange / unpackAllKeys store for the identity the list was built with
     ([view_content], [unpack]);
   * the run over a history, its observables, and the executable specification [spec_C05] over OBSERVED data;
   * a symbolic model of the change builder / IterateRoot for encrypted tree content. *)
From Coq Require Import List NArith Bool.
Import ListNotations.
From AnySync Require Export Model.Acl.
Open Scope N_scope.

(* ------------------------------------------------------------------------------------------ symbolic terms *)
Inductive principal := PA (a : acct) | PI (k : N).      (* holder of an account key / of an invite private key *)
Definition principal_eqb (p q : principal) : bool :=
  match p, q with PA a, PA b => a =? b | PI a, PI b => a =? b | _, _ => false end.

Inductive cipher :=
| CAsym (p : principal) (g : rid)        (* Enc pk_p (K g) *)
| CSym (outer inner : rid).              (* SEnc (K outer) (K inner) *)

(* what the key-carrying fields of one content contain *)
Inductive kpay :=
| KNone
| KDeliver (gs : list (option rid))                          (* invite / accept / invite-join: one; accounts-add: one per addition *)
| KRot (accs invs : list (option rid)) (old : option rid).   (* aligned with rk_accounts / rk_invites; EncryptedOldReadKey *)

Fixpoint zipc (mk : N -> principal) (l : list N) (gs : list (option rid)) : list cipher :=
  match l, gs with
  | a :: l', Some g :: gs' => CAsym (mk a) g :: zipc mk l' gs'
  | _ :: l', None :: gs' => zipc mk l' gs'
  | _, _ => []
  end.

Definition rot_ciphers (r : rid) (rk : rkchange) (k : kpay) : list cipher :=
  match k with
  | KRot accs invs old =>
      zipc PA (rk_accounts rk) accs ++ zipc PI (rk_invites rk) invs ++
      match old with Some g => [CSym r g] | None => [] end
  | _ => []
  end.

(* the ciphertexts record [r] publishes through content [c] *)
Definition ciphers_of (r : rid) (c : content) (k : kpay) : list cipher :=
  match c, k with
  | CInvite key _ _ _, KDeliver gs => zipc PI [key] gs
  | CRequestAccept id _ _, KDeliver gs => zipc PA [id] gs
  | CInviteJoin id _ _ _ _ _ _, KDeliver gs => zipc PA [id] gs
  | CAccountsAdd l, KDeliver gs => zipc PA (map fst l) gs
  | CReadKeyChange rk, _ => rot_ciphers r rk k
  | CAccountRemove _ (Some rk), _ => rot_ciphers r rk k
  | _, _ => []
  end.

(* ------------------------------------------------------------------------------------------ deducibility *)
(* keys a principal obtains directly with its private key *)
Definition direct (p : principal) (L : list cipher) : list rid :=
  flat_map (fun c => match c with CAsym q g => if principal_eqb p q then [g] else [] | CSym _ _ => [] end) L.
(* one pass over the log: open every SEnc whose key is already known *)
Definition sat_pass (L : list cipher) (S : list rid) : list rid :=
  fold_left (fun S c => match c with
                        | CSym o i => if memN o S && negb (memN i S) then i :: S else S
                        | CAsym _ _ => S
                        end) L S.
Fixpoint saturate (fuel : nat) (L : list cipher) (S : list rid) : list rid :=
  match fuel with O => S | Datatypes.S n => saturate n L (sat_pass L S) end.
Definition is_sym (c : cipher) : bool := match c with CSym _ _ => true | CAsym _ _ => false end.
(* fuel: the number of symmetric ciphertexts (each productive pass opens a new one) *)
Definition sym_count (L : list cipher) : nat := length (filter is_sym L).
Definition derives (p : principal) (L : list cipher) : list rid := saturate (sym_count L) L (direct p L).

(* inductive characterisation, with the depth of the derivation *)
Inductive DerivesN (p : principal) (L : list cipher) : nat -> rid -> Prop :=
| D_direct : forall g, In (CAsym p g) L -> DerivesN p L O g
| D_open : forall n o i, DerivesN p L n o -> In (CSym o i) L -> DerivesN p L (Datatypes.S n) i.
Definition Derives (p : principal) (L : list cipher) (g : rid) : Prop := exists n, DerivesN p L n g.

(* ------------------------------------------------------------------------------------------ the repaired machine *)
Section Machine5.
  Variable legacy5 : bool.     (* true = ValidatePermissionChange before fixes/C05-permchange-nonmember.patch *)

  Definition apply_perm_change5 (s : state) (au : acct) (r : rid) (t : acct) (p : perm) : option state :=
    if negb legacy5 && (perm_of s t =? pNone) then None
    else apply_perm_change true s au r t p.
  Fixpoint apply_perm_changes5 (s : state) (au : acct) (r : rid) (l : list (acct * perm)) : option state :=
    match l with
    | [] => Some s
    | (t, p) :: rest =>
        match apply_perm_change5 s au r t p with
        | Some s1 => apply_perm_changes5 s1 au r rest
        | None => None
        end
    end.
  (* Acl.apply_content (repaired C04 machine, validating, no own identity) + the C05 repair *)
  Definition apply_content5 (s : state) (au : acct) (r : rid) (c : content) : option state :=
    match c with
    | CPermChange t p => apply_perm_change5 s au r t p
    | CPermChanges l => apply_perm_changes5 s au r l
    | _ => apply_content false true 0 s au r c
    end.
End Machine5.

(* ------------------------------------------------------------------------------------------ the code's view *)
Definition keymap := list (rid * rid).        (* record id -> generation of the key stored as AclKeys.ReadKey *)
Definition oldmap := list (rid * option rid). (* record id -> generation inside its encryptedPreviousReadKey *)

(* unpackAllKeys: walk readKeyChanges from the newest to the oldest.  At record [recId] the code decrypts that
   record's encryptedMetadataKey with the candidate key — which succeeds iff the candidate IS K recId — stores it,
   and (unless it is the oldest) opens encryptedPreviousReadKey with it. *)
Fixpoint unpack (gens_rev : list rid) (iter : rid) (olds : oldmap) (keys : keymap) : option keymap :=
  match gens_rev with
  | [] => Some keys
  | recId :: rest =>
      if iter =? recId then
        let keys' := mset recId iter keys in
        match rest with
        | [] => Some keys'
        | _ :: _ => match mget recId olds with
                    | Some (Some g') => unpack rest g' olds keys'
                    | _ => None              (* ErrIncorrectReadKey / ErrFailedToDecrypt *)
                    end
        end
      else None                              (* metadata key does not decrypt: ErrFailedToDecrypt *)
  end.

(* deliveries addressed to [me], in order *)
Fixpoint my_entries (me : acct) (l : list acct) (gs : list (option rid)) : list (option rid) :=
  match l, gs with
  | a :: l', g :: gs' => if a =? me then g :: my_entries me l' gs' else my_entries me l' gs'
  | _, _ => []
  end.
Fixpoint unpack_all (gens : list rid) (olds : oldmap) (es : list (option rid)) (keys : keymap) : option keymap :=
  match es with
  | [] => Some keys
  | None :: _ => None
  | Some g :: rest => match unpack (rev gens) g olds keys with
                      | Some k' => unpack_all gens olds rest k'
                      | None => None
                      end
  end.
(* applyReadKeyChange: every AccountKeys entry of ours is decrypted (a failure is an error), the last one is kept,
   and the metadata key must decrypt under it *)
Fixpoint last_entry (es : list (option rid)) (acc : option rid) : option (option rid) :=
  match es with
  | [] => Some acc
  | None :: _ => None
  | Some g :: rest => last_entry rest (Some g)
  end.
Definition view_rot (me : acct) (r : rid) (rk : rkchange) (k : kpay) (keys : keymap) : option keymap :=
  match k with
  | KRot accs _ _ =>
      match last_entry (my_entries me (rk_accounts rk) accs) None with
      | None => None
      | Some None => Some keys
      | Some (Some g) => if g =? r then Some (mset r g keys) else None
      end
  | _ => Some keys
  end.
(* [gens]: readKeyChanges at this content; [olds]: including this content's own rotation *)
Definition view_content (me : acct) (gens : list rid) (olds : oldmap) (r : rid) (c : content) (k : kpay)
           (keys : keymap) : option keymap :=
  match c, k with
  | CReadKeyChange rk, _ => view_rot me r rk k keys
  | CAccountRemove _ (Some rk), _ => view_rot me r rk k keys
  | CAccountsAdd l, KDeliver gs => unpack_all gens olds (my_entries me (map fst l) gs) keys
  | CRequestAccept id _ _, KDeliver gs => unpack_all gens olds (my_entries me [id] gs) keys
  | CInviteJoin id _ _ _ _ _ _, KDeliver gs => unpack_all gens olds (my_entries me [id] gs) keys
  | _, _ => Some keys
  end.
Definition olds_step (olds : oldmap) (r : rid) (c : content) (k : kpay) : oldmap :=
  match c, k with
  | CReadKeyChange _, KRot _ _ old => mset r old olds
  | CAccountRemove _ (Some _), KRot _ _ old => mset r old olds
  | _, _ => olds
  end.

(* ------------------------------------------------------------------------------------------ the run *)
Definition kcontent := (content * kpay)%type.
Definition view := option keymap.             (* None = this identity's own list refused a record (its build fails) *)

Record mstate := mkM {
  m_s : state;                        (* membership state (viewer independent) *)
  m_log : list cipher;                (* every ciphertext published by accepted records *)
  m_olds : oldmap;
  m_views : list (acct * view)        (* per account of the universe: its private key view *)
}.

Section Run.
  Variable legacy5 : bool.

  Definition step_views (gens : list rid) (olds : oldmap) (r : rid) (c : content) (k : kpay)
             (vs : list (acct * view)) : list (acct * view) :=
    map (fun av => (fst av, match snd av with
                            | None => None
                            | Some keys => view_content (fst av) gens olds r c k keys
                            end)) vs.

  Definition kcontent_step (ms : mstate) (au : acct) (r : rid) (ck : kcontent) : option mstate :=
    match apply_content5 legacy5 (m_s ms) au r (fst ck) with
    | None => None
    | Some s' =>
        let olds' := olds_step (m_olds ms) r (fst ck) (snd ck) in
        Some (mkM s' (m_log ms ++ ciphers_of r (fst ck) (snd ck)) olds'
                  (step_views (keychanges (m_s ms)) olds' r (fst ck) (snd ck) (m_views ms)))
    end.
  Fixpoint kcontents_step (ms : mstate) (au : acct) (r : rid) (cks : list kcontent) : option mstate :=
    match cks with
    | [] => Some ms
    | ck :: rest => match kcontent_step ms au r ck with
                    | Some ms1 => kcontents_step ms1 au r rest
                    | None => None
                    end
    end.
  (* AddRawRecord of a well-formed record extending the head: all contents or nothing *)
  Definition krecord_step (ms : mstate) (au : acct) (r : rid) (cks : list kcontent) : mstate * bool :=
    match kcontents_step ms au r cks with
    | Some ms1 => (mkM (set_last (m_s ms1) r) (m_log ms1) (m_olds ms1) (m_views ms1), true)
    | None => (ms, false)
    end.
End Run.

Definition kinit (owner : acct) (root : rid) (U : list acct) : mstate :=
  mkM (init_state 0 owner root None) [CAsym (PA owner) root] []
      (map (fun a => (a, Some (if a =? owner then [(root, root)] else []))) U).

(* ------------------------------------------------------------------------------------------ observations *)
Record aobs := mkAobs {
  o_acct : acct;
  o_perm : perm;                          (* AclState.Permissions(account) in the reference view *)
  o_view : option (list rid);             (* ids with a non-nil ReadKey in the account's own VALIDATING view; None = build failed *)
  o_view_nv : option (list rid);          (* same for its non-validating (production) view *)
  o_right : bool                          (* every stored ReadKey is the true key of its generation (bytes compared) *)
}.
Record step := mkStep {
  st_author : acct;
  st_id : rid;
  st_cs : list kcontent;                  (* raw contents + what the harness found inside the ciphertexts *)
  st_ok : bool;                           (* accepted by the fully validating reference list *)
  st_cur : rid;                           (* CurrentReadKeyId afterwards *)
  st_open : list (rid * N);               (* live anyone-can-join invites afterwards: (invite record, invite key) *)
  st_obs : list aobs
}.

Definition ids_of (v : view) : option (list rid) :=
  match v with None => None | Some keys => Some (sort_N (map fst keys)) end.
Definition right_of (v : view) : bool :=
  match v with None => true | Some keys => forallb (fun rg => fst rg =? snd rg) keys end.
Definition open_invites (s : state) : list (rid * N) :=
  map (fun ri => (fst ri, i_key (snd ri))) (filter (fun ri => i_type (snd ri) =? tAnyoneCanJoin) (invites s)).

Definition opt_ids_eqb (a b : option (list rid)) : bool :=
  match a, b with
  | None, None => true
  | Some x, Some y => list_N_eqb (sort_N x) (sort_N y)
  | _, _ => false
  end.
Definition aobs_matches (ms : mstate) (o : aobs) : bool :=
  let v := match mget (o_acct o) (m_views ms) with Some v => v | None => None end in
  (o_perm o =? perm_of (m_s ms) (o_acct o)) &&
  opt_ids_eqb (o_view o) (ids_of v) && opt_ids_eqb (o_view_nv o) (ids_of v) && Bool.eqb (o_right o) (right_of v).
Definition pairs_eqb (a b : list (rid * N)) : bool := list_eqb (pair_eqb N.eqb N.eqb) a b.
Definition step_matches (ms : mstate) (ok : bool) (st : step) : bool :=
  Bool.eqb ok (st_ok st) && (st_cur st =? cur_key (m_s ms)) && pairs_eqb (st_open st) (open_invites (m_s ms)) &&
  forallb (aobs_matches ms) (st_obs st).
(* model vs observation along a history *)
Fixpoint run_matches (legacy5 : bool) (ms : mstate) (steps : list step) : bool :=
  match steps with
  | [] => true
  | st :: rest =>
      let '(ms1, ok) := krecord_step legacy5 ms (st_author st) (st_id st) (st_cs st) in
      step_matches ms1 ok st && run_matches legacy5 ms1 rest
  end.

(* ------------------------------------------------------------------------------------------ spec_C05
   Over OBSERVED data only: raw contents (with the generations the harness found inside the ciphertexts using every
   private key it holds), the reference view's permissions / open invites / current key id after every record, and
   every account's own key view.  It never calls the machine above. *)
Definition subsetN (a b : list N) : bool := forallb (fun x => memN x b) a.
Definition amap := list (N * list rid).       (* principal (accounts: a; invite keys: separate map) -> generations it may know *)
Definition aget (k : N) (m : amap) : list rid := match mget k m with Some l => l | None => [] end.

Definition is_rot (c : content) : option (rkchange * list acct) :=
  match c with
  | CReadKeyChange rk => Some (rk, [])
  | CAccountRemove ids (Some rk) => Some (rk, ids)
  | _ => None
  end.
(* the records the client builder makes put a rotation first or only after invite revokes / declines; for those the
   expected recipients can be computed from the observations before the record *)
Definition benign_before_rot (c : content) : bool :=
  match c with CInviteRevoke _ | CRequestDecline _ => true | _ => false end.
Definition revoked_of (c : content) : list rid := match c with CInviteRevoke i => [i] | _ => [] end.
Fixpoint rot_exact (members_before : list acct) (open_before : list (rid * N)) (revoked : list rid)
         (cs : list kcontent) : bool :=
  match cs with
  | [] => true
  | (c, _) :: rest =>
      match is_rot c with
      | Some (rk, removed) =>
          set_eqb (rk_accounts rk) (filter (fun a => negb (memN a removed)) members_before) &&
          list_N_eqb (sort_N (rk_accounts rk)) (sort_N (dedup (rk_accounts rk))) &&
          set_eqb (rk_invites rk) (map snd (filter (fun ik => negb (memN (fst ik) revoked)) open_before))
      | None =>
          if benign_before_rot c then rot_exact members_before open_before (revoked_of c ++ revoked) rest
          else true   (* a rotation after other contents: not judged here (the model comparison covers it) *)
      end
  end.

Definition members_of (obs : list aobs) : list acct :=
  map o_acct (filter (fun o => negb (o_perm o =? pNone)) obs).

Record sstate := mkS {
  s_gens : list rid;              (* observed key generations, oldest first *)
  s_log : list cipher;            (* ciphertexts of accepted records *)
  s_allow : amap;                 (* account -> generations that existed at a record boundary at which it held a permission, or at a content through which it received a key *)
  s_allow_inv : amap;             (* invite key -> generations that existed while the invite was live (record boundaries; contents that gave it a key) *)
  s_members : list acct;
  s_open : list (rid * N);
  s_invkeys : list N              (* every anyone-can-join invite key seen so far *)
}.

Definition add_allow (k : N) (gs : list rid) (m : amap) : amap := mset k (dedup (aget k m ++ gs)) m.

Definition acct_ok (gens : list rid) (log : list cipher) (allow : amap) (o : aobs) : bool :=
  let a := o_acct o in
  let d := derives (PA a) log in
  let al := aget a allow in
  (* a permission holder derives, and its own views hold, every generation (and the right bytes) *)
  (if negb (o_perm o =? pNone) then
     subsetN gens d &&
     match o_view o with Some v => subsetN gens v | None => false end &&
     match o_view_nv o with Some v => subsetN gens v | None => false end
   else true) &&
  o_right o &&
  (* nobody derives or holds a generation that never co-existed with its membership *)
  subsetN d al &&
  match o_view o with Some v => subsetN v al | None => true end &&
  match o_view_nv o with Some v => subsetN v al | None => true end.

(* identities a content admits (a key is delivered to them) *)
Definition admits (c : content) : list acct :=
  match c with
  | CAccountsAdd l => map fst l
  | CRequestAccept id _ _ => [id]
  | CInviteJoin id _ _ _ _ _ _ => [id]
  | _ => []
  end.

(* identities that hold a key of the generation that is current AT a content: the identities the content admits and,
   for a rotation, the AccountKeys recipients it names (minus the accounts the same content removes) — a recipient may
   lose its permission through a LATER content of the same record and keeps what it was given while it held one *)
Definition key_receivers (c : content) : list acct :=
  match is_rot c with
  | Some (rk, removed) => filter (fun a => negb (memN a removed)) (rk_accounts rk)
  | None => admits c
  end.
(* invite keys a content delivers a key to: a new anyone-can-join invite, the InviteKeys recipients of a rotation (the
   invite may be revoked by a LATER content of the same record) *)
Definition inv_receivers (c : content) : list N :=
  match c with
  | CInvite key ty _ _ => if ty =? tAnyoneCanJoin then [key] else []
  | _ => match is_rot c with Some (rk, _) => rk_invites rk | None => [] end
  end.

(* CONTENT boundaries inside one accepted record: a principal that receives a key through a content ([recv]) may know
   the generations that exist at that content — the generations before the record, plus the record's own generation
   once a rotation content of the record has been passed (a record carries at most one rotation).  Without this an
   accepted record that admits an account and removes it again would be judged at its END only, where the account holds
   nothing, although the property lets it keep what was delivered while it was a member ([spec_C05_legacy],
   c05_model_satisfies_spec_legacy_refuted); the same for a rotation recipient (account or open invite) that a later
   content of the same record drops ([spec_C05_v2], c05_model_satisfies_spec_v2_refuted). *)
Fixpoint admit_allow (recv : content -> list N) (gens_before gens_after : list rid) (rotated : bool)
         (cs : list kcontent) (m : amap) : amap :=
  match cs with
  | [] => m
  | ck :: rest =>
      let rotated' := rotated || match is_rot (fst ck) with Some _ => true | None => false end in
      let g := if rotated' then gens_after else gens_before in
      admit_allow recv gens_before gens_after rotated' rest (fold_left (fun m a => add_allow a g m) (recv (fst ck)) m)
  end.

(* [content_level = false] is the predicate as it was first written (record boundaries only); [recv] / [recv_inv]:
   which accounts / invite keys a content delivers a key to *)
Definition spec_step_gen (content_level : bool) (recv recv_inv : content -> list N) (ss : sstate) (st : step) : bool * sstate :=
  if negb (st_ok st) then (true, ss)
  else
    let gens := if memN (st_cur st) (s_gens ss) then s_gens ss else s_gens ss ++ [st_cur st] in
    let log := s_log ss ++ flat_map (fun ck => ciphers_of (st_id st) (fst ck) (snd ck)) (st_cs st) in
    let members := members_of (st_obs st) in
    let allow0 := fold_left (fun m a => add_allow a gens m) members (s_allow ss) in
    let allow := if content_level then admit_allow recv (s_gens ss) gens false (st_cs st) allow0 else allow0 in
    let invkeys := dedup (s_invkeys ss ++ map snd (st_open st)) in
    let allow_inv0 := fold_left (fun m k => add_allow k gens m) (map snd (st_open st)) (s_allow_inv ss) in
    let allow_inv := if content_level then admit_allow recv_inv (s_gens ss) gens false (st_cs st) allow_inv0 else allow_inv0 in
    let ok :=
      forallb (acct_ok gens log allow) (st_obs st) &&
      forallb (fun k => subsetN (derives (PI k) log) (aget k allow_inv)) invkeys &&
      (* a live open invite always leads to the current key *)
      forallb (fun k => memN (st_cur st) (derives (PI k) log)) (map snd (st_open st)) &&
      rot_exact (s_members ss) (s_open ss) [] (st_cs st) in
    (ok, mkS gens log allow allow_inv members (st_open st) invkeys).

Fixpoint spec_steps_gen (content_level : bool) (recv recv_inv : content -> list N) (ss : sstate) (steps : list step) : bool :=
  match steps with
  | [] => true
  | st :: rest => let '(ok, ss1) := spec_step_gen content_level recv recv_inv ss st in
                  ok && spec_steps_gen content_level recv recv_inv ss1 rest
  end.

Definition sinit (owner : acct) (root : rid) : sstate :=
  mkS [root] [CAsym (PA owner) root] [(owner, [root])] [] [owner] [] [].

Definition spec_step := spec_step_gen true key_receivers inv_receivers.
Definition spec_steps := spec_steps_gen true key_receivers inv_receivers.
Definition spec_C05 (owner : acct) (root : rid) (steps : list step) : bool := spec_steps (sinit owner root) steps.
(* first version: record boundaries only *)
Definition spec_C05_legacy (owner : acct) (root : rid) (steps : list step) : bool :=
  spec_steps_gen false admits (fun _ => []) (sinit owner root) steps.
(* second version: content boundaries for admitted identities only (not for rotation recipients, not for invite keys) *)
Definition spec_C05_v2 (owner : acct) (root : rid) (steps : list step) : bool :=
  spec_steps_gen true admits (fun _ => []) (sinit owner root) steps.

(* ------------------------------------------------------------------------------------------ encrypted tree content *)
(* changebuilder.go Build / objecttree.go prepareBuilderContent + IterateRoot, symbolically.  The per-tree key is
   Derive (K g) treeId: one symbolic key per generation and tree. *)
Inductive tdata := TPlain (d : N) | TSEnc (g : rid) (d : N).     (* TSEnc g d = SEnc (treeKey (K g)) d *)
Inductive build_res := BOk (read_key_id : rid) (stored : tdata) | BErrMissingKey.
Definition build_change (should_encrypt : bool) (key : option rid) (d : N) : build_res :=
  if should_encrypt then match key with Some g => BOk g (TSEnc g d) | None => BErrMissingKey end
  else BOk 0 (TPlain d).
(* IterateRoot's decrypt: ReadKeyId "" = not encrypted; else the tree key of that id must be held *)
Definition read_change (held : list rid) (read_key_id : rid) (t : tdata) : option N :=
  match t with
  | TPlain d => if read_key_id =? 0 then Some d else None
  | TSEnc g d => if memN read_key_id held && (g =? read_key_id) then Some d else None
  end.
Definition tdata_is_plain (t : tdata) (d : N) : bool := match t with TPlain d' => d' =? d | TSEnc _ _ => false end.

Record tobs := mkTobs {
  t_gen : rid;                        (* CurrentReadKeyId when the change was built *)
  t_key_id : rid;                     (* ReadKeyId written into the change *)
  t_plain_in_store : bool;            (* stored raw bytes contain the plaintext *)
  t_plain_on_wire : bool;             (* RawTreeChangeWithId handed to peers contains the plaintext *)
  t_readers : list (acct * bool * bool);   (* account, holds the generation's key in its view, IterateRoot returned the plaintext *)
  t_nokey_err : bool                  (* Build with encryption on and a nil key returned ErrMissingEncryptKey *)
}.
Definition spec_C05_tree (t : tobs) : bool :=
  (t_key_id t =? t_gen t) && negb (t_plain_in_store t) && negb (t_plain_on_wire t) && t_nokey_err t &&
  forallb (fun x : acct * bool * bool => Bool.eqb (snd (fst x)) (snd x)) (t_readers t).
Definition tree_model_ok (t : tobs) : bool :=
  match build_change true (Some (t_gen t)) 7 with
  | BOk id stored =>
      (t_key_id t =? id) && Bool.eqb (t_plain_in_store t) (tdata_is_plain stored 7) &&
      Bool.eqb (t_plain_on_wire t) (tdata_is_plain stored 7) &&
      forallb (fun x : acct * bool * bool => Bool.eqb (snd x)
                          (match read_change (if snd (fst x) then [t_gen t] else []) id stored with Some d => d =? 7 | None => false end))
              (t_readers t)
  | BErrMissingKey => false
  end &&
  Bool.eqb (t_nokey_err t) (match build_change true None 7 with BErrMissingKey => true | BOk _ _ => false end).

(* ------------------------------------------------------------------------------------------ honest payloads, histories
   What the theorems assume about the key-carrying fields — the validator cannot check ciphertext CONTENTS, it only
   checks recipient identities.  [honest_content] says: the fields contain what the client record builder puts there
   (the current key for a delivery, the new key for every rotation recipient, the previous key under the new one), a
   rotation's record id is a new generation id, and a request is not "accepted" with permission None. *)
Definition ogs_eqb : list (option rid) -> list (option rid) -> bool := list_eqb (opt_eqb N.eqb).
Definition kpay_eqb (a b : kpay) : bool :=
  match a, b with
  | KNone, KNone => true
  | KDeliver x, KDeliver y => ogs_eqb x y
  | KRot a1 i1 o1, KRot a2 i2 o2 => ogs_eqb a1 a2 && ogs_eqb i1 i2 && opt_eqb N.eqb o1 o2
  | _, _ => false
  end.
Definition all_some {A} (g : rid) (l : list A) : list (option rid) := map (fun _ => Some g) l.
Definition honest_rot (s : state) (r : rid) (rk : rkchange) (k : kpay) : bool :=
  kpay_eqb k (KRot (all_some r (rk_accounts rk)) (all_some r (rk_invites rk)) (Some (cur_key s))) &&
  negb (memN r (keychanges s)).
Definition no_ciphers (r : rid) (c : content) (k : kpay) : bool :=
  match ciphers_of r c k with [] => true | _ :: _ => false end.
Definition honest_content (s : state) (r : rid) (c : content) (k : kpay) : bool :=
  match c with
  | CInvite _ ty _ _ => if ty =? tAnyoneCanJoin then kpay_eqb k (KDeliver [Some (cur_key s)]) else no_ciphers r c k
  | CRequestAccept _ _ p => kpay_eqb k (KDeliver [Some (cur_key s)]) && negb (p =? pNone)
  | CInviteJoin _ _ _ _ _ _ _ => kpay_eqb k (KDeliver [Some (cur_key s)])
  | CAccountsAdd l => kpay_eqb k (KDeliver (all_some (cur_key s) l))
  | CReadKeyChange rk => honest_rot s r rk k
  | CAccountRemove _ (Some rk) => honest_rot s r rk k
  | _ => true
  end.
(* every identity a key is delivered to is a permission holder right after that content *)
Definition delivered_members (s' : state) (c : content) : bool :=
  forallb (fun a => negb (perm_of s' a =? pNone)) (admits c).

Fixpoint honest_contents (s : state) (au : acct) (r : rid) (cks : list kcontent) : bool :=
  match cks with
  | [] => true
  | ck :: rest =>
      match apply_content5 false s au r (fst ck) with
      | None => true
      | Some s' => honest_content s r (fst ck) (snd ck) && delivered_members s' (fst ck) && honest_contents s' au r rest
      end
  end.
(* states after every accepted content *)
Fixpoint kchain (s : state) (au : acct) (r : rid) (cks : list kcontent) : list state :=
  match cks with
  | [] => []
  | ck :: rest =>
      match apply_content5 false s au r (fst ck) with
      | None => []
      | Some s' => s' :: kchain s' au r rest
      end
  end.

Definition hrec := (acct * rid * list kcontent)%type.
Definition run_hist (ms : mstate) (h : list hrec) : mstate :=
  fold_left (fun ms x => fst (krecord_step false ms (fst (fst x)) (snd (fst x)) (snd x))) h ms.
Fixpoint honest_run (ms : mstate) (h : list hrec) : bool :=
  match h with
  | [] => true
  | x :: rest =>
      let res := krecord_step false ms (fst (fst x)) (snd (fst x)) (snd x) in
      (negb (snd res) || honest_contents (m_s ms) (fst (fst x)) (snd (fst x)) (snd x)) && honest_run (fst res) rest
  end.
(* every membership state the history went through: after each content of each accepted record, and after each record *)
Fixpoint trace (ms : mstate) (h : list hrec) : list state :=
  match h with
  | [] => []
  | x :: rest =>
      let res := krecord_step false ms (fst (fst x)) (snd (fst x)) (snd x) in
      (if snd res then kchain (m_s ms) (fst (fst x)) (snd (fst x)) (snd x) ++ [m_s (fst res)] else []) ++ trace (fst res) rest
  end.
