(* Model of github.com/anyproto/go-chash v0.1.0 (chash.go) as used by nodeconf (property C18).
   Definitions only (the one exception is [VOrder.leb_total], required by the stdlib Mergesort functor);
   proofs are in Proofs/ChashProofs.v.

   Mirrors:  addMembers   - virtual nodes (hash, member), appended member by member, then sort.Sort by (hash, id)
             distribute   - empty ring => nil partitions; rf = min(rf, len(members)); per-member quota
                            int(P*rf / (n/1)) + 1; partitions filled in INDEX order, quotas threaded through
             fillClosest  - sort.Search for the first virtual node with hash >= partition hash, then the ring
                            walk: already-found member => maxOverflow++ ; quota > -maxOverflow => take.
             GetPartition - hash(key) mod P.

   The hash function is NOT modelled: the model is parametric in
     VH : member id -> the hashes of its virtual nodes, in index order   (Go: xxhash64(Sprint(id, i)), i < 2000)
     PH : the partition hashes, in index order                            (Go: xxhash64(Sprint("p", i)), i < P)
   and every theorem holds for all VH / PH.  Member ids are numbers; only their ORDER matters
   (Go compares the id strings in [Less]; the harness numbers ids by their rank in string order).

   Quotas: Go keeps piecesPerMember[id], initialised to q0 for every member and decremented on every take.
   The model keeps the number of takes per id ([taken], an association list that starts empty);
   piecesPerMember[id] = q0 - tget id taken. *)
From Coq Require Import List NArith ZArith Bool Arith Orders Sorting.Mergesort.
Import ListNotations.

Definition vnode := (N * N)%type.   (* (hash, member id) *)

(* members.Less, as a total "less or equal": hash first, then id *)
Definition vle (a b : vnode) : bool :=
  if (fst a =? fst b)%N then (snd a <=? snd b)%N else (fst a <? fst b)%N.

Module VOrder <: TotalLeBool.
  Definition t := vnode.
  Definition leb := vle.
  Theorem leb_total : forall a b, leb a b = true \/ leb b a = true.
  Proof.
    intros [h1 i1] [h2 i2]. unfold leb, vle. cbn [fst snd].
    destruct (N.eqb_spec h1 h2) as [Heq|Hne].
    - subst h2. rewrite N.eqb_refl. rewrite !N.leb_le. apply N.le_ge_cases.
    - destruct (N.eqb_spec h2 h1) as [Heq2|Hne2]; [congruence|].
      rewrite !N.ltb_lt. destruct (N.lt_total h1 h2) as [Hlt|[Heq|Hgt]]; [now left|congruence|now right].
  Qed.
End VOrder.
Module VSort := Sort VOrder.

Inductive outcome (A : Type) := Ok (a : A) | OutOfFuel.
Arguments Ok {A} a.
Arguments OutOfFuel {A}.

(* ---------------------------------------------------------------- quota bookkeeping *)
Definition taken := list (N * Z).

Fixpoint tget (id : N) (t : taken) : Z :=
  match t with
  | [] => 0%Z
  | (k, v) :: r => if (k =? id)%N then v else tget id r
  end.

Fixpoint tinc (id : N) (t : taken) : taken :=
  match t with
  | [] => [(id, 1%Z)]
  | (k, v) :: r => if (k =? id)%N then (k, (v + 1)%Z) :: r else (k, v) :: tinc id r
  end.

Definition memN (x : N) (l : list N) : bool := existsb (N.eqb x) l.

(* ---------------------------------------------------------------- sort.Search on the sorted ring *)
(* first position whose hash is >= h, as the suffix of the ring starting there *)
Fixpoint drop_lt (h : N) (l : list vnode) : list vnode :=
  match l with
  | [] => []
  | v :: r => if (fst v <? h)%N then drop_lt h r else l
  end.

(* A skip index makes the search cheap to evaluate: every [chunk]-th suffix of the ring.
   [seek] skips whole chunks while the first hash of the next recorded suffix is still < h.
   ChashProofs.find_start_spec: on a sorted ring this is exactly [drop_lt h ring]. *)
Definition chunk : nat := 63.

Fixpoint mk_index_aux (l : list vnode) (k : nat) : list (list vnode) :=
  match l with
  | [] => []
  | _ :: r => match k with
              | O => l :: mk_index_aux r chunk
              | S k' => mk_index_aux r k'
              end
  end.
Definition mk_index (l : list vnode) : list (list vnode) := mk_index_aux l 0.

Fixpoint seek (idx : list (list vnode)) (h : N) (cur : list vnode) : list vnode :=
  match idx with
  | [] => drop_lt h cur
  | s :: rest =>
      match s with
      | v :: _ => if (fst v <? h)%N then seek rest h s else drop_lt h cur
      | [] => drop_lt h cur
      end
  end.

Definition find_start (idx : list (list vnode)) (rg : list vnode) (h : N) : list vnode := seek idx h rg.

(* ---------------------------------------------------------------- fillClosest *)
Record wstate := mkW {
  ws_need  : nat;      (* len(ms) - found *)
  ws_found : list N;   (* foundId, in the order found (= ms[0..found)) *)
  ws_ov    : Z;        (* maxOverflow *)
  ws_tk    : taken     (* takes per member so far (all partitions) *)
}.

(* the loop body applied along a stretch of the ring (until the stretch ends or found = len(ms)) *)
Fixpoint walk (q0 : Z) (l : list vnode) (st : wstate) {struct l} : wstate :=
  match l with
  | [] => st
  | v :: r =>
      match ws_need st with
      | O => st
      | S k =>
          if memN (snd v) (ws_found st) then
            walk q0 r (mkW (S k) (ws_found st) (ws_ov st + 1)%Z (ws_tk st))
          else if (- ws_ov st <? q0 - tget (snd v) (ws_tk st))%Z then
            walk q0 r (mkW k (ws_found st ++ [snd v]) (ws_ov st) (tinc (snd v) (ws_tk st)))
          else walk q0 r st
      end
  end.

(* idx == m.Len() => idx = 0 : one more lap over the whole ring, while found < len(ms) *)
Fixpoint laps (fuel : nat) (q0 : Z) (rg : list vnode) (st : wstate) : outcome wstate :=
  match ws_need st with
  | O => Ok st
  | S _ =>
      match fuel with
      | O => OutOfFuel
      | S f => laps f q0 rg (walk q0 rg st)
      end
  end.

Definition fill_closest (fuel : nat) (q0 : Z) (rg start : list vnode) (rf' : nat) (tk : taken)
  : outcome (list N * taken) :=
  match laps fuel q0 rg (walk q0 start (mkW rf' [] 0%Z tk)) with
  | Ok st => Ok (ws_found st, ws_tk st)
  | OutOfFuel => OutOfFuel
  end.

(* for i, h := range c.partitionHashes { c.fillClosest(c.membersSet, h, c.partitions[i], buf) } *)
Fixpoint dist_loop (fuel : nat) (q0 : Z) (rg : list vnode) (idx : list (list vnode)) (rf' : nat)
         (phs : list N) (tk : taken) : outcome (list (list N)) :=
  match phs with
  | [] => Ok []
  | h :: r =>
      match fill_closest fuel q0 rg (find_start idx rg h) rf' tk with
      | OutOfFuel => OutOfFuel
      | Ok (f, tk') =>
          match dist_loop fuel q0 rg idx rf' r tk' with
          | Ok t => Ok (f :: t)
          | OutOfFuel => OutOfFuel
          end
      end
  end.

Section Chash.
  Variable PH : list N.         (* partition hashes, index order; P = length PH *)
  Variable RF : nat.            (* Config.ReplicationFactor *)
  Variable VH : N -> list N.    (* member id -> hashes of its virtual nodes *)

  Definition vnodes_of (m : N) : list vnode := map (fun h => (h, m)) (VH m).
  Definition ring_unsorted (ms : list N) : list vnode := flat_map vnodes_of ms.
  Definition ring (ms : list N) : list vnode := VSort.sort (ring_unsorted ms).

  (* len(c.members): a Go map keyed by id, so duplicated ids count once (AddMembers only rejects ids that
     were present BEFORE the call; a duplicate inside one call puts its virtual nodes on the ring twice). *)
  Definition member_count (ms : list N) : nat := length (nodup N.eq_dec ms).
  Definition eff_rf (ms : list N) : nat := Nat.min RF (member_count ms).
  (* int(float64(P)*float64(rf) / (totalCapacity / 1.0)) + 1, all capacities 1 *)
  Definition quota0 (ms : list N) : Z :=
    (Z.of_N (N.of_nat (length PH) * N.of_nat (eff_rf ms) / N.of_nat (member_count ms)) + 1)%Z.
  (* enough laps for every partition (ChashProofs.distribute_total) *)
  Definition lap_fuel (ms : list N) : nat := S (eff_rf ms) * S (S (length PH)).

  (* AddMembers on a fresh cHash + distribute: the partition table (member ids per partition, in fill order) *)
  Definition distribute (ms : list N) : outcome (list (list N)) :=
    let rg := ring ms in
    match rg with
    | [] => Ok (map (fun _ => []) PH)
    | _ :: _ => dist_loop (lap_fuel ms) (quota0 ms) rg (mk_index rg) (eff_rf ms) PH []
    end.

  (* getPartition: h % PartitionCount, given the hash of the key *)
  Definition partition_of_hash (kh : N) : N := (kh mod N.of_nat (length PH))%N.
End Chash.
