(* C06 — several independent trees of one process and the package-wide pool of sort iterators.

   treeiterator.go keeps ONE sync.Pool of [iterator]s (stack + resBuf) for all trees of the process.  Tree.updateHeads,
   Tree.iterate and Tree.iterateSkip take an iterator from the pool, sort the tree into its resBuf (makeIterBuffer) and
   put the iterator back when they are done WITH THE BUFFER: updateHeads at its end, iterate / iterateSkip after the
   last consumer callback has returned (defer freeIterator).  A consumer callback may do anything in between — in
   particular look into or grow ANOTHER tree (same goroutine), or block while another goroutine works on another tree.

   The model makes the sharing explicit: a heap of iterator buffers (id -> content), the pool as a list of free
   iterator ids, and READERS = iterations in progress (their iterator, the position of the next change to hand out).
   What a reader hands out is read from the HEAP at every step (as the Go loop reads buf[idx]), not from a private
   copy; [rd_seq] is a ghost copy of what the buffer held when the reader was opened, never read by [pstep].
   The flag [early] describes the variant in which the iterator goes back to the pool as soon as the buffer is built
   (before the walk) — the faithful model is [early = false]; the variant is kept for a refutation example.

   An event trace is a flat interleaving of operations on the trees k = 0, 1, 2, ...:
     PAdd / PFast  Tree.Add / Tree.AddFast on tree k (updateHeads borrows an iterator when something was added)
     PRead         a whole presentation of tree k with a consumer that does nothing else (IterateSkip(root))
     POpen r k f   reader r starts IterateSkip(f) / IterateFrom(f) on tree k: the buffer is built and the first change is
                   handed to the consumer, which is now inside its callback
     PNext r       the callback of r returns true: the next change is handed out (or the iteration ends: iterator freed)
     PClose r      the callback of r returns false: the iteration ends, iterator freed.
   Everything between POpen r and the end of r happens "inside" r's callbacks (nested use) or on other goroutines
   while r is blocked. *)
From Coq Require Import List NArith Bool Arith.
Import ListNotations.
From AnySync Require Import Lib.Dag Model.Dfs Model.Tree.
Open Scope N_scope.

(* association lists with shadowing *)
Fixpoint pget {A} (m : list (N * A)) (k : N) : option A :=
  match m with
  | [] => None
  | (k', v) :: r => if N.eqb k k' then Some v else pget r k
  end.

Definition pset {A} (m : list (N * A)) (k : N) (v : A) : list (N * A) := (k, v) :: m.

Definition pdel {A} (m : list (N * A)) (k : N) : list (N * A) :=
  filter (fun kv => negb (N.eqb k (fst kv))) m.

Record reader := mkRd {
  rd_it   : N;         (* the iterator it holds *)
  rd_pos  : nat;       (* index (in presentation order) of the next change to hand out *)
  rd_tree : N;
  rd_seq  : list N     (* ghost: content of the buffer when the reader was opened *)
}.

Record pstate := mkP {
  p_trees   : list (N * tree);
  p_heap    : list (N * list N);    (* iterator id -> resBuf (in presentation order) *)
  p_pool    : list N;               (* free iterators; Get takes the most recently Put one (per-P private slot) *)
  p_fresh   : N;                    (* iterators allocated so far (itPool.New) *)
  p_readers : list (N * reader)
}.

Definition p_init : pstate := mkP [] [] [] 0 [].

Definition tget (s : pstate) (k : N) : tree :=
  match pget (p_trees s) k with Some t => t | None => empty_tree end.

Definition hget (h : list (N * list N)) (b : N) : list N :=
  match pget h b with Some l => l | None => [] end.

(* itPool.Get: (iterator, rest of the pool, allocation counter) *)
Definition take (s : pstate) : N * list N * N :=
  match p_pool s with
  | b :: p => (b, p, p_fresh s)
  | [] => (p_fresh s, [], N.succ (p_fresh s))
  end.

(* newIterator; makeIterBuffer (content L); ...; freeIterator with nothing in between (updateHeads, a whole read) *)
Definition borrow (s : pstate) (trees : list (N * tree)) (L : list N) : pstate :=
  let '(b, pool', fresh') := take s in
  mkP trees (pset (p_heap s) b L) (b :: pool') fresh' (p_readers s).

Definition set_trees (s : pstate) (trees : list (N * tree)) : pstate :=
  mkP trees (p_heap s) (p_pool s) (p_fresh s) (p_readers s).

Fixpoint find_pos (x : N) (l : list N) : nat :=
  match l with
  | [] => O
  | y :: r => if N.eqb x y then O else S (find_pos x r)
  end.

Inductive pev :=
| PAdd   (k : N) (batch : list N)
| PFast  (k : N) (batch : list N)
| PRead  (k : N)
| POpen  (r k from : N)
| PNext  (r : N)
| PClose (r : N).

Inductive pobs :=
| OAdd  (m : mode) (heads : list N)
| OFast (heads : list N)
| ORead (seq : list N)
| OItem (x : option N)
| ONone.

(* freeIterator at the end of an iteration *)
Definition release (early : bool) (b : N) (pool : list N) : list N := if early then pool else b :: pool.

Definition pstep (early : bool) (G : list change) (s : pstate) (e : pev) : pstate * pobs :=
  match e with
  | PAdd k batch =>
      let '(t', m, added) := tree_add (tget s k) (find_all G batch) in
      let trees := pset (p_trees s) k t' in
      (match added with
       | [] => set_trees s trees
       | _ => borrow s trees (iter_ids t')
       end, OAdd m (t_heads t'))
  | PFast k batch =>
      let '(t', _) := tree_add_fast (tget s k) (find_all G batch) in
      let trees := pset (p_trees s) k t' in
      (match batch with
       | [] => set_trees s trees
       | _ => borrow s trees (iter_ids t')
       end, OFast (t_heads t'))
  | PRead k =>
      let t := tget s k in
      if root_nil t then (s, ORead [])
      else let s' := borrow s (p_trees s) (iter_ids t) in
           let b := fst (fst (take s)) in
           (s', ORead (hget (p_heap s') b))
  | POpen r k from =>
      match pget (p_readers s) r with
      | Some _ => (s, ONone)
      | None =>
          let L := iter_ids (tget s k) in
          let '(b, pool', fresh') := take s in
          let heap' := pset (p_heap s) b L in
          let pos := find_pos from L in
          match nth_error (hget heap' b) pos with
          | Some x =>
              (mkP (p_trees s) heap' (if early then b :: pool' else pool') fresh'
                   (pset (p_readers s) r (mkRd b (S pos) k L)), OItem (Some x))
          | None => (mkP (p_trees s) heap' (b :: pool') fresh' (p_readers s), OItem None)
          end
      end
  | PNext r =>
      match pget (p_readers s) r with
      | None => (s, OItem None)
      | Some rd =>
          match nth_error (hget (p_heap s) (rd_it rd)) (rd_pos rd) with
          | Some x =>
              (mkP (p_trees s) (p_heap s) (p_pool s) (p_fresh s)
                   (pset (p_readers s) r (mkRd (rd_it rd) (S (rd_pos rd)) (rd_tree rd) (rd_seq rd))), OItem (Some x))
          | None =>
              (mkP (p_trees s) (p_heap s) (release early (rd_it rd) (p_pool s)) (p_fresh s) (pdel (p_readers s) r),
               OItem None)
          end
      end
  | PClose r =>
      match pget (p_readers s) r with
      | None => (s, ONone)
      | Some rd =>
          (mkP (p_trees s) (p_heap s) (release early (rd_it rd) (p_pool s)) (p_fresh s) (pdel (p_readers s) r), ONone)
      end
  end.

Fixpoint prun (early : bool) (G : list change) (s : pstate) (evs : list pev) : pstate * list pobs :=
  match evs with
  | [] => (s, [])
  | e :: r => let '(s1, o) := pstep early G s e in
              let '(s2, os) := prun early G s1 r in (s2, o :: os)
  end.

(* what reader r was handed by the PNext events of a trace, up to its end *)
Fixpoint items_of (r : N) (evs : list pev) (obs : list pobs) : list N :=
  match evs, obs with
  | PNext r' :: evs', OItem (Some x) :: obs' =>
      if N.eqb r r' then x :: items_of r evs' obs' else items_of r evs' obs'
  | PNext r' :: evs', _ :: obs' => if N.eqb r r' then [] else items_of r evs' obs'
  | PClose r' :: evs', _ :: obs' => if N.eqb r r' then [] else items_of r evs' obs'
  | _ :: evs', _ :: obs' => items_of r evs' obs'
  | _, _ => []
  end.

(* reader r ran to the end of its iteration within the trace (its PNext found nothing left) before any PClose r *)
Fixpoint ended_in (r : N) (evs : list pev) (obs : list pobs) : bool :=
  match evs, obs with
  | PNext r' :: evs', OItem (Some _) :: obs' => ended_in r evs' obs'
  | PNext r' :: evs', OItem None :: obs' => if N.eqb r r' then true else ended_in r evs' obs'
  | PNext r' :: evs', _ :: obs' => if N.eqb r r' then false else ended_in r evs' obs'
  | PClose r' :: evs', _ :: obs' => if N.eqb r r' then false else ended_in r evs' obs'
  | _ :: evs', _ :: obs' => ended_in r evs' obs'
  | _, _ => false
  end.

(* ------------------------------------------------------------------------------------------------
   The property predicate on an OBSERVED trace (events + what the implementation returned / handed out).  It uses
   only the DAG and list helpers: the presentation of tree k is a function of what tree k holds —
     * a whole presentation of k has no repeats, consists of changes delivered to k, respects causality, and equals the
       previous whole presentation of k if nothing was added to k in between (whatever was done with other trees);
     * what a reader of k is handed, change by change, is the whole presentation of k (from its start change on) as it
       was when the reader was opened: equal when the reader runs to the end, a prefix when it stops early —
       whatever is done with other trees while the reader is inside its callbacks;
     * whole presentations over the same set are equal. *)
Record tkst := mkTk { tk_ids : list N; tk_cur : option (list N) }.
Record rkst := mkRk { rk_tree : N; rk_exp : option (list N); rk_got : list N }.

Fixpoint skip_to (x : N) (l : list N) : list N :=
  match l with
  | [] => []
  | y :: r => if N.eqb x y then l else skip_to x r
  end.

Definition tk_of (tks : list (N * tkst)) (k : N) : tkst :=
  match pget tks k with Some t => t | None => mkTk [] None end.

Definition reader_done (full : bool) (rk : rkst) : bool :=
  match rk_exp rk with
  | None => true
  | Some e => if full then list_eqb e (rev (rk_got rk)) else is_prefix (rev (rk_got rk)) e
  end.

Fixpoint spec_pool_run (G : list change) (tks : list (N * tkst)) (rks : list (N * rkst)) (reads : list (list N))
         (tr : list (pev * pobs)) : bool :=
  match tr with
  | [] => forallb (fun kr => match pget rks (fst kr) with Some rk => reader_done false rk | None => true end) rks
          && fun_of_set (keyed_of reads)
  | (PAdd k batch, OAdd _ _) :: r | (PFast k batch, OFast _) :: r =>
      spec_pool_run G (pset tks k (mkTk (batch ++ tk_ids (tk_of tks k)) None)) rks reads r
  | (PRead k, ORead seq) :: r =>
      let t := tk_of tks k in
      nodup_b seq && subset_b seq (tk_ids t) && topo_b G seq
      && match tk_cur t with Some ref => list_eqb ref seq | None => true end
      && spec_pool_run G (pset tks k (mkTk (tk_ids t) (Some seq))) rks (seq :: reads) r
  | (POpen rr k from, OItem x) :: r =>
      let t := tk_of tks k in
      let exp := option_map (skip_to from) (tk_cur t) in
      match x with
      | Some a => mem a (tk_ids t) && spec_pool_run G tks (pset rks rr (mkRk k exp [a])) reads r
      | None => match exp with Some (_ :: _) => false | _ => true end && spec_pool_run G tks rks reads r
      end
  | (POpen _ _ _, ONone) :: r => spec_pool_run G tks rks reads r
  | (PNext rr, OItem x) :: r =>
      match pget rks rr with
      | None => match x with None => true | Some _ => false end && spec_pool_run G tks rks reads r
      | Some rk =>
          match x with
          | Some a =>
              mem a (tk_ids (tk_of tks (rk_tree rk)))
              && spec_pool_run G tks (pset rks rr (mkRk (rk_tree rk) (rk_exp rk) (a :: rk_got rk))) reads r
          | None => reader_done true rk && spec_pool_run G tks (pdel rks rr) reads r
          end
      end
  | (PClose rr, ONone) :: r =>
      match pget rks rr with
      | None => true
      | Some rk => reader_done false rk
      end && spec_pool_run G tks (pdel rks rr) reads r
  | _ :: _ => false
  end.

Definition spec_C06_pool (G : list change) (tr : list (pev * pobs)) : bool := spec_pool_run G [] [] [] tr.
