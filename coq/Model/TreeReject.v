(* Model/TreeReject.v — validation failure and rollback in the object tree (property C06).  Definitions only;
   nothing in Model/Tree.v is changed (that file is shared with C01 / C02 / C09).

   Mirrors (commonspace/object/tree/objecttree/objecttree.go):
     addChangesToTree, normal path   Tree.Add, then validateTree(treeChangesAdded); on error the [rollback] closure:
                                     the added changes leave [attached], every surviving Next slice is filtered
                                     ORDER-PRESERVINGLY (slice.DiscardFromSlice), headIds and lastIteratedHeadId are
                                     restored; unAttached was already cleared by Tree.Add; waitList and possibleRoots
                                     keep what the rejected Add left in them.
     addChangesToTree, rebuild path  rebuildFromStorage(heads, path, newChanges) ends with validateTree(nil) =
                                     ValidateFullTree over the new tree; on error rebuildFromStorage(nil,nil,nil),
                                     i.e. the tree is reloaded from storage ([reopen]).
   The validator (objectTreeValidator.validateChange) is abstracted to a set [bad] of change ids that fail on their
   own (unknown ACL head / identity without write permission); with one ACL head for all other changes no other
   clause of validateChange can fail before a [bad] change is met in the same batch. *)
From Coq Require Import List NArith Bool Arith.
Import ListNotations.
From AnySync Require Export Lib.Dag Model.Dfs Model.Tree.

Definition drop_ids (gone : list N) (l : list N) : list N := filter (fun i => negb (mem i gone)) l.

(* the rollback closure: [t0] = tree before Tree.Add, [t1] = after, [added] = treeChangesAdded *)
Definition rollback (t0 t1 : tree) (added : list N) : tree :=
  mkTree (t_root t1)
         (filter (fun c => negb (mem (cid c) added)) (t_att t1))
         (map (fun kv : N * list N => (fst kv, drop_ids added (snd kv))) (t_next t1))
         (t_unatt t1) (t_wait t1) (t_heads t0) (t_last t0) (t_dirty t1) (t_oof t1).

Definition any_bad (bad : list N) (l : list N) : bool := existsb (fun i => mem i bad) l.

(* AddRawChanges on a tree built with the real validator; [bad] = ids of the changes that fail validateChange *)
Definition ot_add_raw_v (bad : list N) (o : otree) (batch : list change) (theirPath : list N) : otree * add_res :=
  let t := o_tree o in
  let lastHead := t_last t in
  let newcs := filter (fun c => negb (attached t (cid c))) batch in
  match newcs with
  | [] => finish_add o t lastHead Nothing [] []
  | _ =>
      let newsnaps := ids (filter cissnap newcs) in
      match need_rebuild t newsnaps newcs with
      | None => (o, AddErr)
      | Some false =>
          let '(t1, m, added) := tree_add t newcs in
          if any_bad bad added
          then (mkOT (rollback t t1 added) (o_stored o) (o_root0 o) (o_common o), AddErr)
          else finish_add o t1 lastHead m added newcs
      | Some true =>
          match snapshot_path o with
          | None => (reopen o, AddErr)
          | Some ourPath =>
              match common_snapshot ourPath theirPath with
              | None => (reopen o, AddErr)
              | Some snap =>
                  let old := stored_from o snap in
                  let fresh := filter (fun c => negb (mem (cid c) (ids old))) (dedup_changes newcs []) in
                  match old with
                  | [] => (reopen o, AddErr)
                  | _ =>
                      let '(t1, added0) := tree_add_fast empty_tree (old ++ fresh) in
                      let added := filter (fun i => mem i (ids fresh)) added0 in
                      let t2 :=
                        if same_set (t_heads t) (t_heads t1) && attached t1 (t_root t)
                           && negb (N.eqb (t_root t1) (t_root t))
                        then match find_change (t_att t1) (t_root t) with
                             | Some rc => make_root t1 rc
                             | None => t1
                             end
                        else t1 in
                      if any_bad bad (ids (t_att t2))
                      then (reopen o, AddErr)
                      else finish_add o (set_dirty t2 false) lastHead Rebuild added fresh
                  end
              end
          end
      end
  end.

(* ------------------------------------------------------------------------------------------------
   Property predicate for failed additions, applied to what the IMPLEMENTATION presented (uses list helpers only):
   an addition that returns an error leaves the stored sequence and the heads as they were and presents at least
   what was presented before (exactly the same sequence when the view did not grow — together with the
   "growing never reorders" conjunct of spec_C06 this is "rejected => unchanged"; the view can only grow when the
   tree had to be reloaded from storage). *)
Definition rej_obs_ok (prev o : obs) : bool :=
  list_eqb (ob_heads prev) (ob_heads o)
  && subset_b (ob_iter prev) (ob_iter o)
  && (if Nat.eqb (length (ob_iter prev)) (length (ob_iter o)) then list_eqb (ob_iter prev) (ob_iter o) else true)
  && match ob_stored prev, ob_stored o with
     | Some a, Some b => list_eqb a b
     | _, _ => true
     end.

Definition is_failed_add (s : step) : bool :=
  match s with SRaw _ _ ok _ _ _ _ => negb ok | _ => false end.

Fixpoint rej_hist_ok (prev : obs) (h : list step) : bool :=
  match h with
  | [] => true
  | s :: r =>
      let o := obs_of s in
      (if is_failed_add s then rej_obs_ok prev o else true) && rej_hist_ok o r
  end.

(* the state presented by a fresh object tree over a storage holding only the root *)
Definition spec_C06_rej (G : list change) (hists : list (list step)) : bool :=
  match G with
  | [] => false
  | root :: _ =>
      let o0 := mkObs None [cid root] [cid root] (Some [cid root]) in
      forallb (rej_hist_ok o0) hists
  end.
