(* Model of the stream-close hook of net/streampool and of a pool OWNER that uses the lock order
   "owner mutex -> pool.mu" (property C19).  Definitions only; proofs are in Proofs/StreamPoolHookProofs.v.

   A layer over the labelled transition system of Model/StreamPool.v:

     removeStream         = the pool label [LRemove sid]: ONE critical section under pool.mu (indexes cleaned,
                            closedTags copied) that ENDS before the hook is called.  From then on the hook of [sid]
                            is "invoked and not finished" ([hook_pending]) — it may be parked for any time.
     WithStreamCloseHook  = the label [HHook sid]: the owner's callback.  It takes the owner's mutex (enabled only
                            when the mutex is free), calls BACK into the pool — Streams(closedTags...), a critical
                            section under pool.mu of its own — records what it saw, releases the owner's mutex.
     the owner            = [HOwnerLock] / [HOwnerUnlock]; between them the owner thread performs ordinary pool
                            calls (pool labels [HL l]) while holding its mutex (pubsub: remoteMu held across
                            AddTagsCtx / RemoveTagsById).

   The contract of WithStreamCloseHook ("invoked after a stream is removed from the pool, outside the pool lock")
   is exactly the shape of [hstep]: a pending hook disables NO pool label, and [HHook] needs no lock that a pool
   label holds while waiting.  The design the contract excludes (hook invoked before pool.mu is released) is
   [hstep_ul] at the end of this file; there a stream that ends inside an owner section freezes the pool for ever. *)
From Coq Require Import List NArith Bool.
Import ListNotations.
From AnySync Require Export Model.StreamPool.
Open Scope N_scope.

(* (stream, (closedTags sorted, ids returned by the hook's call-back Streams(closedTags...), sorted)) *)
Definition note := (N * (list N * list N))%type.

Record hstate := mkH {
  h_pool  : state;
  h_owner : bool;          (* the owner's mutex is held by the owner thread *)
  h_done  : list N         (* streams whose close hook has returned *)
}.

Definition hinit (c : config) : hstate := mkH (init c) false [].

Definition removed_in (s : state) (sid : N) : bool :=
  match hget sid (objs s) with Some st => st_removed st | None => false end.

(* removeStream has left its critical section for [sid]; the hook has been called and has not returned *)
Definition hook_pending (hs : hstate) (sid : N) : bool :=
  removed_in (h_pool hs) sid && negb (memN sid (h_done hs)).

Definition closed_tags (s : state) (sid : N) : list N :=
  match hget sid (objs s) with Some st => st_tags st | None => [] end.

Inductive hlabel :=
| HL (l : label)          (* a label of the pool, executed by whichever thread (the owner inside its section included) *)
| HOwnerLock
| HOwnerUnlock
| HHook (sid : N).

Definition hook_note (s : state) (sid : N) : note :=
  let tags := closed_tags s sid in (sid, (sortN tags, sortN (streams_of s tags))).

Definition hstep_out (hs : hstate) (l : hlabel) : hstate * list note :=
  match l with
  | HL l => (mkH (step (h_pool hs) l) (h_owner hs) (h_done hs), [])
  | HOwnerLock => (mkH (h_pool hs) true (h_done hs), [])         (* not enabled while held: same state *)
  | HOwnerUnlock => (mkH (h_pool hs) false (h_done hs), [])
  | HHook sid =>
      if hook_pending hs sid && negb (h_owner hs)
      then (mkH (h_pool hs) (h_owner hs) (sid :: h_done hs), [hook_note (h_pool hs) sid])
      else (hs, [])
  end.

Definition hstep (hs : hstate) (l : hlabel) : hstate := fst (hstep_out hs l).
Definition hrun (hs : hstate) (tr : list hlabel) : hstate := fold_left hstep tr hs.

Fixpoint hrun_notes (hs : hstate) (tr : list hlabel) : list note :=
  match tr with
  | [] => []
  | l :: r => snd (hstep_out hs l) ++ hrun_notes (hstep hs l) r
  end.

(* the pool labels of a schedule of the layered system *)
Definition pool_labels (tr : list hlabel) : list label :=
  flat_map (fun l => match l with HL l => [l] | _ => [] end) tr.

(* ================================================================== harness-level histories
   The harness is the owner: [H2Lock] / [H2Unlock] take / release the owner's mutex from the harness goroutine, every
   other operation is an operation of Model/StreamPool.v performed (possibly inside the owner's section) by the same
   goroutine.  After the labels of the operation every close hook that can run does run (the harness waits for it);
   while the owner's mutex is held the hooks stay parked.  Lock / unlock are observed like [HStreams []] by the base
   observer (nothing happens in the pool). *)
Inductive hop2 :=
| H2 (op : hop)
| H2Lock
| H2Unlock.

Definition base_of (o : hop2) : hop := match o with H2 op => op | _ => HStreams [] end.

Definition expand2 (hs : hstate) (i : N) (o : hop2) : list hlabel :=
  match o with
  | H2 op => map HL (expand (h_pool hs) i op)
  | H2Lock => [HOwnerLock]
  | H2Unlock => [HOwnerUnlock]
  end
  ++ map HHook (all_ids (fst (run_op (h_pool hs) i (base_of o))) 0).

Record obs2 := mkObs2 {
  o2_base    : obs;          (* [o_removed] = close-hook INVOCATIONS seen during the operation (logged at the hook's entry) *)
  o2_notes   : list note;    (* close hooks that RETURNED during the operation, by stream id *)
  o2_pending : list N        (* hooks invoked and still parked after the operation *)
}.

Definition run_op2 (hs : hstate) (i : N) (o : hop2) : hstate * obs2 :=
  let ls := expand2 hs i o in
  let hs' := hrun hs ls in
  (hs', mkObs2 (snd (run_op (h_pool hs) i (base_of o))) (hrun_notes hs ls)
               (filter (hook_pending hs') (all_ids (h_pool hs') 0))).

Fixpoint run_hist2 (hs : hstate) (i : N) (ops : list hop2) : list obs2 :=
  match ops with
  | [] => []
  | o :: r => let '(hs', ob) := run_op2 hs i o in ob :: run_hist2 hs' (N.succ i) r
  end.

Definition model_hist2 (c : config) (ops : list hop2) : list obs2 := run_hist2 (hinit c) 0 ops.

(* ================================================================== the property over OBSERVED histories *)
Definition locked_after (lk : bool) (o : hop2) : bool :=
  match o with H2Lock => true | H2Unlock => false | H2 _ => lk end.

Fixpoint nodupb (l : list N) : bool :=
  match l with [] => true | x :: r => negb (memN x r) && nodupb r end.

(* observer state: [pend] = hooks invoked and not returned, [gone] = every stream whose removal has been announced,
   [lk'] = the owner's mutex is held after this operation (read off the operation list = the input) *)
Definition hook_ok (pend gone : list N) (lk' : bool) (o : obs2) : bool :=
  let ent := map fst (o_removed (o2_base o)) in
  let all := ent ++ pend in
  let gone' := ent ++ gone in
  let noted := map fst (o2_notes o) in
  (* a hook returns only after it was invoked, once ... *)
  forallb (fun x => memN x all) noted && nodupb noted
  (* ... and what it reads from the pool (Streams(closedTags)) names no stream whose removal has been announced —
     its own stream included: the indexes were cleaned BEFORE the hook ran *)
  && forallb (fun nt : note => forallb (fun x => negb (memN x gone')) (snd (snd nt))) (o2_notes o)
  (* no hook gets past the owner's mutex while the owner holds it *)
  && (if lk' then match o2_notes o with [] => true | _ => false end else true)
  (* bookkeeping: parked = invoked and not returned *)
  && forallb (fun x => memN x all && negb (memN x noted)) (o2_pending o)
  && forallb (fun x => memN x noted || memN x (o2_pending o)) all
  (* progress: once the owner's mutex is free every invoked hook returns (no hook is lost, none stays stuck) *)
  && (if lk' then true else match o2_pending o with [] => true | _ => false end).

Fixpoint hook_from (pend gone : list N) (lk : bool) (ops : list hop2) (l : list obs2) : bool :=
  match ops, l with
  | [], [] => true
  | o :: ops', ob :: l' =>
      let lk' := locked_after lk o in
      hook_ok pend gone lk' ob
      && hook_from (o2_pending ob) (map fst (o_removed (o2_base ob)) ++ gone) lk' ops' l'
  | _, _ => false
  end.

(* the whole predicate: spec_C19 on the pool observations (every call — the ones made inside the owner's section with
   hooks parked included — returned within the guard, snapshots consistent and free of ended streams, FIFO, one
   writer, ...) and the hook clauses *)
Definition spec_C19_hook (ops : list hop2) (observed : list obs2) : bool :=
  spec_C19 (map base_of ops) (map o2_base observed) && hook_from [] [] false ops observed.

(* ================================================================== the excluded design: hook under pool.mu
   removeStream calls the hook BEFORE it releases pool.mu ("defer s.mu.Unlock()").  While a hook is pending, pool.mu is
   held by the closing goroutine: no label that needs pool.mu is enabled; the hook itself, once it has the owner's
   mutex, calls Streams -> pool.mu -> waits for its own goroutine: it never returns.  (The owner's mutex is treated
   generously here — the owner may take and release it at any time — the pool is frozen all the same.) *)
Definition lock_eqb (a b : lock) : bool :=
  match a, b with PoolMu, PoolMu | QueueMu, QueueMu | DialMu, DialMu => true | _, _ => false end.

Definition needs_pool_mu (l : label) : bool := existsb (lock_eqb PoolMu) (label_locks l).

Definition pool_mu_held (hs : hstate) : bool := existsb (hook_pending hs) (map fst (objs (h_pool hs))).

Definition hstep_ul (hs : hstate) (l : hlabel) : hstate :=
  match l with
  | HL l => if pool_mu_held hs && needs_pool_mu l then hs else hstep hs (HL l)
  | HHook sid => hs        (* with or without the owner's mutex: its call-back waits for pool.mu; [h_done] never grows *)
  | HOwnerLock => hstep hs HOwnerLock
  | HOwnerUnlock => hstep hs HOwnerUnlock
  end.

Definition hrun_ul (hs : hstate) (tr : list hlabel) : hstate := fold_left hstep_ul tr hs.
