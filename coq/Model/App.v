(* Model of app/app.go: the component container (property C20).
   Definitions only; proofs are in Proofs/AppProofs.v.

   Mirrors:  App.Start (init loop, run loop, closeServices(idx)),
             App.Close (reverse loop collecting errors),
             App.Component / GetComponent (child first, then parents). *)
From Coq Require Import List NArith Bool Arith.
Import ListNotations.

Record comp := mkComp {
  cname       : N;      (* Name() *)
  ckind       : N;      (* bit set of the harness interfaces this component implements (GetComponent[T]) *)
  runnable    : bool;   (* implements ComponentRunnable *)
  init_fails  : bool;   (* Init returns an error *)
  run_fails   : bool;   (* Run returns an error *)
  close_fails : bool    (* Close returns an error *)
}.

Inductive event := EInit (i : nat) | ERun (i : nat) | EClose (i : nat).

Inductive start_result := StartOk | ErrInit (i : nat) | ErrRun (i : nat).

(* closeServices(idx): for i := idx; i >= 0; i-- { if runnable: Close }.
   [close_services cs n] closes indexes n-1, n-2, ..., 0. *)
Fixpoint close_services (cs : list comp) (n : nat) : list event :=
  match n with
  | 0 => []
  | S k =>
      (match nth_error cs k with
       | Some c => if runnable c then [EClose k] else []
       | None => []
       end) ++ close_services cs k
  end.

(* for i, s := range app.components { if err = s.Init(app); err != nil { closeServices(i); return } } *)
Fixpoint init_loop (all rest : list comp) (i : nat) : list event * option nat :=
  match rest with
  | [] => ([], None)
  | c :: r =>
      if init_fails c then (EInit i :: close_services all (S i), Some i)
      else let '(ev, res) := init_loop all r (S i) in (EInit i :: ev, res)
  end.

Fixpoint run_loop (all rest : list comp) (i : nat) : list event * option nat :=
  match rest with
  | [] => ([], None)
  | c :: r =>
      if runnable c then
        if run_fails c then (ERun i :: close_services all (S i), Some i)
        else let '(ev, res) := run_loop all r (S i) in (ERun i :: ev, res)
      else run_loop all r (S i)
  end.

Definition start (cs : list comp) : list event * start_result :=
  let '(e1, r1) := init_loop cs cs 0 in
  match r1 with
  | Some i => (e1, ErrInit i)
  | None =>
      let '(e2, r2) := run_loop cs cs 0 in
      (e1 ++ e2, match r2 with Some i => ErrRun i | None => StartOk end)
  end.

(* App.Close: for i := len-1; i >= 0; i-- { if runnable { if e := Close(); e != nil { errs = append(errs, ..) } } }
   returns the events and the indexes whose Close failed, in the order they were reported. *)
Fixpoint close_loop (cs : list comp) (n : nat) : list event * list nat :=
  match n with
  | 0 => ([], [])
  | S k =>
      let '(ev, errs) := close_loop cs k in
      match nth_error cs k with
      | Some c =>
          if runnable c then (EClose k :: ev, if close_fails c then k :: errs else errs)
          else (ev, errs)
      | None => (ev, errs)
      end
  end.

Definition close (cs : list comp) : list event * list nat := close_loop cs (length cs).

(* Component(name) / GetComponent[T]: the chain is child first, then its parent, ...; result = (level, index). *)
Fixpoint find_idx (p : comp -> bool) (cs : list comp) (i : nat) : option nat :=
  match cs with
  | [] => None
  | c :: r => if p c then Some i else find_idx p r (S i)
  end.

Fixpoint lookup (p : comp -> bool) (chain : list (list comp)) (lvl : nat) : option (nat * nat) :=
  match chain with
  | [] => None
  | cs :: parents =>
      match find_idx p cs 0 with
      | Some i => Some (lvl, i)
      | None => lookup p parents (S lvl)
      end
  end.

(* a history of registrations and lookups on a nesting of containers (level 0 = innermost child):
   Register appends to one container, a lookup is made from one container and sees it and its ancestors *)
Inductive lop :=
| LReg (lvl : nat) (c : comp)
| LLook (lvl : nat) (by_kind_ : bool) (key : N).

Fixpoint reg_at (chain : list (list comp)) (lvl : nat) (c : comp) : list (list comp) :=
  match chain, lvl with
  | [], _ => []
  | cs :: r, O => (cs ++ [c]) :: r
  | cs :: r, S l => cs :: reg_at r l c
  end.

Definition by_name (n : N) (c : comp) : bool := N.eqb (cname c) n.
Definition by_kind (k : N) (c : comp) : bool := N.testbit (ckind c) k.

Definition look_pred (bk : bool) (key : N) : comp -> bool := if bk then by_kind key else by_name key.

(* results of the lookups of a history, in order *)
Fixpoint run_lops (chain : list (list comp)) (ops : list lop) : list (option (nat * nat)) :=
  match ops with
  | [] => []
  | LReg l c :: r => run_lops (reg_at chain l c) r
  | LLook l bk key :: r => lookup (look_pred bk key) (skipn l chain) l :: run_lops chain r
  end.

(* ---------------------------------------------------------------------------------------------
   Declarative specification (what the property states), written independently of the loops. *)

(* indexes < n of runnable components, ascending *)
Definition runnable_idx (cs : list comp) (n : nat) : list nat :=
  filter (fun i => match nth_error cs i with Some c => runnable c | None => false end) (seq 0 n).

Definition first_init_fail (cs : list comp) : option nat := find_idx init_fails cs 0.
Definition first_run_fail (cs : list comp) : option nat :=
  find_idx (fun c => runnable c && run_fails c) cs 0.

Definition spec_start (cs : list comp) : list event * start_result :=
  let n := length cs in
  match first_init_fail cs with
  | Some i =>
      (map EInit (seq 0 (S i)) ++ map EClose (rev (runnable_idx cs (S i))), ErrInit i)
  | None =>
      match first_run_fail cs with
      | Some i =>
          (map EInit (seq 0 n) ++ map ERun (runnable_idx cs (S i))
             ++ map EClose (rev (runnable_idx cs (S i))), ErrRun i)
      | None => (map EInit (seq 0 n) ++ map ERun (runnable_idx cs n), StartOk)
      end
  end.

Definition spec_close (cs : list comp) : list event * list nat :=
  let r := rev (runnable_idx cs (length cs)) in
  (map EClose r,
   filter (fun i => match nth_error cs i with Some c => close_fails c | None => false end) r).

(* first level of the chain that has a match, and the first match in it *)
Fixpoint spec_lookup (p : comp -> bool) (chain : list (list comp)) (lvl : nat) : option (nat * nat) :=
  match chain with
  | [] => None
  | cs :: parents =>
      if existsb p cs then option_map (fun i => (lvl, i)) (find_idx p cs 0)
      else spec_lookup p parents (S lvl)
  end.

(* every lookup of a history answers from the registrations made so far, child first: nothing else
   (no earlier answer, no cache) influences it *)
Fixpoint spec_run_lops (chain : list (list comp)) (ops : list lop) : list (option (nat * nat)) :=
  match ops with
  | [] => []
  | LReg l c :: r => spec_run_lops (reg_at chain l c) r
  | LLook l bk key :: r => spec_lookup (look_pred bk key) (skipn l chain) l :: spec_run_lops chain r
  end.

(* decidable equalities used by the executable spec predicate *)
Definition event_eqb (a b : event) : bool :=
  match a, b with
  | EInit i, EInit j | ERun i, ERun j | EClose i, EClose j => Nat.eqb i j
  | _, _ => false
  end.

Definition result_eqb (a b : start_result) : bool :=
  match a, b with
  | StartOk, StartOk => true
  | ErrInit i, ErrInit j | ErrRun i, ErrRun j => Nat.eqb i j
  | _, _ => false
  end.

Fixpoint list_eqb {A} (eqb : A -> A -> bool) (l1 l2 : list A) : bool :=
  match l1, l2 with
  | [], [] => true
  | a :: r1, b :: r2 => eqb a b && list_eqb eqb r1 r2
  | _, _ => false
  end.

(* spec_C20: the property as an executable predicate over OBSERVED behaviour. *)
Definition spec_C20_start (cs : list comp) (obs : list event * start_result) : bool :=
  let '(ev, r) := spec_start cs in
  list_eqb event_eqb ev (fst obs) && result_eqb r (snd obs).

Definition spec_C20_close (cs : list comp) (obs : list event * list nat) : bool :=
  let '(ev, errs) := spec_close cs in
  list_eqb event_eqb ev (fst obs) && list_eqb Nat.eqb errs (snd obs).

Definition opt_pair_eqb (a b : option (nat * nat)) : bool :=
  match a, b with
  | None, None => true
  | Some (x, y), Some (u, v) => Nat.eqb x u && Nat.eqb y v
  | _, _ => false
  end.

Definition spec_C20_lookup (p : comp -> bool) (chain : list (list comp)) (obs : option (nat * nat)) : bool :=
  opt_pair_eqb (spec_lookup p chain 0) obs.

Fixpoint opt_list_eqb (a b : list (option (nat * nat))) : bool :=
  match a, b with
  | [], [] => true
  | x :: r, y :: q => opt_pair_eqb x y && opt_list_eqb r q
  | _, _ => false
  end.

Definition spec_C20_lops (depth : nat) (ops : list lop) (obs : list (option (nat * nat))) : bool :=
  opt_list_eqb (spec_run_lops (repeat [] depth) ops) obs.

(* ---------------------------------------------------------------------------------------------
   Lifecycle histories on one container: Register, Start and Close in any order, and a Register
   attempted by another goroutine WHILE Start is executing (during the Init or the Run call of
   component [k]).  App.Start holds the container's read lock for its whole duration and Register
   needs the write lock, so such a registration takes effect only after that Start returned: the
   late component takes no part in it (neither Init nor Run), and is in the list afterwards. *)
Inductive phase := PInit | PRun.

Inductive hop :=
| HReg (c : comp)
| HStart (late : option (phase * nat * comp))
| HClose.

Inductive hres := HRReg | HRStart (r : start_result) | HRClose (errs : list nat).

Definition trigger_event (ph : phase) (k : nat) : event :=
  match ph with PInit => EInit k | PRun => ERun k end.

(* the Init / Run call during which the late registration is attempted was made at all *)
Definition reached (ev : list event) (ph : phase) (k : nat) : bool :=
  existsb (event_eqb (trigger_event ph k)) ev.

Definition after_start (cs : list comp) (ev : list event) (late : option (phase * nat * comp)) : list comp :=
  match late with
  | Some (ph, k, c) => if reached ev ph k then cs ++ [c] else cs
  | None => cs
  end.

Fixpoint run_hops (cs : list comp) (ops : list hop) : list (list event * hres) :=
  match ops with
  | [] => []
  | HReg c :: r => ([], HRReg) :: run_hops (cs ++ [c]) r
  | HStart late :: r =>
      let '(ev, res) := start cs in
      (ev, HRStart res) :: run_hops (after_start cs ev late) r
  | HClose :: r =>
      let '(ev, errs) := close cs in (ev, HRClose errs) :: run_hops cs r
  end.

(* "no use before init", as a discipline on ANY event log of one Start: every Run is preceded by the
   Init of the same component, and no Init happens once something runs *)
Fixpoint ordered_from (inited : list nat) (running : bool) (ev : list event) : bool :=
  match ev with
  | [] => true
  | EInit i :: r => negb running && ordered_from (i :: inited) running r
  | ERun i :: r => existsb (Nat.eqb i) inited && ordered_from inited true r
  | EClose _ :: r => ordered_from inited running r
  end.

Definition ordered (ev : list event) : bool := ordered_from [] false ev.

Definition event_idx (e : event) : nat := match e with EInit i | ERun i | EClose i => i end.

(* what one Start of a container holding [cs] may show when a registration lands during it:
   on the components registered before it began exactly the behaviour of spec_start; whatever else
   appears in the log obeys the discipline; nothing is closed that was not registered before *)
Definition spec_C20_start_late (cs : list comp) (obs : list event * start_result) : bool :=
  spec_C20_start cs (filter (fun e => Nat.ltb (event_idx e) (length cs)) (fst obs), snd obs)
  && ordered (fst obs).

Definition hres_eqb (a b : hres) : bool :=
  match a, b with
  | HRReg, HRReg => true
  | HRStart x, HRStart y => result_eqb x y
  | HRClose x, HRClose y => list_eqb Nat.eqb x y
  | _, _ => false
  end.

Fixpoint spec_C20_hops (cs : list comp) (ops : list hop) (obs : list (list event * hres)) : bool :=
  match ops, obs with
  | [], [] => true
  | HReg c :: r, (ev, HRReg) :: q => match ev with [] => spec_C20_hops (cs ++ [c]) r q | _ => false end
  | HStart late :: r, (ev, HRStart res) :: q =>
      spec_C20_start_late cs (ev, res) && spec_C20_hops (after_start cs ev late) r q
  | HClose :: r, (ev, HRClose errs) :: q => spec_C20_close cs (ev, errs) && spec_C20_hops cs r q
  | _, _ => false
  end.

Fixpoint hops_eqb (a b : list (list event * hres)) : bool :=
  match a, b with
  | [], [] => true
  | (e1, r1) :: p, (e2, r2) :: q => list_eqb event_eqb e1 e2 && hres_eqb r1 r2 && hops_eqb p q
  | _, _ => false
  end.
