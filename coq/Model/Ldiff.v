(* Model of app/ldiff (diff.go, hashrange.go) — properties C07, C08 (and the ldiff part of C11).
   Definitions only; proofs are in Proofs/Ldiff*.v.

   The model describes the code AS REPAIRED by the "fix:" commits recorded in known_findings.json:
     F1  Set of an existing id does not count the element again        (update_elem)
     F2  removeElement merges at the highest ancestor that fits         (remove_elem)
     F3  getRange hashes the elements when there is no range object     (get_range)
     F4  getBottomRange clamps the bucket to the last child             (bucket)
     F5  a range narrower than the divide factor is never divided       (can_divide)
   The behaviour of the original code is kept as the [*_legacy] definitions, used only by the
   [*_legacy_refuted] examples in Properties/.

   Idealisations (DESIGN §1.3): blake3 digests are terms of a free algebra ([digest]); the xxhash64 of an id
   is an input field of the element ([ehash]); the skip list is a list sorted by (hash, id); ids and heads are
   numbers whose order is the byte-wise order of the (fixed-length) strings the harness uses. *)
From Coq Require Import List NArith Bool Arith.
Import ListNotations.
Open Scope N_scope.

Definition U64MAX : N := 18446744073709551615.

Record elem := mkElem { ehash : N; eid : N; ehead : N }.

Inductive digest :=
| HNil                                  (* nil hash: no element in the range *)
| HElems (l : list (N * N))             (* blake3 (id1 ‖ head1 ‖ id2 ‖ head2 …), in skip-list order *)
| HDiv (l : list digest).               (* blake3 (child hashes in order) *)

(* ------------------------------------------------------------------ contents: list sorted by (hash, id) *)

Definition elem_lt (a b : elem) : bool :=
  (ehash a <? ehash b) || ((ehash a =? ehash b) && (eid a <? eid b)).

Fixpoint insert (e : elem) (l : list elem) : list elem :=
  match l with
  | [] => [e]
  | x :: r => if elem_lt e x then e :: l else x :: insert e r
  end.

Definition delete_id (id : N) (l : list elem) : list elem := filter (fun x => negb (eid x =? id)) l.

Definition has_id (id : N) (l : list elem) : bool := existsb (fun x => eid x =? id) l.

Definition hash_of_id (id : N) (l : list elem) : option N :=
  option_map ehash (find (fun x => eid x =? id) l).

(* d.sl.Remove(el); d.sl.Set(el) *)
Definition set_content (e : elem) (l : list elem) : list elem := insert e (delete_id (eid e) l).

Definition in_rangeb (from to : N) (e : elem) : bool := (from <=? ehash e) && (ehash e <=? to).
Definition in_range (from to : N) (l : list elem) : list elem := filter (in_rangeb from to) l.

Definition pairs (l : list elem) : list (N * N) := map (fun e => (eid e, ehead e)) l.

(* calcElementsHash *)
Definition elems_digest (l : list elem) : digest :=
  match l with [] => HNil | _ => HElems (pairs l) end.

(* ------------------------------------------------------------------ range arithmetic (hashrange.go) *)

(* F5: a range can be divided only if it holds at least [df] hash values *)
Definition can_divide (df from to : N) : bool := df - 1 <=? to - from.

(* perRange and align of genTupleRanges / getBottomRange *)
Definition per_align (df from to : N) : N * N :=
  let w := to - from in
  let al := ((w mod df) + 1) mod df in
  (if al =? 0 then w / df + 1 else w / df, al).

Fixpoint gen_aux (j per al : N) (n : nat) : list (N * N) :=
  match n with
  | O => []
  | S O => [(j, j + per + al - 1)]
  | S n' => (j, j + per - 1) :: gen_aux (j + per) per al n'
  end.

Definition gen_tuple_ranges (df from to : N) : list (N * N) :=
  let '(per, al) := per_align df from to in gen_aux from per al (N.to_nat df).

(* getBottomRange, with the F4 clamp *)
Definition bucket (df from to h : N) : N :=
  let '(per, _) := per_align df from to in N.min ((h - from) / per) (df - 1).

Definition bucket_legacy (df from to h : N) : N :=
  let '(per, _) := per_align df from to in (h - from) / per.

(* ------------------------------------------------------------------ the range tree *)

Inductive rtree :=
| RLeaf (from to cnt : N) (h : digest)
| RNode (from to cnt : N) (h : digest) (ch : list rtree)
| ROof.                                  (* fuel exhausted: unbounded recursion in the code *)

Definition rhash (t : rtree) : digest :=
  match t with RLeaf _ _ _ h => h | RNode _ _ _ h _ => h | ROof => HNil end.
Definition rcnt (t : rtree) : N :=
  match t with RLeaf _ _ c _ => c | RNode _ _ c _ _ => c | ROof => 0 end.
Definition rfrom (t : rtree) : N :=
  match t with RLeaf f _ _ _ => f | RNode f _ _ _ _ => f | ROof => 0 end.
Definition rto (t : rtree) : N :=
  match t with RLeaf _ t' _ _ => t' | RNode _ t' _ _ _ => t' | ROof => 0 end.

Definition count_in (from to : N) (all : list elem) : N := N.of_nat (length (in_range from to all)).


  (* makeRange + makeBottomRanges: the range object for [from,to] computed from the skip list *)
  Fixpoint build (df th : N) (fuel : nat) (all : list elem) (from to : N) : rtree :=
    let cnt := count_in from to all in
    if (th <? cnt) && can_divide df from to then
      match fuel with
      | O => ROof
      | S f =>
          let ch := map (fun r => build df th f all (fst r) (snd r)) (gen_tuple_ranges df from to) in
          RNode from to cnt (HDiv (map rhash ch)) ch
      end
    else RLeaf from to cnt (elems_digest (in_range from to all)).

  (* the top range is always divided *)
  Definition build_top (df th : N) (fuel : nat) (all : list elem) : rtree :=
    let ch := map (fun r => build df th fuel all (fst r) (snd r)) (gen_tuple_ranges df 0 U64MAX) in
    RNode 0 U64MAX (count_in 0 U64MAX all) (HDiv (map rhash ch)) ch.

  Fixpoint update_nth {A} (n : nat) (f : A -> A) (l : list A) : list A :=
    match l, n with
    | [], _ => []
    | x :: r, O => f x :: r
    | x :: r, S n' => x :: update_nth n' f r
    end.

  (* addElement for an id that was not present; [all'] = contents after the insertion.
     Counts are incremented on the way down, a full leaf is divided, hashes recomputed on the dirty path. *)
  Fixpoint add_elem (df th : N) (fuel : nat) (all' : list elem) (t : rtree) (h : N) : rtree :=
    match t with
    | RLeaf from to cnt _ =>
        if (th <? cnt + 1) && can_divide df from to then build df th fuel all' from to
        else RLeaf from to (cnt + 1) (elems_digest (in_range from to all'))
    | RNode from to cnt _ ch =>
        match fuel with
        | O => ROof
        | S f =>
            let ch' := update_nth (N.to_nat (bucket df from to h)) (fun c => add_elem df th f all' c h) ch in
            RNode from to (cnt + 1) (HDiv (map rhash ch')) ch'
        end
    | ROof => ROof
    end.

  (* F1: Set of an id that is already present: counts stay, the leaf on its path is dirty *)
  Fixpoint update_elem (df th : N) (fuel : nat) (all' : list elem) (t : rtree) (h : N) : rtree :=
    match t with
    | RLeaf from to cnt _ => RLeaf from to cnt (elems_digest (in_range from to all'))
    | RNode from to cnt _ ch =>
        match fuel with
        | O => ROof
        | S f =>
            let ch' := update_nth (N.to_nat (bucket df from to h)) (fun c => update_elem df th f all' c h) ch in
            RNode from to cnt (HDiv (map rhash ch')) ch'
        end
    | ROof => ROof
    end.

  (* removeElement (F2): decrement on the way down; the highest non-top range whose count falls to the
     threshold becomes a leaf again *)
  Fixpoint remove_elem (df th : N) (fuel : nat) (top : bool) (all' : list elem) (t : rtree) (h : N) : rtree :=
    match t with
    | RLeaf from to cnt _ => RLeaf from to (cnt - 1) (elems_digest (in_range from to all'))
    | RNode from to cnt _ ch =>
        if negb top && (cnt - 1 <=? th) then RLeaf from to (cnt - 1) (elems_digest (in_range from to all'))
        else
          match fuel with
          | O => ROof
          | S f =>
              let ch' := update_nth (N.to_nat (bucket df from to h)) (fun c => remove_elem df th f false all' c h) ch in
              RNode from to (cnt - 1) (HDiv (map rhash ch')) ch'
          end
    | ROof => ROof
    end.

  (* original addElement, as called by Set for EVERY element (also for an id that is already present): the cached
     count is incremented and compared with the threshold; a leaf's count is refreshed from the skip list by
     recalculateHashes, a divided range's count is not *)
  Fixpoint add_elem_legacy (df th : N) (fuel : nat) (all' : list elem) (t : rtree) (h : N) : rtree :=
    match t with
    | RLeaf from to cnt _ =>
        if (th <? cnt + 1) && can_divide df from to then
          match fuel with
          | O => ROof
          | S f =>
              let ch := map (fun r => build df th f all' (fst r) (snd r)) (gen_tuple_ranges df from to) in
              RNode from to (cnt + 1) (HDiv (map rhash ch)) ch
          end
        else RLeaf from to (count_in from to all') (elems_digest (in_range from to all'))
    | RNode from to cnt _ ch =>
        match fuel with
        | O => ROof
        | S f =>
            let ch' := update_nth (N.to_nat (bucket df from to h)) (fun c => add_elem_legacy df th f all' c h) ch in
            RNode from to (cnt + 1) (HDiv (map rhash ch')) ch'
        end
    | ROof => ROof
    end.

  (* original removeElement: only the parent of the touched leaf is merged *)
  Fixpoint remove_elem_legacy (df th : N) (fuel : nat) (top : bool) (all' : list elem) (t : rtree) (h : N) : rtree :=
    match t with
    | RLeaf from to cnt _ => RLeaf from to (cnt - 1) (elems_digest (in_range from to all'))
    | RNode from to cnt _ ch =>
        match fuel with
        | O => ROof
        | S f =>
            let i := N.to_nat (bucket df from to h) in
            let child_is_leaf := match nth_error ch i with Some (RLeaf _ _ _ _) => true | _ => false end in
            if child_is_leaf && negb top && (cnt - 1 <=? th)
            then RLeaf from to (cnt - 1) (elems_digest (in_range from to all'))
            else
              let ch' := update_nth i (fun c => remove_elem_legacy df th f false all' c h) ch in
              RNode from to (cnt - 1) (HDiv (map rhash ch')) ch'
        end
    | ROof => ROof
    end.

  (* ---------------------------------------------------------------- the index: contents + range tree *)

  Record index := mkIndex { contents : list elem; tree : rtree }.

  Definition FUEL : nat := 66.

  Definition empty_index (df th : N) : index := mkIndex [] (build_top df th FUEL []).

  (* diff.Set for one element *)
  Definition set_one (df th : N) (ix : index) (e : elem) : index :=
    let all' := set_content e (contents ix) in
    if has_id (eid e) (contents ix)
    then mkIndex all' (update_elem df th (S FUEL) all' (tree ix) (ehash e))
    else mkIndex all' (add_elem df th (S FUEL) all' (tree ix) (ehash e)).

  Definition set_many (df th : N) (ix : index) (es : list elem) : index := fold_left (set_one df th) es ix.

  (* original diff.Set: every element is counted again, also when its id was already present *)
  Definition set_one_legacy (df th : N) (ix : index) (e : elem) : index :=
    let all' := set_content e (contents ix) in
    mkIndex all' (add_elem_legacy df th (S FUEL) all' (tree ix) (ehash e)).

  Definition remove_id_legacy (df th : N) (ix : index) (id : N) : index :=
    match hash_of_id id (contents ix) with
    | None => ix
    | Some h =>
        let all' := delete_id id (contents ix) in
        mkIndex all' (remove_elem_legacy df th (S FUEL) true all' (tree ix) h)
    end.

  (* diff.RemoveId *)
  Definition remove_id (df th : N) (ix : index) (id : N) : index * bool :=
    match hash_of_id id (contents ix) with
    | None => (ix, false)                                  (* ErrElementNotFound *)
    | Some h =>
        let all' := delete_id id (contents ix) in
        (mkIndex all' (remove_elem df th (S FUEL) true all' (tree ix) h), true)
    end.

  (* an index freshly filled with the given contents *)
  Definition fresh (df th : N) (all : list elem) : index := mkIndex all (build_top df th FUEL all).

  Inductive op := OSet (es : list elem) | ORemove (id : N).

  Definition step (df th : N) (ix : index) (o : op) : index :=
    match o with
    | OSet es => set_many df th ix es
    | ORemove id => fst (remove_id df th ix id)
    end.

  Definition run_ops (df th : N) (ops : list op) : index := fold_left (step df th) ops (empty_index df th).

  (* ---------------------------------------------------------------- range queries (diff.getRange) *)

  Record rres := mkRes { r_hash : digest; r_elems : list (N * N); r_count : N }.

  (* h.ranges[rangeTuple{from,to}]: the range object with exactly these bounds, if any *)
  Fixpoint find_obj (fuel : nat) (t : rtree) (from to : N) : option rtree :=
    match t with
    | ROof => None
    | RLeaf f t' _ _ => if (f =? from) && (t' =? to) then Some t else None
    | RNode f t' _ _ ch =>
        if (f =? from) && (t' =? to) then Some t
        else match fuel with
             | O => None
             | S fu =>
                 match find (fun c => (rfrom c <=? from) && (from <=? rto c)) ch with
                 | Some c => find_obj fu c from to
                 | None => None
                 end
             end
    end.

  Definition get_range (ix : index) (from to : N) (want_elems : bool) : rres :=
    let els := in_range from to (contents ix) in
    match find_obj (S FUEL) (tree ix) from to with
    | Some o =>
        if want_elems then mkRes (rhash o) (pairs els) (N.of_nat (length els))
        else mkRes (rhash o) [] (rcnt o)
    | None => mkRes (elems_digest els) (pairs els) (N.of_nat (length els))   (* F3 *)
    end.

  (* original code: no hash when there is no range object *)
  Definition get_range_legacy (ix : index) (from to : N) (want_elems : bool) : rres :=
    let els := in_range from to (contents ix) in
    match find_obj (S FUEL) (tree ix) from to with
    | Some o =>
        if want_elems then mkRes (rhash o) (pairs els) (N.of_nat (length els))
        else mkRes (rhash o) [] (rcnt o)
    | None => mkRes HNil (pairs els) (N.of_nat (length els))
    end.

  Definition top_hash (ix : index) : digest := rhash (tree ix).

  (* ---------------------------------------------------------------- Diff / CompareDiff *)

  Inductive tag := TNew | TChanged | TTheirChanged | TRemoved.

  Fixpoint assoc (id : N) (l : list (N * N)) : option N :=
    match l with
    | [] => None
    | (i, h) :: r => if i =? id then Some h else assoc id r
    end.

  (* compareElementsEqual *)
  Definition cmp_equal (my other : list (N * N)) : list (tag * N) :=
    flat_map (fun p => match assoc (fst p) other with
                       | None => [(TRemoved, fst p)]
                       | Some h' => if h' =? snd p then [] else [(TChanged, fst p)]
                       end) my
    ++ flat_map (fun p => match assoc (fst p) my with None => [(TNew, fst p)] | Some _ => [] end) other.

  (* compareElementsGreater *)
  Definition cmp_greater (my other : list (N * N)) : list (tag * N) :=
    flat_map (fun p => match assoc (fst p) other with
                       | None => [(TRemoved, fst p)]
                       | Some h' => if h' =? snd p then []
                                    else if snd p <? h' then [(TTheirChanged, fst p)] else [(TChanged, fst p)]
                       end) my
    ++ flat_map (fun p => match assoc (fst p) my with None => [(TNew, fst p)] | Some _ => [] end) other.

  Fixpoint digest_eqb (a b : digest) : bool :=
    match a, b with
    | HNil, HNil => true
    | HElems l1, HElems l2 =>
        (fix eqp (x y : list (N * N)) : bool :=
           match x, y with
           | [], [] => true
           | (a1, a2) :: r1, (b1, b2) :: r2 => (a1 =? b1) && (a2 =? b2) && eqp r1 r2
           | _, _ => false
           end) l1 l2
    | HDiv l1, HDiv l2 =>
        (fix eql (x y : list digest) : bool :=
           match x, y with
           | [], [] => true
           | d1 :: r1, d2 :: r2 => digest_eqb d1 d2 && eql r1 r2
           | _, _ => false
           end) l1 l2
    | _, _ => false
    end.

  Definition item := (N * N * bool)%type.       (* Range{From, To, Elements} *)
  Definition remote := N -> N -> bool -> rres.  (* Remote.Ranges, one range at a time *)

  Definition len {A} (l : list A) : N := N.of_nat (length l).

  (* compareResults: what is reported and what is asked in the next round *)
  Definition compare_results (df th : N) (cmp : list (N * N) -> list (N * N) -> list (tag * N))
             (my : index) (it : item) (myres otherres : rres) : list (tag * N) * list item :=
    let '(from, to, _) := it in
    if digest_eqb (r_hash myres) (r_hash otherres) then ([], [])
    else if len (r_elems otherres) =? r_count otherres then
      if len (r_elems myres) =? r_count myres then (cmp (r_elems myres) (r_elems otherres), [])
      else (cmp (r_elems (get_range my from to true)) (r_elems otherres), [])
    else if ((r_count otherres <=? th) && (len (r_elems otherres) =? 0))
            || (len (r_elems myres) =? r_count myres)
            || negb (can_divide df from to)                             (* F5 *)
    then ([], [(from, to, true)])
    else ([], map (fun r => (fst r, snd r, false)) (gen_tuple_ranges df from to)).

  Definition one_round (df th : N) (cmp : list (N * N) -> list (N * N) -> list (tag * N))
             (getr : index -> N -> N -> bool -> rres) (my : index) (other : remote) (to_send : list item)
    : list (tag * N) * list item :=
    fold_left (fun acc it =>
                 let '(from, to, we) := it in
                 let '(rep, nxt) := compare_results df th cmp my it (getr my from to we) (other from to we) in
                 (fst acc ++ rep, snd acc ++ nxt))
              to_send ([], []).

  Fixpoint rounds (df th : N) (fuel : nat) cmp getr (my : index) (other : remote)
           (acc : list (tag * N)) (to_send : list item) : option (list (tag * N)) :=
    match to_send with
    | [] => Some acc
    | _ =>
        match fuel with
        | O => None                                             (* the loop did not terminate *)
        | S f =>
            let '(rep, nxt) := one_round df th cmp getr my other to_send in
            rounds df th f cmp getr my other (acc ++ rep) nxt
        end
    end.

  Definition DIFF_FUEL : nat := 70.

  Definition diff_run (df th : N) cmp (my : index) (other : remote) : option (list (tag * N)) :=
    rounds df th DIFF_FUEL cmp get_range my other [] [(0, U64MAX, false)].

  Definition diff_run_legacy (df th : N) cmp (my : index) (other : remote) : option (list (tag * N)) :=
    rounds df th DIFF_FUEL cmp get_range_legacy my other [] [(0, U64MAX, false)].

  Definition remote_of (ix : index) : remote := get_range ix.
  Definition remote_of_legacy (ix : index) : remote := get_range_legacy ix.

  (* the wire adapters (remotediff.go): Count travels as uint32, nil/empty element lists are identified *)
  Definition wire (r : remote) : remote :=
    fun from to we => let x := r from to we in mkRes (r_hash x) (r_elems x) (r_count x mod 4294967296).

  (* ---------------------------------------------------------------- declarative specification of a diff *)

  Definition head_of (id : N) (l : list elem) : option N := option_map ehead (find (fun x => eid x =? id) l).

  Definition spec_removed (L R : list elem) : list N :=
    map eid (filter (fun e => negb (has_id (eid e) R)) L).
  Definition spec_new (L R : list elem) : list N :=
    map eid (filter (fun e => negb (has_id (eid e) L)) R).
  Definition spec_changed (L R : list elem) : list N :=
    map eid (filter (fun e => match head_of (eid e) R with Some h => negb (h =? ehead e) | None => false end) L).
  Definition spec_our_changed (L R : list elem) : list N :=
    map eid (filter (fun e => match head_of (eid e) R with Some h => negb (h =? ehead e) && negb (ehead e <? h) | None => false end) L).
  Definition spec_their_changed (L R : list elem) : list N :=
    map eid (filter (fun e => match head_of (eid e) R with Some h => negb (h =? ehead e) && (ehead e <? h) | None => false end) L).

  Definition ids_with (t : tag) (res : list (tag * N)) : list N :=
    map snd (filter (fun p => match fst p, t with
                              | TNew, TNew | TChanged, TChanged | TTheirChanged, TTheirChanged | TRemoved, TRemoved => true
                              | _, _ => false end) res).

(* ------------------------------------------------------------------ helpers for executable predicates *)

Fixpoint n_insert (x : N) (l : list N) : list N :=
  match l with [] => [x] | y :: r => if x <=? y then x :: l else y :: n_insert x r end.
Definition n_sort (l : list N) : list N := fold_right n_insert [] l.

Fixpoint nlist_eqb (a b : list N) : bool :=
  match a, b with
  | [], [] => true
  | x :: r, y :: s => (x =? y) && nlist_eqb r s
  | _, _ => false
  end.

(* same set, each element once: compare sorted lists *)
Definition same_ids (a b : list N) : bool := nlist_eqb (n_sort a) (n_sort b).

(* spec_C07: the property as an executable predicate over OBSERVED diff results *)
Definition spec_C07_diff (L R : list elem) (new changed removed : list N) : bool :=
  same_ids new (spec_new L R) && same_ids changed (spec_changed L R) && same_ids removed (spec_removed L R).

Definition spec_C07_compare (L R : list elem) (new ours theirs removed : list N) : bool :=
  same_ids new (spec_new L R) && same_ids ours (spec_our_changed L R)
  && same_ids theirs (spec_their_changed L R) && same_ids removed (spec_removed L R).
