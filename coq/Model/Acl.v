(* Model of the ACL state machine of any-sync:
     commonspace/object/acl/list/aclstate.go   (applyChangeContent and every apply* function)
     commonspace/object/acl/list/validator.go  (every Validate* function; active iff verifier.ShouldValidate())
     commonspace/object/acl/list/list.go       (AddRawRecord / AddRawRecords / build / RecordsAfter)
     commonspace/object/acl/list/aclrecordbuilder.go (UnmarshallWithId / verifyRaw, symbolically)
     commonspace/object/acl/list/keepidentity.go     (keep-only-ours decode, as [keep_ours])
   DEFINITIONS ONLY (shared by C02, C03, C04, C05).  Proofs: Proofs/Acl*.v.

   Conventions
   * accounts, record ids, invite keys are [N].  Id [0] stands for bytes that do not parse as a public key
     (PubKeyFromProto fails); every place where the Go code parses an identity rejects id 0.
   * permissions are the wire enum values (any N can appear in a hand-made record):
       0 None, 1 Owner, 2 Admin, 3 Writer, 4 Reader, 5 Guest, others = unknown.
   * Go maps are association lists kept sorted by key ([mset] inserts in order), so that states built by the
     model are canonical and can be compared with the sorted dumps of the implementation.
   * cryptographic payloads are abstracted to what the code inspects:
       - an invite-identity signature is the pair (signing invite key, signed identity);
       - a read-key change carries the LIST of identities / invite keys it has ciphertexts for, a flag "metadata
         public key parses" and a flag "encryptedMetadataPrivKey and encryptedOldReadKey are present";
       - encrypted read keys in invites / joins are a presence flag;
       - metadata is a flag "length <= MaxMetadataLen".
     Decryption with the list's own key is assumed to succeed (the lists we model are built with keys that
     received well-formed ciphertexts); which key generations the own identity [me] obtains is tracked in [mykeys].
   * error values are not modelled: a step returns [Some s'] (accepted) or [None] (rejected; the caller keeps
     the old state, because the Go code applies to a copy).
   * one-to-one ACLs (root.OneToOneInfo) are not modelled (they reject every record).

   REPAIRED behaviour (see fixes/C04-*.patch; the legacy behaviour is available with [legacy := true]):
     F10  AccountRemove with a nil ReadKeyChange: legacy = nil dereference (panic); repaired = reject.
     F21  RequestAccept does not check the request type nor that the requester still has no permissions:
          legacy lets a manager "accept" a REMOVE request, or a stale JOIN request of an account that was added
          meanwhile, which overwrites that account's permissions (Admin revoked by a non-owner, Guest
          re-permissioned, Owner demoted -> zero owners); repaired = reject unless type = Join and the requester
          has no permissions.
     F22  OwnershipChange accepts a Guest as new owner; repaired = reject. *)
From Coq Require Import List NArith Bool.
Import ListNotations.
Open Scope N_scope.

Definition acct := N.
Definition rid := N.
Definition perm := N.

Definition pNone : perm := 0.
Definition pOwner : perm := 1.
Definition pAdmin : perm := 2.
Definition pWriter : perm := 3.
Definition pReader : perm := 4.
Definition pGuest : perm := 5.

(* models.go: AclPermissions methods *)
Definition can_manage (p : perm) : bool := (p =? pAdmin) || (p =? pOwner).
Definition can_request_remove (p : perm) : bool := negb (p =? pGuest).
(* IsLessOrEqual: None <= anything; Reader <= anything but None; Writer <= Writer, Admin; Admin <= Admin; else false *)
Definition perm_le (p q : perm) : bool :=
  if p =? pNone then true
  else if p =? pReader then negb (q =? pNone)
  else if p =? pWriter then (q =? pWriter) || (q =? pAdmin)
  else if p =? pAdmin then q =? pAdmin
  else false.

Inductive status := SNone | SJoining | SActive | SRemoved | SDeclined | SRemoving | SCanceled.
Definition status_eqb (a b : status) : bool :=
  match a, b with
  | SNone, SNone | SJoining, SJoining | SActive, SActive | SRemoved, SRemoved
  | SDeclined, SDeclined | SRemoving, SRemoving | SCanceled, SCanceled => true
  | _, _ => false
  end.

(* AccountState (models.go), without PubKey (= the map key) and RequestMetadata *)
Record account := mkAccount {
  a_perm : perm;
  a_status : status;
  a_keyrec : rid;                 (* KeyRecordId *)
  a_hist : list (rid * perm)      (* PermissionChanges *)
}.
Definition acc0 : account := mkAccount 0 SNone 0 [].   (* Go zero value *)

(* Invite (aclstate.go): Key, Type (0 RequestToJoin, 1 AnyoneCanJoin, other = unknown), Permissions *)
Record invite := mkInvite { i_key : N; i_type : N; i_perm : perm }.
Definition inv0 : invite := mkInvite 0 0 0.
Definition tRequestToJoin : N := 0.
Definition tAnyoneCanJoin : N := 1.

Inductive rtype := RRemove | RJoin.
Definition rtype_eqb (a b : rtype) : bool :=
  match a, b with RRemove, RRemove | RJoin, RJoin => true | _, _ => false end.
(* RequestRecord: RequestIdentity, Type, KeyRecordId (RecordId = the map key) *)
Record request := mkRequest { r_ident : acct; r_type : rtype; r_keyrec : rid }.

Record state := mkState {
  accounts : list (acct * account);       (* accountStates *)
  invites : list (rid * invite);          (* invites: recordId -> invite *)
  requests : list (rid * request);        (* requestRecords *)
  pending : list (acct * rid);            (* pendingRequests: identity -> recordId *)
  keychanges : list rid;                  (* readKeyChanges, oldest first *)
  options : list (rid * option bool);     (* optionChanges: (recordId, Options{deleteRestricted} or nil) *)
  last : rid;                             (* lastRecordId *)
  mykeys : list rid                       (* key generations whose ReadKey the own identity holds *)
}.

(* ------------------------------------------------------------------------------------------ finite maps *)
Section Maps.
  Context {V : Type}.
  Fixpoint mget (k : N) (m : list (N * V)) : option V :=
    match m with
    | [] => None
    | (k', x) :: r => if k =? k' then Some x else mget k r
    end.
  Fixpoint mset (k : N) (x : V) (m : list (N * V)) : list (N * V) :=
    match m with
    | [] => [(k, x)]
    | (k', x') :: r =>
        if k =? k' then (k, x) :: r
        else if k <? k' then (k, x) :: (k', x') :: r
        else (k', x') :: mset k x r
    end.
  Fixpoint mdel (k : N) (m : list (N * V)) : list (N * V) :=
    match m with
    | [] => []
    | (k', x') :: r => if k =? k' then mdel k r else (k', x') :: mdel k r
    end.
  Definition mhas (k : N) (m : list (N * V)) : bool :=
    match mget k m with Some _ => true | None => false end.
  Definition mkeys (m : list (N * V)) : list N := map fst m.
End Maps.

Fixpoint insert_sorted (x : N) (l : list N) : list N :=
  match l with
  | [] => [x]
  | y :: r => if x <=? y then x :: y :: r else y :: insert_sorted x r
  end.
Definition sort_N (l : list N) : list N := fold_right insert_sorted [] l.
Fixpoint list_N_eqb (a b : list N) : bool :=
  match a, b with
  | [], [] => true
  | x :: a', y :: b' => (x =? y) && list_N_eqb a' b'
  | _, _ => false
  end.
Definition memN (x : N) (l : list N) : bool := existsb (N.eqb x) l.
Fixpoint last_or (l : list N) (d : N) : N :=
  match l with [] => d | [x] => x | _ :: r => last_or r d end.

(* ------------------------------------------------------------------------------------------ observers *)
Definition acc_of (s : state) (a : acct) : account :=
  match mget a (accounts s) with Some x => x | None => acc0 end.
(* AclState.Permissions(identity) *)
Definition perm_of (s : state) (a : acct) : perm := a_perm (acc_of s a).
Definition status_of (s : state) (a : acct) : status := a_status (acc_of s a).
(* CurrentReadKeyId *)
Definition cur_key (s : state) : rid := last_or (keychanges s) 0.
Definition parse_ok (x : N) : bool := negb (x =? 0).

(* ------------------------------------------------------------------------------------------ record contents *)
(* AclReadKeyChange as far as the code inspects it *)
Record rkchange := mkRk {
  rk_meta_ok : bool;            (* MetadataPubKey parses *)
  rk_fields : bool;             (* EncryptedMetadataPrivKey <> nil and EncryptedOldReadKey <> nil *)
  rk_accounts : list acct;      (* identities of AccountKeys, in order *)
  rk_invites : list N           (* identities (invite keys) of InviteKeys, in order *)
}.

(* the oneof of AclContentValue (aclrecord.proto), plus the empty oneof *)
Inductive content :=
| CInvite (key : N) (ty : N) (p : perm) (has_enc : bool)                    (* 1 invite *)
| CInviteRevoke (inv : rid)                                                 (* 2 *)
| CRequestJoin (ident : acct) (inv : rid) (sig_key : N) (sig_msg : acct) (meta_ok : bool)  (* 3 *)
| CRequestAccept (ident : acct) (req : rid) (p : perm)                      (* 4 *)
| CPermChange (target : acct) (p : perm)                                    (* 5 (deprecated single change) *)
| CAccountRemove (ids : list acct) (rk : option rkchange)                   (* 6; None = sub-message absent *)
| CReadKeyChange (rk : rkchange)                                            (* 7 *)
| CRequestDecline (req : rid)                                               (* 8 *)
| CRequestRemove                                                            (* 9 *)
| CPermChanges (l : list (acct * perm))                                     (* 10 *)
| CAccountsAdd (l : list (acct * perm))                                     (* 11 *)
| CRequestCancel (req : rid)                                                (* 12 *)
| CInviteJoin (ident : acct) (inv : rid) (p : perm) (sig_key : N) (sig_msg : acct)
              (meta_ok : bool) (has_enc : bool)                             (* 13 *)
| CInviteChange (inv : rid) (p : perm)                                      (* 14 *)
| COwnershipChange (new_owner : acct) (old_perm : perm)                     (* 15 *)
| COptions (o : option bool)                                                (* 16 spaceOptionsChange *)
| CEmpty.                                                                   (* no oneof member set: default branch *)

(* ------------------------------------------------------------------------------------------ the machine *)
Section Machine.
  Variable legacy : bool.   (* true = behaviour before fixes/C04-*.patch (F21, F22); F10 panics are None either way *)
  Variable v : bool.        (* verifier.ShouldValidate() *)
  Variable me : acct.       (* identity the list was built with (0 = none of the accounts in play) *)

  Definition set_acc (s : state) (a : acct) (x : account) : state :=
    mkState (mset a x (accounts s)) (invites s) (requests s) (pending s) (keychanges s) (options s) (last s) (mykeys s).
  Definition set_invites (s : state) (m : list (rid * invite)) : state :=
    mkState (accounts s) m (requests s) (pending s) (keychanges s) (options s) (last s) (mykeys s).
  Definition set_reqs (s : state) (rq : list (rid * request)) (pd : list (acct * rid)) : state :=
    mkState (accounts s) (invites s) rq pd (keychanges s) (options s) (last s) (mykeys s).
  Definition set_mykeys (s : state) (k : list rid) : state :=
    mkState (accounts s) (invites s) (requests s) (pending s) (keychanges s) (options s) (last s) k.

  (* updatePermissions *)
  Definition update_perm (s : state) (a : acct) (p : perm) (r : rid) : state :=
    let x := acc_of s a in
    set_acc s a (mkAccount p (a_status x) (a_keyrec x) (a_hist x ++ [(r, p)])).

  (* unpackAllKeys for the own identity: every generation so far *)
  Definition unpack_if_me (s : state) (a : acct) : state :=
    if a =? me then set_mykeys s (keychanges s) else s.

  (* delete the request [req] and the pending entry of its requester (as in accept / decline / cancel) *)
  Definition drop_request (s : state) (req : rid) : state :=
    match mget req (requests s) with
    | Some q => set_reqs s (mdel req (requests s)) (mdel (r_ident q) (pending s))
    | None => set_reqs s (mdel req (requests s)) (pending s)
    end.

  (* ---- ValidateOwnershipChange / applyOwnershipChange *)
  Definition validate_ownership (s : state) (au new_owner : acct) (old_perm : perm) : bool :=
    (perm_of s au =? pOwner) &&
    parse_ok new_owner &&
    negb (perm_of s new_owner =? pNone) &&
    status_eqb (status_of s new_owner) SActive &&
    negb (perm_of s new_owner =? pOwner) &&
    negb (old_perm =? pOwner) &&
    negb (old_perm =? pNone) &&
    (legacy || negb (perm_of s new_owner =? pGuest)).          (* F22 repair *)
  Definition apply_ownership (s : state) (au : acct) (r : rid) (new_owner : acct) (old_perm : perm) : option state :=
    if v && negb (validate_ownership s au new_owner old_perm) then None
    else if negb (parse_ok new_owner) then None
    else Some (update_perm (update_perm s au old_perm r) new_owner pOwner r).

  (* ---- ValidatePermissionChange / applyPermissionChange *)
  Definition validate_perm_change (s : state) (au target : acct) (p : perm) : bool :=
    let ap := perm_of s au in
    let cur := perm_of s target in
    can_manage ap &&
    mhas target (accounts s) &&
    negb (cur =? pNone) &&                                      (* F33 repair: no key is delivered by a permission change *)
    negb (cur =? pGuest) &&
    negb (cur =? pOwner) &&
    negb ((cur =? pAdmin) && negb (ap =? pOwner)) &&
    negb (p =? pOwner) &&
    negb ((p =? pAdmin) && negb (ap =? pOwner)) &&
    negb ((p =? pGuest) && negb (cur =? pReader)).
  Definition apply_perm_change (s : state) (au : acct) (r : rid) (target : acct) (p : perm) : option state :=
    if negb (parse_ok target) then None
    else if v && negb (validate_perm_change s au target p) then None
    else Some (update_perm s target p r).
  (* applyPermissionChanges: each change validated against the state left by the previous ones *)
  Fixpoint apply_perm_changes (s : state) (au : acct) (r : rid) (l : list (acct * perm)) : option state :=
    match l with
    | [] => Some s
    | (t, p) :: rest =>
        match apply_perm_change s au r t p with
        | Some s1 => apply_perm_changes s1 au r rest
        | None => None
        end
    end.

  (* ---- ValidateInvite / applyInvite *)
  Definition validate_invite (s : state) (au : acct) (ty : N) (p : perm) (has_enc : bool) : bool :=
    let ap := perm_of s au in
    can_manage ap &&
    (if ty =? tAnyoneCanJoin then
       negb ((p =? pOwner) || (p =? pNone) || (p =? pGuest)) &&
       negb ((p =? pAdmin) && negb (ap =? pOwner)) &&
       has_enc
     else true).
  Definition apply_invite (s : state) (au : acct) (r : rid) (key ty : N) (p : perm) (has_enc : bool) : option state :=
    if negb (parse_ok key) then None
    else if v && negb (validate_invite s au ty p has_enc) then None
    else Some (set_invites s (mset r (mkInvite key ty p) (invites s))).

  (* ---- ValidateInviteChange / applyInviteChange *)
  Definition validate_invite_change (s : state) (au : acct) (inv : rid) (p : perm) : bool :=
    let ap := perm_of s au in
    can_manage ap &&
    match mget inv (invites s) with
    | None => false
    | Some i =>
        (i_type i =? tAnyoneCanJoin) &&
        negb (i_perm i =? p) &&
        negb ((p =? pOwner) || (p =? pNone) || (p =? pGuest)) &&
        negb ((p =? pAdmin) && negb (ap =? pOwner))
    end.
  Definition apply_invite_change (s : state) (au : acct) (inv : rid) (p : perm) : option state :=
    if v && negb (validate_invite_change s au inv p) then None
    else
      let i := match mget inv (invites s) with Some i => i | None => inv0 end in
      Some (set_invites s (mset inv (mkInvite (i_key i) (i_type i) p) (invites s))).

  (* ---- ValidateInviteRevoke / applyInviteRevoke *)
  Definition apply_invite_revoke (s : state) (au : acct) (inv : rid) : option state :=
    if v && negb (can_manage (perm_of s au) && mhas inv (invites s)) then None
    else Some (set_invites s (mdel inv (invites s))).

  (* ---- ValidateRequestJoin / applyRequestJoin *)
  Definition validate_request_join (s : state) (au ident : acct) (inv : rid) (sig_key : N) (sig_msg : acct) (meta_ok : bool) : bool :=
    match mget inv (invites s) with
    | None => false
    | Some i =>
        (perm_of s au =? pNone) &&
        (i_type i =? tRequestToJoin) &&
        parse_ok ident &&
        negb (mhas ident (pending s)) &&
        (au =? ident) &&
        ((sig_key =? i_key i) && (sig_msg =? ident)) &&      (* invite.Key.Verify(rawIdentity, signature) *)
        meta_ok
    end.
  Definition apply_request_join (s : state) (au : acct) (r : rid) (ident : acct) (inv : rid) (sig_key : N) (sig_msg : acct) (meta_ok : bool) : option state :=
    if v && negb (validate_request_join s au ident inv sig_key sig_msg meta_ok) then None
    else
      let s1 := set_reqs s (mset r (mkRequest au RJoin (cur_key s)) (requests s)) (mset au r (pending s)) in
      let hist := match mget au (accounts s) with Some x => a_hist x | None => [] end in
      Some (set_acc s1 au (mkAccount pNone SJoining (cur_key s) hist)).

  (* ---- ValidateAccountsAdd / applyAccountsAdd *)
  Fixpoint validate_additions (s : state) (ap : perm) (l : list (acct * perm)) : bool :=
    match l with
    | [] => true
    | (a, p) :: rest =>
        parse_ok a &&
        (perm_of s a =? pNone) &&
        negb (p =? pOwner) &&
        negb (p =? pNone) &&
        negb ((p =? pAdmin) && negb (ap =? pOwner)) &&
        validate_additions s ap rest
    end.
  Fixpoint do_additions (s : state) (r : rid) (l : list (acct * perm)) : option state :=
    match l with
    | [] => Some s
    | (a, p) :: rest =>
        if negb (parse_ok a) then None
        else
          (* F35 repair: a re-added account keeps its earlier permission history *)
          let hist := match mget a (accounts s) with Some x => a_hist x ++ [(r, p)] | None => [(r, p)] end in
          do_additions (unpack_if_me (set_acc s a (mkAccount p SActive (cur_key s) hist)) a) r rest
    end.
  Definition apply_accounts_add (s : state) (au : acct) (r : rid) (l : list (acct * perm)) : option state :=
    if v && negb (can_manage (perm_of s au) && validate_additions s (perm_of s au) l) then None
    else do_additions s r l.

  (* ---- ValidateRequestAccept / applyRequestAccept *)
  Definition validate_request_accept (s : state) (au ident : acct) (req : rid) (p : perm) : bool :=
    let ap := perm_of s au in
    can_manage ap &&
    match mget req (requests s) with
    | None => false
    | Some q =>
        parse_ok ident &&
        (ident =? r_ident q) &&
        negb (p =? pOwner) &&
        negb ((p =? pAdmin) && negb (ap =? pOwner)) &&
        (legacy || (rtype_eqb (r_type q) RJoin && (perm_of s ident =? pNone)))     (* F21 repair *)
    end.
  Definition apply_request_accept (s : state) (au : acct) (r : rid) (ident : acct) (req : rid) (p : perm) : option state :=
    if v && negb (validate_request_accept s au ident req p) then None
    else if negb (parse_ok ident) then None
    else
      match mget req (requests s) with
      | None => None     (* only reachable with v = false; the Go code dereferences a nil RequestIdentity there *)
      | Some q =>
          let hist := match mget ident (accounts s) with Some x => a_hist x ++ [(r, p)] | None => [(r, p)] end in
          let s1 := set_acc s ident (mkAccount p SActive (r_keyrec q) hist) in
          Some (unpack_if_me (drop_request s1 req) ident)
      end.

  (* ---- ValidateInviteJoin / applyInviteJoinWithoutApprove *)
  Definition validate_invite_join (s : state) (au ident : acct) (inv : rid) (p : perm) (sig_key : N) (sig_msg : acct) (meta_ok has_enc : bool) : bool :=
    (perm_of s au =? pNone) &&
    match mget inv (invites s) with
    | None => false
    | Some i =>
        (i_type i =? tAnyoneCanJoin) &&
        perm_le p (i_perm i) &&
        parse_ok ident &&
        (au =? ident) &&
        ((sig_key =? i_key i) && (sig_msg =? ident)) &&
        meta_ok && has_enc
    end.
  (* the first request record whose requester is [a] (Go iterates the map and stops at the first match;
     in validated histories there is at most one).  Written over the keys with [mget] so that the result is
     a key whose binding names [a] whatever the shape of the association list. *)
  Fixpoint find_req (a : acct) (ks : list rid) (m : list (rid * request)) : option rid :=
    match ks with
    | [] => None
    | r :: rest =>
        match mget r m with
        | Some q => if r_ident q =? a then Some r else find_req a rest m
        | None => find_req a rest m
        end
    end.
  Definition find_request_of (a : acct) (m : list (rid * request)) : option rid := find_req a (mkeys m) m.
  Definition apply_invite_join (s : state) (au : acct) (r : rid) (ident : acct) (inv : rid) (p : perm) (sig_key : N) (sig_msg : acct) (meta_ok has_enc : bool) : option state :=
    if v && negb (validate_invite_join s au ident inv p sig_key sig_msg meta_ok has_enc) then None
    else if negb (parse_ok ident) then None
    else
      let i := match mget inv (invites s) with Some i => i | None => inv0 end in
      let p' := if p =? pNone then i_perm i else p in
      let hist := match mget ident (accounts s) with Some x => a_hist x ++ [(r, p')] | None => [(r, p')] end in
      let s1 := set_acc s ident (mkAccount p' SActive (cur_key s) hist) in
      let s2 := match find_request_of ident (requests s1) with
                | Some rq => set_reqs s1 (mdel rq (requests s1)) (mdel ident (pending s1))
                | None => s1
                end in
      Some (unpack_if_me s2 ident).

  (* ---- ValidateRequestDecline / applyRequestDecline *)
  Definition apply_request_decline (s : state) (au : acct) (req : rid) : option state :=
    if v && negb (can_manage (perm_of s au) &&
                  match mget req (requests s) with Some q => rtype_eqb (r_type q) RJoin | None => false end) then None
    else
      match mget req (requests s) with
      | None => None     (* v = false only; nil RequestIdentity *)
      | Some q =>
          match mget (r_ident q) (accounts s) with
          | None => None                                  (* ErrNoSuchAccount *)
          | Some x =>
              let s1 := set_acc s (r_ident q) (mkAccount (a_perm x) SDeclined (a_keyrec x) (a_hist x)) in
              Some (drop_request s1 req)
          end
      end.

  (* ---- ValidateRequestCancel / applyRequestCancel *)
  Definition apply_request_cancel (s : state) (au : acct) (req : rid) : option state :=
    if v && negb (match mget req (requests s) with Some q => r_ident q =? au | None => false end) then None
    else
      match mget req (requests s) with
      | None => None     (* v = false only *)
      | Some q =>
          match mget (r_ident q) (accounts s) with
          | None => None
          | Some x =>
              let st := match r_type q with RJoin => SCanceled | RRemove => SActive end in
              let s1 := set_acc s (r_ident q) (mkAccount (a_perm x) st (a_keyrec x) (a_hist x)) in
              Some (drop_request s1 req)
          end
      end.

  (* ---- ValidateRequestRemove / applyRequestRemove *)
  Definition apply_request_remove (s : state) (au : acct) (r : rid) : option state :=
    if v && negb (negb (perm_of s au =? pNone) && negb (perm_of s au =? pOwner) && negb (mhas au (pending s))) then None
    else
      let s1 := set_reqs s (mset r (mkRequest au RRemove 0) (requests s)) (mset au r (pending s)) in
      if negb (can_request_remove (perm_of s au)) then None
      else match mget au (accounts s) with
           | None => None
           | Some x => Some (set_acc s1 au (mkAccount (a_perm x) SRemoving (a_keyrec x) (a_hist x)))
           end.

  (* ---- validateReadKeyChange (shared by ReadKeyChange and AccountRemove) *)
  Definition active_users (s : state) (removed : list acct) : list acct :=
    map fst (filter (fun ax => negb (a_perm (snd ax) =? pNone) && negb (memN (fst ax) removed)) (accounts s)).
  Definition active_invite_keys (s : state) : list N :=
    map (fun ri => i_key (snd ri)) (filter (fun ri => i_type (snd ri) =? tAnyoneCanJoin) (invites s)).
  Definition validate_rk (s : state) (rk : rkchange) (removed : list acct) : bool :=
    rk_meta_ok rk && rk_fields rk &&
    forallb parse_ok (rk_accounts rk) &&
    forallb parse_ok (rk_invites rk) &&
    list_N_eqb (sort_N (active_users s removed)) (sort_N (rk_accounts rk)) &&
    list_N_eqb (sort_N (active_invite_keys s)) (sort_N (rk_invites rk)).
  (* applyReadKeyChange after validation: append the key generation; keep our key if we are among the recipients *)
  Definition do_rk (s : state) (r : rid) (rk : rkchange) : option state :=
    if negb (rk_meta_ok rk) then None                 (* PubKeyFromProto(MetadataPubKey) fails, validating or not *)
    else if negb (forallb parse_ok (rk_invites rk)) then None
    else Some (mkState (accounts s) (invites s) (requests s) (pending s) (keychanges s ++ [r]) (options s) (last s)
                 (if memN me (rk_accounts rk) then mykeys s ++ [r] else mykeys s)).
  Definition apply_read_key_change (s : state) (au : acct) (r : rid) (rk : rkchange) : option state :=
    if v && negb (can_manage (perm_of s au) && validate_rk s rk []) then None
    else do_rk s r rk.

  (* ---- ValidateAccountRemove / applyAccountRemove *)
  Fixpoint validate_removals (s : state) (au : acct) (ap : perm) (seen : list acct) (l : list acct) : bool :=
    match l with
    | [] => true
    | a :: rest =>
        parse_ok a &&
        negb (a =? au) &&
        negb (perm_of s a =? pNone) &&
        negb (perm_of s a =? pOwner) &&
        negb ((perm_of s a =? pAdmin) && negb (ap =? pOwner)) &&
        negb (memN a seen) &&
        validate_removals s au ap (a :: seen) rest
    end.
  Fixpoint do_removals (s : state) (r : rid) (l : list acct) : option state :=
    match l with
    | [] => Some s
    | a :: rest =>
        if negb (parse_ok a) then None
        else match mget a (accounts s) with
             | None => None                                (* ErrNoSuchAccount *)
             | Some x =>
                 let s1 := set_acc s a (mkAccount pNone SRemoved (a_keyrec x) (a_hist x ++ [(r, pNone)])) in
                 let s2 := match mget a (pending s1) with
                           | Some rq => set_reqs s1 (mdel rq (requests s1)) (mdel a (pending s1))
                           | None => s1
                           end in
                 do_removals s2 r rest
             end
    end.
  Definition apply_account_remove (s : state) (au : acct) (r : rid) (ids : list acct) (rk : option rkchange) : option state :=
    match rk with
    | None => None       (* F10: nil sub-message; legacy code panics, repaired code returns an error *)
    | Some k =>
        if v && negb (can_manage (perm_of s au) && validate_removals s au (perm_of s au) [] ids && validate_rk s k ids) then None
        else match do_removals s r ids with
             | None => None
             | Some s1 => do_rk s1 r k
             end
    end.

  (* ---- ValidateSpaceOptionsChange / applySpaceOptionsChange *)
  Definition apply_options (s : state) (au : acct) (r : rid) (o : option bool) : option state :=
    if v && negb (perm_of s au =? pOwner) then None
    else Some (mkState (accounts s) (invites s) (requests s) (pending s) (keychanges s) (options s ++ [(r, o)]) (last s) (mykeys s)).

  (* ---- applyChangeContent *)
  Definition apply_content (s : state) (au : acct) (r : rid) (c : content) : option state :=
    match c with
    | COwnershipChange n o => apply_ownership s au r n o
    | CInviteChange i p => apply_invite_change s au i p
    | CInviteJoin id i p sk sm mo he => apply_invite_join s au r id i p sk sm mo he
    | CPermChange t p => apply_perm_change s au r t p
    | CInvite k ty p he => apply_invite s au r k ty p he
    | CInviteRevoke i => apply_invite_revoke s au i
    | CRequestJoin id i sk sm mo => apply_request_join s au r id i sk sm mo
    | CRequestAccept id rq p => apply_request_accept s au r id rq p
    | CRequestDecline rq => apply_request_decline s au rq
    | CRequestCancel rq => apply_request_cancel s au rq
    | CAccountRemove ids rk => apply_account_remove s au r ids rk
    | CReadKeyChange rk => apply_read_key_change s au r rk
    | CRequestRemove => apply_request_remove s au r
    | CAccountsAdd l => apply_accounts_add s au r l
    | CPermChanges l => apply_perm_changes s au r l
    | COptions o => apply_options s au r o
    | CEmpty => Some s
    end.

  (* applyChangeData: contents in order; the first failure aborts *)
  Fixpoint apply_contents (s : state) (au : acct) (r : rid) (cs : list content) : option state :=
    match cs with
    | [] => Some s
    | c :: rest =>
        match apply_content s au r c with
        | Some s1 => apply_contents s1 au r rest
        | None => None
        end
    end.

  Definition set_last (s : state) (r : rid) : state :=
    mkState (accounts s) (invites s) (requests s) (pending s) (keychanges s) (options s) r (mykeys s).

  (* AclState.ApplyRecord on an already decoded record (PrevId check is in [add_raw] / [apply_decoded]) *)
  Definition apply_record (s : state) (au : acct) (r : rid) (cs : list content) : option state :=
    match apply_contents s au r cs with
    | Some s1 => Some (set_last s1 r)
    | None => None
    end.

  (* states after every accepted prefix of the content list (what ValidateRawRecord shows for the prefixes) *)
  Fixpoint content_chain (s : state) (au : acct) (r : rid) (cs : list content) : list state :=
    match cs with
    | [] => []
    | c :: rest =>
        match apply_content s au r c with
        | Some s1 => s1 :: content_chain s1 au r rest
        | None => []
        end
    end.
End Machine.

(* applyRoot: the root's author is the only account, Owner, Active; the root is the first key generation *)
Definition init_state (me owner : acct) (root : rid) (opts : option (option bool)) : state :=
  mkState [(owner, mkAccount pOwner SActive root [(root, pOwner)])] [] [] [] [root]
          (match opts with Some o => [(root, o)] | None => [] end) root
          (if owner =? me then [root] else []).

(* ------------------------------------------------------------------------------------------ raw records, the list *)
(* A raw record with id, as AddRawRecord sees it.  Validity of the cryptographic parts is symbolic. *)
Record raw := mkRaw {
  w_id : rid;               (* RawRecordWithId.Id *)
  w_cid_ok : bool;          (* Id = CID(Payload) *)
  w_decodes : bool;         (* RawRecord / Record / AclData unmarshal and the author identity parses *)
  w_sig_ok : bool;          (* author's signature over RawRecord.Payload verifies *)
  w_acceptor_ok : bool;     (* AcceptorIdentity = network key and AcceptorSignature verifies *)
  w_prev : rid;             (* Record.PrevId *)
  w_author : acct;
  w_contents : list content
}.

(* keepidentity.go: inside every read-key change keep only the AccountKeys entry of [me] *)
Definition keep_rk (me : acct) (rk : rkchange) : rkchange :=
  mkRk (rk_meta_ok rk) (rk_fields rk) (filter (N.eqb me) (rk_accounts rk)) (rk_invites rk).
Definition keep_ours (me : acct) (c : content) : content :=
  match c with
  | CReadKeyChange rk => CReadKeyChange (keep_rk me rk)
  | CAccountRemove ids (Some rk) => CAccountRemove ids (Some (keep_rk me rk))
  | _ => c
  end.

(* aclList: derived state, the ids of the in-memory records, and storage (raw records in order) *)
Record alist := mkList { l_state : state; l_ids : list rid; l_store : list raw }.
Definition head (l : alist) : rid := last_or (l_ids l) 0.

Inductive add_result := AddOk (l : alist) | AddDup | AddRejected.

Section List.
  Variable legacy : bool.
  Variable need_acceptor : bool.  (* recordverifier.New(networkKey): VerifyAcceptor is real; ValidateFull: it is a no-op *)
  Variable v : bool.              (* ShouldValidate *)
  Variable me : acct.

  (* decodeAclData: partial decode exactly when the verifier does not validate and the list has an identity *)
  Definition decode (cs : list content) : list content :=
    if negb v && negb (me =? 0) then map (keep_ours me) cs else cs.

  (* UnmarshallWithId + verifyRaw *)
  Definition verify_raw (w : raw) : bool :=
    (negb need_acceptor || w_acceptor_ok w) && w_decodes w && w_sig_ok w && w_cid_ok w.

  (* AddRawRecord *)
  Definition add_raw (l : alist) (w : raw) : add_result :=
    if memN (w_id w) (l_ids l) then AddDup
    else if negb (verify_raw w) then AddRejected
    else if negb (w_prev w =? last (l_state l)) then AddRejected
    else match apply_record legacy v me (l_state l) (w_author w) (w_id w) (decode (w_contents w)) with
         | None => AddRejected
         | Some s' => AddOk (mkList s' (l_ids l ++ [w_id w]) (l_store l ++ [w]))
         end.

  Definition add_raw_keep (l : alist) (w : raw) : alist :=
    match add_raw l w with AddOk l' => l' | _ => l end.

  (* AddRawRecords: stops at the first error that is not "already exists" *)
  Fixpoint add_raws (l : alist) (ws : list raw) : alist * bool :=
    match ws with
    | [] => (l, true)
    | w :: rest =>
        match add_raw l w with
        | AddOk l' => add_raws l' rest
        | AddDup => add_raws l rest
        | AddRejected => (l, false)
        end
    end.

  (* build(): replay stored records (all but the root) from the root state; any failure fails the build *)
  Fixpoint replay (s : state) (ws : list raw) : option state :=
    match ws with
    | [] => Some s
    | w :: rest =>
        if negb (verify_raw w) then None
        else if negb (w_prev w =? last s) then None
        else match apply_record legacy v me s (w_author w) (w_id w) (decode (w_contents w)) with
             | Some s1 => replay s1 rest
             | None => None
             end
    end.
  Definition build (root_state : state) (root : rid) (stored : list raw) : option alist :=
    match replay root_state stored with
    | Some s => Some (mkList s (root :: map w_id stored) stored)
    | None => None
    end.
End List.

(* RecordsAfter(id): raw records from storage, starting AT the record [id] (the code passes the 0-based index to
   the 1-based GetAfterOrder, so the record itself is included; receivers skip it as a duplicate).
   [l_store] does not contain the root, whose index is 0: for the root id everything is served. *)
Fixpoint drop_until (id : rid) (ws : list raw) : list raw :=
  match ws with
  | [] => []
  | w :: rest => if w_id w =? id then w :: rest else drop_until id rest
  end.
Definition records_after (l : alist) (root id : rid) : option (list raw) :=
  if id =? root then Some (l_store l)
  else if memN id (l_ids l) then Some (drop_until id (l_store l))
  else None.

(* isContiguousChain over (id, prev) pairs *)
Fixpoint chain_from (prev : rid) (l : list (rid * rid)) : bool :=
  match l with
  | [] => true
  | (id, p) :: rest => (p =? prev) && chain_from id rest
  end.
Definition is_contiguous_chain (l : list (rid * rid)) (root hd : rid) : bool :=
  match l with
  | [] => false
  | (id0, _) :: rest => (id0 =? root) && (last_or (map fst l) 0 =? hd) && chain_from id0 rest
  end.

(* ========================================================================================== specifications
   Executable predicates over OBSERVED states (they never call the machine above).  Used by Run/C04_run.v and
   Run/C03_run.v on the implementation's states, and proved of the model in Proofs/Acl*.v. *)

Definition dom (s : state) : list acct := mkeys (accounts s).
Definition is_owner (s : state) (a : acct) : bool := perm_of s a =? pOwner.
Definition is_admin (s : state) (a : acct) : bool := perm_of s a =? pAdmin.
Definition manager (s : state) (a : acct) : bool := can_manage (perm_of s a).

(* exactly one owner: some account of the state is Owner and every Owner is that account *)
Definition one_owner_b (s : state) : bool :=
  existsb (fun o => is_owner s o && forallb (fun a => negb (is_owner s a) || (a =? o)) (dom s)) (dom s).
(* every anyone-can-join invite grants Reader/Writer/Admin/unknown, never None, Owner or Guest *)
Definition invite_ok (i : invite) : bool :=
  negb (i_type i =? tAnyoneCanJoin) || negb ((i_perm i =? pOwner) || (i_perm i =? pNone) || (i_perm i =? pGuest)).
Definition invites_ok_b (s : state) : bool := forallb (fun ri => invite_ok (snd ri)) (invites s).
Definition inv_b (s : state) : bool := one_owner_b s && invites_ok_b s.

Definition admin_invite (i : invite) : bool := (i_type i =? tAnyoneCanJoin) && (i_perm i =? pAdmin).
Definition has_admin_invite (s : state) : bool := existsb (fun ri => admin_invite (snd ri)) (invites s).

Definition invite_eqb (a b : invite) : bool :=
  (i_key a =? i_key b) && (i_type a =? i_type b) && (i_perm a =? i_perm b).
Definition request_eqb (a b : request) : bool :=
  (r_ident a =? r_ident b) && rtype_eqb (r_type a) (r_type b) && (r_keyrec a =? r_keyrec b).
Definition opt_eqb {A} (f : A -> A -> bool) (a b : option A) : bool :=
  match a, b with Some x, Some y => f x y | None, None => true | _, _ => false end.
Fixpoint list_eqb {A} (f : A -> A -> bool) (a b : list A) : bool :=
  match a, b with
  | [], [] => true
  | x :: a', y :: b' => f x y && list_eqb f a' b'
  | _, _ => false
  end.
Definition pair_eqb {A B} (f : A -> A -> bool) (g : B -> B -> bool) (a b : A * B) : bool :=
  f (fst a) (fst b) && g (snd a) (snd b).

(* permission and status of [a] are the same in both states *)
Definition acc_same (s s' : state) (a : acct) : bool :=
  (perm_of s a =? perm_of s' a) && status_eqb (status_of s a) (status_of s' a).

(* --- per-account rules of one content step s --au--> s' --- *)
(* Admin role granted or revoked => the author is the owner, or the author itself joined through a live Admin invite *)
Definition rule_admin (s : state) (au : acct) (s' : state) (a : acct) : bool :=
  Bool.eqb (is_admin s a) (is_admin s' a) || is_owner s au ||
  ((a =? au) && (perm_of s a =? pNone) && has_admin_invite s && is_admin s' a).
(* ownership changes => the author is the owner; and whoever stops being owner is the author itself *)
Definition rule_owner (s : state) (au : acct) (s' : state) (a : acct) : bool :=
  (Bool.eqb (is_owner s a) (is_owner s' a) || is_owner s au) &&
  (negb (is_owner s a) || is_owner s' a || (a =? au)).
(* another account's permission / status / pending request changes => the author is owner or admin *)
Definition rule_manager (s : state) (au : acct) (s' : state) (a : acct) : bool :=
  (a =? au) || manager s au ||
  (acc_same s s' a && opt_eqb N.eqb (mget a (pending s)) (mget a (pending s'))).
(* guests are frozen: a Guest stays Guest or is removed (by a manager, see rule_manager) *)
Definition rule_guest (s : state) (s' : state) (a : acct) : bool :=
  negb (perm_of s a =? pGuest) || (perm_of s' a =? pGuest) || (perm_of s' a =? pNone).
Definition rule_account (s : state) (au : acct) (s' : state) (a : acct) : bool :=
  rule_admin s au s' a && rule_owner s au s' a && rule_manager s au s' a && rule_guest s s' a.

(* --- per-invite / per-request rules --- *)
(* an anyone-can-join invite that grants Admin appears (created or changed) => the author is the owner;
   any difference in the invite table => the author is owner or admin *)
Definition rule_invite (s : state) (au : acct) (s' : state) (r : rid) : bool :=
  (opt_eqb invite_eqb (mget r (invites s)) (mget r (invites s')) || manager s au) &&
  match mget r (invites s') with
  | Some i' =>
      negb (admin_invite i') || is_owner s au ||
      match mget r (invites s) with Some i => admin_invite i | None => false end
  | None => true
  end.
(* a request record appears / disappears / changes => the author is a manager or it is the author's own request *)
Definition rule_request (s : state) (au : acct) (s' : state) (r : rid) : bool :=
  opt_eqb request_eqb (mget r (requests s)) (mget r (requests s')) || manager s au ||
  match mget r (requests s), mget r (requests s') with
  | Some q, None => r_ident q =? au
  | None, Some q => r_ident q =? au
  | Some q, Some q' => (r_ident q =? au) && (r_ident q' =? au)
  | None, None => true
  end.

(* --- author-level rules --- *)
(* an outsider author gains permissions only through a live anyone-can-join invite, at most the invite's *)
Definition rule_outsider (s : state) (au : acct) (s' : state) : bool :=
  negb (perm_of s au =? pNone) || (perm_of s' au =? pNone) ||
  existsb (fun ri => (i_type (snd ri) =? tAnyoneCanJoin) &&
                     ((perm_of s' au =? i_perm (snd ri)) || perm_le (perm_of s' au) (i_perm (snd ri)))) (invites s).
(* an ordinary member never changes its own permission *)
Definition rule_self (s : state) (au : acct) (s' : state) : bool :=
  manager s au || (perm_of s au =? pNone) || (perm_of s' au =? perm_of s au).
(* options: owner only; read-key rotation: managers only *)
Definition opt_entry_eqb : rid * option bool -> rid * option bool -> bool :=
  pair_eqb N.eqb (opt_eqb Bool.eqb).
Definition rule_options (s : state) (au : acct) (s' : state) : bool :=
  list_eqb opt_entry_eqb (options s) (options s') || is_owner s au.
Definition rule_keys (s : state) (au : acct) (s' : state) : bool :=
  list_N_eqb (keychanges s) (keychanges s') || manager s au.

(* all rules of one content step *)
Definition step_rules (s : state) (au : acct) (s' : state) : bool :=
  forallb (rule_account s au s') (dom s ++ dom s' ++ [au]) &&
  forallb (rule_invite s au s') (mkeys (invites s) ++ mkeys (invites s')) &&
  forallb (rule_request s au s') (mkeys (requests s) ++ mkeys (requests s')) &&
  rule_outsider s au s' && rule_self s au s' && rule_options s au s' && rule_keys s au s'.

(* spec_C04: OBSERVED state before [s], author, OBSERVED states after every accepted content prefix [obs]
   (in order).  If the state before satisfies the invariant, every step obeys the rules and re-establishes it. *)
Fixpoint chain_rules (s : state) (au : acct) (obs : list state) : bool :=
  match obs with
  | [] => true
  | s1 :: rest => step_rules s au s1 && inv_b s1 && chain_rules s1 au rest
  end.
Definition spec_C04 (s : state) (au : acct) (obs : list state) : bool :=
  negb (inv_b s) || chain_rules s au obs.

(* ------------------------------------------------------------------------------------------ projected observables
   Equality of two states on what the implementation exposes (CurrentAccounts, Invites, request records, pending
   requests, Keys() ids as a set, CurrentReadKeyId, CurrentOptions, own keys as a set, LastRecordId). *)
Definition hist_eqb : list (rid * perm) -> list (rid * perm) -> bool := list_eqb (pair_eqb N.eqb N.eqb).
Definition account_eqb (a b : account) : bool :=
  (a_perm a =? a_perm b) && status_eqb (a_status a) (a_status b) && (a_keyrec a =? a_keyrec b) && hist_eqb (a_hist a) (a_hist b).
Fixpoint dedup (l : list N) : list N :=
  match l with [] => [] | x :: r => if memN x r then dedup r else x :: dedup r end.
Definition set_eqb (a b : list N) : bool := list_N_eqb (sort_N (dedup a)) (sort_N (dedup b)).
(* CurrentOptions(): nil when there is no change or the last change carries nil options *)
Definition cur_opt (s : state) : option bool :=
  match rev (options s) with [] => None | (_, o) :: _ => o end.

(* projected observables (everything but [last]) *)
Definition obs_eqb_nolast (a b : state) : bool :=
  list_eqb (pair_eqb N.eqb account_eqb) (accounts a) (accounts b) &&
  list_eqb (pair_eqb N.eqb invite_eqb) (invites a) (invites b) &&
  list_eqb (pair_eqb N.eqb request_eqb) (requests a) (requests b) &&
  list_eqb (pair_eqb N.eqb N.eqb) (pending a) (pending b) &&
  set_eqb (keychanges a) (keychanges b) && (cur_key a =? cur_key b) &&
  opt_eqb Bool.eqb (cur_opt a) (cur_opt b) &&
  set_eqb (mykeys a) (mykeys b).
Definition obs_eqb (a b : state) : bool := obs_eqb_nolast a b && (last a =? last b).


(* ========================================================================================== C03 specification
   Over OBSERVED behaviour of one AddRawRecord: replica in state [s] with in-memory record ids [ids]; raw record [w]
   (validity flags computed by the harness with the real primitives); observed outcome, state, in-memory ids and
   ids in storage afterwards. *)
Inductive outcome := OAccepted | ODup | ORejected.
Definition outcome_eqb (a b : outcome) : bool :=
  match a, b with OAccepted, OAccepted | ODup, ODup | ORejected, ORejected => true | _, _ => false end.

Definition spec_C03_add (need_acceptor : bool) (s : state) (ids : list rid) (w : raw) (res : outcome)
           (s_after : state) (ids_after stored_after : list rid) : bool :=
  match res with
  | OAccepted =>
      (* accepted => extends the head, id = CID(bytes), signatures verify, and exactly this record is appended *)
      (w_prev w =? last s) && (w_prev w =? last_or ids 0) &&
      w_cid_ok w && w_sig_ok w && w_decodes w && (negb need_acceptor || w_acceptor_ok w) &&
      negb (memN (w_id w) ids) &&
      (last s_after =? w_id w) && list_N_eqb ids_after (ids ++ [w_id w]) && list_N_eqb stored_after ids_after
  | _ =>
      (* rejected (or duplicate) => observable state, in-memory log and storage unchanged *)
      obs_eqb s s_after && list_N_eqb ids_after ids && list_N_eqb stored_after ids
  end.
