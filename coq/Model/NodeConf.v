(* Model of nodeconf/nodeconf.go (property C18): configuration -> consistent-hash table of the tree ("sync")
   nodes -> NodeIds / IsResponsible / Partition / ReplKey from one participant's viewpoint.
   Definitions only; proofs are in Proofs/NodeConfProofs.v.

   Mirrors:  сonfigurationToNodeConf - members = nodes having type "tree", in configuration order;
                                        chash.New{PartitionCount 3000, ReplicationFactor 3}; AddMembers
             ReplKey                  - text after the last '.', the whole id if there is none
             NodeIds                  - members of the key's partition whose id != accountId
             IsResponsible            - accountId among the members of the key's partition
             Partition                - chash.GetPartition(ReplKey(spaceId))
   Strings are byte lists (list N); peer ids are numbers (rank in string order, see Chash.v).
   Hashes are inputs: VH / PH as in Chash.v, KH = hash of a replication key. *)
From Coq Require Import List NArith ZArith Bool Arith.
Import ListNotations.
From AnySync Require Export Model.Chash.

(* node types: 0 tree, 1 consensus, 2 file, 3 fileV2, 4 coordinator, 5 namingNode, 6 paymentProcessingNode,
   anything else = an unknown type string *)
Record node := mkNode {
  n_id    : N;
  n_addrs : list N;
  n_types : list N
}.

Definition T_TREE : N := 0.
Definition DOT : N := 46.
Definition REPLICATION_FACTOR : nat := 3.

Definition has_type (t : N) (n : node) : bool := existsb (N.eqb t) (n_types n).   (* Node.HasType *)

(* the members handed to chash.AddMembers *)
Definition tree_ids (cfg : list node) : list N := map n_id (filter (has_type T_TREE) cfg).

(* ---------------------------------------------------------------- ReplKey *)
Fixpoint take_until_dot (s : list N) : list N :=
  match s with
  | [] => []
  | c :: r => if (c =? DOT)%N then [] else c :: take_until_dot r
  end.

(* strings.LastIndex(spaceId, "."): scan from the end up to the first '.' met *)
Definition repl_key (space : list N) : list N := rev (take_until_dot (rev space)).

Section NodeConf.
  Variable PH : list N.
  Variable VH : N -> list N.
  Variable KH : list N -> N.    (* hash of a replication key *)

  Definition table (cfg : list node) : outcome (list (list N)) :=
    distribute PH REPLICATION_FACTOR VH (tree_ids cfg).

  Definition partition (space : list N) : N := partition_of_hash PH (KH (repl_key space)).

  (* chash.GetMembers(ReplKey(spaceId)) on an already computed table *)
  Definition members_in (t : list (list N)) (space : list N) : list N :=
    nth (N.to_nat (partition space)) t [].

  Definition node_ids_in (t : list (list N)) (self : N) (space : list N) : list N :=
    filter (fun m => negb (m =? self)%N) (members_in t space).

  Definition is_responsible_in (t : list (list N)) (self : N) (space : list N) : bool :=
    existsb (fun m => (m =? self)%N) (members_in t space).

  Definition members (cfg : list node) (space : list N) : outcome (list N) :=
    match table cfg with Ok t => Ok (members_in t space) | OutOfFuel => OutOfFuel end.
  Definition node_ids (cfg : list node) (self : N) (space : list N) : outcome (list N) :=
    match table cfg with Ok t => Ok (node_ids_in t self space) | OutOfFuel => OutOfFuel end.
  Definition is_responsible (cfg : list node) (self : N) (space : list N) : outcome bool :=
    match table cfg with Ok t => Ok (is_responsible_in t self space) | OutOfFuel => OutOfFuel end.
End NodeConf.

(* ---------------------------------------------------------------- configuration histories
   service.setLastConfiguration (Init, and Run -> updateConfiguration -> saveAndSetLastConfiguration):
   a delivered configuration whose id equals the id of the active one is ignored, any other one REPLACES the active
   configuration and the ring is rebuilt from it alone (сonfigurationToNodeConf takes nothing from the previous
   state).  A participant's state is therefore just its active configuration. *)
Record conf := mkConf {
  c_id    : N;           (* Configuration.Id (numbered by the harness) *)
  c_nodes : list node
}.

Definition set_last (cur c : conf) : conf := if (c_id cur =? c_id c)%N then cur else c.

(* a participant started on [init] that then received [updates] in this order *)
Definition run_history (init : conf) (updates : list conf) : conf := fold_left set_last updates init.

(* ---------------------------------------------------------------- service lives: starts, restarts, the local store
   service.Init (nodeconf/service.go), in the order of the code:
     1. s.accountId := the participant's own peer id (account service)                 - FIRST
     2. lastStored := store.GetLast(networkId); ErrConfigurationNotFound => lastStored := app config (nothing saved)
        otherwise mergeCoordinatorAddrs(app config, lastStored): every coordinator-typed node of the app configuration
        (the one bundled with the binary) that the stored configuration does not have as a coordinator is appended to
        it, every address of a known one that the stored node lacks is appended to that node; if anything was added:
        lastStored.Id := "-1", saveAndSetLastConfiguration(lastStored)
     3. setLastConfiguration(lastStored)   (same id as the active one => ignored)
   setLastConfiguration builds the nodeConf of the configuration and stamps it with s.accountId: NodeIds /
   IsResponsible are answered by that nodeConf with ITS account id.
   saveAndSetLastConfiguration (also the update path): store.SaveLast (always), then setLastConfiguration.
   A participant's LIFE is a first start (with whatever its store holds) followed by events: a configuration delivered
   by the source to the running service, or a restart of the process (new service object, same identity, same store)
   with some app configuration. *)
Definition T_COORD : N := 4.
Definition MERGED_ID : N := 0.       (* Configuration.Id "-1" (the harness numbers every other id from 1) *)

Definition is_coord (n : node) : bool := has_type T_COORD n.

(* the map peerId -> *Node built from the coordinator nodes of a list: a later node with the same peer id overwrites
   an earlier one *)
Fixpoint last_coord (id : N) (ns : list node) : option node :=
  match ns with
  | [] => None
  | n :: r =>
      match last_coord id r with
      | Some m => Some m
      | None => if is_coord n && (n_id n =? id)%N then Some n else None
      end
  end.

(* the entries of that map for the app configuration, one per peer id (Go iterates the map in an unspecified order;
   here: the order of the entries in the configuration - the order only permutes the appended nodes) *)
Fixpoint coord_entries (ns : list node) : list node :=
  match ns with
  | [] => []
  | n :: r =>
      if is_coord n && negb (existsb (fun m => is_coord m && (n_id m =? n_id n)%N) r)
      then n :: coord_entries r else coord_entries r
  end.

(* apply [f] to the LAST coordinator node with peer id [id] (the node the map entry points to) *)
Fixpoint upd_last (id : N) (f : node -> node) (ns : list node) : list node * bool :=
  match ns with
  | [] => ([], false)
  | n :: r =>
      let '(r', done) := upd_last id f r in
      if done then (n :: r', true)
      else if is_coord n && (n_id n =? id)%N then (f n :: r', true) else (n :: r', false)
  end.

Definition add_addrs (extra : list N) (n : node) : node := mkNode (n_id n) (n_addrs n ++ extra) (n_types n).

(* one iteration of the loop over the app configuration's coordinator nodes; [st0] is the stored node list the map
   storedNodesByPeer was built from, [acc] = (stored node list so far, mustRewriteLocalConfig) *)
Definition merge_step (st0 : list node) (acc : list node * bool) (a : node) : list node * bool :=
  match last_coord (n_id a) st0 with
  | Some sn =>
      match filter (fun x => negb (memN x (n_addrs sn))) (n_addrs a) with
      | [] => acc
      | miss => (fst (upd_last (n_id a) (add_addrs miss) (fst acc)), true)
      end
  | None => (fst acc ++ [a], true)
  end.

(* mergeCoordinatorAddrs(appConfig, lastStored) = (lastStored afterwards, mustRewriteLocalConfig) *)
Definition merge_coord (app st : list node) : list node * bool :=
  fold_left (merge_step st) (coord_entries app) (st, false).

(* the nodeConf held by a service: the configuration and the account id it was stamped with *)
Record nconf := mkNC {
  nc_conf    : conf;
  nc_account : N
}.

Record service := mkSvc {
  s_account : N;              (* service.accountId *)
  s_store   : option conf;    (* what store.GetLast would return (None: ErrConfigurationNotFound) *)
  s_last    : option nconf    (* service.last (None: nil) *)
}.

Definition svc_set_last (s : service) (c : conf) : service :=
  let install := mkSvc (s_account s) (s_store s) (Some (mkNC c (s_account s))) in
  match s_last s with
  | Some nc => if (c_id (nc_conf nc) =? c_id c)%N then s else install
  | None => install
  end.

Definition svc_save_and_set (s : service) (c : conf) : service :=
  svc_set_last (mkSvc (s_account s) (Some c) (s_last s)) c.

Definition svc_init (self : N) (store : option conf) (app : conf) : service :=
  let s := mkSvc self store None in
  match store with
  | None => svc_set_last s app
  | Some st =>
      let '(nodes', must_rewrite) := merge_coord (c_nodes app) (c_nodes st) in
      if must_rewrite
      then let m := mkConf MERGED_ID nodes' in svc_set_last (svc_save_and_set s m) m
      else svc_set_last s st
  end.

Inductive event :=
| EStart (app : conf)     (* the process is restarted with this app configuration *)
| EUpd (c : conf).        (* the source delivers this configuration to the running service *)

Definition svc_step (s : service) (e : event) : service :=
  match e with
  | EStart app => svc_init (s_account s) (s_store s) app
  | EUpd c => svc_save_and_set s c
  end.

Definition life (self : N) (store0 : option conf) (app0 : conf) (evs : list event) : service :=
  fold_left svc_step evs (svc_init self store0 app0).

(* the active configuration (Service.Configuration()) *)
Definition svc_conf (s : service) : conf :=
  match s_last s with Some nc => nc_conf nc | None => mkConf 0 [] end.
(* the identity its answers are computed for *)
Definition svc_self (s : service) : N :=
  match s_last s with Some nc => nc_account nc | None => 0%N end.

Section ServiceAnswers.
  Variable PH : list N.
  Variable VH : N -> list N.
  Variable KH : list N -> N.
  (* Service.NodeIds / IsResponsible: delegated to the active nodeConf *)
  Definition svc_node_ids (s : service) (space : list N) : outcome (list N) :=
    node_ids PH VH KH (c_nodes (svc_conf s)) (svc_self s) space.
  Definition svc_is_responsible (s : service) (space : list N) : outcome bool :=
    is_responsible PH VH KH (c_nodes (svc_conf s)) (svc_self s) space.
End ServiceAnswers.

(* ---------------------------------------------------------------- observations and the property predicate *)
(* What one participant reports for one space id. *)
Record obs := mkObs {
  o_self     : N;         (* the asking identity (accountId): a node of the configuration or a client *)
  o_space    : list N;    (* space id *)
  o_replkey  : list N;    (* ReplKey(spaceId) *)
  o_part     : N;         (* Partition(spaceId) *)
  o_nodeids  : list N;    (* NodeIds(spaceId) *)
  o_resp     : bool       (* IsResponsible(spaceId) *)
}.

(* what the model computes for the same question *)
Definition model_obs (PH : list N) (KH : list N -> N) (t : list (list N)) (self : N) (space : list N) : obs :=
  mkObs self space (repl_key space) (partition PH KH space)
        (node_ids_in PH KH t self space) (is_responsible_in PH KH t self space).

Fixpoint list_eqb {A} (eqb : A -> A -> bool) (a b : list A) : bool :=
  match a, b with
  | [], [] => true
  | x :: a', y :: b' => eqb x y && list_eqb eqb a' b'
  | _, _ => false
  end.

Fixpoint nodupb (l : list N) : bool :=
  match l with
  | [] => true
  | x :: r => negb (memN x r) && nodupb r
  end.

Definition subsetb (a b : list N) : bool := forallb (fun x => memN x b) a.
Definition set_eqb (a b : list N) : bool := subsetb a b && subsetb b a.

Fixpoint ends_with (s suf : list N) : bool :=
  list_eqb N.eqb s suf || match s with [] => false | _ :: r => ends_with r suf end.

(* declarative ReplKey: a dot-free string that is the whole id, or is what follows a '.' at the end of the id *)
Definition spec_replkey (space k : list N) : bool :=
  negb (memN DOT k) && (list_eqb N.eqb space k || ends_with space (DOT :: k)).

(* the sync nodes of a configuration, for the specification: ids of the nodes that list type "tree" *)
Definition is_sync_node (cfg : list node) (p : N) : bool :=
  existsb (fun n => (n_id n =? p)%N && memN T_TREE (n_types n)) cfg.
Fixpoint count_distinct (l : list N) : nat :=
  match l with
  | [] => O
  | x :: r => if memN x r then count_distinct r else S (count_distinct r)
  end.
Definition sync_node_count (cfg : list node) : nat :=
  count_distinct (map n_id (filter (fun n => memN T_TREE (n_types n)) cfg)).

(* the responsible set a participant's answers stand for: its peer list, plus itself if it says it is responsible *)
Definition resp_set (o : obs) : list N := (if o_resp o then [o_self o] else []) ++ o_nodeids o.

Definition spec_one (cfg : list node) (rf : nat) (o : obs) : bool :=
  spec_replkey (o_space o) (o_replkey o)
  && negb (memN (o_self o) (o_nodeids o))                       (* self is never in its own peer list *)
  && nodupb (resp_set o)                                        (* distinct *)
  && forallb (is_sync_node cfg) (resp_set o)                    (* all sync nodes *)
  && Nat.eqb (length (resp_set o)) (Nat.min rf (sync_node_count cfg)).   (* min(rf, #sync nodes) of them *)

(* two participants (or the same one) asked about ids with the same replication key stand for the same set *)
Definition spec_pair (o1 o2 : obs) : bool :=
  if list_eqb N.eqb (o_replkey o1) (o_replkey o2)
  then set_eqb (resp_set o1) (resp_set o2) && (o_part o1 =? o_part o2)%N
  else true.

(* spec_C18: the property over OBSERVED answers of any number of participants sharing configuration [cfg] *)
Definition spec_C18 (cfg : list node) (rf : nat) (os : list obs) : bool :=
  forallb (spec_one cfg rf) os
  && forallb (fun o1 => forallb (spec_pair o1) os) os.
