(* Model of nodeconf/nodeconf.go (property C18): configuration -> consistent-hash table of the tree ("sync")
   nodes -> NodeIds / IsResponsible / Partition / ReplKey from one participant's viewpoint.
   Definitions only; proofs are in Proofs/NodeConfProofs.v.

   Mirrors:  сonfigurationToNodeConf - members = nodes having type "tree", in configuration order;
                                        chash.New{PartitionCount 3000, ReplicationFactor 3}; AddMembers
             ReplKey                  - text after the last '.', the whole id if there is none
             NodeIds                  - members of the key's partition whose id != accountId
             IsResponsible            - accountId among the members of the key's partition
             Partition                - chash.GetPartition(ReplKey(spaceId))
   Strings are byte lists (list N); peer ids are numbers (rank in string order, see Chash.v).
   Hashes are inputs: VH / PH as in Chash.v, KH = hash of a replication key. *)
From Coq Require Import List NArith ZArith Bool Arith.
Import ListNotations.
From AnySync Require Export Model.Chash.

(* node types: 0 tree, 1 consensus, 2 file, 3 fileV2, 4 coordinator, 5 namingNode, 6 paymentProcessingNode,
   anything else = an unknown type string *)
Record node := mkNode {
  n_id    : N;
  n_addrs : list N;
  n_types : list N
}.

Definition T_TREE : N := 0.
Definition DOT : N := 46.
Definition REPLICATION_FACTOR : nat := 3.

Definition has_type (t : N) (n : node) : bool := existsb (N.eqb t) (n_types n).   (* Node.HasType *)

(* the members handed to chash.AddMembers *)
Definition tree_ids (cfg : list node) : list N := map n_id (filter (has_type T_TREE) cfg).

(* ---------------------------------------------------------------- ReplKey *)
Fixpoint take_until_dot (s : list N) : list N :=
  match s with
  | [] => []
  | c :: r => if (c =? DOT)%N then [] else c :: take_until_dot r
  end.

(* strings.LastIndex(spaceId, "."): scan from the end up to the first '.' met *)
Definition repl_key (space : list N) : list N := rev (take_until_dot (rev space)).

Section NodeConf.
  Variable PH : list N.
  Variable VH : N -> list N.
  Variable KH : list N -> N.    (* hash of a replication key *)

  Definition table (cfg : list node) : outcome (list (list N)) :=
    distribute PH REPLICATION_FACTOR VH (tree_ids cfg).

  Definition partition (space : list N) : N := partition_of_hash PH (KH (repl_key space)).

  (* chash.GetMembers(ReplKey(spaceId)) on an already computed table *)
  Definition members_in (t : list (list N)) (space : list N) : list N :=
    nth (N.to_nat (partition space)) t [].

  Definition node_ids_in (t : list (list N)) (self : N) (space : list N) : list N :=
    filter (fun m => negb (m =? self)%N) (members_in t space).

  Definition is_responsible_in (t : list (list N)) (self : N) (space : list N) : bool :=
    existsb (fun m => (m =? self)%N) (members_in t space).

  Definition members (cfg : list node) (space : list N) : outcome (list N) :=
    match table cfg with Ok t => Ok (members_in t space) | OutOfFuel => OutOfFuel end.
  Definition node_ids (cfg : list node) (self : N) (space : list N) : outcome (list N) :=
    match table cfg with Ok t => Ok (node_ids_in t self space) | OutOfFuel => OutOfFuel end.
  Definition is_responsible (cfg : list node) (self : N) (space : list N) : outcome bool :=
    match table cfg with Ok t => Ok (is_responsible_in t self space) | OutOfFuel => OutOfFuel end.
End NodeConf.

(* ---------------------------------------------------------------- configuration histories
   service.setLastConfiguration (Init, and Run -> updateConfiguration -> saveAndSetLastConfiguration):
   a delivered configuration whose id equals the id of the active one is ignored, any other one REPLACES the active
   configuration and the ring is rebuilt from it alone (сonfigurationToNodeConf takes nothing from the previous
   state).  A participant's state is therefore just its active configuration. *)
Record conf := mkConf {
  c_id    : N;           (* Configuration.Id (numbered by the harness) *)
  c_nodes : list node
}.

Definition set_last (cur c : conf) : conf := if (c_id cur =? c_id c)%N then cur else c.

(* a participant started on [init] that then received [updates] in this order *)
Definition run_history (init : conf) (updates : list conf) : conf := fold_left set_last updates init.

(* ---------------------------------------------------------------- observations and the property predicate *)
(* What one participant reports for one space id. *)
Record obs := mkObs {
  o_self     : N;         (* the asking identity (accountId): a node of the configuration or a client *)
  o_space    : list N;    (* space id *)
  o_replkey  : list N;    (* ReplKey(spaceId) *)
  o_part     : N;         (* Partition(spaceId) *)
  o_nodeids  : list N;    (* NodeIds(spaceId) *)
  o_resp     : bool       (* IsResponsible(spaceId) *)
}.

(* what the model computes for the same question *)
Definition model_obs (PH : list N) (KH : list N -> N) (t : list (list N)) (self : N) (space : list N) : obs :=
  mkObs self space (repl_key space) (partition PH KH space)
        (node_ids_in PH KH t self space) (is_responsible_in PH KH t self space).

Fixpoint list_eqb {A} (eqb : A -> A -> bool) (a b : list A) : bool :=
  match a, b with
  | [], [] => true
  | x :: a', y :: b' => eqb x y && list_eqb eqb a' b'
  | _, _ => false
  end.

Fixpoint nodupb (l : list N) : bool :=
  match l with
  | [] => true
  | x :: r => negb (memN x r) && nodupb r
  end.

Definition subsetb (a b : list N) : bool := forallb (fun x => memN x b) a.
Definition set_eqb (a b : list N) : bool := subsetb a b && subsetb b a.

Fixpoint ends_with (s suf : list N) : bool :=
  list_eqb N.eqb s suf || match s with [] => false | _ :: r => ends_with r suf end.

(* declarative ReplKey: a dot-free string that is the whole id, or is what follows a '.' at the end of the id *)
Definition spec_replkey (space k : list N) : bool :=
  negb (memN DOT k) && (list_eqb N.eqb space k || ends_with space (DOT :: k)).

(* the sync nodes of a configuration, for the specification: ids of the nodes that list type "tree" *)
Definition is_sync_node (cfg : list node) (p : N) : bool :=
  existsb (fun n => (n_id n =? p)%N && memN T_TREE (n_types n)) cfg.
Fixpoint count_distinct (l : list N) : nat :=
  match l with
  | [] => O
  | x :: r => if memN x r then count_distinct r else S (count_distinct r)
  end.
Definition sync_node_count (cfg : list node) : nat :=
  count_distinct (map n_id (filter (fun n => memN T_TREE (n_types n)) cfg)).

(* the responsible set a participant's answers stand for: its peer list, plus itself if it says it is responsible *)
Definition resp_set (o : obs) : list N := (if o_resp o then [o_self o] else []) ++ o_nodeids o.

Definition spec_one (cfg : list node) (rf : nat) (o : obs) : bool :=
  spec_replkey (o_space o) (o_replkey o)
  && negb (memN (o_self o) (o_nodeids o))                       (* self is never in its own peer list *)
  && nodupb (resp_set o)                                        (* distinct *)
  && forallb (is_sync_node cfg) (resp_set o)                    (* all sync nodes *)
  && Nat.eqb (length (resp_set o)) (Nat.min rf (sync_node_count cfg)).   (* min(rf, #sync nodes) of them *)

(* two participants (or the same one) asked about ids with the same replication key stand for the same set *)
Definition spec_pair (o1 o2 : obs) : bool :=
  if list_eqb N.eqb (o_replkey o1) (o_replkey o2)
  then set_eqb (resp_set o1) (resp_set o2) && (o_part o1 =? o_part o2)%N
  else true.

(* spec_C18: the property over OBSERVED answers of any number of participants sharing configuration [cfg] *)
Definition spec_C18 (cfg : list node) (rf : nat) (os : list obs) : bool :=
  forallb (spec_one cfg rf) os
  && forallb (fun o1 => forallb (spec_pair o1) os) os.
