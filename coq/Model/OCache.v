(* Model of app/ocache (ocache.go, entry.go): the object cache as a labelled transition system (property C16).
   Definitions only; proofs are in Proofs/OCacheProofs.v.

   Shared state  = oCache.closed, oCache.data (id -> entry pointer), the entries (a heap: pointers matter,
                   a goroutine keeps the *entry it looked up even after the id was re-used).
   Thread state  = a program counter per goroutine: one constructor per lock region / blocking point of
                   Get, Pick, Add, Remove, RemoveSame, TryRemove, GC, Close.
   A step        = (thread, action).  [AStep]/[APick] are the code's own moves (a lock region, or passing a
                   channel wait once the channel is closed); [ALoadEnd], [ACloseExit], [ATryExit] are the returns
                   of the harness-owned LoadFunc / Object.Close / Object.TryClose (their results are chosen by
                   the scheduler); [ACall] starts an API call on an idle thread.
   A schedule    = any list of steps; [run] folds [step].  Blocking = the step is not enabled ([None]).

   The model describes the REPAIRED cache ([fixed]); the two flags of [cfg] switch the original behaviour
   back on for the `_legacy_refuted` examples (F8: TryRemove does not look at the entry state,
   F17: Add does not look at `closed`).

   Idealisations: ctx is never cancelled by the caller and closeTimeout never fires (no "give up" labels);
   TryClose/Close never return an error; publish and close(e.load) are one step (the window between
   c.mu.Unlock and the deferred close(e.load) has no observable effect); a harness-owned return and the lock
   region that follows it (load end + publish, close end + delete, try-close verdict + setActive/delete) are one
   step (the return is a local action of that goroutine). *)
From Coq Require Import List NArith Bool.
Import ListNotations.
Open Scope N_scope.

Inductive estate := SLoading | SActive | SClosing | SClosed.

Definition estate_eqb (a b : estate) : bool :=
  match a, b with
  | SLoading, SLoading | SActive, SActive | SClosing, SClosing | SClosed, SClosed => true
  | _, _ => false
  end.

Record entry := mkEntry {
  e_id        : N;
  e_state     : estate;
  e_value     : option N;   (* instance number; None = nil *)
  e_loaddone  : bool;       (* e.load is closed *)
  e_failed    : bool;       (* e.loadErr != nil *)
  e_aborted   : bool;       (* e.loadAborted *)
  e_cancelset : bool;       (* e.cancel != nil *)
  e_cancelled : bool;       (* the load's ctx was cancelled (cancelLoad after setCancel) *)
  e_epoch     : N           (* number of close channels created so far; channel (r,k) is open iff
                               e_epoch = k and e_state = SClosing *)
}.

Definition set_state (e : entry) (st : estate) : entry :=
  mkEntry (e_id e) st (e_value e) (e_loaddone e) (e_failed e) (e_aborted e) (e_cancelset e) (e_cancelled e) (e_epoch e).
Definition set_closing (e : entry) : entry :=
  mkEntry (e_id e) SClosing (e_value e) (e_loaddone e) (e_failed e) (e_aborted e) (e_cancelset e) (e_cancelled e) (e_epoch e + 1).
Definition set_cancelset (e : entry) : entry :=
  mkEntry (e_id e) (e_state e) (e_value e) (e_loaddone e) (e_failed e) (e_aborted e) true (e_cancelled e) (e_epoch e).
Definition set_cancelled (e : entry) : entry :=
  mkEntry (e_id e) (e_state e) (e_value e) (e_loaddone e) (e_failed e) (e_aborted e) (e_cancelset e) (e_cancelset e || e_cancelled e) (e_epoch e).
Definition publish_ok (e : entry) (n : N) : entry :=
  mkEntry (e_id e) SActive (Some n) true false false (e_cancelset e) (e_cancelled e) (e_epoch e).
Definition publish_err (e : entry) : entry :=
  mkEntry (e_id e) (e_state e) None true true (e_cancelled e) (e_cancelset e) (e_cancelled e) (e_epoch e).
Definition new_loading (id : N) : entry := mkEntry id SLoading None false false false false false 0.
Definition new_active (id n : N) : entry := mkEntry id SActive (Some n) true false false false false 0.

Inductive call :=
| CGet (id : N) | CPick (id : N) | CAdd (id n : N) | CRemove (id : N) | CRemoveSame (id n : N)
| CTryRemove (id : N) | CGC | CClose.

Inductive result :=
| RVal (n : N)        (* (instance n, nil) *)
| RNilNil             (* (nil, nil): never produced (proved) *)
| RErrClosed | RErrExists | RErrNotExists
| RErrLoad            (* the error of the load function *)
| ROk (b : bool)      (* (b, nil) of Remove / RemoveSame / TryRemove *)
| RNil.               (* nil error of Add / Close, or GC's return *)

Inductive event :=
| ECall (t : N) (c : call)
| ERet (t : N) (r : result)
| ELoadStart (t id : N)
| ELoadEnd (t id : N) (res : option N)      (* Some n: fresh instance n; None: error *)
| ECloseEntry (t n : N) | ECloseExit (t n : N)
| ETryEntry (t n : N) | ETryExit (t n : N) (closed : bool).

(* who called removeCtx / the try-close path *)
Inductive rk := KRemove | KClose (pending : list N).
Inductive tk := KTry | KGC (pending : list N).

Inductive pc :=
| Idle
| PDead                                        (* the goroutine panicked (nil value dereferenced) *)
| PRet (r : result)
| GLook (id retries : N)                       (* top of Get's loop: lock region lookup/insert *)
| GWaitClose (id r : N) (load : bool) (retries : N)   (* e.waitClose: inspect state under e.mx *)
| GBlock (id r k retries : N)                  (* <-waitCh, channel (r,k) *)
| GLoadStart (id r retries : N)                (* c.load: setCancel, call loadFunc *)
| GInLoad (id r retries : N)                   (* inside loadFunc *)
| GWaitLoad (id r retries : N)                 (* <-e.load *)
| PkLook (id : N) | PkWaitLoad (r : N)
| AddDo (id n : N)
| RmLook (id : N) | RsLook (id n : N)
| RmWaitLoad (r : N) (k : rk)
| RmSetClosing (r : N) (k : rk)
| RmBlock (r ep : N) (k : rk)
| RmInClose (r n : N) (k : rk)                 (* inside value.Close() *)
| TrLook (id : N)
| TrSetClosing (r : N) (k : tk)
| TrInTry (r n : N) (k : tk)                   (* inside value.TryClose() *)
| GcScan | GcNext (pending : list N)
| ClDo | ClNext (pending : list N).

Inductive act :=
| ACall (c : call) | AStep | APick (r : N)
| ALoadEnd (res : option N) | ACloseExit | ATryExit (closed : bool).

Record cfg := mkCfg { fix_tryremove : bool; fix_add : bool }.
Definition fixed : cfg := mkCfg true true.
Definition legacy : cfg := mkCfg false false.

Record state := mkState {
  closed   : bool;
  heap     : N -> option entry;
  hsize    : N;
  data     : N -> option N;      (* id -> entry pointer *)
  threads  : N -> pc;
  ninst    : N;                  (* next fresh instance number *)
  trace    : list event;         (* newest first *)
  panicked : bool                (* some step dereferenced a nil value *)
}.

Definition upd {A} (f : N -> A) (k : N) (v : A) : N -> A := fun x => if x =? k then v else f x.

Definition init : state := mkState false (fun _ => None) 0 (fun _ => None) (fun _ => Idle) 1 [] false.

Definition set_pc (s : state) (t : N) (p : pc) : state :=
  mkState (closed s) (heap s) (hsize s) (data s) (upd (threads s) t p) (ninst s) (trace s) (panicked s).
Definition set_entry (s : state) (r : N) (e : entry) : state :=
  mkState (closed s) (upd (heap s) r (Some e)) (hsize s) (data s) (threads s) (ninst s) (trace s) (panicked s).
Definition set_data (s : state) (id : N) (v : option N) : state :=
  mkState (closed s) (heap s) (hsize s) (upd (data s) id v) (threads s) (ninst s) (trace s) (panicked s).
Definition alloc (s : state) (e : entry) : state :=
  mkState (closed s) (upd (heap s) (hsize s) (Some e)) (hsize s + 1) (upd (data s) (e_id e) (Some (hsize s)))
          (threads s) (ninst s) (trace s) (panicked s).
Definition bump_inst (s : state) : state :=
  mkState (closed s) (heap s) (hsize s) (data s) (threads s) (ninst s + 1) (trace s) (panicked s).
Definition set_panic (s : state) : state :=
  mkState (closed s) (heap s) (hsize s) (data s) (threads s) (ninst s) (trace s) true.
Definition set_closed_cancel (s : state) : state :=
  mkState true (fun r => option_map set_cancelled (heap s r)) (hsize s) (data s) (threads s) (ninst s) (trace s) (panicked s).
Definition emit (s : state) (e : event) : state :=
  mkState (closed s) (heap s) (hsize s) (data s) (threads s) (ninst s) (e :: trace s) (panicked s).

(* channel (r,k) of entry e is closed *)
Definition chan_closed (e : entry) (k : N) : bool := negb ((e_epoch e =? k) && estate_eqb (e_state e) SClosing).

Fixpoint seqN (start : N) (len : nat) : list N :=
  match len with O => [] | S l => start :: seqN (start + 1) l end.

(* entries currently in the map that satisfy p *)
Definition in_map (s : state) (r : N) : bool :=
  match heap s r with
  | Some e => match data s (e_id e) with Some r' => r' =? r | None => false end
  | None => false
  end.
Definition snapshot (s : state) (p : entry -> bool) : list N :=
  filter (fun r => in_map s r && match heap s r with Some e => p e | None => false end)
         (seqN 0 (N.to_nat (hsize s))).

Fixpoint mem (r : N) (l : list N) : bool := match l with [] => false | x :: t => (x =? r) || mem r t end.
Fixpoint remove1 (r : N) (l : list N) : list N :=
  match l with [] => [] | x :: t => if x =? r then t else x :: remove1 r t end.

Definition rk_done (k : rk) (res : result) : pc := match k with KRemove => PRet res | KClose p => ClNext p end.
Definition tk_done (k : tk) (res : result) : pc := match k with KTry => PRet res | KGC p => GcNext p end.

Definition is_closing (e : entry) : bool :=
  match e_state e with SClosing | SClosed => true | _ => false end.

(* Get's decision after a failed load: retry (aborted load, retries left) or surface the error *)
Definition after_failed (e : entry) (id retries : N) : pc :=
  if e_aborted e && (retries <? 3) then GLook id (retries + 1) else PRet RErrLoad.

(* One step of thread t.  Result: the new state and the harness-visible event it produces (if any). *)
Definition step_core (c : cfg) (s : state) (t : N) (a : act) : option (state * option event) :=
  match threads s t, a with
  | Idle, ACall cl =>
      let ev := Some (ECall t cl) in
      match cl with
      | CGet id => Some (set_pc s t (GLook id 0), ev)
      | CPick id => Some (set_pc s t (PkLook id), ev)
      | CAdd id n => if n =? ninst s then Some (set_pc (bump_inst s) t (AddDo id n), ev) else None
      | CRemove id => Some (set_pc s t (RmLook id), ev)
      | CRemoveSame id n => Some (set_pc s t (RsLook id n), ev)
      | CTryRemove id => Some (set_pc s t (TrLook id), ev)
      | CGC => Some (set_pc s t GcScan, ev)
      | CClose => Some (set_pc s t ClDo, ev)
      end
  | PRet r, AStep => Some (set_pc s t Idle, Some (ERet t r))
  (* ---- Get *)
  | GLook id rt, AStep =>
      if closed s then Some (set_pc s t (PRet RErrClosed), None)
      else match data s id with
           | Some r => Some (set_pc s t (GWaitClose id r false rt), None)
           | None => Some (set_pc (alloc s (new_loading id)) t (GWaitClose id (hsize s) true rt), None)
           end
  | GWaitClose id r load rt, AStep =>
      match heap s r with
      | Some e =>
          match e_state e with
          | SClosing => Some (set_pc s t (GBlock id r (e_epoch e) rt), None)
          | SClosed => Some (set_pc s t (GLook id rt), None)
          | _ => Some (set_pc s t (if load then GLoadStart id r rt else GWaitLoad id r rt), None)
          end
      | None => None
      end
  | GBlock id r k rt, AStep =>
      match heap s r with
      | Some e => if chan_closed e k then Some (set_pc s t (GLook id rt), None) else None
      | None => None
      end
  | GLoadStart id r rt, AStep =>
      match heap s r with
      | Some e => Some (set_pc (set_entry s r (set_cancelset e)) t (GInLoad id r rt), Some (ELoadStart t id))
      | None => None
      end
  | GInLoad id r rt, ALoadEnd res =>
      match heap s r with
      | Some e =>
          match res with
          | Some n =>
              if n =? ninst s then
                Some (set_pc (bump_inst (set_entry s r (publish_ok e n))) t (PRet (RVal n)), Some (ELoadEnd t id res))
              else None
          | None =>
              let e' := publish_err e in
              Some (set_pc (set_data (set_entry s r e') id None) t (after_failed e' id rt), Some (ELoadEnd t id res))
          end
      | None => None
      end
  | GWaitLoad id r rt, AStep =>
      match heap s r with
      | Some e =>
          if e_loaddone e then
            if e_failed e then Some (set_pc s t (after_failed e id rt), None)
            else Some (set_pc s t (PRet (match e_value e with Some n => RVal n | None => RNilNil end)), None)
          else None
      | None => None
      end
  (* ---- Pick *)
  | PkLook id, AStep =>
      match data s id with
      | None => Some (set_pc s t (PRet RErrNotExists), None)
      | Some r =>
          match heap s r with
          | Some e => Some (set_pc s t (if is_closing e then PRet RErrNotExists else PkWaitLoad r), None)
          | None => None
          end
      end
  | PkWaitLoad r, AStep =>
      match heap s r with
      | Some e =>
          if e_loaddone e then
            Some (set_pc s t (PRet (if e_failed e then RErrLoad
                                    else match e_value e with Some n => RVal n | None => RNilNil end)), None)
          else None
      | None => None
      end
  (* ---- Add *)
  (* Add is a single lock region; its return is part of the same step, so that an added instance is
     observably "created" exactly when it becomes reachable through the map *)
  | AddDo id n, AStep =>
      if fix_add c && closed s then Some (set_pc s t Idle, Some (ERet t RErrClosed))
      else match data s id with
           | Some _ => Some (set_pc s t Idle, Some (ERet t RErrExists))
           | None => Some (set_pc (alloc s (new_active id n)) t Idle, Some (ERet t RNil))
           end
  (* ---- Remove / RemoveSame / removeCtx *)
  | RmLook id, AStep =>
      if closed s then Some (set_pc s t (PRet RErrClosed), None)
      else match data s id with
           | None => Some (set_pc s t (PRet RErrNotExists), None)
           | Some r => Some (set_pc s t (RmWaitLoad r KRemove), None)
           end
  | RsLook id n, AStep =>
      if closed s then Some (set_pc s t (PRet RErrClosed), None)
      else match data s id with
           | None => Some (set_pc s t (PRet RErrNotExists), None)
           | Some r =>
               match heap s r with
               | Some e =>
                   Some (set_pc s t (match e_value e with
                                     | Some m => if m =? n then RmWaitLoad r KRemove else PRet RErrNotExists
                                     | None => PRet RErrNotExists
                                     end), None)
               | None => None
               end
           end
  | RmWaitLoad r k, AStep =>
      match heap s r with
      | Some e =>
          if e_loaddone e then
            Some (set_pc s t (if e_failed e then rk_done k RErrLoad else RmSetClosing r k), None)
          else None
      | None => None
      end
  | RmSetClosing r k, AStep =>
      match heap s r with
      | Some e =>
          match e_state e with
          | SClosing => Some (set_pc s t (RmBlock r (e_epoch e) k), None)
          | SClosed => Some (set_pc s t (rk_done k (ROk false)), None)
          | _ =>
              let s1 := set_entry s r (set_closing e) in
              match e_value e with
              | Some n => Some (set_pc s1 t (RmInClose r n k), Some (ECloseEntry t n))
              | None => Some (set_pc (set_panic s1) t PDead, None)
              end
          end
      | None => None
      end
  | RmBlock r ep k, AStep =>
      match heap s r with
      | Some e => if chan_closed e ep then Some (set_pc s t (RmSetClosing r k), None) else None
      | None => None
      end
  | RmInClose r n k, ACloseExit =>
      match heap s r with
      | Some e =>
          Some (set_pc (set_data (set_entry s r (set_state e SClosed)) (e_id e) None) t (rk_done k (ROk true)),
                Some (ECloseExit t n))
      | None => None
      end
  (* ---- TryRemove / GC's try-close path *)
  | TrLook id, AStep =>
      if closed s then Some (set_pc s t (PRet RErrClosed), None)
      else match data s id with
           | None => Some (set_pc s t (PRet RErrNotExists), None)
           | Some r =>
               match heap s r with
               | Some e =>
                   if fix_tryremove c && negb (estate_eqb (e_state e) SActive)
                   then Some (set_pc s t (PRet (ROk false)), None)
                   else Some (set_pc s t (TrSetClosing r KTry), None)
               | None => None
               end
           end
  | TrSetClosing r k, AStep =>
      match heap s r with
      | Some e =>
          match e_state e with
          | SClosing | SClosed => Some (set_pc s t (tk_done k (ROk false)), None)
          | _ =>
              let s1 := set_entry s r (set_closing e) in
              match e_value e with
              | Some n => Some (set_pc s1 t (TrInTry r n k), Some (ETryEntry t n))
              | None => Some (set_pc (set_panic s1) t PDead, None)
              end
          end
      | None => None
      end
  | TrInTry r n k, ATryExit v =>
      match heap s r with
      | Some e =>
          if v then
            Some (set_pc (set_data (set_entry s r (set_state e SClosed)) (e_id e) None) t (tk_done k (ROk true)),
                  Some (ETryExit t n true))
          else
            Some (set_pc (set_entry s r (set_state e SActive)) t (tk_done k (ROk false)), Some (ETryExit t n false))
      | None => None
      end
  (* ---- GC *)
  | GcScan, AStep =>
      if closed s then Some (set_pc s t (PRet RNil), None)
      else Some (set_pc s t (GcNext (snapshot s (fun e => estate_eqb (e_state e) SActive))), None)
  | GcNext [], AStep => Some (set_pc s t (PRet RNil), None)
  | GcNext p, APick r =>
      if mem r p then Some (set_pc s t (TrSetClosing r (KGC (remove1 r p))), None) else None
  (* ---- Close *)
  | ClDo, AStep =>
      if closed s then Some (set_pc s t (PRet RErrClosed), None)
      else Some (set_pc (set_closed_cancel s) t (ClNext (snapshot s (fun _ => true))), None)
  | ClNext [], AStep => Some (set_pc s t (PRet RNil), None)
  | ClNext p, APick r =>
      if mem r p then Some (set_pc s t (RmWaitLoad r (KClose (remove1 r p))), None) else None
  | _, _ => None
  end.

Definition step (c : cfg) (s : state) (l : N * act) : option state :=
  match step_core c s (fst l) (snd l) with
  | Some (s', Some e) => Some (emit s' e)
  | Some (s', None) => Some s'
  | None => None
  end.

Fixpoint run (c : cfg) (s : state) (ls : list (N * act)) : option state :=
  match ls with
  | [] => Some s
  | l :: r => match step c s l with Some s' => run c s' r | None => None end
  end.

(* the observed trace of a state, oldest event first *)
Definition obs (s : state) : list event := rev (trace s).

(* =====================================================================================================
   The property as an executable predicate over an OBSERVED trace (a monitor automaton; it does not use
   the transition function above).
   ===================================================================================================== *)
Inductive istat := ILive | IInClose (t : N) | IInTry (t : N) | IClosed.

Record mon := mkMon {
  m_inst   : N -> option (N * istat);  (* instance -> its id and status; None = not created *)
  m_live   : N -> option N;            (* id -> the instance that is created and not yet closed *)
  m_load   : N -> option N;            (* id -> thread whose load is in flight *)
  m_call   : N -> option (call * N);   (* thread -> call in progress and the clock at its start *)
  m_cend   : N -> option N;            (* instance -> clock of its close end *)
  m_clock  : N;
  m_ncalls : N;                        (* calls in progress *)
  m_closeret : bool;                   (* Close() has returned nil *)
  m_all    : list N                    (* all created instances *)
}.

Definition mon0 : mon :=
  mkMon (fun _ => None) (fun _ => None) (fun _ => None) (fun _ => None) (fun _ => None) 0 0 false [].

Definition tick (m : mon) : mon :=
  mkMon (m_inst m) (m_live m) (m_load m) (m_call m) (m_cend m) (m_clock m + 1) (m_ncalls m) (m_closeret m) (m_all m).

(* a new live instance n of id *)
Definition mon_create (m : mon) (id n : N) : option mon :=
  match m_inst m n, m_live m id with
  | None, None =>
      Some (mkMon (upd (m_inst m) n (Some (id, ILive))) (upd (m_live m) id (Some n)) (m_load m) (m_call m)
                  (m_cend m) (m_clock m) (m_ncalls m) (m_closeret m) (n :: m_all m))
  | _, _ => None
  end.
Definition mon_setstat (m : mon) (n id : N) (st : istat) : mon :=
  mkMon (upd (m_inst m) n (Some (id, st))) (m_live m) (m_load m) (m_call m) (m_cend m) (m_clock m) (m_ncalls m)
        (m_closeret m) (m_all m).
Definition mon_closed (m : mon) (n id : N) : mon :=
  mkMon (upd (m_inst m) n (Some (id, IClosed))) (upd (m_live m) id None) (m_load m) (m_call m)
        (upd (m_cend m) n (Some (m_clock m))) (m_clock m) (m_ncalls m) (m_closeret m) (m_all m).
Definition mon_setload (m : mon) (id : N) (v : option N) : mon :=
  mkMon (m_inst m) (m_live m) (upd (m_load m) id v) (m_call m) (m_cend m) (m_clock m) (m_ncalls m) (m_closeret m) (m_all m).

Definition call_id (c : call) : option N :=
  match c with CGet id | CPick id => Some id | _ => None end.

(* result r is admissible for call c: shape only *)
Definition ret_shape (c : call) (r : result) : bool :=
  match c, r with
  | CGet _, (RVal _ | RErrClosed | RErrLoad) => true
  | CPick _, (RVal _ | RErrNotExists | RErrLoad) => true
  | CAdd _ _, (RNil | RErrExists | RErrClosed) => true
  | (CRemove _ | CRemoveSame _ _), (ROk _ | RErrClosed | RErrNotExists | RErrLoad) => true
  | CTryRemove _, (ROk _ | RErrClosed | RErrNotExists) => true
  | CGC, RNil => true
  | CClose, (RNil | RErrClosed) => true
  | _, _ => false
  end.

Definition mon_step (m0 : mon) (e : event) : option mon :=
  let m := tick m0 in
  match e with
  | ECall t c =>
      match m_call m t with
      | Some _ => None
      | None => Some (mkMon (m_inst m) (m_live m) (m_load m) (upd (m_call m) t (Some (c, m_clock m))) (m_cend m)
                            (m_clock m) (m_ncalls m + 1) (m_closeret m) (m_all m))
      end
  | ERet t r =>
      match m_call m t with
      | None => None
      | Some (c, start) =>
          if negb (ret_shape c r) then None else
          let m1 := mkMon (m_inst m) (m_live m) (m_load m) (upd (m_call m) t None) (m_cend m) (m_clock m)
                          (m_ncalls m - 1)
                          (m_closeret m || match c, r with CClose, RNil => true | _, _ => false end) (m_all m) in
          match c, r with
          | (CGet id | CPick id), RVal n =>
              (* the returned instance was created by a finished load / Add of this id, and it was not
                 already closed when the call started *)
              match m_inst m n with
              | Some (id', _) =>
                  if (id' =? id) && match m_cend m n with Some ce => start <? ce | None => true end
                  then Some m1 else None
              | None => None
              end
          | CAdd id n, RNil => mon_create m1 id n
          | _, _ => Some m1
          end
      end
  | ELoadStart t id =>
      (* a load starts only when no live instance of id exists and no other load of id is in flight *)
      match m_live m id, m_load m id with
      | None, None => Some (mon_setload m id (Some t))
      | _, _ => None
      end
  | ELoadEnd t id res =>
      match m_load m id with
      | Some t' =>
          if t' =? t then
            match res with
            | Some n => mon_create (mon_setload m id None) id n
            | None => Some (mon_setload m id None)
            end
          else None
      | None => None
      end
  | ECloseEntry t n =>
      match m_inst m n with
      | Some (id, ILive) => Some (mon_setstat m n id (IInClose t))
      | _ => None
      end
  | ECloseExit t n =>
      match m_inst m n with
      | Some (id, IInClose t') => if t' =? t then Some (mon_closed m n id) else None
      | _ => None
      end
  | ETryEntry t n =>
      match m_inst m n with
      | Some (id, ILive) => Some (mon_setstat m n id (IInTry t))
      | _ => None
      end
  | ETryExit t n v =>
      match m_inst m n with
      | Some (id, IInTry t') =>
          if t' =? t then Some (if v then mon_closed m n id else mon_setstat m n id ILive) else None
      | _ => None
      end
  end.

Fixpoint mon_run (m : mon) (evs : list event) : option mon :=
  match evs with
  | [] => Some m
  | e :: r => match mon_step m e with Some m' => mon_run m' r | None => None end
  end.

Definition inst_closed (m : mon) (n : N) : bool :=
  match m_inst m n with Some (_, IClosed) => true | _ => false end.

(* once Close() has returned nil and no call is in progress, every created instance is closed *)
Definition final_ok (m : mon) : bool :=
  if m_closeret m && (m_ncalls m =? 0) then forallb (inst_closed m) (m_all m) else true.

Definition spec_C16 (evs : list event) : bool :=
  match mon_run mon0 evs with
  | Some m => final_ok m
  | None => false
  end.

(* =====================================================================================================
   Acceptance of an observed trace by the model.  The harness performs one action at a time (start a call,
   or let one parked LoadFunc/Close/TryClose return) and then waits until every goroutine is parked, blocked
   or finished; the events logged in between form one macro step.  [accept] searches, per macro step, for an
   interleaving of the threads' own moves that produces exactly the observed events and ends with no own move
   enabled.
   ===================================================================================================== *)
Definition event_eqb_call (a b : call) : bool :=
  match a, b with
  | CGet x, CGet y | CPick x, CPick y | CRemove x, CRemove y | CTryRemove x, CTryRemove y => x =? y
  | CAdd x n, CAdd y m | CRemoveSame x n, CRemoveSame y m => (x =? y) && (n =? m)
  | CGC, CGC | CClose, CClose => true
  | _, _ => false
  end.
Definition result_eqb (a b : result) : bool :=
  match a, b with
  | RVal x, RVal y => x =? y
  | ROk x, ROk y => Bool.eqb x y
  | RNilNil, RNilNil | RErrClosed, RErrClosed | RErrExists, RErrExists | RErrNotExists, RErrNotExists
  | RErrLoad, RErrLoad | RNil, RNil => true
  | _, _ => false
  end.
Definition optN_eqb (a b : option N) : bool :=
  match a, b with Some x, Some y => x =? y | None, None => true | _, _ => false end.
Definition event_eqb (a b : event) : bool :=
  match a, b with
  | ECall t c, ECall t' c' => (t =? t') && event_eqb_call c c'
  | ERet t r, ERet t' r' => (t =? t') && result_eqb r r'
  | ELoadStart t i, ELoadStart t' i' => (t =? t') && (i =? i')
  | ELoadEnd t i r, ELoadEnd t' i' r' => (t =? t') && (i =? i') && optN_eqb r r'
  | ECloseEntry t n, ECloseEntry t' n' | ECloseExit t n, ECloseExit t' n' | ETryEntry t n, ETryEntry t' n' =>
      (t =? t') && (n =? n')
  | ETryExit t n v, ETryExit t' n' v' => (t =? t') && (n =? n') && Bool.eqb v v'
  | _, _ => false
  end.

(* the label that must produce observed event e *)
Definition label_of (e : event) : N * act :=
  match e with
  | ECall t c => (t, ACall c)
  | ERet t _ | ELoadStart t _ | ECloseEntry t _ | ETryEntry t _ => (t, AStep)
  | ELoadEnd t _ res => (t, ALoadEnd res)
  | ECloseExit t _ => (t, ACloseExit)
  | ETryExit t _ v => (t, ATryExit v)
  end.

Definition vis_step (c : cfg) (s : state) (e : event) : option state :=
  let l := label_of e in
  match step_core c s (fst l) (snd l) with
  | Some (s', Some e') => if event_eqb e e' then Some (emit s' e') else None
  | _ => None
  end.

(* own moves of thread t (AStep, or APick for the GC / Close loops) *)
Definition own_acts (s : state) (t : N) : list act :=
  match threads s t with
  | GcNext (x :: p) => map APick (x :: p)
  | ClNext (x :: p) => map APick (x :: p)
  | Idle | PDead | GInLoad _ _ _ | RmInClose _ _ _ | TrInTry _ _ _ => []
  | _ => [AStep]
  end.
Definition own_labels (s : state) (ths : list N) : list (N * act) :=
  flat_map (fun t => map (fun a => (t, a)) (own_acts s t)) ths.

(* own moves that are enabled: silent ones (with their successor) and whether a non-silent one exists *)
Fixpoint split_moves (c : cfg) (s : state) (ls : list (N * act)) : list state * bool :=
  match ls with
  | [] => ([], false)
  | l :: r =>
      let '(taus, vis) := split_moves c s r in
      match step_core c s (fst l) (snd l) with
      | Some (s', None) => (s' :: taus, vis)
      | Some (_, Some _) => (taus, true)
      | None => (taus, vis)
      end
  end.

Fixpoint first_some {A B} (f : A -> option B) (l : list A) : option B :=
  match l with
  | [] => None
  | x :: r => match f x with Some y => Some y | None => first_some f r end
  end.

Fixpoint macro (fuel : nat) (c : cfg) (ths : list N) (s : state) (evs : list event) : option state :=
  match fuel with
  | O => None
  | S f =>
      let '(taus, vis) := split_moves c s (own_labels s ths) in
      match evs with
      | [] =>
          match taus with
          | [] => if vis then None else Some s
          | _ => first_some (fun s' => macro f c ths s' []) taus
          end
      | e :: rest =>
          match (match vis_step c s e with Some s' => macro f c ths s' rest | None => None end) with
          | Some r => Some r
          | None => first_some (fun s' => macro f c ths s' evs) taus
          end
      end
  end.

Fixpoint accept_from (c : cfg) (ths : list N) (s : state) (steps : list (list event)) : bool :=
  match steps with
  | [] => negb (panicked s)
  | evs :: r =>
      match macro (4 * length evs + 40) c ths s evs with
      | Some s' => accept_from c ths s' r
      | None => false
      end
  end.

Definition accept_fast (nthreads : N) (steps : list (list event)) : bool :=
  accept_from fixed (seqN 0 (N.to_nat nthreads)) init steps.

(* [accept_from] commits to the first interleaving that explains a macro step.  That is incomplete when a hidden
   choice (which entry Close / GC visits first while it blocks) only shows later, so a full backtracking search
   over the whole trace, bounded by a node budget, is used as a fallback. *)
Fixpoint try_all (f : state -> N -> bool * N) (l : list state) (b : N) : bool * N :=
  match l with
  | [] => (false, b)
  | x :: r => let '(ok, b1) := f x b in if ok then (true, b1) else try_all f r b1
  end.

Fixpoint search (fuel : nat) (c : cfg) (ths : list N) (s : state) (evs : list event)
                (rest : list (list event)) (b : N) : bool * N :=
  match fuel with
  | O => (false, b)
  | S f =>
      if b =? 0 then (false, 0) else
      let b' := b - 1 in
      let '(taus, vis) := split_moves c s (own_labels s ths) in
      match evs with
      | [] =>
          match taus with
          | [] =>
              if vis then (false, b')
              else match rest with
                   | [] => (negb (panicked s), b')
                   | evs' :: rest' => search f c ths s evs' rest' b'
                   end
          | _ => try_all (fun s1 b1 => search f c ths s1 [] rest b1) taus b'
          end
      | e :: r =>
          let '(ok, b1) := match vis_step c s e with
                           | Some s1 => search f c ths s1 r rest b'
                           | None => (false, b')
                           end in
          if ok then (true, b1) else try_all (fun s1 b2 => search f c ths s1 evs rest b2) taus b1
      end
  end.

Definition accept_full (nthreads : N) (steps : list (list event)) : bool :=
  match steps with
  | [] => true
  | evs :: rest =>
      fst (search (4 * length (concat steps) + 40 * length steps + 40) fixed (seqN 0 (N.to_nat nthreads)) init
                  evs rest 200000)
  end.

Definition accept (nthreads : N) (steps : list (list event)) : bool :=
  accept_fast nthreads steps || accept_full nthreads steps.

(* =====================================================================================================
   Acceptance of a FINE-GRAINED observation.  In the interleaving families the harness also parks every
   goroutine in front of each outermost mutex acquisition of the cache (c.mu / e.mx; the first acquisition
   after a return of LoadFunc / Close / TryClose is passed through, because the model treats such a return
   and the lock region that follows it as one step).  One scheduler action = start a call, let one goroutine
   go past the lock it is parked at, or let one parked callback return.  A macro step then no longer ends in
   a state without enabled own moves (a goroutine parked in front of a lock has its next lock region enabled
   in the model), so the step boundary is "open": the model may stop anywhere.  What the harness knows
   instead is WHO could move: [movers] = the goroutine it released + the goroutines that were not parked at
   a gate when the action was performed (those blocked on a close / load channel may be woken).  Goroutines
   parked at a gate are frozen during the step: neither an own move nor an event of theirs is allowed.
   [search_open] is a backtracking search (lazy: first try to go on without a silent move) bounded by a
   node budget. *)
Definition event_thread (e : event) : N :=
  match e with
  | ECall t _ | ERet t _ | ELoadStart t _ | ELoadEnd t _ _ | ECloseEntry t _ | ECloseExit t _
  | ETryEntry t _ | ETryExit t _ _ => t
  end.

Fixpoint search_open (fuel : nat) (c : cfg) (s : state) (mv : list N) (evs : list event)
                     (rest : list (list N * list event)) (b : N) : bool * N :=
  match fuel with
  | O => (false, b)
  | S f =>
      if b =? 0 then (false, 0) else
      let b' := b - 1 in
      let taus := fst (split_moves c s (own_labels s mv)) in
      match evs with
      | [] =>
          let '(ok, b1) := match rest with
                           | [] => (negb (panicked s), b')
                           | (mv', evs') :: rest' => search_open f c s mv' evs' rest' b'
                           end in
          if ok then (true, b1) else try_all (fun s1 b2 => search_open f c s1 mv [] rest b2) taus b1
      | e :: r =>
          let '(ok, b1) := match (if mem (event_thread e) mv then vis_step c s e else None) with
                           | Some s1 => search_open f c s1 mv r rest b'
                           | None => (false, b')
                           end in
          if ok then (true, b1) else try_all (fun s1 b2 => search_open f c s1 mv evs rest b2) taus b1
      end
  end.

Definition fine_events (steps : list (list N * list event)) : list event := concat (map snd steps).

Definition accept_fine (steps : list (list N * list event)) : bool :=
  match steps with
  | [] => true
  | (mv, evs) :: rest =>
      fst (search_open (6 * length (fine_events steps) + 40 * length steps + 40) fixed init mv evs rest 200000)
  end.
