(* Model of commonspace/pubsub/topic.go and trie.go (C17).  Definitions only.

   Strings are byte lists ([str = list N]); '/' = 47, '*' = 42, '>' = 62.

   Representation notes (where the model is not a literal transcription of the Go data structure):
   * A Go [trieLevel] has a literal map plus two dedicated slots [pwc] ('*') and [fwc] ('>'); [child(seg)]
     routes the segments "*" and ">" to the slots and everything else to the map, [literal(seg)] looks at
     the map only.  The model keeps ONE association list keyed by segment, with the keys "*" and ">"
     playing the role of the two slots; [literal] refuses those two keys (the Go map can never contain
     them because [setChild] routes them away).
   * Every Go [trieNode] is created by [Add], which immediately gives it a non-nil [next] level; so a node
     and its [next] level are merged into one constructor [Node kids pat refs] ([kids] = the next level).
     The root level is a node whose [pat]/[refs] are unused.  The [level == nil] test of [matchLevel] is
     therefore unreachable and not modelled.
   * Go maps are unordered; the association list keeps insertion order.  No observable depends on it:
     [Match] visits at most one literal child per level. *)
From Coq Require Import List NArith Bool Arith.
Import ListNotations.

Definition str := list N.

Definition SLASH : N := 47.
Definition STAR : N := 42.
Definition GT : N := 62.

Fixpoint str_eqb (a b : str) : bool :=
  match a, b with
  | [], [] => true
  | x :: a', y :: b' => N.eqb x y && str_eqb a' b'
  | _, _ => false
  end.

Definition star_seg : str := [STAR].
Definition tail_seg : str := [GT].
Definition is_star (s : str) : bool := str_eqb s star_seg.
Definition is_tail (s : str) : bool := str_eqb s tail_seg.
Definition is_wild (s : str) : bool := is_star s || is_tail s.

(* ------------------------------------------------------------------ splitTopic *)

(* strings.IndexByte(rest,'/'): the part before the first '/', and the part after it (if there is one) *)
Fixpoint cut (s : str) : str * option str :=
  match s with
  | [] => ([], None)
  | c :: r => if N.eqb c SLASH then ([], Some r)
              else let '(a, o) := cut r in (c :: a, o)
  end.

(* the loop [for n < maxSegments]; when the fuel is exhausted the remaining text is appended raw *)
Fixpoint splitN (fuel : nat) (s : str) : list str :=
  match fuel with
  | O => [s]
  | S f => match cut s with
           | (a, None) => [a]
           | (a, Some r) => a :: splitN f r
           end
  end.

Definition max_segments : nat := 16.
Definition max_topic_len : nat := 256.

Definition split_topic (s : str) : list str := splitN max_segments s.

(* ------------------------------------------------------------------ validators *)

Definition is_nil {A} (l : list A) : bool := match l with [] => true | _ => false end.

Definition validate_segments (topic : str) (segs : list str) : bool :=
  negb (is_nil topic) && (length topic <=? max_topic_len)%nat
  && (length segs <=? max_segments)%nat
  && forallb (fun s => negb (is_nil s)) segs.

(* strings.ContainsAny(s, "*>") *)
Definition contains_wild (s : str) : bool := existsb (fun b => N.eqb b STAR || N.eqb b GT) s.

Definition validate_topic (t : str) : bool :=
  let segs := split_topic t in
  validate_segments t segs && forallb (fun s => negb (contains_wild s)) segs.

Fixpoint pattern_segs_ok (segs : list str) : bool :=
  match segs with
  | [] => true
  | s :: r =>
      (if is_star s then true
       else if is_tail s then is_nil r
       else negb (contains_wild s)) && pattern_segs_ok r
  end.

Definition validate_pattern (p : str) : bool :=
  let segs := split_topic p in
  validate_segments p segs && pattern_segs_ok segs.

Definition acc_seg : str := [97; 99; 99]%N.

(* TopicOwner: "" unless >= 2 segments and the first is "acc"; then the last segment *)
Definition topic_owner (t : str) : str :=
  let segs := split_topic t in
  match segs with
  | s0 :: _ :: _ => if str_eqb s0 acc_seg then last segs [] else []
  | _ => []
  end.

(* ------------------------------------------------------------------ the matching rule (declarative) *)

(* segment by segment; "*" exactly one segment; ">" (only meaningful in last position) one or more *)
Fixpoint matches (p t : list str) : bool :=
  match p, t with
  | [], [] => true
  | ps :: p', ts :: t' =>
      if is_tail ps then is_nil p'
      else if is_star ps then matches p' t'
      else str_eqb ps ts && matches p' t'
  | _, _ => false
  end.

(* ------------------------------------------------------------------ the trie *)

Inductive node := Node (kids : list (str * node)) (pat : str) (refs : N).

Definition kids (n : node) := match n with Node k _ _ => k end.
Definition pat (n : node) := match n with Node _ p _ => p end.
Definition refs (n : node) := match n with Node _ _ r => r end.

Definition empty_node : node := Node [] [] 0.

Fixpoint assoc {V} (k : str) (l : list (str * V)) : option V :=
  match l with
  | [] => None
  | (k', v) :: r => if str_eqb k k' then Some v else assoc k r
  end.

(* map assignment: replace the binding of k, or add one *)
Fixpoint set_kv {V} (k : str) (v : V) (l : list (str * V)) : list (str * V) :=
  match l with
  | [] => [(k, v)]
  | (k', v') :: r => if str_eqb k k' then (k, v) :: r else (k', v') :: set_kv k v r
  end.

(* map delete *)
Fixpoint del_k {V} (k : str) (l : list (str * V)) : list (str * V) :=
  match l with
  | [] => []
  | (k', v') :: r => if str_eqb k k' then del_k k r else (k', v') :: del_k k r
  end.

(* level.child(seg) *)
Definition child (n : node) (seg : str) : option node := assoc seg (kids n).
(* level.literal(seg): the literal map never holds "*" or ">" *)
Definition literal (n : node) (seg : str) : option node :=
  if is_wild seg then None else assoc seg (kids n).

Definition set_child (n : node) (seg : str) (c : node) : node :=
  Node (set_kv seg c (kids n)) (pat n) (refs n).
Definition delete_child (n : node) (seg : str) : node :=
  Node (del_k seg (kids n)) (pat n) (refs n).
(* level.empty() *)
Definition level_empty (n : node) : bool := is_nil (kids n).

(* Add: walk/create the path; at the end set pattern, refs++; returns (level', 0->1 transition) *)
Fixpoint add_segs (lvl : node) (segs : list str) (p : str) : node * bool :=
  match segs with
  | [] => (lvl, false)                      (* unreachable: splitTopic never returns an empty slice *)
  | s :: rest =>
      let c := match child lvl s with Some c => c | None => empty_node end in
      let '(c', fresh) :=
        match rest with
        | [] => (Node (kids c) p (refs c + 1), N.eqb (refs c + 1) 1)
        | _ :: _ => add_segs c rest p
        end in
      (set_child lvl s c', fresh)
  end.

(* the pruning test on the way back: node.refs == 0 && node.next.empty() *)
Definition put_or_prune (lvl : node) (s : str) (c' : node) : node :=
  if N.eqb (refs c') 0 && level_empty c' then delete_child lvl s else set_child lvl s c'.

(* remove: returns (level', 1->0 transition) *)
Fixpoint remove_segs (lvl : node) (segs : list str) : node * bool :=
  match segs with
  | [] => (lvl, false)
  | s :: rest =>
      match child lvl s with
      | None => (lvl, false)
      | Some c =>
          match rest with
          | [] =>
              if N.eqb (refs c) 0 then (lvl, false)
              else
                let r := N.pred (refs c) in
                if N.ltb 0 r then (set_child lvl s (Node (kids c) (pat c) r), false)
                else (put_or_prune lvl s (Node (kids c) [] 0), true)
          | _ :: _ =>
              let '(c', removed) := remove_segs c rest in
              (put_or_prune lvl s c', removed)
          end
      end
  end.

(* matchLevel / matchNode; result order = Go's append order: '>' terminal, '*' branch, literal branch *)
Fixpoint match_level (lvl : node) (segs : list str) : list str :=
  match segs with
  | [] => []
  | s :: rest =>
      let sub (c : node) : list str :=
        match rest with
        | [] => if N.ltb 0 (refs c) then [pat c] else []
        | _ :: _ => match_level c rest
        end in
      (match child lvl tail_seg with
       | Some f => if N.ltb 0 (refs f) then [pat f] else []
       | None => []
       end)
      ++ (match child lvl star_seg with Some c => sub c | None => [] end)
      ++ (match literal lvl s with Some c => sub c | None => [] end)
  end.

Record trie := mkTrie { root : node; size : N }.

Definition trie_empty : trie := mkTrie empty_node 0.

Definition trie_add (t : trie) (p : str) : trie * bool :=
  let '(r, fresh) := add_segs (root t) (split_topic p) p in
  (mkTrie r (if fresh then size t + 1 else size t), fresh).

Definition trie_remove (t : trie) (p : str) : trie * bool :=
  let '(r, removed) := remove_segs (root t) (split_topic p) in
  (mkTrie r (if removed then N.pred (size t) else size t), removed).

Definition trie_match (t : trie) (topic : str) : list str :=
  match_level (root t) (split_topic topic).

Definition trie_len (t : trie) : N := size t.
Definition trie_is_empty (t : trie) : bool := level_empty (root t).

(* ------------------------------------------------------------------ histories *)

Inductive top := TAdd (p : str) | TRemove (p : str) | TMatch (t : str) | TLen | TEmpty.
Inductive tobs := OBool (b : bool) | OPats (l : list str) | ONum (n : N).

Definition trie_step (t : trie) (o : top) : trie * tobs :=
  match o with
  | TAdd p => let '(t', b) := trie_add t p in (t', OBool b)
  | TRemove p => let '(t', b) := trie_remove t p in (t', OBool b)
  | TMatch s => (t, OPats (trie_match t s))
  | TLen => (t, ONum (trie_len t))
  | TEmpty => (t, OBool (trie_is_empty t))
  end.

Fixpoint trie_run (t : trie) (ops : list top) : list tobs :=
  match ops with
  | [] => []
  | o :: r => let '(t', ob) := trie_step t o in ob :: trie_run t' r
  end.

(* state after a history (observations dropped) *)
Definition trie_exec (t : trie) (ops : list top) : trie :=
  fold_left (fun t o => fst (trie_step t o)) ops t.

(* ------------------------------------------------------------------ declarative specification *)

(* full split at every '/', no segment limit — defined independently of [cut]/[splitN] *)
Fixpoint full_split (s : str) : list str :=
  match s with
  | [] => [[]]
  | c :: r =>
      if N.eqb c SLASH then [] :: full_split r
      else match full_split r with
           | h :: t => (c :: h) :: t
           | [] => [[c]]
           end
  end.

Definition seg_plain (s : str) : bool := negb (is_nil s) && negb (contains_wild s).

(* canonical topics: 1..16 non-empty wildcard-free segments, at most 256 bytes *)
Definition spec_valid_topic (t : str) : bool :=
  let segs := full_split t in
  (length t <=? max_topic_len)%nat && (length segs <=? max_segments)%nat && forallb seg_plain segs.

Fixpoint spec_pattern_segs (segs : list str) : bool :=
  match segs with
  | [] => true
  | s :: r => (is_star s || (is_tail s && is_nil r) || seg_plain s) && spec_pattern_segs r
  end.

(* canonical patterns: segments are "*", plain, or ">" in last position *)
Definition spec_valid_pattern (p : str) : bool :=
  let segs := full_split p in
  (length p <=? max_topic_len)%nat && (length segs <=? max_segments)%nat && spec_pattern_segs segs.

Definition spec_matches (p t : str) : bool := matches (full_split p) (full_split t).

(* reference count of pattern p after a history: +1 per Add, -1 (not below 0) per Remove *)
Fixpoint refcount (ops : list top) (acc : N) (p : str) : N :=
  match ops with
  | [] => acc
  | TAdd q :: r => refcount r (if str_eqb p q then acc + 1 else acc) p
  | TRemove q :: r => refcount r (if str_eqb p q then N.pred acc else acc) p
  | _ :: r => refcount r acc p
  end.

Fixpoint mem_str (x : str) (l : list str) : bool :=
  match l with [] => false | y :: r => str_eqb x y || mem_str x r end.

Fixpoint nodup_str (l : list str) : bool :=
  match l with [] => true | x :: r => negb (mem_str x r) && nodup_str r end.

Fixpoint dedup_str (l : list str) : list str :=
  match l with [] => [] | x :: r => if mem_str x r then dedup_str r else x :: dedup_str r end.

Definition op_patterns (ops : list top) : list str :=
  flat_map (fun o => match o with TAdd p => [p] | TRemove p => [p] | _ => [] end) ops.

Definition live_patterns (done : list top) : list str :=
  filter (fun p => N.ltb 0 (refcount done 0 p)) (dedup_str (op_patterns done)).

Definition set_eq_str (a b : list str) : bool :=
  forallb (fun x => mem_str x b) a && forallb (fun x => mem_str x a) b.

(* what the property says about one observation, given the operations [done] executed before it *)
Definition spec_obs (done : list top) (o : top) (ob : tobs) : bool :=
  match o, ob with
  | TAdd p, OBool b => Bool.eqb b (N.eqb (refcount done 0 p) 0)
  | TRemove p, OBool b => Bool.eqb b (N.eqb (refcount done 0 p) 1)
  | TMatch t, OPats l =>
      nodup_str l
      && set_eq_str l (filter (fun p => spec_matches p t) (live_patterns done))
  | TLen, ONum n => N.eqb n (N.of_nat (length (live_patterns done)))
  | TEmpty, OBool b => if is_nil (live_patterns done) then b else negb b
  | _, _ => false
  end.

Fixpoint spec_trace (done : list top) (ops : list top) (obs : list tobs) : bool :=
  match ops, obs with
  | [], [] => true
  | o :: r, ob :: obr => spec_obs done o ob && spec_trace (done ++ [o]) r obr
  | _, _ => false
  end.

(* The exactness statement is about validated patterns (the trie "assumes validated" input); a history
   that feeds it an invalid pattern is only compared with the model. *)
Definition spec_C17_trie (ops : list top) (obs : list tobs) : bool :=
  if forallb spec_valid_pattern (op_patterns ops) then spec_trace [] ops obs else true.

(* validators: observed (ValidateTopic ok, ValidatePattern ok) must be exactly the canonical domain *)
Definition spec_C17_validate (s : str) (topic_ok pattern_ok : bool) : bool :=
  Bool.eqb topic_ok (spec_valid_topic s) && Bool.eqb pattern_ok (spec_valid_pattern s).
