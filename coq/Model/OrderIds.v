(* Model/OrderIds.v — the order ids that realise the STORED order (properties C06, C09).  Definitions only;
   nothing in Lib/Dag.v, Model/Dfs.v, Model/Tree.v, Model/TreeReject.v, Model/LoadIter.v is changed (records are wrapped).

   In the code every stored change carries an OrderId string made by github.com/anyproto/lexid
   (tree.go: var lexId = lexid.Must(lexid.CharsAllNoEscape, 4, 100)); storage streams changes in OrderId order
   (GetAfterOrder, the load iterator, the tree builder).  Order ids are modelled as elements of an abstract order
   given by Section variables:
       oltb                Go's  <  on the strings
       first_id            lexId.Next("")                (CreateStorage; Tree.add for a root without OrderId)
       next_id prev        lexId.Next(prev)
       between prev b      lexId.NextBefore(prev, b)
   What lexid promises about them (prev < Next(prev);  prev < b -> prev < NextBefore(prev,b) < b;  < is a strict order)
   appears as hypotheses of the theorems in Proofs/OrderIds*.v — never here.

   Mirrors (commonspace/object/tree/objecttree):
     tree.go        Tree.updateHeads, the order-id part:
                        buf = makeIterBuffer(root)            (post-order; walked from its END = in presented order)
                        lastOrderIdx = len(buf)-1             ("root change should always have order id")
                        for idx = len(buf)-1 .. 0:  if buf[idx].OrderId != "":
                             a gap between lastOrderIdx and idx is filled front to back with
                             NextBefore(prev, buf[idx].OrderId), prev = the id just given;  lastOrderIdx = idx
                        what is left after the last assigned id gets Next(prev), prev = the id just given
                    [fill] / [fill_from] are this loop as a function of the presented sequence: an element that has
                    an id keeps it; one without gets  between prev b  if a LATER element of the sequence has an id
                    (b = the first such), else  next_id prev;  prev = the id of the element before it.  Only the NEW
                    (change, id) pairs are returned, in front of the old map.
     tree.go        Tree.add on an empty tree (the first change becomes the root; Next("") if it has no OrderId),
                    Tree.AddMergedHead ([add_merged])
     objecttree.go  AddContentWithValidator (validator = nil):  TreeHeadIds = Heads(), SnapshotBaseId = RootId(),
                    OrderId = Next(attached[lastIteratedHeadId].OrderId); a snapshot replaces the in-memory tree by an
                    empty one before AddMergedHead; storage.AddAll([change], Heads(), root.Id)
     storage.go     CreateStorage: the root change is stored with Next("").
   A rolled-back batch (objecttree.go rollback closure / reload from storage) loses the ids it was given: the Change
   objects are dropped, a later delivery unmarshals fresh ones. *)
From Coq Require Import List NArith Bool Arith.
Import ListNotations.
From AnySync Require Export Lib.Dag Model.Dfs Model.Tree Model.TreeReject.

Section OrderIds.
  Variable oid : Type.
  Variable oltb : oid -> oid -> bool.
  Variable first_id : oid.
  Variable next_id : oid -> oid.
  Variable between : oid -> oid -> oid.

  Definition olt (a b : oid) : Prop := oltb a b = true.

  (* change id -> order id; the FIRST entry for a key counts *)
  Definition idmap := list (N * oid).

  Fixpoint oget (m : idmap) (i : N) : option oid :=
    match m with
    | [] => None
    | (k, v) :: r => if N.eqb k i then Some v else oget r i
    end.

  (* the presented sequence with the order id each element already has *)
  Definition looked (m : idmap) (l : list N) : list (N * option oid) := map (fun i => (i, oget m i)) l.

  (* the order id of the first element of l that has one *)
  Fixpoint next_assigned (l : list (N * option oid)) : option oid :=
    match l with
    | [] => None
    | (_, Some x) :: _ => Some x
    | (_, None) :: r => next_assigned r
    end.

  (* the id an element without id gets when its predecessor has [prev] and [r] follows *)
  Definition new_id (prev : oid) (r : list (N * option oid)) : oid :=
    match next_assigned r with
    | Some b => between prev b
    | None => next_id prev
    end.

  (* the NEW (change id, order id) entries for the presented sequence l whose predecessor has [prev] *)
  Fixpoint fill_from (prev : oid) (l : list (N * option oid)) : idmap :=
    match l with
    | [] => []
    | (_, Some x) :: r => fill_from x r
    | (i, None) :: r => let x := new_id prev r in (i, x) :: fill_from x r
    end.

  (* updateHeads over the presented sequence [seq] (first element = the tree root): new entries in front *)
  Definition fill (m : idmap) (seq : list N) : idmap :=
    match looked m seq with
    | [] => m
    | (_, Some x) :: rest => fill_from x rest ++ m
    | (r, None) :: rest => (r, first_id) :: fill_from first_id rest ++ m
    end.

  (* ---------------------------------------------------------------- the Tree type with order ids *)

  Record itree := mkIT { it_tree : tree; it_ids : idmap }.

  Definition it_empty : itree := mkIT empty_tree [].

  (* Tree.Add: updateHeads runs only when something was added *)
  Definition it_add (s : itree) (cs : list change) : itree :=
    let '(t', _, added) := tree_add (it_tree s) cs in
    mkIT t' (match added with [] => it_ids s | _ => fill (it_ids s) (iter_ids t') end).

  (* Tree.AddFast *)
  Definition it_add_fast (s : itree) (cs : list change) : itree :=
    match cs with
    | [] => s
    | _ => let '(t', _) := tree_add_fast (it_tree s) cs in mkIT t' (fill (it_ids s) (iter_ids t'))
    end.

  (* Tree.AddMergedHead; None = it returns an error (AddContent panics then) *)
  Definition add_merged (t : tree) (c : change) : option tree :=
    if attached t (cid c) || has_change (t_unatt t) (cid c) then None
    else
      let '(t1, added) := add t [] c in
      if negb (mem (cid c) added) then None          (* "change is not attached" *)
      else if forallb (fun h => list_eqb (nxf t1 h) [cid c]) (t_heads t)     (* "this is not a new head" *)
      then Some (mkTree (t_root t1) (t_att t1) (t_next t1) (t_unatt t1) (t_wait t1) [cid c] (cid c)
                        (t_dirty t1) (t_oof t1))
      else None.

  (* the change AddContent builds on a tree: all heads as previous ids, the in-memory root as snapshot base *)
  Definition local_change (t : tree) (id : N) (snap : bool) : change := mkChange id (t_heads t) (t_root t) snap.

  (* AddContent of a non-snapshot change (the Tree-level part: order id from lastIteratedHeadId, AddMergedHead).
     Nothing happens if the tree is empty / the last head has no id / AddMergedHead fails — none of which occurs on
     a tree reached through these operations (the id is new: it is a fresh CID in the code). *)
  Definition it_local (s : itree) (id : N) : itree :=
    let t := it_tree s in
    match oget (it_ids s) (t_last t) with
    | None => s
    | Some x =>
        match add_merged t (local_change t id false) with
        | None => s
        | Some t' => mkIT t' ((id, next_id x) :: it_ids s)
        end
    end.

  Inductive iop := IAdd (cs : list change) | IAddFast (cs : list change) | ILocal (id : N).

  Definition iapply (s : itree) (o : iop) : itree :=
    match o with
    | IAdd cs => it_add s cs
    | IAddFast cs => it_add_fast s cs
    | ILocal id => it_local s id
    end.

  Definition irun (ops : list iop) : itree := fold_left iapply ops it_empty.

  (* ---------------------------------------------------------------- the stored order = sort by order id *)

  (* strict comparison of two changes by their order ids; a change without id sorts first *)
  Definition key_ltb (a b : N * option oid) : bool :=
    match snd a, snd b with
    | Some x, Some y => oltb x y
    | None, Some _ => true
    | _, _ => false
    end.

  Fixpoint insert_by (a : N * option oid) (l : list (N * option oid)) : list (N * option oid) :=
    match l with
    | [] => [a]
    | b :: r => if key_ltb a b then a :: b :: r else b :: insert_by a r
    end.

  Definition sort_by_id (m : idmap) (l : list N) : list N := map fst (fold_right insert_by [] (looked m l)).

  (* what GetAfterOrder("") streams for a Tree-level state: the attached changes by order id *)
  Definition it_stored (s : itree) : list N := sort_by_id (it_ids s) (ids (t_att (it_tree s))).

  (* ---------------------------------------------------------------- the object tree with order ids (correspondence runs) *)

  Record iotree := mkIOT { io_ot : otree; io_ids : idmap }.

  (* CreateStorage + BuildObjectTree *)
  Definition io_init (root : change) : iotree := mkIOT (ot_init root) [(cid root, first_id)].

  Definition io_stored (o : iotree) : list N := sort_by_id (io_ids o) (ids (o_stored (io_ot o))).

  (* the in-memory tree on which the last updateHeads of an ACCEPTED AddRawChanges ran (before reduceTree): the result
     of Tree.Add on the normal path, of Tree.AddFast over (stored from the common snapshot ++ new) on the rebuild
     path; None = updateHeads did not run.  Same case analysis as ot_add_raw / ot_add_raw_v. *)
  Definition raw_mid (o : otree) (batch : list change) (theirPath : list N) : option tree :=
    let t := o_tree o in
    let newcs := filter (fun c => negb (attached t (cid c))) batch in
    match newcs with
    | [] => None
    | _ =>
        match need_rebuild t (ids (filter cissnap newcs)) newcs with
        | None => None
        | Some false =>
            let '(t1, _, added) := tree_add t newcs in
            match added with [] => None | _ => Some t1 end
        | Some true =>
            match snapshot_path o with
            | None => None
            | Some ourPath =>
                match common_snapshot ourPath theirPath with
                | None => None
                | Some snap =>
                    let old := stored_from o snap in
                    let fresh := filter (fun c => negb (mem (cid c) (ids old))) (dedup_changes newcs []) in
                    match old with
                    | [] => None
                    | _ => Some (fst (tree_add_fast empty_tree (old ++ fresh)))
                    end
                end
            end
        end
    end.

  (* AddRawChanges ([bad] = ids failing validation, [] for trees with the no-op validator): the changes that were
     given ids by updateHeads and then stored keep them; a rejected delivery leaves the ids as they were *)
  Definition io_add_raw (bad : list N) (o : iotree) (batch : list change) (theirPath : list N) : iotree * add_res :=
    let '(o', res) := ot_add_raw_v bad (io_ot o) batch theirPath in
    match res with
    | AddErr => (mkIOT o' (io_ids o), res)
    | AddOk _ _ =>
        (mkIOT o' (match raw_mid (io_ot o) batch theirPath with
                   | Some t1 => fill (io_ids o) (iter_ids t1)
                   | None => io_ids o
                   end), res)
    end.

  Definition io_reopen (o : iotree) : iotree := mkIOT (reopen (io_ot o)) (io_ids o).

  (* AddContent (plain or snapshot); None = it fails *)
  Definition io_add_content (o : iotree) (id : N) (snap : bool) : option iotree :=
    let ot := io_ot o in
    let t := o_tree ot in
    let c := local_change t id snap in
    match oget (io_ids o) (t_last t) with
    | None => None
    | Some x =>
        match add_merged (if snap then empty_tree else t) c with
        | None => None
        | Some t' => Some (mkIOT (mkOT t' (c :: o_stored ot) (o_root0 ot) (t_root t')) ((id, next_id x) :: io_ids o))
        end
    end.
End OrderIds.
