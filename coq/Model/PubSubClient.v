(* Model of the CLIENT RECEIVE CHAIN of commonspace/pubsub (C17): service.go handlePublish (client role,
   deps.Relay == nil) / receivePublish / isStale / Publish / Subscribe / unsubscribe, sign.go
   (publishSignData, verifySignature) and dedup.go (msgIdDedup).  Definitions only.

   Representation notes
   * Strings and byte slices are byte lists ([str = list N], every element < 256 in all harness cases).
   * Ed25519 is not modelled: signatures are SYMBOLIC.  [SigOf k d] is "the signature made with the private
     key of account k over the byte string d"; [SigJunk n] is any other byte string.  [verify k d s] is true
     only for [SigOf k d].  (Assumption: unforgeability + determinism of verification.)
   * The claimed identity of a message is [Some k] (the marshalled public key of account k; the table
     [cc_names] gives identity.Account() of account k) or [None] (bytes that do not unmarshal to a key).
   * TimestampMilli is an int64, modelled as Z.  uint64(ts) = ts mod 2^64.  [now - ts] is computed in Z (the
     int64 wrap-around of Go for |ts| near 2^63 is not modelled).
   * localTopic[space] (the cap bookkeeping counter of Subscribe) is always the number of distinct patterns
     in localSubs[space] as long as no unsubscribe closure is invoked twice (the harness never does); the
     model uses the length of the pattern table instead of a separate counter.
   * The dispatch queue is asynchronous in Go; the harness waits for it after every event, so the model
     delivers inside the step.  Handlers are looked up per matched pattern, in Match order, as dispatchLoop
     does; the observable is the list of patterns whose handlers ran (one entry per handler invocation).
   * deps.Crypto is nil in the harness: a message with a non-empty KeyId is dropped AFTER it was recorded in
     the dedup ring, exactly as in the code. *)
From Coq Require Import List NArith ZArith Bool Arith.
Import ListNotations.
From AnySync Require Import Model.Trie.

(* ------------------------------------------------------------------ sign.go: publishSignData *)

(* binary.LittleEndian.AppendUintNN: n bytes, least significant first; higher bits are dropped, which is
   exactly Go's uint32(len(f)) truncation *)
Fixpoint le_bytes (n : nat) (x : N) : list N :=
  match n with
  | O => []
  | S k => (x mod 256)%N :: le_bytes k (x / 256)%N
  end.

Definition u32le (x : N) : list N := le_bytes 4 x.
Definition u64le (x : N) : list N := le_bytes 8 x.

(* uint64(int64 value) *)
Definition u64_of_Z (z : Z) : N := Z.to_N (z mod 18446744073709551616)%Z.

(* "anysync:pubsub:v1" *)
Definition sign_prefix : list N :=
  [97; 110; 121; 115; 121; 110; 99; 58; 112; 117; 98; 115; 117; 98; 58; 118; 49]%N.

Definition lp (f : list N) : list N := u32le (N.of_nat (length f)) ++ f.

Inductive sigv := SigOf (key : N) (data : list N) | SigJunk (n : N).

Record msg := mkMsg {
  m_space : str; m_topic : str; m_id : str; m_key : str; m_ts : Z; m_payload : str;
  m_ident : option N; m_sig : sigv }.

(* the Relayed flag is not a field of the model: it is excluded from the signed bytes and ignored by the
   client path *)
Definition sign_data_of (space topic id key : str) (ts : Z) (payload : str) : list N :=
  sign_prefix ++ lp space ++ lp topic ++ lp id ++ lp key ++ u64le (u64_of_Z ts) ++ payload.

Definition sign_data (m : msg) : list N :=
  sign_data_of (m_space m) (m_topic m) (m_id m) (m_key m) (m_ts m) (m_payload m).

Definition verify (k : N) (data : list N) (s : sigv) : bool :=
  match s with
  | SigOf k' d => N.eqb k k' && str_eqb d data
  | SigJunk _ => false
  end.

(* ------------------------------------------------------------------ dedup.go: msgIdDedup *)

Definition msg_id_len : nat := 16.
Definition zero_id : str := repeat 0%N msg_id_len.

(* set: map[[16]byte]struct{} as a duplicate-free list; ring: the [size] slots; pos; full *)
Record ring := mkRing { r_set : list str; r_ring : list str; r_pos : nat; r_full : bool }.

Definition ring_new (size : nat) : ring := mkRing [] (repeat zero_id size) 0 false.

Fixpoint remove_str (x : str) (l : list str) : list str :=
  match l with
  | [] => []
  | y :: r => if str_eqb x y then remove_str x r else y :: remove_str x r
  end.

Fixpoint set_nth {A} (n : nat) (x : A) (l : list A) : list A :=
  match l, n with
  | [], _ => []
  | _ :: r, O => x :: r
  | y :: r, S k => y :: set_nth k x r
  end.

(* seen(id): (ring', reported as already seen) *)
Definition seen (r : ring) (id : str) : ring * bool :=
  if negb (Nat.eqb (length id) msg_id_len) then (r, false)
  else if mem_str id (r_set r) then (r, true)
  else
    let set1 := if r_full r then remove_str (nth (r_pos r) (r_ring r) zero_id) (r_set r) else r_set r in
    let ring' := set_nth (r_pos r) id (r_ring r) in
    let set2 := id :: set1 in
    let pos' := S (r_pos r) in
    if Nat.eqb pos' (length (r_ring r)) then (mkRing set2 ring' 0 true, false)
    else (mkRing set2 ring' pos' (r_full r), false).

(* ------------------------------------------------------------------ isStale *)

Definition is_stale (now ts skew : Z) : bool :=
  if Z.eqb ts 0 then false
  else let delta := (now - ts)%Z in Z.ltb skew delta || Z.ltb delta (- skew).

(* ------------------------------------------------------------------ client state *)

Record ccfg := mkCC {
  cc_ring : N;            (* Config.DedupSize (> 0 after withDefaults) *)
  cc_skew : Z;            (* Config.MaxTimestampSkew in ms *)
  cc_maxpat : N;          (* Config.MaxPatternsPerSpace *)
  cc_maxpay : N;          (* Config.MaxPayloadSize *)
  cc_self : N;            (* the account the service runs as *)
  cc_names : list str }.  (* identity.Account() of account k *)

Record cstate := mkC {
  c_tries : list (str * trie);             (* localTrie: spaceId -> trie of local patterns *)
  c_subs : list (str * list (str * N));    (* localSubs: spaceId -> pattern -> number of handlers *)
  c_members : list (str * N);              (* the fake MembershipChecker's table *)
  c_ring : ring }.

Definition cinit (c : ccfg) : cstate := mkC [] [] [] (ring_new (N.to_nat (cc_ring c))).

Definition subs_of (st : cstate) (s : str) : list (str * N) :=
  match assoc s (c_subs st) with Some l => l | None => [] end.

Definition count_of (ps : list (str * N)) (p : str) : N :=
  match assoc p ps with Some n => n | None => 0%N end.

Definition account_name (c : ccfg) (k : N) : str := nth (N.to_nat k) (cc_names c) [].

Definition pair_eqb (a b : str * N) : bool := str_eqb (fst a) (fst b) && N.eqb (snd a) (snd b).

Definition is_member (st : cstate) (s : str) (k : N) : bool :=
  existsb (pair_eqb (s, k)) (c_members st).

(* trie.Match on localTrie[space] (nil map entry -> no patterns) *)
Definition local_match (st : cstate) (s topic : str) : list str :=
  match assoc s (c_tries st) with Some t => trie_match t topic | None => [] end.

(* dispatchLoop: for every matched pattern, every handler registered for it *)
Definition invoked (st : cstate) (s : str) (pats : list str) : list str :=
  flat_map (fun p => repeat p (N.to_nat (count_of (subs_of st s) p))) pats.

(* ------------------------------------------------------------------ Subscribe / unsubscribe *)

Definition do_subscribe (c : ccfg) (st : cstate) (s p : str) : cstate * bool :=
  if negb (validate_pattern p) then (st, false)
  else
    let ps := subs_of st s in
    if N.leb (cc_maxpat c) (N.of_nat (length ps)) then (st, false)
    else
      let t := match assoc s (c_tries st) with Some t => t | None => trie_empty end in
      let n := count_of ps p in
      let t' := if N.eqb n 0 then fst (trie_add t p) else t in
      (mkC (set_kv s t' (c_tries st)) (set_kv s (set_kv p (n + 1)%N ps) (c_subs st))
           (c_members st) (c_ring st), true).

(* one live handler of (s, p) is unregistered; nothing is called when there is none *)
Definition do_unsubscribe (st : cstate) (s p : str) : cstate :=
  let ps := subs_of st s in
  let n := count_of ps p in
  if N.eqb n 0 then st
  else if N.ltb 1 n then
    mkC (c_tries st) (set_kv s (set_kv p (N.pred n) ps) (c_subs st)) (c_members st) (c_ring st)
  else
    let ps' := del_k p ps in
    match assoc s (c_tries st) with
    | None => mkC (c_tries st) (set_kv s ps' (c_subs st)) (c_members st) (c_ring st)
    | Some t =>
        let t' := fst (trie_remove t p) in
        if N.eqb (trie_len t') 0
        then mkC (del_k s (c_tries st)) (del_k s (c_subs st)) (c_members st) (c_ring st)
        else mkC (set_kv s t' (c_tries st)) (set_kv s ps' (c_subs st)) (c_members st) (c_ring st)
    end.

Definition do_set_member (st : cstate) (s : str) (k : N) (b : bool) : cstate :=
  let rest := filter (fun e => negb (pair_eqb (s, k) e)) (c_members st) in
  mkC (c_tries st) (c_subs st) (if b then (s, k) :: rest else rest) (c_ring st).

(* ------------------------------------------------------------------ handlePublish (client role) *)

Definition InvalidMessageC : N := 5.
Definition InvalidTopicC : N := 7.

(* which check ended the handling of a received Publish, in the order of the code *)
Inductive verdict :=
| VStatus (code : N)      (* handlePublish pre-checks: Status reply *)
| VNoInterest             (* (1) local trie has no matching pattern *)
| VBadIdent               (* (2) claimed identity does not unmarshal *)
| VNonMember              (* (3) Membership.CheckMember failed *)
| VNotOwner               (* (4) acc/ topic owned by someone else *)
| VStale                  (* (5) timestamp outside the skew window *)
| VBadSig                 (* (6) signature does not verify *)
| VDup                    (* (7) msgId is in the dedup ring *)
| VNoCrypto               (* (8) KeyId set but no Crypto (after the id was recorded) *)
| VDeliver (pats : list str).   (* (9) enqueued for the handlers of these patterns *)

Definition receive (c : ccfg) (st : cstate) (now : Z) (m : msg) : cstate * verdict :=
  if negb (Nat.eqb (length (m_id m)) msg_id_len) || N.ltb (cc_maxpay c) (N.of_nat (length (m_payload m)))
  then (st, VStatus InvalidMessageC)
  else if negb (validate_topic (m_topic m)) then (st, VStatus InvalidTopicC)
  else
    let pats := local_match st (m_space m) (m_topic m) in
    if is_nil pats then (st, VNoInterest)
    else match m_ident m with
    | None => (st, VBadIdent)
    | Some k =>
      if negb (is_member st (m_space m) k) then (st, VNonMember)
      else
        let owner := topic_owner (m_topic m) in
        if negb (is_nil owner) && negb (str_eqb (account_name c k) owner) then (st, VNotOwner)
        else if is_stale now (m_ts m) (cc_skew c) then (st, VStale)
        else if negb (verify k (sign_data m) (m_sig m)) then (st, VBadSig)
        else
          let '(r', dup) := seen (c_ring st) (m_id m) in
          let st' := mkC (c_tries st) (c_subs st) (c_members st) r' in
          if dup then (st', VDup)
          else if negb (is_nil (m_key m)) then (st', VNoCrypto)
          else (st', VDeliver pats)
    end.

(* service.Publish: (state', accepted, patterns enqueued for local delivery) *)
Definition do_publish (c : ccfg) (st : cstate) (s topic id : str) (plen : N) : cstate * bool * list str :=
  if negb (validate_topic topic) then (st, false, [])
  else if N.ltb (cc_maxpay c) plen then (st, false, [])
  else
    let owner := topic_owner topic in
    if negb (is_nil owner) && negb (str_eqb owner (account_name c (cc_self c))) then (st, false, [])
    else
      let st' := mkC (c_tries st) (c_subs st) (c_members st) (fst (seen (c_ring st) id)) in
      (st', true, local_match st s topic).

(* ------------------------------------------------------------------ events and observable outputs *)

Inductive cev :=
| CSub (s p : str)                      (* Subscribe(space, pattern, handler) *)
| CUnsub (s p : str)                    (* the unsubscribe closure of one live handler of (space, pattern) *)
| CSetMember (s : str) (k : N) (b : bool)
| CRecv (now : Z) (m : msg)             (* a Publish frame arrives; [now] = wall clock just before *)
| CPub (s topic id : str) (plen : N).   (* own Publish; [id] = the random MsgId it drew *)

Inductive cobs :=
| ONoneC
| OSubR (ok : bool)
| ORecv (status : option N) (inv : list str)   (* Status reply code; patterns whose handlers ran *)
| OPubR (ok : bool) (inv : list str).

Definition obs_of_verdict (st' : cstate) (m : msg) (v : verdict) : cobs :=
  match v with
  | VStatus code => ORecv (Some code) []
  | VDeliver pats => ORecv None (invoked st' (m_space m) pats)
  | _ => ORecv None []
  end.

Definition cstep (c : ccfg) (st : cstate) (e : cev) : cstate * cobs :=
  match e with
  | CSub s p => let '(st', ok) := do_subscribe c st s p in (st', OSubR ok)
  | CUnsub s p => (do_unsubscribe st s p, ONoneC)
  | CSetMember s k b => (do_set_member st s k b, ONoneC)
  | CRecv now m => let '(st', v) := receive c st now m in (st', obs_of_verdict st' m v)
  | CPub s topic id plen =>
      let '(st', ok, pats) := do_publish c st s topic id plen in (st', OPubR ok (invoked st' s pats))
  end.

Fixpoint client_run (c : ccfg) (st : cstate) (evs : list cev) : list cobs :=
  match evs with
  | [] => []
  | e :: r => let '(st', o) := cstep c st e in o :: client_run c st' r
  end.

Definition client_exec (c : ccfg) (st : cstate) (evs : list cev) : cstate :=
  fold_left (fun st e => fst (cstep c st e)) evs st.

(* ------------------------------------------------------------------ declarative specification *)
(* The predicate keeps its own state: the multiset of live local subscriptions (one entry per handler),
   the member table, and the list of RECORDED message ids in order (own publishes + receives that passed
   every check up to and including the signature).  It never calls [receive]/[seen]/the trie. *)

Record sst := mkS { s_subs : list (str * str); s_members : list (str * N); s_rec : list str }.

Definition sinit : sst := mkS [] [] [].

Definition sp_eqb (a b : str * str) : bool := str_eqb (fst a) (fst b) && str_eqb (snd a) (snd b).

Fixpoint sp_count (x : str * str) (l : list (str * str)) : nat :=
  match l with [] => O | y :: r => (if sp_eqb x y then 1 else 0) + sp_count x r end.

Fixpoint sp_remove1 (x : str * str) (l : list (str * str)) : list (str * str) :=
  match l with [] => [] | y :: r => if sp_eqb x y then r else y :: sp_remove1 x r end.

(* distinct patterns subscribed in a space *)
Definition space_patterns (ss : sst) (s : str) : list str :=
  dedup_str (map snd (filter (fun e => str_eqb s (fst e)) (s_subs ss))).

(* the last n elements *)
Definition lastn {A} (n : nat) (l : list A) : list A := skipn (length l - n) l.

Fixpoint str_count (x : str) (l : list str) : nat :=
  match l with [] => O | y :: r => (if str_eqb x y then 1 else 0) + str_count x r end.

(* exactly the handlers of the live patterns matching the topic ran, each once *)
Definition exact_delivery (ss : sst) (s topic : str) (inv : list str) : bool :=
  forallb (fun p => Nat.eqb (str_count p inv)
                      (if spec_matches p topic then sp_count (s, p) (s_subs ss) else 0))
          (space_patterns ss s)
  && forallb (fun p => mem_str p (space_patterns ss s)) inv.

Definition has_interest (ss : sst) (s topic : str) : bool :=
  existsb (fun p => spec_matches p topic) (space_patterns ss s).

Definition in_window (c : ccfg) (ss : sst) (id : str) : bool :=
  mem_str id (lastn (N.to_nat (cc_ring c)) (s_rec ss)).

(* genuine: signed by the claimed identity over exactly the bytes of this message *)
Definition genuine (m : msg) : bool :=
  match m_ident m, m_sig m with
  | Some k, SigOf k' d => N.eqb k k' && str_eqb d (sign_data m)
  | _, _ => false
  end.

Definition fresh_ts (c : ccfg) (now ts : Z) : bool :=
  Z.eqb ts 0 || (Z.leb (now - ts) (cc_skew c) && Z.leb (- cc_skew c) (now - ts)).

Definition authorized (c : ccfg) (ss : sst) (m : msg) : bool :=
  match m_ident m with
  | Some k => existsb (pair_eqb (m_space m, k)) (s_members ss)
              && (is_nil (topic_owner (m_topic m)) || str_eqb (account_name c k) (topic_owner (m_topic m)))
  | None => false
  end.

Definition well_formed (c : ccfg) (m : msg) : bool :=
  Nat.eqb (length (m_id m)) msg_id_len && N.leb (N.of_nat (length (m_payload m))) (cc_maxpay c).

(* passes everything up to the signature: this is what gets RECORDED unless it is a replay *)
Definition acceptable (c : ccfg) (ss : sst) (now : Z) (m : msg) : bool :=
  well_formed c m && spec_valid_topic (m_topic m) && has_interest ss (m_space m) (m_topic m)
  && authorized c ss m && fresh_ts c now (m_ts m) && genuine m.

Definition spec_step (c : ccfg) (ss : sst) (e : cev) (o : cobs) : bool * sst :=
  match e, o with
  | CSub s p, OSubR ok =>
      let want := spec_valid_pattern p && N.ltb (N.of_nat (length (space_patterns ss s))) (cc_maxpat c) in
      (Bool.eqb ok want,
       if want then mkS ((s, p) :: s_subs ss) (s_members ss) (s_rec ss) else ss)
  | CUnsub s p, ONoneC => (true, mkS (sp_remove1 (s, p) (s_subs ss)) (s_members ss) (s_rec ss))
  | CSetMember s k b, ONoneC =>
      let rest := filter (fun e => negb (pair_eqb (s, k) e)) (s_members ss) in
      (true, mkS (s_subs ss) (if b then (s, k) :: rest else rest) (s_rec ss))
  | CRecv now m, ORecv status inv =>
      if negb (well_formed c m) then
        (match status with Some code => N.eqb code InvalidMessageC | None => false end && is_nil inv, ss)
      else if negb (spec_valid_topic (m_topic m)) then
        (match status with Some code => N.eqb code InvalidTopicC | None => false end && is_nil inv, ss)
      else
        let no_status := match status with None => true | Some _ => false end in
        if acceptable c ss now m then
          if in_window c ss (m_id m) then (no_status && is_nil inv, ss)            (* replay: suppressed *)
          else
            let ss' := mkS (s_subs ss) (s_members ss) (s_rec ss ++ [m_id m]) in
            if is_nil (m_key m)
            then (no_status && negb (is_nil inv) && exact_delivery ss (m_space m) (m_topic m) inv, ss')
            else (no_status && is_nil inv, ss')                                     (* no Crypto configured *)
        else (no_status && is_nil inv, ss)       (* forged / stale / non-member / unowned / no interest *)
  | CPub s topic id plen, OPubR ok inv =>
      let owner := topic_owner topic in
      let want := spec_valid_topic topic && N.leb plen (cc_maxpay c)
                  && (is_nil owner || str_eqb owner (account_name c (cc_self c))) in
      if want then
        let rec' := if Nat.eqb (length id) msg_id_len && negb (in_window c ss id)
                    then s_rec ss ++ [id] else s_rec ss in
        (ok && exact_delivery ss s topic inv, mkS (s_subs ss) (s_members ss) rec')
      else (negb ok && is_nil inv, ss)
  | _, _ => (false, ss)
  end.

Fixpoint spec_run (c : ccfg) (ss : sst) (evs : list cev) (obs : list cobs) : bool :=
  match evs, obs with
  | [], [] => true
  | e :: r, o :: ro => let '(ok, ss') := spec_step c ss e o in ok && spec_run c ss' r ro
  | _, _ => false
  end.

Definition spec_C17_client (c : ccfg) (evs : list cev) (obs : list cobs) : bool :=
  spec_run c sinit evs obs.
