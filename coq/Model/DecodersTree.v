(* Model/DecodersTree.v — the tree-change entry point of property C11: a batch of (structurally valid, validly
   signed) raw changes from another party applied by objectTree.AddRawChanges, normal path
   (objecttree.go addChangesToTree -> Tree.Add -> validateTree -> createAddResult).  Definitions only.

   The in-memory tree is the model of Model/Tree.v (Tree.add / canAttachOrRemove / attach with the wait list,
   one wait-list entry PER CITATION of a missing parent, unAttached cleared and the wait list KEPT at the end of
   every Add).  What C11 adds is the fault that the batch loop can raise:
     createAddResult:  rawChange := ch.rawChange; ... rawChange.RawChange ...; ch.rawChange = nil
   [ch.rawChange] is set for the changes of newChangesBuf only and cleared when the change is reported, so a change
   that Tree.Add reports TWICE (or one that is not of this batch) is a nil-pointer dereference.
   Validation (validateTree: signatures were checked by Unmarshall, permissions by the validator) is a black box
   [valid]; batches are snapshot-free (SnapshotId = the tree root), so the rebuild-from-storage path and
   reduceTree are not entered (they are the subject of C06). *)
From Coq Require Import List NArith Bool Arith.
Import ListNotations.
From AnySync Require Export Model.Tree.
From AnySync Require Import Model.Decoders.

(* createAddResult(oldHeads, mode, changes): [raw] = ids whose Change object carries a rawChange *)
Fixpoint create_add_result (raw : list N) (changes : list N) : outcome (list N) :=
  match changes with
  | [] => Ok []
  | i :: r =>
      if mem i raw
      then match create_add_result (filter (fun j => negb (N.eqb j i)) raw) r with   (* ch.rawChange = nil *)
           | Ok l => Ok (i :: l)
           | Err e => Err e
           | Panic w => Panic w
           end
      else Panic PNil                                                                 (* rawChange.RawChange *)
  end.

Definition err_invalid : N := 1.

(* AddRawChanges, normal path: (tree afterwards, Ok (Added ids in order, Heads) | Err | Panic) *)
Definition add_raw_normal (valid : bool) (t : tree) (batch : list change) : tree * outcome (list N * list N) :=
  let newcs := filter (fun c => negb (attached t (cid c))) batch in
  match newcs with
  | [] => (t, Ok ([], t_heads t))
  | _ =>
      let '(t1, m, added) := tree_add t newcs in
      match added with
      | [] => (t1, Ok ([], t_heads t))                      (* mode Nothing *)
      | _ =>
          if valid then
            match create_add_result (ids newcs) added with
            | Ok l => (t1, Ok (l, t_heads t1))
            | Err e => (t, Err e)
            | Panic w => (t, Panic w)
            end
          else (t, Err err_invalid)                         (* rollback; the run stops here *)
      end
  end.

(* one observation row per delivered batch: class, Added, Heads *)
Definition ta_row := (cls * list N * list N)%type.

(* a stream of batches; the run stops at the first batch that is not accepted *)
Fixpoint add_raw_run (t : tree) (bs : list (list change * bool)) : list ta_row :=
  match bs with
  | [] => []
  | (b, valid) :: r =>
      match add_raw_normal valid t b with
      | (t', Ok (added, heads)) => (COk, added, heads) :: add_raw_run t' r
      | (_, Err _) => [(CErr, [], [])]
      | (_, Panic _) => [(CPanic, [], [])]
      end
  end.

(* the tree a fresh object tree holds: the root change loaded from storage (Tree.AddFast) *)
Definition ta_init (root : change) : tree := fst (tree_add_fast empty_tree [root]).

(* ---- the property over OBSERVED behaviour (no model function of the implementation is called) ---- *)

Fixpoint nodupb (l : list N) : bool :=
  match l with
  | [] => true
  | x :: r => negb (mem x r) && nodupb r
  end.

Definition subsetb (a b : list N) : bool := forallb (fun i => mem i b) a.

(* per batch: accepted or rejected with an error (never panic / hang / over-allocation); an accepted batch reports
   every change at most once and only changes of the batch *)
Definition ta_row_ok (b : list change) (r : ta_row) : bool :=
  let '(c, added, _) := r in
  spec_C11 c && nodupb added && subsetb added (ids b).

Fixpoint ta_rows_ok (bs : list (list change)) (rows : list ta_row) : bool :=
  match bs, rows with
  | b :: bs', r :: rows' => ta_row_ok b r && ta_rows_ok bs' rows'
  | _, [] => true
  | [], _ :: _ => false
  end.

(* [follow_ok]: an honest change made on top of the tree afterwards was accepted;
   [rebuilt_same]: the tree rebuilt from its storage has the heads of the in-memory tree *)
Definition spec_C11_treeadd (bs : list (list change)) (rows : list ta_row) (follow_ok rebuilt_same : bool) : bool :=
  ta_rows_ok bs rows && follow_ok && rebuilt_same.

(* ---- the design "the wait list holds the waiting changes themselves" (NOT the code): no second lookup in
   unAttached when the parent attaches.  Used for the refutation only. ---- *)

Definition pwait := list (N * list change).

Fixpoint pw_lookup (m : pwait) (k : N) : list change :=
  match m with
  | [] => []
  | (k', v) :: r => if N.eqb k' k then v else pw_lookup r k
  end.

Fixpoint pw_append (m : pwait) (k : N) (c : change) : pwait :=
  match m with
  | [] => [(k, [c])]
  | (k', v) :: r => if N.eqb k' k then (k', v ++ [c]) :: r else (k', v) :: pw_append r k c
  end.

Fixpoint pw_delete (m : pwait) (k : N) : pwait :=
  match m with
  | [] => []
  | (k', v) :: r => if N.eqb k' k then pw_delete r k else (k', v) :: pw_delete r k
  end.

(* state: attached ids, unAttached ids, wait list of changes, addedBuf *)
Record ptree := mkPT { p_att : list N; p_unatt : list N; p_wait : pwait; p_added : list N }.

Definition p_can_attach (t : ptree) (c : change) : bool :=
  forallb (fun p => mem p (p_att t)) (cprev c) && mem (csnap c) (p_att t).

Fixpoint p_attach (fuel : nat) (t : ptree) (c : change) : ptree :=
  match fuel with
  | O => t
  | S f =>
      let t1 := mkPT (cid c :: p_att t) (filter (fun j => negb (N.eqb j (cid c))) (p_unatt t)) (p_wait t)
                     (p_added t ++ [cid c]) in
      let t2 := fold_left (fun ta nxt => if p_can_attach ta nxt then p_attach f ta nxt else ta)
                          (pw_lookup (p_wait t1) (cid c)) t1 in
      mkPT (p_att t2) (p_unatt t2) (pw_delete (p_wait t2) (cid c)) (p_added t2)
  end.

Definition p_add (t : ptree) (c : change) : ptree :=
  if mem (cid c) (p_att t) || mem (cid c) (p_unatt t) then t
  else
    let miss := filter (fun p => negb (mem p (p_att t))) (cprev c) in
    match miss with
    | [] => if mem (csnap c) (p_att t) then p_attach (S (S (length (p_unatt t)))) t c else t
    | _ => mkPT (p_att t) (cid c :: p_unatt t) (fold_left (fun w p => pw_append w p c) miss (p_wait t)) (p_added t)
    end.

(* AddRawChanges of one batch on a tree holding [att], with the pointer wait list *)
Definition p_add_raw (att : list N) (batch : list change) : outcome (list N) :=
  let t := fold_left p_add batch (mkPT att [] [] []) in
  create_add_result (ids batch) (p_added t).
