(* Model/Dfs.v — the iterative depth-first topological sort of
   commonspace/object/tree/objecttree/treeiterator.go (iterator.topSort / makeIterBuffer / iterate)
   and Tree.dfsNext (tree.go).  Definitions only.

   topSort:   stack := [start]
              loop: pop ch
                    if ch.branchesFinished { resBuf = append(resBuf, ch); ch.branchesFinished = false; continue }
                    if ch.visited { continue }
                    push ch; ch.visited = true; ch.branchesFinished = true
                    for j := 0..len(ch.Next)-1 { if !ch.Next[j].visited { push ch.Next[j] } }
   iterate walks resBuf from its END to its start, so the presented order is the reverse post-order.
   The model keeps the result already reversed ([d_res] = presented order so far, new elements consed). *)
From Coq Require Import List NArith Bool Arith.
Import ListNotations.
From AnySync Require Export Lib.Dag.

Record dstate := mkD {
  d_stack : list N;   (* head = top of the Go slice stack *)
  d_vis   : list N;   (* changes with visited = true *)
  d_bf    : list N;   (* changes with branchesFinished = true *)
  d_res   : list N    (* reverse of resBuf *)
}.

Section Dfs.
  Variable nx : N -> list N.   (* ch.Next as ids, in slice order *)

  Definition dfs_step (s : dstate) : dstate :=
    match d_stack s with
    | [] => s
    | ch :: st =>
        if mem ch (d_bf s) then
          mkD st (d_vis s) (filter (fun i => negb (N.eqb i ch)) (d_bf s)) (ch :: d_res s)
        else if mem ch (d_vis s) then
          mkD st (d_vis s) (d_bf s) (d_res s)
        else
          let vis' := ch :: d_vis s in
          mkD (rev (filter (fun i => negb (mem i vis')) (nx ch)) ++ ch :: st) vis' (ch :: d_bf s) (d_res s)
    end.

  (* None = out of fuel *)
  Fixpoint dfs_loop (fuel : nat) (s : dstate) : option (list N) :=
    match d_stack s with
    | [] => Some (d_res s)
    | _ :: _ =>
        match fuel with
        | O => None
        | S f => dfs_loop f (dfs_step s)
        end
    end.

  Definition dfs_init (start : N) : dstate := mkD [start] [] [] [].

  (* Tree.dfsNext with visit = continue: the set of changes reachable through Next from the stack *)
  Fixpoint reach_loop (fuel : nat) (stack visited : list N) : list N :=
    match fuel with
    | O => visited
    | S f =>
        match stack with
        | [] => visited
        | ch :: st =>
            if mem ch visited then reach_loop f st visited
            else let vis' := ch :: visited in
                 reach_loop f (rev (filter (fun i => negb (mem i vis')) (nx ch)) ++ st) vis'
        end
    end.
End Dfs.

(* fuel that suffices for a graph whose Next lists are [next_of S] (Proofs/DfsTotal.v):
   every change is pushed at most once per citation, once more for its second visit, plus the start *)
Definition dfs_fuel (S : list change) : nat := (length S + 1) * (sum_prev S + 2) + 1.

(* the changes of S other than the root: the root's own previous ids lie outside the view by definition
   (a tree rebuilt at a snapshot starts at a change that has previous ids) *)
Definition view (S : list change) (root : N) : list change :=
  filter (fun c => negb (N.eqb (cid c) root)) S.

(* the canonical presented order of the change set S from [root]; None = out of fuel (excluded by
   order_total in Proofs/DfsBase.v, and never observed in the correspondence runs) *)
Definition order_opt (S : list change) (root : N) : option (list N) :=
  let V := view S root in dfs_loop (next_of V) (dfs_fuel V) (dfs_init root).

Definition order (S : list change) (root : N) : list N :=
  match order_opt S root with
  | Some l => l
  | None => []
  end.
