(* Model of the deletion machinery of a space (property C15).  Definitions only.

   Mirrors, at the granularity of one exported call each:
     headstorage.UpdateEntry (upsert, observers notified only when a key changed)          -> [upd]
     DiffManager.UpdateHeads / FillDiff                                                    -> [notify] / [filldiff]
     deletionstate.Add / Delete / Run                                                      -> [st_add] / [st_delete] / [restart]
     objecttree.CreateStorageTx (root insert, parent checks, late-child queueing)          -> [create_storage]
     synctree.PutSyncTree, BuildSyncTreeOrGetRemote (+ treeRemoteGetter.getTree)           -> [do_put] / [do_fetch]
     storage.AddAll                                                                        -> [add_change]
     deleter.Delete / deleteBoundChildren / tryMarkDeleted (cancellable between items)     -> [worker]
     settingsstate: StateBuilder.Build incremental / from scratch                          -> [sderive_*] (second part)

   The boolean [fixed] selects the repaired CreateStorageTx (fixes/C15-create-storage-tombstone.patch: the
   tombstone is re-checked inside the creating transaction); [fixed = false] is the code as found. *)
From Coq Require Import List NArith Bool.
Import ListNotations.
Open Scope N_scope.

(* ------------------------------------------------------------------ small list-as-set helpers *)
Fixpoint memb (x : N) (l : list N) : bool :=
  match l with [] => false | y :: r => (x =? y) || memb x r end.
Definition sadd (x : N) (l : list N) : list N := if memb x l then l else l ++ [x].
Definition srem (x : N) (l : list N) : list N := filter (fun y => negb (y =? x)) l.
Definition sunion (a b : list N) : list N := fold_left (fun acc x => sadd x acc) b a.

Fixpoint nlist_eqb (a b : list N) : bool :=
  match a, b with
  | [], [] => true
  | x :: r, y :: q => (x =? y) && nlist_eqb r q
  | _, _ => false
  end.

Fixpoint ninsert (x : N) (l : list N) : list N :=
  match l with
  | [] => [x]
  | y :: r => if x <? y then x :: l else if x =? y then l else y :: ninsert x r
  end.
(* sorted, duplicate-free *)
Definition nsort (l : list N) : list N := fold_right ninsert [] l.

(* ------------------------------------------------------------------ durable state *)
(* One document of the "heads" collection.  e_status: 0 = key absent (not deleted), 1 = queued, 2 = deleted.
   e_parent: 0 = no parent.  e_derived: 0 = key absent, 1 = false, 2 = true.  e_cs: common-snapshot key present. *)
Record entry := mkE { e_id : N; e_status : N; e_parent : N; e_derived : N; e_heads : list N; e_cs : bool }.

Definition blank (i : N) : entry := mkE i 0 0 0 [] false.

Definition entry_eqb (a b : entry) : bool :=
  (e_id a =? e_id b) && (e_status a =? e_status b) && (e_parent a =? e_parent b) &&
  (e_derived a =? e_derived b) && nlist_eqb (e_heads a) (e_heads b) && Bool.eqb (e_cs a) (e_cs b).

Fixpoint find_e (i : N) (l : list entry) : option entry :=
  match l with [] => None | e :: r => if e_id e =? i then Some e else find_e i r end.
Fixpoint put_e (e : entry) (l : list entry) : list entry :=
  match l with [] => [e] | x :: r => if e_id x =? e_id e then e :: r else x :: put_e e r end.

Fixpoint find_c (i : N) (l : list (N * list N)) : option (list N) :=
  match l with [] => None | p :: r => if fst p =? i then Some (snd p) else find_c i r end.
Fixpoint put_c (i : N) (v : list N) (l : list (N * list N)) : list (N * list N) :=
  match l with [] => [(i, v)] | p :: r => if fst p =? i then (i, v) :: r else p :: put_c i v r end.
Definition del_c (i : N) (l : list (N * list N)) : list (N * list N) :=
  filter (fun p => negb (fst p =? i)) l.

(* ents, chg, slog are durable; idx (ldiff of DiffManager), mq/md (deletionstate), hist (notifications sent since
   the last start, for stale re-delivery), sset (settings state DeletedIds) are in memory. *)
Record state := mkS {
  ents : list entry;
  chg  : list (N * list N);
  idx  : list N;
  mq   : list N;
  md   : list N;
  hist : list entry;
  slog : list (list N);
  sset : list N
}.

Definition init : state := mkS [] [] [] [] [] [] [] [].

Definition with_ents v s := mkS v (chg s) (idx s) (mq s) (md s) (hist s) (slog s) (sset s).
Definition with_chg  v s := mkS (ents s) v (idx s) (mq s) (md s) (hist s) (slog s) (sset s).
Definition with_idx  v s := mkS (ents s) (chg s) v (mq s) (md s) (hist s) (slog s) (sset s).
Definition with_mq   v s := mkS (ents s) (chg s) (idx s) v (md s) (hist s) (slog s) (sset s).
Definition with_md   v s := mkS (ents s) (chg s) (idx s) (mq s) v (hist s) (slog s) (sset s).
Definition with_hist v s := mkS (ents s) (chg s) (idx s) (mq s) (md s) v (slog s) (sset s).
Definition with_slog v s := mkS (ents s) (chg s) (idx s) (mq s) (md s) (hist s) v (sset s).
Definition with_sset v s := mkS (ents s) (chg s) (idx s) (mq s) (md s) (hist s) (slog s) v.

Definition get (i : N) (s : state) : entry :=
  match find_e i (ents s) with Some e => e | None => blank i end.
Definition has_entry (i : N) (s : state) : bool :=
  match find_e i (ents s) with Some _ => true | None => false end.
Definition status (i : N) (s : state) : N := e_status (get i s).
Definition has_chg (i : N) (s : state) : bool :=
  match find_c i (chg s) with Some _ => true | None => false end.
(* spacestorage.TreeStorage(id) succeeds: heads entry present and root change present *)
Definition has_storage (i : N) (s : state) : bool := has_entry i s && has_chg i s.
Definition mem (i : N) (s : state) : bool := memb i (mq s) || memb i (md s).

(* DiffManager.UpdateHeads *)
Definition apply_update (e : entry) (s : state) : state :=
  if negb (e_status e =? 0) then with_idx (srem (e_id e) (idx s)) s
  else if mem (e_id e) s then s
  else if nlist_eqb (e_heads e) [e_id e] then s
  else with_idx (sadd (e_id e) (idx s)) s.

(* observer call of headstorage.UpdateEntry: recorded (for stale re-delivery) and applied *)
Definition notify (e : entry) (s : state) : state :=
  apply_update e (with_hist (hist s ++ [e]) s).

(* headstorage.UpdateEntry: upsert; nothing happens (no insert, no observer call) when no key changed *)
Definition upd (i : N) (f : entry -> entry) (s : state) : state :=
  let old := get i s in
  let new := f old in
  if entry_eqb old new then s
  else notify new (with_ents (put_e new (ents s)) s).

Definition set_status (v : N) (e : entry) : entry :=
  mkE (e_id e) v (e_parent e) (e_derived e) (e_heads e) (e_cs e).
Definition set_heads (h : list N) (e : entry) : entry :=
  mkE (e_id e) (e_status e) (e_parent e) (e_derived e) h true.
Definition set_created (i parent : N) (derived : bool) (e : entry) : entry :=
  mkE i (e_status e) (if parent =? 0 then e_parent e else parent) (if derived then 2 else 1) [i] true.

(* ------------------------------------------------------------------ deletionstate *)
Definition st_add_one (s : state) (i : N) : state :=
  if mem i s then s
  else let s1 := upd i (set_status 1) s in with_mq (sadd i (mq s1)) s1.
Definition st_add (ids : list N) (s : state) : state := fold_left st_add_one ids s.

Definition st_delete (i : N) (s : state) : state :=
  let s1 := with_md (sadd i (md s)) (with_mq (srem i (mq s)) s) in
  upd i (set_status 2) s1.

(* ------------------------------------------------------------------ tree storage *)
Inductive out :=
| OOk | OLocal | OErrDeleted | OErrExists | OErrParent | OErrDerivedParent | ONoTree | OErrOther
| OWorker (queue : list N).

Definition tomb (i : N) (s : state) : bool := has_entry i s && negb (status i s =? 0).

(* objecttree.CreateStorage (one write transaction: on error nothing is kept) *)
Definition create_storage (fixed : bool) (i parent : N) (derived : bool) (s : state) : state * out :=
  if fixed && tomb i s then (s, OErrDeleted) else
  if has_chg i s then (s, OErrExists) else
  let s1 := with_chg (put_c i [i] (chg s)) s in
  let bad :=
    if parent =? 0 then None
    else if negb (has_entry parent s1) then Some OErrParent
    else if e_derived (get parent s1) =? 2 then Some OErrDerivedParent else None in
  match bad with
  | Some o => (s, o)
  | None =>
      let s2 := upd i (set_created i parent derived) s1 in
      let s3 := if parent =? 0 then s2
                else if has_entry parent s2 && (1 <=? status parent s2) then upd i (set_status 1) s2 else s2 in
      (s3, OOk)
  end.

(* storage.AddAll with one new change h, heads = [h] *)
Definition add_change (i h : N) (s : state) : state :=
  let cur := match find_c i (chg s) with Some l => l | None => [] end in
  upd i (set_heads [h]) (with_chg (put_c i (cur ++ [h]) (chg s)) s).

(* synctree.PutSyncTree *)
Definition do_put (fixed : bool) (i parent : N) (derived : bool) (s : state) : state * out :=
  if tomb i s then (s, OErrDeleted) else create_storage fixed i parent derived s.

(* second half of a remote fetch: the response arrived; storage is created and the changes are added in one
   transaction (storageDeferredCreation) *)
Definition fetch_finish (fixed : bool) (i parent : N) (derived : bool) (h : N) (s : state) : state * out :=
  match create_storage fixed i parent derived s with
  | (s1, OOk) => (add_change i h s1, OOk)
  | (_, o) => (s, o)
  end.

(* ------------------------------------------------------------------ deletion worker *)
Definition children_of (p : N) (s : state) : list N :=
  nsort (map e_id (filter (fun e => (e_parent e =? p) && negb (p =? 0)) (ents s))).

(* worker state: model state, number of tree-manager calls made so far; the context is cancelled once
   [k] calls have been made *)
Definition cancelled (k calls : N) : bool := k <=? calls.

(* tryMarkDeleted + DeleteTree + state.Delete for one id; None = the tree manager failed (continue) *)
Definition delete_one (fail : list N) (i : N) (s : state) : option state :=
  if memb i fail then None
  else Some (st_delete i (if has_storage i s then with_chg (del_c i (chg s)) s else s)).

Fixpoint worker_children (k : N) (fail : list N) (cs : list N) (w : state * N) : state * N :=
  match cs with
  | [] => w
  | c :: r =>
      let '(s, calls) := w in
      if cancelled k calls then w
      else if 2 <=? status c s then worker_children k fail r w
      else match delete_one fail c s with
           | None => worker_children k fail r (s, N.succ calls)
           | Some s' => worker_children k fail r (s', N.succ calls)
           end
  end.

Fixpoint worker_loop (k : N) (fail : list N) (order : list N) (w : state * N) : state * N :=
  match order with
  | [] => w
  | i :: r =>
      let '(s, calls) := w in
      if cancelled k calls then w
      else match delete_one fail i s with
           | None => worker_loop k fail r (s, N.succ calls)
           | Some s' => worker_loop k fail r (worker_children k fail (children_of i s') (s', N.succ calls))
           end
  end.

(* deleter.Delete: [order] is the order in which GetQueued returned the queue (a Go map iteration) *)
Definition worker (order : list N) (k : N) (fail : list N) (s : state) : state :=
  fst (worker_loop k fail (filter (fun i => memb i (mq s)) order) (s, 0)).

(* number of tree-manager calls the run made; the context is cancelled once [k] calls have been made, so
   [worker_calls order k fail s < k] says that the run was never cancelled *)
Definition worker_calls (order : list N) (k : N) (fail : list N) (s : state) : N :=
  snd (worker_loop k fail (filter (fun i => memb i (mq s)) order) (s, 0)).

(* Transient storage errors.  [sfail] = ids whose tree storage Delete (objecttree storage.Delete: one write
   transaction) fails while this run lasts.  DeleteTree is only called for an id that tryMarkDeleted found stored, and
   it is: tree manager takes the sync tree from its cache or builds it (BuildSyncTreeOrGetRemote), syncTree.Delete ->
   objectTree.Delete -> storage.Delete.  Both trees set their isDeleted flag only AFTER the storage was deleted, so a
   failed Delete leaves the (cached) sync tree alive, the error reaches deleter.Delete as an ordinary error ("failed
   to delete object", continue) and a later attempt goes to the storage again.  For the run this is a tree-manager
   failure for exactly the ids of [sfail] that are stored: an id without storage takes the MarkTreeDeleted path, which
   does not touch its storage; and during the run the storage of an id of [sfail] neither appears nor disappears
   (only a successful delete of that id removes it), so evaluating "stored" at the start of the run is exact. *)
Definition sfail_eff (sfail : list N) (s : state) : list N := filter (fun i => has_storage i s) sfail.
Definition worker_s (order : list N) (k : N) (fail sfail : list N) (s : state) : state :=
  worker order k (fail ++ sfail_eff sfail s) s.

(* ------------------------------------------------------------------ start-up *)
Definition ids_with_status (v : N) (s : state) : list N :=
  map e_id (filter (fun e => e_status e =? v) (ents s)).

(* deletionstate.Run, second part: children of fully deleted parents that are not yet marked are queued.
   No observer is registered at that time. *)
Definition orphan_one (s : state) (c : N) : state :=
  if status c s =? 0
  then with_mq (sadd c (mq s)) (with_ents (put_e (set_status 1 (get c s)) (ents s)) s)
  else s.
Definition orphan_scan (s : state) : state :=
  fold_left (fun s p => fold_left orphan_one (children_of p s) s) (md s) s.

(* DiffManager.FillDiff *)
Definition fill_skip (e : entry) : bool :=
  match e_heads e with
  | h :: _ => (h =? e_id e) && ((e_derived e =? 2) || e_cs e)
  | [] => false
  end.
Definition filldiff (s : state) : list N :=
  map e_id (filter (fun e => (e_status e =? 0) && negb (fill_skip e)) (ents s)).

Definition restart (s : state) : state :=
  let s0 := mkS (ents s) (chg s) [] (ids_with_status 1 s) (ids_with_status 2 s) [] (slog s) [] in
  let s1 := orphan_scan s0 in
  with_idx (filldiff s1) s1.

(* ------------------------------------------------------------------ operations *)
Inductive op :=
| OpPut (i parent : N) (derived : bool)
| OpFetch (i parent : N) (derived : bool) (h : N) (remote : bool)
(* remote fetch during whose round trip the deletion of [i] is recorded and the worker runs once *)
| OpFetchRace (i parent : N) (derived : bool) (h : N) (order : list N)
(* remote fetch during which the deletion of [i] is recorded at a chosen STAGE of BuildSyncTreeOrGetRemote:
     0 after the local storage lookup missed, before the tombstone check (checkTreeDeleted)
     1 after the tombstone check, before the request is sent      2 while the response is in flight
     3 right after CreateStorageWithDeferredCreation handed out the deferred storage (validation of the changes)
     4 at the entry of the first AddAll, before its (creating) write transaction
     5 after that AddAll returned (the tree is stored: an ordinary deletion of an existing tree)
   [del]: 0 nothing is recorded, 1 the settings change only (UpdateState: status Queued), 2 + one deletion worker run
   ([order] = the queue order it saw; an absent tree becomes Deleted at once) *)
| OpFetchStaged (i parent : N) (derived : bool) (h : N) (stage del : N) (order : list N)
(* PutSyncTree with the deletion recorded: 0 before its tombstone check, 1 after the check and before the creating
   transaction of CreateTreeStorage, 2 after CreateTreeStorage returned *)
| OpPutStaged (i parent : N) (derived : bool) (stage del : N) (order : list N)
| OpHead (i h : N)
| OpStale (n : nat)
| OpSettings (ids : list N)
| OpSettingsInit
| OpWorker (order : list N) (k : N) (fail : list N)
(* a worker run during which the tree storage Delete of the ids [sfail] fails with a transient storage error *)
| OpWorkerS (order : list N) (k : N) (fail sfail : list N)
| OpRestart.

Definition do_settings (ids : list N) (s : state) : state :=
  let ss := sunion (sset s) ids in
  st_add ss (with_sset ss (with_slog (slog s ++ [ids]) s)).

Definition never : N := 1000000000.

(* the deletion of [i] being recorded (deletionManager.UpdateState, then possibly deleter.Delete once) *)
Definition inject (del i : N) (order : list N) (s : state) : state :=
  if del =? 0 then s
  else let s1 := do_settings [i] s in
       if del =? 1 then s1 else worker order never [] s1.
Definition inject_at (k stage del i : N) (order : list N) (s : state) : state :=
  if stage =? k then inject del i order s else s.
(* stages 1..4 are one point for the store: between the tombstone check and the creating transaction *)
Definition mid_stage (stage : N) : bool := (1 <=? stage) && (stage <=? 4).

(* buildSyncTree opens the storage it was handed (BuildObjectTree reads root / heads / common snapshot): if the tree
   was created and has been deleted again in the meantime, that fails with an ordinary error *)
Definition opened (i : N) (s : state) (o : out) : out :=
  match o with
  | OOk => if has_chg i s then OOk else OErrOther
  | _ => o
  end.

Definition fetch_staged (fixed : bool) (i parent : N) (derived : bool) (h stage del : N) (order : list N)
           (s : state) : state * out :=
  if has_storage i s then (s, OLocal)                                   (* SpaceStorage.TreeStorage(id) *)
  else
    let s0 := inject_at 0 stage del i order s in
    if tomb i s0 then (s0, OErrDeleted)                                 (* checkTreeDeleted *)
    else
      let s1 := if mid_stage stage then inject del i order s0 else s0 in
      match fetch_finish fixed i parent derived h s1 with                (* the creating transaction *)
      | (s2, o) => let s3 := inject_at 5 stage del i order s2 in (s3, opened i s3 o)
      end.

Definition put_staged (fixed : bool) (i parent : N) (derived : bool) (stage del : N) (order : list N)
           (s : state) : state * out :=
  let s0 := inject_at 0 stage del i order s in
  if tomb i s0 then (s0, OErrDeleted)                                   (* checkTreeDeleted *)
  else
    let s1 := inject_at 1 stage del i order s0 in
    match create_storage fixed i parent derived s1 with                  (* CreateTreeStorage: one transaction *)
    | (s2, o) => let s3 := inject_at 2 stage del i order s2 in (s3, opened i s3 o)
    end.

Definition step (fixed : bool) (s : state) (o : op) : state * out :=
  match o with
  | OpPut i parent derived => do_put fixed i parent derived s
  | OpFetch i parent derived h remote =>
      if has_storage i s then (s, OLocal)
      else if tomb i s then (s, OErrDeleted)
      else if negb remote then (s, OErrOther)
      else fetch_finish fixed i parent derived h s
  | OpFetchRace i parent derived h order =>
      if has_storage i s then (s, OLocal)
      else if tomb i s then (s, OErrDeleted)
      else
        let s1 := do_settings [i] s in
        let s2 := worker order never [] s1 in
        match fetch_finish fixed i parent derived h s2 with
        | (s3, o) => (s3, o)
        end
  | OpFetchStaged i parent derived h stage del order => fetch_staged fixed i parent derived h stage del order s
  | OpPutStaged i parent derived stage del order => put_staged fixed i parent derived stage del order s
  | OpHead i h => if has_storage i s then (add_change i h s, OOk) else (s, ONoTree)
  | OpStale n =>
      match nth_error (hist s) n with
      | Some e => (apply_update e s, OOk)
      | None => (s, ONoTree)
      end
  | OpSettings ids => (do_settings ids s, OOk)
  | OpSettingsInit =>
      let ss := fold_left sunion (slog s) [] in
      (st_add ss (with_sset ss s), OOk)
  | OpWorker order k fail => (worker order k fail s, OWorker (nsort (mq s)))
  | OpWorkerS order k fail sfail => (worker_s order k fail sfail s, OWorker (nsort (mq s)))
  | OpRestart => (restart s, OOk)
  end.

Definition run (fixed : bool) (ops : list op) (s : state) : state :=
  fold_left (fun s o => fst (step fixed s o)) ops s.

(* ------------------------------------------------------------------ observation *)
(* per id: status code (0 = no heads entry, 1 = not deleted, 2 = queued, 3 = deleted), advertised in the index,
   number of stored changes, known to the in-memory deletion state *)
Record obs := mkO { o_st : N; o_idx : bool; o_nchg : N; o_mem : bool }.

Definition observe1 (s : state) (i : N) : obs :=
  mkO (if has_entry i s then status i s + 1 else 0)
      (memb i (idx s))
      (match find_c i (chg s) with Some l => N.of_nat (length l) | None => 0 end)
      (mem i s).
Definition observe (univ : list N) (s : state) : list obs := map (observe1 s) univ.

Definition obs_eqb (a b : obs) : bool :=
  (o_st a =? o_st b) && Bool.eqb (o_idx a) (o_idx b) && (o_nchg a =? o_nchg b) && Bool.eqb (o_mem a) (o_mem b).
Fixpoint obsl_eqb (a b : list obs) : bool :=
  match a, b with
  | [], [] => true
  | x :: r, y :: q => obs_eqb x y && obsl_eqb r q
  | _, _ => false
  end.
Definition out_eqb (a b : out) : bool :=
  match a, b with
  | OOk, OOk | OLocal, OLocal | OErrDeleted, OErrDeleted | OErrExists, OErrExists | OErrParent, OErrParent
  | OErrDerivedParent, OErrDerivedParent | ONoTree, ONoTree | OErrOther, OErrOther => true
  | OWorker p, OWorker q => nlist_eqb p q
  | _, _ => false
  end.

(* trace of a history: after every operation its output and the observation of the universe *)
Fixpoint trace (fixed : bool) (univ : list N) (ops : list op) (s : state) : list (out * list obs) :=
  match ops with
  | [] => []
  | o :: r => let '(s', x) := step fixed s o in (x, observe univ s') :: trace fixed univ r s'
  end.

(* ------------------------------------------------------------------ the property over OBSERVED behaviour *)
(* One step: observation before, operation, output, observation after (all lists along [univ]). *)
Definition target (o : op) : option N :=
  match o with
  | OpPut i _ _ | OpFetch i _ _ _ _ | OpFetchRace i _ _ _ _ | OpFetchStaged i _ _ _ _ _ _ | OpPutStaged i _ _ _ _ _ =>
      Some i
  | _ => None
  end.

(* the deletion of the target was recorded during the operation, BEFORE the commit of the creating transaction *)
Definition recorded_before_commit (o : op) : bool :=
  match o with
  | OpFetchRace _ _ _ _ _ => true
  | OpFetchStaged _ _ _ _ stage del _ => negb (del =? 0) && (stage <=? 4)
  | OpPutStaged _ _ _ stage del _ => negb (del =? 0) && (stage <=? 1)
  | _ => false
  end.

Definition is_restart (o : op) : bool := match o with OpRestart => true | _ => false end.

(* a worker run that is not cancelled and whose tree manager does not fail *)
Definition complete_worker (o : op) : bool :=
  match o with
  | OpWorker _ k [] => never <=? k
  | OpWorkerS _ k [] [] => never <=? k
  | _ => false
  end.

(* the tree storage Delete of [i] fails with a transient error during the operation *)
Definition storage_fault (o : op) (i : N) : bool :=
  match o with
  | OpWorkerS _ _ _ sfail => memb i sfail
  | _ => false
  end.

(* per id, before -> after *)
Definition spec_id (o : op) (x : out) (i : N) (b a : obs) : bool :=
  (* durable status never decreases, an entry never disappears *)
  (o_st b <=? o_st a)
  (* a tombstoned id whose storage is gone never gets stored changes again *)
  && (if (2 <=? o_st b) && (o_nchg b =? 0) then o_nchg a =? 0 else true)
  (* a tombstoned id is not advertised after the operation *)
  && (if 2 <=? o_st a then negb (o_idx a) else true)
  (* fully deleted => nothing stored *)
  && (if 3 <=? o_st a then o_nchg a =? 0 else true)
  (* after a restart the in-memory deletion state knows exactly the tombstoned ids *)
  && (if is_restart o then Bool.eqb (o_mem a) (2 <=? o_st a) else true)
  (* in-memory knowledge is sound: known => durable tombstone *)
  && (if o_mem a then 2 <=? o_st a else true)
  (* an id that is queued (durably and in the deletion state) is fully deleted by a complete worker run *)
  && (if complete_worker o && (o_st b =? 2) && o_mem b then o_st a =? 3 else true)
  (* a queued, stored id whose storage Delete fails during a worker run is NOT reported deleted: it stays queued and
     known to the deletion state (so that a later run retries it) and nothing of it is lost or half-removed *)
  && (if storage_fault o i && (o_st b =? 2) && o_mem b && negb (o_nchg b =? 0)
      then (o_st a =? 2) && o_mem a && (o_nchg a =? o_nchg b) else true)
  (* create / put / fetch of an id that is tombstoned - before the operation, or by a deletion recorded at any stage
     of the operation before the creating transaction commits: "already deleted" (unless the tree is still stored
     locally and served from there), and nothing of it is stored by the operation *)
  && (match target o with
      | Some j =>
          if (j =? i) && ((2 <=? o_st b) || recorded_before_commit o)
          then match x with
               | OErrDeleted => true
               (* served from the local store: only while the id is merely queued; a fully deleted id is gone *)
               | OLocal => negb (o_nchg b =? 0) && negb (3 <=? o_st b)
               | _ => false
               end
               && (o_nchg a <=? o_nchg b)
          else true
      | None => true
      end).

Fixpoint spec_ids (o : op) (x : out) (univ : list N) (b a : list obs) : bool :=
  match univ, b, a with
  | [], [], [] => true
  | i :: ur, ob :: br, oa :: ar => spec_id o x i ob oa && spec_ids o x ur br ar
  | _, _, _ => false
  end.

(* children follow: [links] = (child, parent) pairs of the roots used in the history.  After a restart no child of a
   fully deleted parent is left unmarked; a complete worker run (not cancelled, tree manager not failing) deletes,
   together with every parent it had queued, the bound children of that parent that exist - whether or not they were
   queued themselves (deleter.deleteBoundChildren: NotDeleted -> Deleted directly; by [spec_id] such a child is then
   not advertised and has nothing stored); and a child created while its parent is tombstoned is marked at once. *)
Fixpoint obs_of (univ : list N) (l : list obs) (i : N) : obs :=
  match univ, l with
  | j :: ur, o :: lr => if j =? i then o else obs_of ur lr i
  | _, _ => mkO 0 false 0 false
  end.

Definition spec_children (o : op) (univ : list N) (links : list (N * N)) (b a : list obs) : bool :=
  match o with
  | OpRestart =>
      forallb (fun cp => let c := obs_of univ a (fst cp) in let p := obs_of univ a (snd cp) in
                         if (3 <=? o_st p) && (1 <=? o_st c) then 2 <=? o_st c else true) links
  | OpWorker _ _ _ | OpWorkerS _ _ _ _ =>
      if complete_worker o then
        forallb (fun cp => let pb := obs_of univ b (snd cp) in
                           if (o_st pb =? 2) && o_mem pb && (1 <=? o_st (obs_of univ b (fst cp)))
                           then o_st (obs_of univ a (fst cp)) =? 3 else true) links
      else true
  | _ => true
  end.

Definition spec_latechild (o : op) (x : out) (univ : list N) (b a : list obs) : bool :=
  match o, x with
  | OpPut i p _, OOk | OpFetch i p _ _ _, OOk | OpFetchRace i p _ _ _, OOk
  | OpFetchStaged i p _ _ _ _ _, OOk | OpPutStaged i p _ _ _ _, OOk =>
      if p =? 0 then true
      else if 2 <=? o_st (obs_of univ b p) then 2 <=? o_st (obs_of univ a i) else true
  | _, _ => true
  end.

(* (child, parent) link established by a successful creation *)
Definition link_of (o : op) (x : out) : list (N * N) :=
  match o, x with
  | OpPut i p _, OOk | OpFetch i p _ _ _, OOk | OpFetchRace i p _ _ _, OOk
  | OpFetchStaged i p _ _ _ _ _, OOk | OpPutStaged i p _ _ _ _, OOk => if p =? 0 then [] else [(i, p)]
  | _, _ => []
  end.

Fixpoint spec_trace (univ : list N) (links : list (N * N)) (ops : list op) (b : list obs) (tr : list (out * list obs)) : bool :=
  match ops, tr with
  | [], [] => true
  | o :: r, (x, a) :: tr' =>
      let links' := link_of o x ++ links in
      spec_ids o x univ b a && spec_children o univ links' b a && spec_latechild o x univ b a
      && spec_trace univ links' r a tr'
  | _, _ => false
  end.

(* spec_C15, histories part: [tr] is what was observed on the implementation, starting from the empty space *)
Definition spec_C15 (univ : list N) (ops : list op) (tr : list (out * list obs)) : bool :=
  spec_trace univ [] ops (observe univ init) tr.

(* ------------------------------------------------------------------ settings log -> deleted ids *)
(* One settings change: its id, its plain content (object-delete ids) and, for a snapshot, the accumulated set. *)
Record schange := mkSC { sc_id : N; sc_ids : list N; sc_snap : option (list N) }.

(* StateBuilder.Build(tree, nil): iteration starts at the tree root.  The true root (no previous ids) carries
   nothing; a snapshot root re-initialises the state from its snapshot; all later changes add their content. *)
Definition sderive_scratch (root : option schange) (after : list schange) : list N :=
  let base := match root with
              | Some r => match sc_snap r with Some l => l | None => [] end
              | None => [] end in
  fold_left (fun acc c => sunion acc (sc_ids c)) after (sunion [] base).

(* StateBuilder.Build(tree, old): iteration resumes after LastIteratedId *)
Definition sderive_inc (old : list N) (new : list schange) : list N :=
  fold_left (fun acc c => sunion acc (sc_ids c)) new old.

(* declarative: union of the plain contents of all held changes *)
Definition sunion_all (held : list schange) : list N := nsort (flat_map sc_ids held).

(* ------------------------------------------------------------------ the settings object (settingsObject) *)
(* What the sync tree reports to its update listener after changes were added (objecttree.Mode) or at a build:
   Init (NewSettingsObject + Init, incl. a restart: afterBuild calls Rebuild), Append -> settingsObject.Update,
   Rebuild -> settingsObject.Rebuild, Nothing -> no call. *)
Inductive smode := SInit | SAppend | SRebuild | SNothing.

(* one listener call: the tree's root as Build sees it ([None] = the true root, which carries nothing; [Some r] =
   a snapshot change) and the changes the tree iterates after the start point - after LastIteratedId of the kept
   state for Update, after the root for Rebuild / Init *)
Record sev := mkSEv { se_mode : smode; se_root : option schange; se_after : list schange }.

(* the object's kept state (settingsstate.State.DeletedIds) and everything it handed to
   DeletionManager.UpdateState so far (the deletion state only ever adds) *)
Record sobj := mkSObj { so_state : list N; so_seen : list N }.

Definition sobj_init : sobj := mkSObj [] [].

(* Update: Build(tree, state) continues; Rebuild: state := nil, Build(tree, nil); both then UpdateState(state) *)
Definition sobj_step (o : sobj) (e : sev) : sobj :=
  match se_mode e with
  | SNothing => o
  | SAppend => let st := sderive_inc (so_state o) (se_after e) in mkSObj st (sunion (so_seen o) st)
  | SInit | SRebuild => let st := sderive_scratch (se_root e) (se_after e) in mkSObj st (sunion (so_seen o) st)
  end.

Definition sobj_run (o : sobj) (evs : list sev) : sobj := fold_left sobj_step evs o.
