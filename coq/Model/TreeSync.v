(* Model/TreeSync.v — replicas of one object tree exchanging head updates, full-sync requests and responses
   (property C01).  Definitions only.

   Mirrors (commonspace/object/tree):
     synctree/synchandler.go   HandleHeadUpdate, HandleStreamRequest, HandleResponse        [handle_head, handle_req, handle_resp]
     synctree/synctree.go      AddContent (broadcast), AddRawChangesFromPeer (hasHeads short cut, broadcast with the
                               sender as "empty peer"), SyncWithPeer                          [step, add_from_peer]
     synctree/requestfactory.go CreateHeadUpdate / CreateFullSyncRequest (heads + snapshot path)
     objecttree/objecttree.go  AddContent (previous ids = heads, snapshot base = in-memory root, a snapshot becomes the
                               root), addChangesToTree (filter attached, snapshotNotInTree, normal path / rebuild from
                               storage at the common snapshot of the two paths, "same heads => keep the old root"),
                               AddRawChangesWithUpdater (reduce), SnapshotPath                [apply, rep_path]
     objecttree/tree.go        add / canAttachOrRemove / attach: a change is attached iff all previous ids and the cited
                               snapshot are attached; whatever stays unattached is dropped     [attach_pass]
     objecttree/treereduce.go  reduceTree                                                     [reduce_root]
     loaditerator.go + response producer: Model/LoadIter.v (property C09)                     [respond_with]

   Abstraction.  All changes that exist are in the universe [w_uni], in CREATION ORDER (ids are content hashes: the
   previous ids and the snapshot base of a change exist before it).  A replica is (stored ids, in-memory root id);
   the in-memory attached set is DERIVED: the closure of {root} under the attach rule inside the stored set
   ([mview]; one pass in creation order computes it, and computes what Tree.Add attaches from a batch, because
   the wait-list machinery of tree.go attaches exactly the changes whose previous ids and snapshot become attached).
   Heads and snapshot path are derived too.  The network is not part of the state: [step] returns the messages
   a step emits and a Deliver label carries the delivered message, so every schedule (loss, duplication,
   reordering, delay, and arbitrary garbage) is a label sequence.

   Ids are N, numbered order-preservingly by the harness (stored order depends on id comparisons). *)
From Coq Require Import List NArith Bool Arith.
Import ListNotations.
From AnySync Require Export Lib.Dag Model.Dfs Model.Tree Model.LoadIter.

Record replica := mkRep {
  r_have : list N;    (* ids in storage *)
  r_root : N          (* in-memory root = CommonSnapshot of the heads entry *)
}.

Definition all_in (l v : list N) : bool := forallb (fun p => mem p v) l.

(* ---- tree.go: what gets attached.  [cand] = ids offered, [v] = attached so far; G in creation order *)
Definition attach_one (cand : list N) (v : list N) (c : change) : list N :=
  if mem (cid c) v then v
  else if mem (cid c) cand && all_in (cprev c) v && mem (csnap c) v then cid c :: v
  else v.

Definition attach_pass (G : list change) (cand v : list N) : list N :=
  fold_left (attach_one cand) G v.

(* the in-memory attached set of a tree loaded from storage at [root] *)
Definition mview (G : list change) (have : list N) (root : N) : list N := attach_pass G have [root].

Definition heads_in (G : list change) (v : list N) : list N := heads_of (find_all G v).

Definition rep_view (G : list change) (r : replica) : list N := mview G (r_have r) (r_root r).
Definition rep_heads (G : list change) (r : replica) : list N := heads_in G (rep_view G r).

(* SnapshotPath(): from the in-memory root along SnapshotId through storage *)
Definition rep_path (G : list change) (r : replica) : option (list N) :=
  path_loop (S (length G)) (find_all G (r_have r)) (r_root r).
Definition path_or_nil (G : list change) (r : replica) : list N :=
  match rep_path G r with Some p => p | None => [] end.

(* ---- treereduce.go *)
Fixpoint chain_to_root (fuel : nat) (G : list change) (v : list N) (root cur : N) : option (list N) :=
  if N.eqb cur root then Some [cur]
  else match fuel with
       | O => None
       | S f =>
           if mem cur v then
             match find_change G cur with
             | None => None
             | Some c => option_map (cons cur) (chain_to_root f G v root (csnap c))
             end
           else None
       end.

Fixpoint meet_at (fuel : nat) (G : list change) (v path : list N) (cur : N) : option nat :=
  if mem cur v then
    match index_of cur path 0 with
    | Some k => Some k
    | None =>
        match fuel with
        | O => None
        | S f => match find_change G cur with
                 | None => None
                 | Some c => meet_at f G v path (csnap c)
                 end
        end
    end
  else None.

Fixpoint max_meet_at (fuel : nat) (G : list change) (v path hs : list N) (mx : nat) : option nat :=
  match hs with
  | [] => Some mx
  | h :: r =>
      match find_change G h with
      | None => None
      | Some hc =>
          match meet_at fuel G v path (csnap hc) with
          | None => None
          | Some k => max_meet_at fuel G v path r (Nat.max mx k)
          end
      end
  end.

(* the root reduceTree chooses for the attached set [v] with (sorted) heads [hs]; the old root when it gives up *)
Definition reduce_root (G : list change) (v hs : list N) (root : N) : N :=
  match hs with
  | [] => root
  | h0 :: rest =>
      match find_change G h0 with
      | None => root
      | Some fh =>
          if cissnap fh && is_nil rest then h0
          else if mem (csnap fh) v then
            if is_nil rest then csnap fh
            else
              let fuel := S (length G) in
              match chain_to_root fuel G v root (csnap fh) with
              | None => root
              | Some path =>
                  match max_meet_at fuel G v path rest 0 with
                  | None => root
                  | Some k => nth k path root
                  end
              end
          else root
      end
  end.

(* ---- objecttree.go addChangesToTree *)
Inductive ares := AErr | ANothing | AChanged (added : list N).

(* snapshotNotInTree over newChangesBuf: None = ErrHasInvalidChanges, Some b = shouldRebuildFromStorage *)
Fixpoint need_rb (G : list change) (v : list N) (root : N) (newsnaps : list N) (cs : list change) : option bool :=
  match cs with
  | [] => Some false
  | c :: r =>
      if N.eqb (csnap c) root then need_rb G v root newsnaps r
      else
        let bad := mem (csnap c) v && match find_change G (csnap c) with Some sn => negb (cissnap sn) | None => false end in
        if bad then None
        else if mem (csnap c) newsnaps then need_rb G v root newsnaps r
        else Some true
  end.

Fixpoint dedup (l seen : list N) : list N :=
  match l with
  | [] => []
  | i :: r => if mem i seen then dedup r seen else i :: dedup r (i :: seen)
  end.

Definition minus (a b : list N) : list N := filter (fun i => negb (mem i b)) a.

Definition apply (G : list change) (r : replica) (batch theirPath : list N) : replica * ares :=
  let v := rep_view G r in
  let newc := dedup (minus batch v) [] in
  let newcs := find_all G newc in
  match newcs with
  | [] => (r, ANothing)
  | _ =>
      match need_rb G v (r_root r) (ids (filter cissnap newcs)) newcs with
      | None => (r, AErr)
      | Some false =>
          let v' := attach_pass G newc v in
          let added := minus v' v in
          match added with
          | [] => (r, ANothing)
          | _ =>
              let root' := reduce_root G v' (heads_in G v') (r_root r) in
              (mkRep (minus added (r_have r) ++ r_have r) root', AChanged added)
          end
      | Some true =>
          match theirPath, rep_path G r with
          | [], _ => (r, AErr)          (* empty path: lowestSnapshots branch of the tree builder, not modelled *)
          | _, None => (r, AErr)
          | _, Some ourPath =>
              match common_snapshot ourPath theirPath with
              | None => (r, AErr)
              | Some base =>
                  if negb (mem base (r_have r)) then (r, AErr)   (* storage.Get(common snapshot) fails *)
                  else
                  let v0 := mview G (r_have r) base in
                  let fresh := minus newc (r_have r) in
                  let v1 := attach_pass G fresh v0 in
                  let added := minus v1 v0 in
                  let root' :=
                    if same_set (heads_in G v) (heads_in G v1) && mem (r_root r) v1 && negb (N.eqb base (r_root r))
                    then r_root r else base in
                  (mkRep (minus added (r_have r) ++ r_have r) root', AChanged added)
              end
          end
      end
  end.

(* ---- messages *)
Inductive msg :=
| MHead (heads chs path : list N)     (* TreeHeadUpdate *)
| MReq  (heads path : list N)         (* TreeFullSyncRequest *)
| MResp (heads chs path : list N).    (* TreeFullSyncResponse (one batch, or the EmptyResponse) *)

Definition emission := (nat * msg)%type.   (* addressee, message *)

Definition others (n me : nat) : list nat := filter (fun q => negb (Nat.eqb q me)) (seq 0 n).

(* CreateHeadUpdate + Broadcast: [quiet] is the "empty peer" that gets the update without changes *)
Definition broadcast (G : list change) (n me quiet : nat) (r : replica) (added : list N) : list emission :=
  let hs := rep_heads G r in
  let p := path_or_nil G r in
  map (fun q => (q, MHead hs (if Nat.eqb q quiet then [] else added) p)) (others n me).

Definition full_request (G : list change) (r : replica) : msg := MReq (rep_heads G r) (path_or_nil G r).

(* syncTree.hasHeads / syncHandler.hasHeads *)
Definition has_heads (G : list change) (r : replica) (heads : list N) : bool :=
  same_set (rep_heads G r) heads || all_in heads (rep_view G r).

(* syncTree.AddRawChangesFromPeer: (replica, broadcasts, Some res.Heads | None = error) *)
Definition add_from_peer (G : list change) (n me from : nat) (r : replica) (heads chs path : list N)
  : replica * list emission * option (list N) :=
  if has_heads G r heads then (r, [], Some heads)
  else
    match apply G r chs path with
    | (_, AErr) => (r, [], None)
    | (_, ANothing) => (r, [], Some (rep_heads G r))
    | (r', AChanged added) => (r', broadcast G n me from r' added, Some (rep_heads G r'))
    end.

Definition handle_head (G : list change) (n me from : nat) (r : replica) (heads chs path : list N)
  : replica * list emission :=
  match chs with
  | [] => if has_heads G r heads then (r, []) else (r, [(from, full_request G r)])
  | _ =>
      match add_from_peer G n me from r heads chs path with
      | (r', em, None) => (r', em)
      | (r', em, Some rh) => if same_set rh heads then (r', em) else (r', em ++ [(from, full_request G r')])
      end
  end.

Definition handle_resp (G : list change) (n me from : nat) (r : replica) (heads chs path : list N)
  : replica * list emission :=
  match chs with
  | [] => (r, [])
  | _ => let '(r', em, _) := add_from_peer G n me from r heads chs path in (r', em)
  end.

(* slice.ContainsSorted(seq, subseq) *)
Fixpoint cs_loop (sq sub : list N) : bool :=
  match sq with
  | [] => is_nil sub
  | a :: r =>
      match sub with
      | [] => true
      | b :: sr => if N.eqb a b then cs_loop r sr else if N.ltb a b then cs_loop r sub else false
      end
  end.
Definition contains_sorted (sq sub : list N) : bool :=
  Nat.leb (length sub) (length sq) && cs_loop (isort sq) (isort sub).

Definition batch_size : N := 1048576.

(* the stored sequence of a replica: canonical order of its stored set (C06), with raw sizes *)
Definition sigma_of (U : list sentry) (r : replica) (root0 : N) : list sentry :=
  find_entries U (order (find_all (map se_ch U) (r_have r)) root0).

Definition respond_with (nb : N -> liter -> batch * liter) (sigma : list sentry) (cs : N) (theirHeads : list N)
  : list batch :=
  stream nb (S (length sigma)) batch_size (load sigma cs theirHeads).

Definition handle_req (nb : N -> liter -> batch * liter) (U : list sentry) (root0 : N) (r : replica) (from : nat)
  (heads path : list N) : list emission :=
  let G := map se_ch U in
  match rep_path G r with
  | None => []
  | Some ourPath =>
      match choose_snapshot ourPath path with
      | None => []
      | Some cs =>
          let cur := rep_heads G r in
          if same_set cur heads || contains_sorted heads cur then
            (from, MResp cur [] ourPath)
              :: (if Nat.eqb (length cur) (length heads) then [] else [(from, MReq cur ourPath)])
          else
            map (fun b => (from, MResp (b_heads b) (map se_id (b_changes b)) ourPath))
                (respond_with nb (sigma_of U r root0) cs heads)
              ++ (if is_nil heads then [] else [(from, MReq cur ourPath)])
      end
  end.

(* ---- the transition system *)
Inductive label :=
| LocalAdd (r : nat) (isSnap : bool) (id size : N)   (* AddContent; the fresh id and raw size come from the environment *)
| Deliver (r from : nat) (m : msg)                   (* any message, from the network or not *)
| SyncWithPeer (r p : nat).

Record world := mkW {
  w_uni  : list sentry;       (* every change that exists, in creation order; the tree root first *)
  w_reps : list replica
}.

Definition norep : replica := mkRep [] 0%N.
Definition get_rep (w : world) (i : nat) : replica := nth i (w_reps w) norep.

Fixpoint set_nth {A} (i : nat) (x : A) (l : list A) : list A :=
  match l, i with
  | [], _ => []
  | _ :: r, O => x :: r
  | a :: r, S j => a :: set_nth j x r
  end.

Definition set_rep (w : world) (i : nat) (r : replica) : world := mkW (w_uni w) (set_nth i r (w_reps w)).

Definition wG (w : world) : list change := map se_ch (w_uni w).
Definition root0 (w : world) : N := match w_uni w with e :: _ => se_id e | [] => 0%N end.

Definition init_world (n : nat) (root : change) (size : N) : world :=
  mkW [mkSE root size] (repeat (mkRep [cid root] (cid root)) n).

Definition step (nb : N -> liter -> batch * liter) (w : world) (l : label) : world * list emission :=
  let n := length (w_reps w) in
  let G := wG w in
  match l with
  | LocalAdd i isSnap id size =>
      if Nat.ltb i n && negb (has_change G id) && negb (N.eqb id 0) then
        let r := get_rep w i in
        let c := mkChange id (rep_heads G r) (r_root r) isSnap in
        let r' := mkRep (id :: r_have r) (if isSnap then id else r_root r) in
        let w' := mkW (w_uni w ++ [mkSE c size]) (set_nth i r' (w_reps w)) in
        (w', broadcast (wG w') n i n r' [id])
      else (w, [])
  | Deliver i from m =>
      if Nat.ltb i n then
        let r := get_rep w i in
        match m with
        | MHead hs chs p => let '(r', em) := handle_head G n i from r hs chs p in (set_rep w i r', em)
        | MResp hs chs p => let '(r', em) := handle_resp G n i from r hs chs p in (set_rep w i r', em)
        | MReq hs p => (w, handle_req nb (w_uni w) (root0 w) r from hs p)
        end
      else (w, [])
  | SyncWithPeer i p =>
      if Nat.ltb i n then (w, [(p, full_request G (get_rep w i))]) else (w, [])
  end.

Definition run (nb : N -> liter -> batch * liter) (w : world) (ls : list label) : world :=
  fold_left (fun w l => fst (step nb w l)) ls w.

(* ------------------------------------------------------------------------------------------------
   The property over an OBSERVED history.  It uses the DAG (as read back from the replicas' storages) and list
   helpers only — none of the model functions above.
     after every step: every replica's stored set is causally closed, its heads are stored, and the heads /
       changes it advertises in the messages it emits are stored;
     after the final phase: all replicas have identical stored sets and identical heads. *)

Definition closed_b (G : list change) (have : list N) : bool :=
  forallb (fun i => match find_change G i with
                    | Some c => subset_b (cprev c) have
                    | None => false
                    end) have.

Definition msg_heads (m : msg) : list N :=
  match m with MHead h _ _ => h | MReq h _ => h | MResp h _ _ => h end.
Definition msg_changes (m : msg) : list N :=
  match m with MHead _ c _ => c | MReq _ _ => [] | MResp _ c _ => c end.

(* one observed step: who acted, every replica's (stored ids, heads), what the acting replica emitted *)
Record sobs := mkSO {
  so_err  : bool;                          (* the handler returned an error *)
  so_reps : list (list N * list N);
  so_emit : list emission
}.

Definition rep_ok (G : list change) (o : list N * list N) : bool :=
  closed_b G (fst o) && subset_b (snd o) (fst o).

Definition step_ok (G : list change) (actor : nat) (o : sobs) : bool :=
  forallb (rep_ok G) (so_reps o)
  && let have := fst (nth actor (so_reps o) ([], [])) in
     forallb (fun e => subset_b (msg_heads (snd e)) have && subset_b (msg_changes (snd e)) have) (so_emit o).

Definition all_equal (l : list (list N * list N)) : bool :=
  match l with
  | [] => true
  | (h0, hd0) :: r => forallb (fun o => list_eqb (isort (fst o)) (isort h0) && list_eqb (isort (snd o)) (isort hd0)) r
  end.

Definition spec_C01 (G : list change) (hist : list (nat * sobs)) : bool :=
  forallb (fun s => step_ok G (fst s) (snd s)) hist
  && match rev hist with
     | [] => true
     | (_, o) :: _ => all_equal (so_reps o)
     end.
