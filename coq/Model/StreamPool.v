(* Model of net/streampool (property C19): streampool.go, stream.go, sendpool.go.
   Definitions only; proofs are in Proofs/StreamPoolProofs.v / StreamPoolSpec.v.

   A labelled transition system.  One label = one atomic critical section of the Go code (the body
   executed under pool.mu or under the queue's own mutex), or the return of a blocking call
   (MsgSend, WaitOne, MsgRecv, the stream's Close).  Blocking happens BETWEEN labels: a writer that is
   stuck in MsgSend forever is a writer whose [LSendOk]/[LSendFail] label is never taken.
   "All schedules" = all label lists; [run] is [fold_left step].

   Mirrors:
     addStream                      -> LAddStream          (under pool.mu)
     Broadcast / SendById collect   -> LBroadcast/LSendById (under pool.mu), then one LWrite per target
     stream.write (queue.TryAdd)    -> LWrite              (under the queue mutex only)
     AddTagsCtx / RemoveTagsCtx / RemoveTagsById -> LAddTags / LRemoveTags (under pool.mu)
     Streams                        -> LStreams
     writeLoop: WaitOne returns     -> LTake ; MsgSend returns nil / error -> LSendOk / LSendFail
     readLoop: MsgRecv/handler err  -> LReadErr
     streamClose: closed.Swap       -> (inside LSendFail / LReadErr), queue.Close -> LCloseQueue,
                  pool.removeStream -> LRemove             (under pool.mu)
     Send: dial.TryAdd              -> LSend ; worker WaitOne -> LDialTake ; sendOne/getStreams/openStream
                                       -> LDialPeer (+ LWrite)
   log.Fatal in removeStream and a nil *stream dereference are the flags [fatal] / [panicked];
   after either the process is gone: every label is a no-op. *)
From Coq Require Import List NArith Bool.
Import ListNotations.
Open Scope N_scope.

(* ------------------------------------------------------------------ finite maps N -> list N (Go: map[string][]uint32) *)
Definition imap := list (N * list N).

Fixpoint mget (k : N) (m : imap) : list N :=
  match m with
  | [] => []
  | (k', v) :: r => if k =? k' then v else mget k r
  end.

Fixpoint mdel (k : N) (m : imap) : imap :=
  match m with
  | [] => []
  | (k', v) :: r => if k =? k' then mdel k r else (k', v) :: mdel k r
  end.

(* m[k] = v ; an empty slice deletes the key (removeStream: if len == 0 { delete(m, key) }) *)
Definition mset (k : N) (v : list N) (m : imap) : imap :=
  match v with
  | [] => mdel k m
  | _ => (k, v) :: mdel k m
  end.

Definition memN (x : N) (l : list N) : bool := existsb (N.eqb x) l.

(* slices.Index + slices.Delete: remove the first occurrence; None = idx == -1 *)
Fixpoint remove_first (x : N) (l : list N) : option (list N) :=
  match l with
  | [] => None
  | y :: r => if x =? y then Some r
              else match remove_first x r with Some r' => Some (y :: r') | None => None end
  end.

(* package-level removeStream(m, key, streamId); None = log.Fatal *)
Definition idx_remove (m : imap) (key sid : N) : option imap :=
  match remove_first sid (mget key m) with
  | None => None
  | Some l' => Some (mset key l' m)
  end.

Definition idx_append (m : imap) (key sid : N) : imap := mset key (mget key m ++ [sid]) m.

(* ------------------------------------------------------------------ streams *)
Record stream := mkStream {
  st_peer     : N;
  st_cap      : N;             (* queue size given to mb.New (after the <=0 -> 100 default) *)
  st_tags     : list N;
  st_queue    : list N;        (* mb buffer; head = next message WaitOne returns *)
  st_inflight : option N;      (* message the writer has handed to MsgSend, call not yet returned *)
  st_closing  : bool;          (* closed.Swap(true) has happened *)
  st_qclosed  : bool;          (* queue.Close() has happened *)
  st_removed  : bool;          (* pool.removeStream has happened *)
  st_wdone    : bool;          (* the write loop has returned *)
  st_cgate    : bool;          (* environment: the drpc stream's Close() parks until released *)
  (* ghost history, never read by the transitions *)
  st_accepted : list N;        (* messages for which TryAdd returned nil, in order *)
  st_taken    : list N;        (* messages handed to MsgSend, in order *)
  st_written  : list N         (* messages for which MsgSend returned nil, in order *)
}.

Definition heap := list (N * stream).

Fixpoint hget (sid : N) (h : heap) : option stream :=
  match h with
  | [] => None
  | (k, st) :: r => if sid =? k then Some st else hget sid r
  end.

Fixpoint hset (sid : N) (st : stream) (h : heap) : heap :=
  match h with
  | [] => [(sid, st)]
  | (k, st') :: r => if sid =? k then (k, st) :: r else (k, st') :: hset sid st r
  end.

Definition set_tags (st : stream) (t : list N) : stream :=
  mkStream (st_peer st) (st_cap st) t (st_queue st) (st_inflight st) (st_closing st) (st_qclosed st)
           (st_removed st) (st_wdone st) (st_cgate st) (st_accepted st) (st_taken st) (st_written st).

(* ------------------------------------------------------------------ callers *)
(* how a caller goes on after a successful write:
   MAll        Broadcast: every target is written
   MFirstTotal SendById: `return` after the first successful write (all peers)
   MFirstGroup sendOne:  `break` after the first successful write for this peer *)
Inductive mode := MAll | MFirstTotal | MFirstGroup.

Record pending := mkPending {
  p_msg    : N;
  p_mode   : mode;
  p_groups : list (list N);    (* snapshot of target stream ids taken under pool.mu *)
  p_peers  : list N            (* dial job only: peers not yet handled by sendOne *)
}.

Definition job := (N * N * list N)%type.   (* caller id, message, peers *)

Record config := mkConfig { dial_workers : N; dial_cap : N }.

Record state := mkState {
  cfg      : config;
  objs     : heap;             (* every *stream ever created (callers may hold pointers after removal) *)
  pool_ids : list N;           (* keys of pool.streams *)
  by_peer  : imap;             (* streamIdsByPeer *)
  by_tag   : imap;             (* streamIdsByTag *)
  last_id  : N;                (* lastStreamId *)
  callers  : list (N * pending);
  dialq    : list job;         (* ExecPool.batch *)
  running  : N;                (* dial workers currently executing a job *)
  fatal    : bool;             (* log.Fatal reached *)
  panicked : bool              (* nil *stream dereferenced *)
}.

Definition init (c : config) : state := mkState c [] [] [] [] 0 [] [] 0 false false.

Definition upd_objs (s : state) (h : heap) : state :=
  mkState (cfg s) h (pool_ids s) (by_peer s) (by_tag s) (last_id s) (callers s) (dialq s) (running s) (fatal s) (panicked s).
Definition upd_callers (s : state) (c : list (N * pending)) : state :=
  mkState (cfg s) (objs s) (pool_ids s) (by_peer s) (by_tag s) (last_id s) c (dialq s) (running s) (fatal s) (panicked s).
Definition upd_by_tag (s : state) (m : imap) : state :=
  mkState (cfg s) (objs s) (pool_ids s) (by_peer s) m (last_id s) (callers s) (dialq s) (running s) (fatal s) (panicked s).
Definition set_fatal (s : state) : state :=
  mkState (cfg s) (objs s) (pool_ids s) (by_peer s) (by_tag s) (last_id s) (callers s) (dialq s) (running s) true (panicked s).
Definition set_panicked (s : state) : state :=
  mkState (cfg s) (objs s) (pool_ids s) (by_peer s) (by_tag s) (last_id s) (callers s) (dialq s) (running s) (fatal s) true.
Definition upd_dial (s : state) (q : list job) (r : N) : state :=
  mkState (cfg s) (objs s) (pool_ids s) (by_peer s) (by_tag s) (last_id s) (callers s) q r (fatal s) (panicked s).

Fixpoint cget (cid : N) (l : list (N * pending)) : option pending :=
  match l with
  | [] => None
  | (k, p) :: r => if cid =? k then Some p else cget cid r
  end.
Fixpoint cdel (cid : N) (l : list (N * pending)) : list (N * pending) :=
  match l with
  | [] => []
  | (k, p) :: r => if cid =? k then cdel cid r else (k, p) :: cdel cid r
  end.
Definition cset (cid : N) (p : pending) (l : list (N * pending)) := (cid, p) :: cdel cid l.

Definition pending_size (s : state) (cid : N) : nat :=
  match cget cid (callers s) with
  | None => 0%nat
  | Some p => length (concat (p_groups p))
  end.

(* ------------------------------------------------------------------ outputs *)
Inductive wres := WOk | WOverflow | WClosed.

Inductive out :=
| ONone
| OErr (code : N)              (* 0 nil, 1 net.ErrUnableToConnect, 2 "stream not found", 3 queue overflow, 4 other *)
| OWrite (sid : N) (r : wres)
| OTake (sid m : N)
| OIds (ids : list N)
| ONew (sid : N).

(* ------------------------------------------------------------------ the atomic sections *)

(* addStream, under pool.mu *)
Definition add_stream (s : state) (peer cap : N) (tags : list N) (cgate : bool) : state * N :=
  let sid := last_id s + 1 in
  let cap' := if cap =? 0 then 100 else cap in
  let st := mkStream peer cap' tags [] None false false false false cgate [] [] [] in
  (mkState (cfg s) (hset sid st (objs s)) (pool_ids s ++ [sid])
           (idx_append (by_peer s) peer sid)
           (fold_left (fun m t => idx_append m t sid) tags (by_tag s))
           sid (callers s) (dialq s) (running s) (fatal s) (panicked s), sid).

(* Broadcast's collection loop. [dedupe] = (len(tags) > 1); [seen] = ids already collected. *)
Fixpoint collect_ids (dedupe : bool) (ids : list N) (seen : list N) : list N * list N :=
  match ids with
  | [] => ([], seen)
  | i :: r =>
      if dedupe && memN i seen then collect_ids dedupe r seen
      else let '(l, seen') := collect_ids dedupe r (if dedupe then i :: seen else seen) in (i :: l, seen')
  end.

Fixpoint collect_tags (dedupe : bool) (m : imap) (tags : list N) (seen : list N) : list N :=
  match tags with
  | [] => []
  | t :: r => let '(l, seen') := collect_ids dedupe (mget t m) seen in l ++ collect_tags dedupe m r seen'
  end.

Definition bcast_targets (s : state) (tags : list N) : list N :=
  collect_tags (Nat.ltb 1 (length tags)) (by_tag s) tags [].

(* SendById's collection loop: one group per peer that has streams *)
Fixpoint peer_groups (m : imap) (peers : list N) : list (list N) :=
  match peers with
  | [] => []
  | p :: r => match mget p m with [] => peer_groups m r | g => g :: peer_groups m r end
  end.

(* a collected id that is not a key of pool.streams yields a nil *stream; the Go code would dereference it
   at the first write (Streams: immediately).  The model raises [panicked] at collection time. *)
Definition all_in_pool (s : state) (ids : list N) : bool := forallb (fun i => memN i (pool_ids s)) ids.

Definition start_caller (s : state) (cid msg : N) (md : mode) (groups : list (list N)) (peers : list N) : state :=
  if all_in_pool s (concat groups) then upd_callers s (cset cid (mkPending msg md groups peers) (callers s))
  else set_panicked s.

(* stream.write = queue.TryAdd, under the queue's mutex *)
Definition write_stream (st : stream) (m : N) : stream * wres :=
  if st_qclosed st then (st, WClosed)
  else if st_cap st <=? N.of_nat (length (st_queue st)) then (st, WOverflow)
  else (mkStream (st_peer st) (st_cap st) (st_tags st) (st_queue st ++ [m]) (st_inflight st) (st_closing st)
                 (st_qclosed st) (st_removed st) (st_wdone st) (st_cgate st)
                 (st_accepted st ++ [m]) (st_taken st) (st_written st), WOk).

Fixpoint next_target (gs : list (list N)) : option (N * list N * list (list N)) :=
  match gs with
  | [] => None
  | [] :: r => next_target r
  | (x :: g) :: r => Some (x, g, r)
  end.

Definition after_write (md : mode) (r : wres) (g : list N) (rest : list (list N)) : list (list N) :=
  match r, md with
  | WOk, MFirstTotal => []
  | WOk, MFirstGroup => rest
  | _, _ => g :: rest
  end.

(* one write of caller [cid]; nothing to do when the caller has no target left *)
Definition do_write (s : state) (cid : N) : state * out :=
  match cget cid (callers s) with
  | None => (s, ONone)
  | Some p =>
      match next_target (p_groups p) with
      | None => (s, ONone)
      | Some (sid, g, rest) =>
          match hget sid (objs s) with
          | None => (set_panicked s, ONone)
          | Some st =>
              let '(st', r) := write_stream st (p_msg p) in
              let p' := mkPending (p_msg p) (p_mode p) (after_write (p_mode p) r g rest) (p_peers p) in
              (upd_callers (upd_objs s (hset sid st' (objs s))) (cset cid p' (callers s)), OWrite sid r)
          end
      end
  end.

(* AddTagsCtx, under pool.mu *)
Fixpoint add_new_tags (cur : list N) (tags : list N) : list N * list N :=   (* (st.tags', newTags) *)
  match tags with
  | [] => (cur, [])
  | t :: r => if memN t cur then add_new_tags cur r
              else let '(c', n) := add_new_tags (cur ++ [t]) r in (c', t :: n)
  end.

Definition add_tags (s : state) (sid : N) (tags : list N) : state * out :=
  if negb (memN sid (pool_ids s)) then (s, OErr 2) else
  match hget sid (objs s) with
  | None => (set_panicked s, ONone)
  | Some st =>
      let '(cur', newt) := add_new_tags (st_tags st) tags in
      let s1 := upd_objs s (hset sid (set_tags st cur') (objs s)) in
      (upd_by_tag s1 (fold_left (fun m t => idx_append m t sid) newt (by_tag s1)), OErr 0)
  end.

(* removeStream(m, t, id) for every t in the list; stops at the first log.Fatal *)
Fixpoint idx_remove_all (m : imap) (keys : list N) (sid : N) : option imap :=
  match keys with
  | [] => Some m
  | t :: r => match idx_remove m t sid with None => None | Some m' => idx_remove_all m' r sid end
  end.

(* RemoveTagsCtx / RemoveTagsById, under pool.mu; [byid]: a missing stream is nil instead of an error *)
Definition remove_tags (s : state) (sid : N) (tags : list N) (byid : bool) : state * out :=
  if negb (memN sid (pool_ids s)) then (s, OErr (if byid then 0 else 2)) else
  match hget sid (objs s) with
  | None => (set_panicked s, ONone)
  | Some st =>
      let to_remove := filter (fun t => memN t tags) (st_tags st) in
      let filtered := filter (fun t => negb (memN t tags)) (st_tags st) in
      let s1 := upd_objs s (hset sid (set_tags st filtered) (objs s)) in
      match idx_remove_all (by_tag s1) to_remove sid with
      | None => (set_fatal s1, ONone)
      | Some m' => (upd_by_tag s1 m', OErr 0)
      end
  end.

(* per-stream updates of the writer / closer *)
Definition upd_stream (s : state) (sid : N) (f : stream -> stream) : state :=
  match hget sid (objs s) with
  | None => s
  | Some st => upd_objs s (hset sid (f st) (objs s))
  end.

(* WaitOne returns: a message if the buffer is not empty (also on a closed queue), mb.ErrClosed when it is
   empty and closed (the loop returns), otherwise the writer stays parked (no-op) *)
Definition take (st : stream) : stream * option N :=
  if st_wdone st then (st, None) else
  match st_inflight st with
  | Some _ => (st, None)
  | None =>
      match st_queue st with
      | m :: q => (mkStream (st_peer st) (st_cap st) (st_tags st) q (Some m) (st_closing st) (st_qclosed st)
                            (st_removed st) (st_wdone st) (st_cgate st) (st_accepted st) (st_taken st ++ [m])
                            (st_written st), Some m)
      | [] => if st_qclosed st
              then (mkStream (st_peer st) (st_cap st) (st_tags st) [] None (st_closing st) (st_qclosed st)
                             (st_removed st) true (st_cgate st) (st_accepted st) (st_taken st) (st_written st), None)
              else (st, None)
      end
  end.

Definition send_ok (st : stream) : stream :=
  match st_inflight st with
  | None => st
  | Some m => mkStream (st_peer st) (st_cap st) (st_tags st) (st_queue st) None (st_closing st) (st_qclosed st)
                       (st_removed st) (st_wdone st) (st_cgate st) (st_accepted st) (st_taken st) (st_written st ++ [m])
  end.

(* MsgSend returned an error: streamClose() (closed.Swap) and the loop returns *)
Definition send_fail (st : stream) : stream :=
  match st_inflight st with
  | None => st
  | Some m => mkStream (st_peer st) (st_cap st) (st_tags st) (st_queue st) None true (st_qclosed st)
                       (st_removed st) true (st_cgate st) (st_accepted st) (st_taken st) (st_written st)
  end.

Definition read_err (st : stream) : stream :=
  mkStream (st_peer st) (st_cap st) (st_tags st) (st_queue st) (st_inflight st) true (st_qclosed st)
           (st_removed st) (st_wdone st) (st_cgate st) (st_accepted st) (st_taken st) (st_written st).

Definition close_queue (st : stream) : stream :=
  if st_closing st && negb (st_qclosed st)
  then mkStream (st_peer st) (st_cap st) (st_tags st) (st_queue st) (st_inflight st) true true
                (st_removed st) (st_wdone st) (st_cgate st) (st_accepted st) (st_taken st) (st_written st)
  else st.

Definition mark_removed (st : stream) : stream :=
  mkStream (st_peer st) (st_cap st) (st_tags st) (st_queue st) (st_inflight st) (st_closing st) (st_qclosed st)
           true (st_wdone st) (st_cgate st) (st_accepted st) (st_taken st) (st_written st).

Fixpoint remove_all_N (x : N) (l : list N) : list N :=
  match l with [] => [] | y :: r => if x =? y then remove_all_N x r else y :: remove_all_N x r end.

(* pool.removeStream, under pool.mu; enabled once per stream, after queue.Close / stream.Close *)
Definition remove_stream (s : state) (sid : N) : state :=
  match hget sid (objs s) with
  | None => s
  | Some st =>
      if st_qclosed st && negb (st_removed st) then
        if negb (memN sid (pool_ids s)) then set_fatal s else      (* "removeStream: stream does not exist" *)
        match idx_remove (by_peer s) (st_peer st) sid with
        | None => set_fatal s
        | Some bp =>
            match idx_remove_all (by_tag s) (st_tags st) sid with
            | None => set_fatal s
            | Some bt =>
                mkState (cfg s) (hset sid (mark_removed st) (objs s)) (remove_all_N sid (pool_ids s)) bp bt
                        (last_id s) (callers s) (dialq s) (running s) (fatal s) (panicked s)
            end
        end
      else s
  end.

(* Streams(tags...) *)
Definition streams_of (s : state) (tags : list N) : list N := flat_map (fun t => mget t (by_tag s)) tags.

(* ------------------------------------------------------------------ dial pool (Send) *)
(* Send = dial.TryAdd(job): bounded, non-blocking *)
Definition send_enqueue (s : state) (cid msg : N) (peers : list N) : state * out :=
  if (0 <? dial_cap (cfg s)) && (dial_cap (cfg s) <=? N.of_nat (length (dialq s))) then (s, OErr 3)   (* size <= 0: unlimited *)
  else (upd_dial s (dialq s ++ [(cid, msg, peers)]) (running s), OErr 0).

(* a free worker's WaitOne returns the oldest job; it becomes the pending program of caller [cid] *)
Definition dial_take (s : state) : state :=
  if running s <? dial_workers (cfg s) then
    match dialq s with
    | [] => s
    | (cid, msg, peers) :: q =>
        upd_callers (upd_dial s q (running s + 1)) (cset cid (mkPending msg MFirstGroup [] peers) (callers s))
    end
  else s.

(* the worker handles the next peer of its job (sendOne -> getStreams), enabled when the writes for the
   previous peer are finished.  [opn]: what handler.OpenStream does if the peer has no stream:
   None = error, Some (cap, tags, cgate) = a new stream that is added to the pool (AddStream). *)
Definition dial_peer (s : state) (cid : N) (opn : option (N * list N * bool)) : state * out :=
  match cget cid (callers s) with
  | None => (s, ONone)
  | Some p =>
      match next_target (p_groups p), p_peers p with
      | Some _, _ => (s, ONone)
      | None, [] => (s, ONone)
      | None, peer :: rest =>
          match mget peer (by_peer s) with
          | [] =>
              match opn with
              | None => (upd_callers s (cset cid (mkPending (p_msg p) MFirstGroup [] rest) (callers s)), OErr 4)
              | Some (cap, tags, cg) =>
                  let '(s1, sid) := add_stream s peer cap tags cg in
                  (start_caller s1 cid (p_msg p) MFirstGroup [[sid]] rest, ONew sid)
              end
          | g => (start_caller s cid (p_msg p) MFirstGroup [g] rest, OErr 0)
          end
      end
  end.

(* the worker's job function returns: the worker is free again *)
Definition dial_done (s : state) (cid : N) : state :=
  match cget cid (callers s) with
  | None => s
  | Some p =>
      match next_target (p_groups p), p_peers p, p_mode p with
      | None, [], MFirstGroup =>
          if 0 <? running s then upd_callers (upd_dial s (dialq s) (running s - 1)) (cdel cid (callers s)) else s
      | _, _, _ => s
      end
  end.

(* ------------------------------------------------------------------ labels and the step function *)
Inductive label :=
| LAddStream (peer cap : N) (tags : list N) (cgate : bool)
| LBroadcast (cid msg : N) (tags : list N)
| LSendById (cid msg : N) (peers : list N)
| LWrite (cid : N)
| LAddTags (sid : N) (tags : list N)
| LRemoveTags (sid : N) (tags : list N) (byid : bool)
| LStreams (tags : list N)
| LTake (sid : N)
| LSendOk (sid : N)
| LSendFail (sid : N)
| LReadErr (sid : N)
| LCloseQueue (sid : N)
| LRemove (sid : N)
| LSend (cid msg : N) (peers : list N)
| LDialTake
| LDialPeer (cid : N) (opn : option (N * list N * bool))
| LDialDone (cid : N).

Definition step_out (s : state) (l : label) : state * out :=
  if fatal s || panicked s then (s, ONone) else
  match l with
  | LAddStream p c t g => let '(s', sid) := add_stream s p c t g in (s', ONew sid)
  | LBroadcast cid m tags => (start_caller s cid m MAll [bcast_targets s tags] [], OErr 0)
  | LSendById cid m peers =>
      let gs := peer_groups (by_peer s) peers in
      (start_caller s cid m MFirstTotal gs [], OErr (match gs with [] => 1 | _ => 0 end))
  | LWrite cid => do_write s cid
  | LAddTags sid tags => add_tags s sid tags
  | LRemoveTags sid tags byid => remove_tags s sid tags byid
  | LStreams tags =>
      let ids := streams_of s tags in
      if all_in_pool s ids then (s, OIds ids) else (set_panicked s, ONone)
  | LTake sid =>
      match hget sid (objs s) with
      | None => (s, ONone)
      | Some st => let '(st', o) := take st in
                   (upd_objs s (hset sid st' (objs s)), match o with Some m => OTake sid m | None => ONone end)
      end
  | LSendOk sid => (upd_stream s sid send_ok, ONone)
  | LSendFail sid => (upd_stream s sid send_fail, ONone)
  | LReadErr sid => (upd_stream s sid read_err, ONone)
  | LCloseQueue sid => (upd_stream s sid close_queue, ONone)
  | LRemove sid => (remove_stream s sid, ONone)
  | LSend cid m peers => send_enqueue s cid m peers
  | LDialTake => (dial_take s, ONone)
  | LDialPeer cid opn => dial_peer s cid opn
  | LDialDone cid => (dial_done s cid, ONone)
  end.

Definition step (s : state) (l : label) : state := fst (step_out s l).

Definition run (s : state) (tr : list label) : state := fold_left step tr s.

Definition reachable (c : config) (s : state) : Prop := exists tr, s = run (init c) tr.

(* ------------------------------------------------------------------ structure of the labels: who executes them,
   which locks the atomic section takes, and whether taking the label needs a stream / peer / dial to respond *)
Inductive lock := PoolMu | QueueMu | DialMu.

Definition label_locks (l : label) : list lock :=
  match l with
  | LAddStream _ _ _ _ | LBroadcast _ _ _ | LSendById _ _ _ | LAddTags _ _ | LRemoveTags _ _ _ | LStreams _
  | LRemove _ | LDialPeer _ _ => [PoolMu]
  | LWrite _ | LTake _ | LCloseQueue _ => [QueueMu]
  | LSend _ _ _ | LDialTake => [DialMu]
  | LSendOk _ | LSendFail _ | LReadErr _ | LDialDone _ => []
  end.

(* labels that are the RETURN of a call into the environment (drpc stream, dialer): these may never be taken *)
Definition env_label (l : label) : bool :=
  match l with
  | LSendOk _ | LSendFail _ | LReadErr _ | LDialPeer _ _ => true
  | _ => false
  end.

(* labels executed by the thread that called Send / SendById / Broadcast / AddTagsCtx / RemoveTagsCtx /
   RemoveTagsById / Streams / AddStream; [LWrite cid] belongs to caller [cid] *)
Definition caller_label (l : label) : bool :=
  match l with
  | LAddStream _ _ _ _ | LBroadcast _ _ _ | LSendById _ _ _ | LWrite _ | LAddTags _ _ | LRemoveTags _ _ _
  | LStreams _ | LSend _ _ _ => true
  | _ => false
  end.

(* ================================================================== harness-level histories ==========
   The correspondence harness drives the real pool from ONE caller goroutine; every fake drpc stream parks
   each MsgSend on a gate (so a stream has at most one message in flight and the harness decides when and
   how that MsgSend returns), and before the next operation the harness waits until every idle writer is
   parked in WaitOne again (quiescence).  One harness operation therefore corresponds to a fixed list of
   labels — [expand] — in which every caller write is followed by the (possible) hand-over to a parked
   writer.  The message of the i-th operation is the number i. *)
Inductive hop :=
| HAddStream (peer cap : N) (tags : list N) (cgate : bool)
| HBroadcast (tags : list N)
| HSendById (peers : list N)
| HAddTags (sid : N) (tags : list N)
| HRemoveTags (sid : N) (tags : list N) (byid : bool)
| HStreams (tags : list N)
| HRelease (sid : N) (ok : bool)           (* the parked MsgSend of stream sid returns nil / an error *)
| HReadErr (sid : N)                       (* the stream's MsgRecv returns an error *)
| HCloseRelease (sid : N)                  (* the parked Close() of a close-gated stream returns *)
| HSend (peers : list (N * option (N * list N * bool)))   (* Send; per peer what OpenStream would do *)
| HSendStuck (peer : N).                   (* Send to a peer without stream whose OpenStream never returns *)

Definition all_ids (s : state) (extra : nat) : list N :=
  map N.of_nat (seq 1 (N.to_nat (last_id s) + extra)).

Definition writes_takes (cid : N) (ids : list N) (n : nat) : list label :=
  flat_map (fun _ => LWrite cid :: map LTake ids) (seq 0 n).

Definition cgated (s : state) (sid : N) : bool :=
  match hget sid (objs s) with Some st => st_cgate st | None => false end.

Definition expand (s : state) (i : N) (op : hop) : list label :=
  match op with
  | HAddStream p c t g => [LAddStream p c t g]
  | HBroadcast tags =>
      LBroadcast 0 i tags :: writes_takes 0 (all_ids s 0) (length (bcast_targets s tags))
  | HSendById peers =>
      LSendById 0 i peers :: writes_takes 0 (all_ids s 0) (length (concat (peer_groups (by_peer s) peers)))
  | HAddTags sid tags => [LAddTags sid tags]
  | HRemoveTags sid tags byid => [LRemoveTags sid tags byid]
  | HStreams tags => [LStreams tags]
  | HRelease sid true => [LSendOk sid; LTake sid]
  | HRelease sid false => LSendFail sid :: LCloseQueue sid :: (if cgated s sid then [] else [LRemove sid])
  | HReadErr sid => LReadErr sid :: LCloseQueue sid :: LTake sid :: (if cgated s sid then [] else [LRemove sid])
  | HCloseRelease sid => [LRemove sid]
  | HSend peers =>
      let ids := all_ids s (length peers) in
      LSend (i + 1) i (map fst peers) :: LDialTake ::
      flat_map (fun po => LDialPeer (i + 1) (snd po) :: writes_takes (i + 1) ids (S (length (objs s)))) peers
      ++ [LDialDone (i + 1)]
  | HSendStuck peer => [LSend (i + 1) i [peer]; LDialTake]
  end.

(* ---- projected observables ---- *)
Fixpoint insN (x : N) (l : list N) : list N :=
  match l with [] => [x] | y :: r => if x <=? y then x :: l else y :: insN x r end.
Definition sortN (l : list N) : list N := fold_right insN [] l.

Fixpoint insK {A} (x : N * A) (l : list (N * A)) : list (N * A) :=
  match l with [] => [x] | y :: r => if fst x <=? fst y then x :: l else y :: insK x r end.
Definition sortK {A} (l : list (N * A)) : list (N * A) := fold_right insK [] l.

Definition canon_imap (m : imap) : imap := sortK (map (fun kv => (fst kv, sortN (snd kv))) m).

Record sview := mkSview { sv_peer : N; sv_tags : list N; sv_qlen : N; sv_cap : N }.

Record snap := mkSnap {
  sn_streams : list (N * sview);   (* pool.streams: id -> (peer, tags as a sorted multiset, buffered, size) *)
  sn_by_peer : imap;
  sn_by_tag  : imap
}.

Definition view_of (st : stream) : sview :=
  mkSview (st_peer st) (sortN (st_tags st)) (N.of_nat (length (st_queue st))) (st_cap st).

Definition snapshot (s : state) : snap :=
  mkSnap (flat_map (fun sid => match hget sid (objs s) with Some st => [(sid, view_of st)] | None => [] end)
                   (sortN (pool_ids s)))
         (canon_imap (by_peer s)) (canon_imap (by_tag s)).

(* ---- MsgSend events -------------------------------------------------------------------------------
   (stream, (message, true = MsgSend entered / false = MsgSend returned)).  The fake drpc streams of the harness
   log both under the stream's own mutex; the model produces them from the labels: WaitOne handing a message to the
   write loop is immediately followed by the MsgSend call ([LTake] with a message = entry), [LSendOk] / [LSendFail]
   of a stream with a message in flight = return. *)
Definition ev := (N * (N * bool))%type.

Definition infl (s : state) (sid : N) : option N :=
  match hget sid (objs s) with Some st => st_inflight st | None => None end.

Definition label_events (s : state) (l : label) : list ev :=
  if fatal s || panicked s then [] else
  match l with
  | LTake sid => match hget sid (objs s) with
                 | Some st => match snd (take st) with Some m => [(sid, (m, true))] | None => [] end
                 | None => []
                 end
  | LSendOk sid | LSendFail sid => match infl s sid with Some m => [(sid, (m, false))] | None => [] end
  | _ => []
  end.

Fixpoint run_events (s : state) (ls : list label) : list ev :=
  match ls with
  | [] => []
  | l :: r => label_events s l ++ run_events (step s l) r
  end.

(* the entries among the events: (stream, message) *)
Definition entries (evs : list ev) : list (N * N) :=
  flat_map (fun e : ev => if snd (snd e) then [(fst e, fst (snd e))] else []) evs.

Record obs := mkObs {
  o_err     : N;                     (* error class of the call (0 = nil) *)
  o_ids     : list N;                (* Streams(): sorted ids; AddStream: the new id *)
  o_takes   : list (N * N);          (* (stream, message) for every MsgSend entered during the operation *)
  o_events  : list ev;               (* MsgSend ENTRY and RETURN events of the operation, per stream in the order they
                                        happened (grouped by stream id: the order across streams is the scheduler's) *)
  o_closed  : list N;                (* streams whose drpc Close() was called during the operation *)
  o_removed : list (N * list N);     (* close-hook notifications: (stream, sorted tags) *)
  o_snap    : snap;                  (* indexes and queue lengths after the operation (verif hook) *)
  o_timely  : bool                   (* the call returned normally within the latency guard *)
}.

Definition flag_diff (f : stream -> bool) (a b : state) (ids : list N) : list N :=
  filter (fun sid =>
    match hget sid (objs b) with
    | Some y => f y && negb (match hget sid (objs a) with Some x => f x | None => false end)
    | None => false
    end) ids.

Definition run_op (s : state) (i : N) (op : hop) : state * obs :=
  let ls := expand s i op in
  let s' := run s ls in
  let o := match ls with l :: _ => snd (step_out s l) | [] => ONone end in
  let ids := all_ids s' 0 in
  let evs := sortK (run_events s ls) in        (* stable: per stream the order of the labels *)
  (s', mkObs (match o with OErr c => c | _ => 0 end)
             (match o with OIds l => sortN l | ONew sid => [sid] | _ => [] end)
             (entries evs)
             evs
             (flag_diff st_qclosed s s' ids)
             (map (fun sid => (sid, match hget sid (objs s') with Some st => sortN (st_tags st) | None => [] end))
                  (flag_diff st_removed s s' ids))
             (snapshot s')
             (negb (fatal s' || panicked s'))).

Fixpoint run_hist (s : state) (i : N) (ops : list hop) : list obs :=
  match ops with
  | [] => []
  | op :: r => let '(s', o) := run_op s i op in o :: run_hist s' (N.succ i) r
  end.

Definition model_hist (c : config) (ops : list hop) : list obs := run_hist (init c) 0 ops.

(* ================================================================== the property over OBSERVED histories *)
Fixpoint countN (x : N) (l : list N) : nat :=
  match l with [] => 0%nat | y :: r => if x =? y then S (countN x r) else countN x r end.

Fixpoint vget (sid : N) (l : list (N * sview)) : option sview :=
  match l with [] => None | (k, v) :: r => if sid =? k then Some v else vget sid r end.

(* never more than the configured size buffered *)
Definition snap_bounded (sn : snap) : bool :=
  forallb (fun kv => sv_qlen (snd kv) <=? sv_cap (snd kv)) (sn_streams sn).

(* streamIdsByPeer / streamIdsByTag and streams[.].tags describe each other *)
Definition snap_consistent (sn : snap) : bool :=
  forallb (fun kv => forallb (fun sid =>
             match vget sid (sn_streams sn) with
             | Some v => (sv_peer v =? fst kv) && Nat.eqb (countN sid (snd kv)) 1
             | None => false end) (snd kv)) (sn_by_peer sn)
  && forallb (fun kv => forallb (fun sid =>
             match vget sid (sn_streams sn) with
             | Some v => Nat.eqb (countN sid (snd kv)) (countN (fst kv) (sv_tags v))
             | None => false end) (snd kv)) (sn_by_tag sn)
  && forallb (fun kv =>
             Nat.eqb (countN (fst kv) (mget (sv_peer (snd kv)) (sn_by_peer sn))) 1
             && forallb (fun t => Nat.eqb (countN (fst kv) (mget t (sn_by_tag sn))) (countN t (sv_tags (snd kv))))
                        (sv_tags (snd kv))) (sn_streams sn).

Definition snap_mentions (sn : snap) (sid : N) : bool :=
  existsb (fun kv => fst kv =? sid) (sn_streams sn)
  || existsb (fun kv => memN sid (snd kv)) (sn_by_peer sn)
  || existsb (fun kv => memN sid (snd kv)) (sn_by_tag sn).

(* state of the observer: last message seen by each stream, streams whose Close() was seen,
   removed streams with the index of the operation during which the removal was seen *)
Record ost := mkOst { os_last : list (N * N); os_closed : list N; os_removed : list (N * N) }.

Fixpoint aget (k : N) (l : list (N * N)) : option N :=
  match l with [] => None | (k', v) :: r => if k =? k' then Some v else aget k r end.

Definition obs_ok (st : ost) (i : N) (o : obs) : bool :=
  o_timely o
  && snap_bounded (o_snap o)
  && snap_consistent (o_snap o)
  (* FIFO: a stream sees messages in the order they were issued, none from the future *)
  && forallb (fun sm => (snd sm <=? i)
                        && match aget (fst sm) (os_last st) with Some m0 => m0 <=? snd sm | None => true end
                        (* no send issued after the removal reaches a removed stream *)
                        && match aget (fst sm) (os_removed st) with Some r => snd sm <=? r | None => true end)
             (o_takes o)
  (* Close() once, removal once *)
  && forallb (fun sid => negb (memN sid (os_closed st))) (o_closed o)
  && forallb (fun st' => match aget (fst st') (os_removed st) with None => true | Some _ => false end) (o_removed o)
  (* after a stream ended nothing mentions it *)
  && forallb (fun rm => negb (snap_mentions (o_snap o) (fst rm)) && negb (memN (fst rm) (o_ids o)))
             (os_removed st)
  && forallb (fun rm => negb (snap_mentions (o_snap o) (fst rm))) (o_removed o).

Definition obs_next (st : ost) (i : N) (o : obs) : ost :=
  mkOst (o_takes o ++ os_last st) (o_closed o ++ os_closed st)
        (map (fun rm => (fst rm, i)) (o_removed o) ++ os_removed st).

Fixpoint spec_from (st : ost) (i : N) (l : list obs) : bool :=
  match l with
  | [] => true
  | o :: r => obs_ok st i o && spec_from (obs_next st i o) (N.succ i) r
  end.

(* ---- one writer per stream: over the MsgSend entry / return log of ONE stream, an entry never happens while
   another MsgSend of that stream has not returned, and a return belongs to the message that is in flight.  (So the
   order in which messages of a stream reach the wire is the order of the entries, which [obs_ok] requires to be the
   order of acceptance; with two MsgSend calls in flight on one stream the wire order is the peer's / scheduler's
   choice.)  [alt_run cur l] = the message in flight after the log [l], None = the log violates the rule. *)
Fixpoint alt_run (cur : option N) (l : list (N * bool)) : option (option N) :=
  match l with
  | [] => Some cur
  | (m, true) :: r => match cur with None => alt_run (Some m) r | Some _ => None end
  | (m, false) :: r => match cur with
                       | Some m0 => if m0 =? m then alt_run None r else None
                       | None => None
                       end
  end.

Definition events_of (sid : N) (evs : list ev) : list (N * bool) :=
  map snd (filter (fun e : ev => fst e =? sid) evs).

Definition stream_events_ok (evs : list ev) (sid : N) : bool :=
  match alt_run None (events_of sid evs) with Some _ => true | None => false end.

Fixpoint pairs_eqb (a b : list (N * N)) : bool :=
  match a, b with
  | [], [] => true
  | x :: a', y :: b' => (fst x =? fst y) && (snd x =? snd y) && pairs_eqb a' b'
  | _, _ => false
  end.

(* the FIFO clause of [obs_ok] speaks about [o_takes]: these must be exactly the entries of the event log *)
Definition spec_events (observed : list obs) : bool :=
  forallb (fun o => pairs_eqb (entries (o_events o)) (o_takes o)) observed
  && (let evs := flat_map o_events observed in forallb (stream_events_ok evs) (map fst evs)).

(* [ops] are the inputs; the predicate only reads the observations (operation i carries message i) *)
Definition spec_C19 (ops : list hop) (observed : list obs) : bool :=
  Nat.eqb (length ops) (length observed) && spec_from (mkOst [] [] []) 0 observed && spec_events observed.

(* the part of [obs_ok] that looks at one observation only *)
Definition obs_static_ok (o : obs) : bool :=
  o_timely o && snap_bounded (o_snap o).

(* ================================================================== util/multiqueue (commonspace/sync receive queues)
   One bounded mb queue and one handler loop per thread id; Add = TryAdd.  A thread's queue object is the
   [stream] record again ([st_peer] = thread id; "MsgSend" = the handler call).  Harness-level operations only
   (the handler of every message parks on a gate; [MqRelease tid m] lets the handler of message m return);
   the message of the i-th operation is i. *)
Record mqstate := mkMq {
  mq_cap     : N;
  mq_closed  : bool;
  mq_threads : list (N * N);     (* thread id -> queue object id *)
  mq_objs    : heap;
  mq_next    : N
}.

Inductive mqop := MqAdd (tid : N) | MqRelease (tid m : N) | MqCloseThread (tid : N) | MqClose.

Definition mq_init (cap : N) : mqstate := mkMq cap false [] [] 0.

Fixpoint tdel (k : N) (l : list (N * N)) : list (N * N) :=
  match l with [] => [] | (k', v) :: r => if k =? k' then tdel k r else (k', v) :: tdel k r end.

Definition force_close (st : stream) : stream := close_queue (read_err st).

Definition mq_upd (s : mqstate) (h : heap) : mqstate := mkMq (mq_cap s) (mq_closed s) (mq_threads s) h (mq_next s).

(* Add: the thread is started on first use *)
Definition mq_ensure (s : mqstate) (tid : N) : mqstate * N :=
  match aget tid (mq_threads s) with
  | Some oid => (s, oid)
  | None =>
      let oid := mq_next s + 1 in
      (mkMq (mq_cap s) (mq_closed s) ((tid, oid) :: mq_threads s)
            (hset oid (mkStream tid (mq_cap s) [] [] None false false false false false [] [] []) (mq_objs s)) oid, oid)
  end.

(* q.TryAdd(msg), followed by the hand-over to the thread loop if its handler is idle *)
Definition mq_add_at (s1 : mqstate) (oid tid i : N) : mqstate * N * list (N * N) :=
  match hget oid (mq_objs s1) with
  | None => (s1, 4, [])
  | Some st =>
      let '(st1, r) := write_stream st i in
      match r with
      | WOk => let '(st2, o) := take st1 in
               (mq_upd s1 (hset oid st2 (mq_objs s1)), 0, match o with Some m => [(tid, m)] | None => [] end)
      | WOverflow => (s1, 3, [])
      | WClosed => (s1, 4, [])
      end
  end.

(* returns the new state, the error class (0 nil, 3 overflow, 5 multiqueue.ErrClosed, 6 ErrThreadNotExists)
   and the handler entries (thread, message) *)
Definition mq_step (s : mqstate) (i : N) (op : mqop) : mqstate * N * list (N * N) :=
  match op with
  | MqAdd tid =>
      if mq_closed s then (s, 5, []) else
      mq_add_at (fst (mq_ensure s tid)) (snd (mq_ensure s tid)) tid i
  | MqRelease tid m =>
      match find (fun kv => (st_peer (snd kv) =? tid) && match st_inflight (snd kv) with Some x => x =? m | None => false end)
                 (mq_objs s) with
      | None => (s, 0, [])
      | Some (oid, st) =>
          let '(st2, o) := take (send_ok st) in
          (mq_upd s (hset oid st2 (mq_objs s)), 0, match o with Some x => [(tid, x)] | None => [] end)
      end
  | MqCloseThread tid =>
      if mq_closed s then (s, 5, []) else
      match aget tid (mq_threads s) with
      | None => (s, 6, [])
      | Some oid =>
          match hget oid (mq_objs s) with
          | None => (s, 4, [])
          | Some st =>
              (mkMq (mq_cap s) (mq_closed s) (tdel tid (mq_threads s))
                    (hset oid (fst (take (force_close st))) (mq_objs s)) (mq_next s), 0, [])
          end
      end
  | MqClose =>
      if mq_closed s then (s, 5, []) else
      (mkMq (mq_cap s) true (mq_threads s)
            (map (fun kv => (fst kv, fst (take (force_close (snd kv))))) (mq_objs s)) (mq_next s), 0, [])
  end.

Record mqobs := mkMqObs { mo_err : N; mo_takes : list (N * N); mo_threads : list N }.

Fixpoint mq_hist (s : mqstate) (i : N) (ops : list mqop) : list mqobs :=
  match ops with
  | [] => []
  | op :: r =>
      let '(s', e, tk) := mq_step s i op in
      mkMqObs e tk (sortN (map fst (mq_threads s'))) :: mq_hist s' (N.succ i) r
  end.

(* per thread id the handler sees messages in the order they were issued, none from the future
   (thread ids are not re-created after CloseThread in the generated histories) *)
Fixpoint spec_mq_from (lastm : list (N * N)) (i : N) (l : list mqobs) : bool :=
  match l with
  | [] => true
  | o :: r =>
      forallb (fun tm => (snd tm <=? i) && match aget (fst tm) lastm with Some m0 => m0 <=? snd tm | None => true end)
              (mo_takes o)
      && negb (mo_err o =? 9)
      && spec_mq_from (mo_takes o ++ lastm) (N.succ i) r
  end.

Definition spec_C19_mq (observed : list mqobs) : bool := spec_mq_from [] 0 observed.
